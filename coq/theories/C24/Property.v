(** C24 — interleaved address conversion is consistent and order-preserving.
    Property theorems only.  Throughout: s = interleaving size, n = number of
    elements, i = element index, off = offset, x = external address.
    [wf s n] is the no-overflow side condition: 1 <= s, 1 <= n < 2^63 (n is a
    positive Go int) and s * n < 2^64.  Addresses are 64-bit values (x < 2^64).
    [convert s n i off x] is InterleavingConverter{s,n,i,off}.ConvertExternalToInternal(x)
    as repaired by the fix commit; [convert_address false off s n i x] is
    mem.ConvertAddress("interleaving", off, s, n, i, x). *)
From Akita Require Import Lib.Base C24.Model C24.Proofs C24.ProofsLink C24.Exec.
Local Open Scope N_scope.

(** The two exported conversion functions compute the same thing, and an empty
    kind is the identity. *)
Theorem c24_entry_points_agree : forall s n i off x,
  convert_address false off s n i x = convert s n i off x /\
  convert_address true off s n i x = Ok x.
Proof. intros. split; [apply convert_address_agrees|apply convert_address_identity]. Qed.
Print Assumptions c24_entry_points_agree.

(** On the external addresses owned by element i the conversion succeeds, is
    strictly increasing (hence one-to-one), maps stripe k of element i, i.e. the
    externals off + (k*n + i)*s + [0, s), exactly onto [k*s, (k+1)*s) with
    conv (base + j) = k*s + j, every owned address lies in such a stripe, and
    [to_external] is the two-sided inverse (so every internal address whose
    preimage is representable is hit). *)
Theorem c24_owned_bijection_ordered : forall s n i off, wf s n -> i < n ->
  let conv := convert s (Z.of_N n) (Z.of_N i) off in
  (* succeeds on owned addresses, with the specification value *)
  (forall x, x < two64 -> owned s n i off x -> conv x = Ok (internal_of s n off x)) /\
  (* strictly monotone *)
  (forall x y, y < two64 -> owned s n i off x -> owned s n i off y -> x < y ->
     exists u v, conv x = Ok u /\ conv y = Ok v /\ u < v) /\
  (* one-to-one *)
  (forall x y v, x < two64 -> y < two64 -> conv x = Ok v -> conv y = Ok v -> x = y) /\
  (* a stripe maps contiguously onto [k*s, (k+1)*s) *)
  (forall k j, j < s -> stripe_base s n i off k + j < two64 ->
     owned s n i off (stripe_base s n i off k + j) /\
     conv (stripe_base s n i off k + j) = Ok (k * s + j)) /\
  (* every owned address is in a stripe of element i *)
  (forall x, owned s n i off x ->
     exists k j, j < s /\ x = stripe_base s n i off k + j) /\
  (* inverse: onto, and both round trips *)
  (forall y, to_external s n i off y < two64 ->
     owned s n i off (to_external s n i off y) /\ conv (to_external s n i off y) = Ok y) /\
  (forall x v, x < two64 -> conv x = Ok v -> to_external s n i off v = x).
Proof.
  intros s n i off Hwf Hi conv.
  pose proof (wf_s _ _ Hwf) as Hs. pose proof (wf_n _ _ Hwf) as Hn.
  assert (Hacc : forall x, x < two64 -> owned s n i off x -> conv x = Ok (internal_of s n off x))
    by (intros x Hx Ho; apply convert_owned; assumption).
  assert (Hinv : forall x v, x < two64 -> conv x = Ok v ->
                 owned s n i off x /\ v = internal_of s n off x).
  { intros x v Hx Hv.
    assert (Ho : owned s n i off x) by (apply (convert_ok_iff s n i off x Hwf Hx); eauto).
    split; [exact Ho|]. unfold conv in Hv. rewrite (convert_owned s n i off x Hwf Hx Ho) in Hv.
    injection Hv as Hv. auto. }
  split; [|split; [|split; [|split; [|split; [|split]]]]].
  - exact Hacc.
  - intros x y Hy Hox Hoy Hlt. assert (Hx : x < two64) by (eapply N.lt_trans; eauto).
    exists (internal_of s n off x), (internal_of s n off y).
    split; [apply Hacc; assumption|]. split; [apply Hacc; assumption|].
    eapply internal_monotone; eauto.
  - intros x y v Hx Hy Hcx Hcy.
    destruct (Hinv x v Hx Hcx) as [Hox Ex]. destruct (Hinv y v Hy Hcy) as [Hoy Ey].
    apply (internal_injective s n i off x y Hs Hn Hox Hoy). rewrite <- Ex, <- Ey. reflexivity.
  - intros k j Hj Hfit.
    destruct (stripe_decomp s n i off k j Hi Hj) as [Ho [_ [_ Hint]]].
    split; [exact Ho|]. rewrite <- Hint. apply Hacc; assumption.
  - intros x Ho. destruct (owned_in_stripe s n i off x Hs Hn Ho) as [Ex [Hj _]].
    exists (stripe_of s n off x), (pos_of s off x). split; assumption.
  - intros y Hfit. destruct (internal_to_external s n i off y Hs Hi) as [Ho Hint].
    split; [exact Ho|]. rewrite <- Hint at 2. apply Hacc; assumption.
  - intros x v Hx Hv. destruct (Hinv x v Hx Hv) as [Ho ->].
    apply to_external_internal; assumption.
Qed.
Print Assumptions c24_owned_bijection_ordered.

(** Addresses below the offset and addresses owned by another element are
    rejected (panic), for every Go-int index i, including indices outside
    [0, n); the converter accepts exactly the owned addresses. *)
Theorem c24_reject_foreign : forall s n (i : Z) off x, wf s n -> x < two64 ->
  (x < off \/ Z.of_N (element_of s n off x) <> i) ->
  convert s (Z.of_N n) i off x = Panic /\ convert_address false off s (Z.of_N n) i x = Panic.
Proof. intros s n i off x Hwf Hx H. split; apply convert_foreign; assumption. Qed.
Print Assumptions c24_reject_foreign.

Theorem c24_accepts_iff_owned : forall s n i off x, wf s n -> x < two64 ->
  ((exists v, convert s (Z.of_N n) (Z.of_N i) off x = Ok v) <-> owned s n i off x).
Proof. exact convert_ok_iff. Qed.
Print Assumptions c24_accepts_iff_owned.

(** Outside the side conditions: a zero size or a zero element count always
    panics (integer division by zero). *)
Theorem c24_degenerate_config_panics : forall s n i off x,
  s = 0 \/ n = 0%Z -> convert s n i off x = Panic.
Proof.
  intros s n i off x [->| ->]; unfold convert; [apply interleave_size0|apply interleave_count0].
Qed.
Print Assumptions c24_degenerate_config_panics.

(** ... and when s * n wraps around 2^64 the statement is false of the code:
    with s = 2^33, n = 2^31 + 1 the round size wraps to 2^33, element 0 accepts
    address 2^33 (which belongs to element 1) and element 1 rejects it. *)
Theorem c24_round_overflow_refuted :
  let s := 2 ^ 33 in let n := (2 ^ 31 + 1)%Z in
  two64 <= s * Z.to_N n /\
  element_of s (Z.to_N n) 0 s = 1 /\
  convert s n 0 0 s = Ok s /\ convert s n 1 0 s = Panic.
Proof. vm_compute. repeat split; try reflexivity; discriminate. Qed.
Print Assumptions c24_round_overflow_refuted.

(** The interleaved port mapper (same size, n low modules, no limitation or the
    address inside [lo, hi)) picks index i exactly for the addresses at or above
    the offset that the converter of element i accepts — provided n = 1 or the
    offset is a multiple of s * n. *)
Theorem c24_mapper_agrees : forall s n i off lim lo hi x, wf s n -> i < n ->
  (n = 1 \/ off mod (s * n) = 0) ->
  off <= x -> x < two64 -> (lim = false \/ (lo <= x /\ x < hi)) ->
  (find lim lo hi s n x = MIdx i <->
   exists v, convert s (Z.of_N n) (Z.of_N i) off x = Ok v).
Proof.
  intros s n i off lim lo hi x Hwf Hi Hc Hoff Hx Hl.
  rewrite (find_eval lim lo hi s n x (wf_s _ _ Hwf) (wf_n _ _ Hwf) Hl).
  rewrite (mapper_aligned s n off x (wf_s _ _ Hwf) (wf_n _ _ Hwf) Hc Hoff).
  rewrite (convert_ok_iff s n i off x Hwf Hx). unfold owned, element_of.
  split; [intro H; injection H as H; split; assumption|intros [_ H]; rewrite H; reflexivity].
Qed.
Print Assumptions c24_mapper_agrees.

(** That condition is exact: as long as one stripe above the offset is
    representable, mapper and converters agree on all addresses if and only if
    n = 1 or the offset is a multiple of s * n. *)
Theorem c24_mapper_agrees_iff : forall s n off, wf s n -> off + s < two64 ->
  (pair_agrees s n off <-> (n = 1 \/ off mod (s * n) = 0)).
Proof.
  intros s n off Hwf Hroom. split.
  - apply pair_agrees_only_if; assumption.
  - apply pair_agrees_if; assumption.
Qed.
Print Assumptions c24_mapper_agrees_iff.

(** With an offset that is only a multiple of the size the mapper names the
    owning element rotated by offset / size. *)
Theorem c24_mapper_rotation : forall s n off lim lo hi x, 1 <= s -> 1 <= n ->
  off mod s = 0 -> off <= x -> (lim = false \/ (lo <= x /\ x < hi)) ->
  find lim lo hi s n x = MIdx ((element_of s n off x + off / s) mod n).
Proof.
  intros s n off lim lo hi x Hs Hn Ha Hoff Hl.
  rewrite (find_eval lim lo hi s n x Hs Hn Hl). f_equal. apply mapper_rotation; assumption.
Qed.
Print Assumptions c24_mapper_rotation.

(** Outside the limitation the mapper names the module for other addresses. *)
Theorem c24_mapper_other : forall lo hi s n x, (hi <= x \/ x < lo) ->
  find true lo hi s n x = MOther.
Proof. exact find_outside. Qed.
Print Assumptions c24_mapper_other.

(** Witnesses for an offset violating the condition (both replayed against the
    real code by the directed generator): offset 64 = one size, not a multiple
    of 4 * 64 — the mapper sends 64 to module 1, the converter of element 0
    accepts it and that of element 1 rejects it; offset 1 — address 64 goes to
    module 1 but is owned by element 0. *)
Theorem c24_mapper_agrees_refuted :
  (find false 0 0 64 4 64 = MIdx 1 /\ convert 64 4 0 64 64 = Ok 0 /\ convert 64 4 1 64 64 = Panic) /\
  (find false 0 0 64 4 64 = MIdx 1 /\ convert 64 4 0 1 64 = Ok 63 /\ convert 64 4 1 1 64 = Panic) /\
  ~ pair_agrees 64 4 64.
Proof.
  split; [vm_compute; repeat split; reflexivity|].
  split; [vm_compute; repeat split; reflexivity|].
  intro H.
  assert (Hwf : wf 64 4) by (constructor; vm_compute; congruence).
  destruct (pair_agrees_only_if 64 4 64 Hwf ltac:(reflexivity) H) as [E|E]; vm_compute in E; discriminate.
Qed.
Print Assumptions c24_mapper_agrees_refuted.

(** The banked mapper and the bank selector of simplebankedmemory. *)
Theorem c24_banked_find : forall bs len x k,
  banked_find bs len x = MIdx k <-> bs <> 0 /\ k = x / bs /\ k < len.
Proof. exact banked_find_spec. Qed.
Print Assumptions c24_banked_find.

Theorem c24_select_bank_in_range : forall log2 nb addr, log2 < 64 -> 1 <= nb -> nb < two63 ->
  select_bank log2 (Z.of_N nb) addr = Some (Z.of_N (addr / 2 ^ log2 mod nb)) /\
  addr / 2 ^ log2 mod nb < nb.
Proof. exact select_bank_eval. Qed.
Print Assumptions c24_select_bank_in_range.

(** Regression lemma: the conversion before the fix (external mod size) was not
    monotone inside a stripe: size 64, 4 elements, element 1, offset 10 — the
    stripe 74..137 was mapped 127 -> 63, 128 -> 0. *)
Theorem c24_monotone_old_refuted :
  let s := 64 in let n := 4%Z in let i := 1%Z in let off := 10 in
  owned s 4 1 off 127 /\ owned s 4 1 off 128 /\
  stripe_of s 4 off 127 = stripe_of s 4 off 128 /\
  convert_old s n i off 127 = Ok 63 /\ convert_old s n i off 128 = Ok 0 /\
  convert s n i off 127 = Ok 53 /\ convert s n i off 128 = Ok 54.
Proof.
  cbv zeta. unfold owned. vm_compute. repeat split; try reflexivity; discriminate.
Qed.
Print Assumptions c24_monotone_old_refuted.

(** Non-vacuity: a well-formed configuration with an unaligned offset, a stripe
    in the middle of the address space, and the inverse. *)
Example c24_nonvacuous :
  wf 100 3 /\ 1 < 3 /\ owned 100 3 1 7 (stripe_base 100 3 1 7 5 + 42) /\
  stripe_base 100 3 1 7 5 + 42 = 1649 /\
  convert 100 3 1 7 1649 = Ok 542 /\ to_external 100 3 1 7 542 = 1649 /\
  convert 100 3 1 7 1648 = Ok 541 /\ convert 100 3 1 7 1707 = Panic /\
  convert 100 3 0 7 1649 = Panic.
Proof.
  split; [constructor; vm_compute; congruence|]. unfold owned. vm_compute.
  repeat split; try reflexivity; discriminate.
Qed.

Example c24_mapper_nonvacuous :
  wf 64 4 /\ 512 mod (64 * 4) = 0 /\ 512 <= 512 + 64 + 5 /\
  find false 0 0 64 4 (512 + 64 + 5) = MIdx 1 /\ convert 64 4 1 512 (512 + 64 + 5) = Ok 5 /\
  find true 512 1024 64 4 1024 = MOther.
Proof. split; [constructor; vm_compute; congruence|]. vm_compute. repeat split; reflexivity || discriminate. Qed.

(** The predicate evaluated on the implementation's observed outputs
    ([Exec.holds_on]) is implied by agreement with the model, for every case
    whose probed addresses are 64-bit values. *)
Theorem c24_model_agreement_implies_property : forall c, wf_case c ->
  check_case c = true -> holds_on c = true.
Proof. exact check_implies_holds. Qed.
Print Assumptions c24_model_agreement_implies_property.

Example c24_link_nonvacuous :
  let c := mk_case 64 4 1 10 false 0 0 64 4 64 16 true 6 4
             [mk_row 74 (Ok 0) (Ok 0) (Ok 74) (MIdx 1) (MIdx 1) None;
              mk_row 127 (Ok 53) (Ok 53) (Ok 127) (MIdx 1) (MIdx 1) None;
              mk_row 138 Panic Panic (Ok 138) (MIdx 2) (MIdx 2) None] in
  wf_case c /\ check_case c = true /\ holds_on c = true.
Proof.
  cbv zeta. split; [|vm_compute; split; reflexivity].
  intros r Hr. cbn [c_rows In] in Hr.
  destruct Hr as [<-|[<-|[<-|[]]]]; reflexivity.
Qed.
