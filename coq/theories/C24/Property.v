(** C24 — interleaved address conversion.  Property theorems only. *)
From Akita Require Import Lib.Base C24.Model.
Local Open Scope N_scope.
