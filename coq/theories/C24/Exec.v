(** C24 — case evaluators for the correspondence check. *)
From Akita Require Import Lib.Base C24.Model.
Local Open Scope N_scope.

(** One probed address with everything the implementation answered for it. *)
Record row := mk_row {
  r_x : N;
  r_conv : outcome;            (* InterleavingConverter.ConvertExternalToInternal *)
  r_addr : outcome;            (* ConvertAddress("interleaving", ...) *)
  r_ident : outcome;           (* ConvertAddress("", ...) *)
  r_find : mres;               (* InterleavedAddressPortMapper.Find *)
  r_banked : mres;             (* BankedAddressPortMapper.Find *)
  r_bank : option (option Z)   (* bank chosen by the simplebankedmemory dispatch stage
                                  (None: not probed; Some None: panic) *)
}.

Record case := mk_case {
  c_s : N; c_n : Z; c_i : Z; c_off : N;          (* converter configuration *)
  c_lim : bool; c_lo : N; c_hi : N;              (* mapper address-space limitation *)
  c_ms : N; c_mlen : N;                          (* mapper InterleavingSize, len(LowModules) *)
  c_bsize : N; c_blen : N;                       (* banked mapper BankSize, len(LowModules) *)
  c_kind_empty : bool; c_log2 : N; c_nb : Z;     (* simplebankedmemory spec *)
  c_rows : list row }.

Definition outcome_eqb (a b : outcome) : bool :=
  match a, b with
  | Ok x, Ok y => x =? y
  | Panic, Panic => true
  | _, _ => false
  end.

Definition mres_eqb (a b : mres) : bool :=
  match a, b with
  | MIdx x, MIdx y => x =? y
  | MOther, MOther => true
  | MPanic, MPanic => true
  | _, _ => false
  end.

Definition is_ok (o : outcome) : bool := match o with Ok _ => true | Panic => false end.

(** model output = implementation output *)
Definition check_row (c : case) (r : row) : bool :=
  let x := r_x r in
  outcome_eqb (convert (c_s c) (c_n c) (c_i c) (c_off c) x) (r_conv r) &&
  outcome_eqb (convert_address false (c_off c) (c_s c) (c_n c) (c_i c) x) (r_addr r) &&
  outcome_eqb (convert_address true (c_off c) (c_s c) (c_n c) (c_i c) x) (r_ident r) &&
  mres_eqb (find (c_lim c) (c_lo c) (c_hi c) (c_ms c) (c_mlen c) x) (r_find r) &&
  mres_eqb (banked_find (c_bsize c) (c_blen c) x) (r_banked r) &&
  match r_bank r with
  | None => true
  | Some b => opt_eqb Z.eqb
                (dispatch_bank (c_kind_empty c) (c_off c) (c_s c) (c_n c) (c_i c)
                               (c_log2 c) (c_nb c) x) b
  end.

Definition check_case (c : case) : bool := forallb (check_row c) (c_rows c).

(** The configuration is one the property speaks about: size >= 1, a positive
    Go-int element count, an index below it, and size * count representable. *)
Definition cfg_sn_ok (c : case) : bool :=
  (1 <=? c_s c) && (1 <=? c_n c)%Z && (c_n c <? Z.of_N two63)%Z &&
  (c_s c * Z.to_N (c_n c) <? two64).
Definition cfg_ok (c : case) : bool :=
  cfg_sn_ok c && (0 <=? c_i c)%Z && (c_i c <? c_n c)%Z.

(** Accepted exactly when owned, and then the internal address is k*s + j
    (specification formulas only). *)
Definition conv_ok (s n i off x : N) (conv : outcome) : bool :=
  if ownedb s n i off x then outcome_eqb conv (Ok (internal_of s n off x))
  else outcome_eqb conv Panic.

(** The mapper with the same size and the same number of elements: outside the
    limitation it names the module for other addresses; at or above the offset
    it names element i exactly when the converter of element i accepted, it
    names the owning element (when count = 1 or offset is a multiple of
    size*count), and in general the owning element rotated by offset/size (when
    the offset is a multiple of the size). *)
Definition mapper_ok (s n i off : N) (lim : bool) (lo hi x : N) (conv : outcome) (fnd : mres) : bool :=
  if lim && ((hi <=? x) || (x <? lo)) then mres_eqb fnd MOther
  else if off <=? x then
    (if (n =? 1) || (off mod (s * n) =? 0)
     then Bool.eqb (mres_eqb fnd (MIdx i)) (is_ok conv) &&
          mres_eqb fnd (MIdx (element_of s n off x))
     else true) &&
    (if off mod s =? 0
     then mres_eqb fnd (MIdx ((element_of s n off x + off / s) mod n))
     else true)
  else true.

(** The banked mapper names the module of bank address / BankSize and panics
    when there is no such module (or BankSize = 0). *)
Definition banked_ok (c : case) (r : row) : bool :=
  mres_eqb (r_banked r)
    (if c_bsize c =? 0 then MPanic
     else if r_x r / c_bsize c <? c_blen c then MIdx (r_x r / c_bsize c) else MPanic).

(** Bank dispatch of simplebankedmemory (when probed), for a sane bank selector
    (log2 < 64, 1 <= NumBanks < 2^63): with the interleaving conversion enabled
    and a well-formed converter configuration a request for an owned address is
    steered by its internal (controller-local) address, a request for any other
    address panics; with the conversion disabled the global address is used. *)
Definition bank_ok (c : case) (r : row) : bool :=
  let s := c_s c in let n := Z.to_N (c_n c) in let i := Z.to_N (c_i c) in
  let off := c_off c in let x := r_x r in let nb := Z.to_N (c_nb c) in
  match r_bank r with
  | None => true
  | Some b =>
      if (c_log2 c <? 64) && (1 <=? c_nb c)%Z && (c_nb c <? Z.of_N two63)%Z then
        if c_kind_empty c then opt_eqb Z.eqb b (Some (Z.of_N (x / 2 ^ c_log2 c mod nb)))
        else if cfg_ok c then
          if ownedb s n i off x
          then opt_eqb Z.eqb b (Some (Z.of_N (internal_of s n off x / 2 ^ c_log2 c mod nb)))
          else opt_eqb Z.eqb b None
        else true
      else true
  end.

(** The property on one probed address, from the observed outputs and the
    specification formulas only. *)
Definition row_ok (c : case) (r : row) : bool :=
  banked_ok c r && bank_ok c r &&
  let s := c_s c in let n := Z.to_N (c_n c) in let i := Z.to_N (c_i c) in
  let off := c_off c in let x := r_x r in
  outcome_eqb (r_conv r) (r_addr r) &&
  outcome_eqb (r_ident r) (Ok x) &&
  (if cfg_ok c then
     conv_ok s n i off x (r_conv r) &&
     (if (c_ms c =? s) && (c_mlen c =? n)
      then mapper_ok s n i off (c_lim c) (c_lo c) (c_hi c) x (r_conv r) (r_find r)
      else true)
   else if (c_s c =? 0) || (c_n c =? 0)%Z then outcome_eqb (r_conv r) Panic
   else if cfg_sn_ok c then outcome_eqb (r_conv r) Panic   (* index outside [0,n): owns nothing *)
   else true).

(** The property on two probed addresses: order is preserved, and inside one
    stripe distances are preserved. *)
Definition pair_ok (c : case) (r1 r2 : row) : bool :=
  if cfg_ok c then
    match r_conv r1, r_conv r2 with
    | Ok v1, Ok v2 =>
        if r_x r1 <? r_x r2 then
          (v1 <? v2) &&
          (if stripe_of (c_s c) (Z.to_N (c_n c)) (c_off c) (r_x r1) =?
              stripe_of (c_s c) (Z.to_N (c_n c)) (c_off c) (r_x r2)
           then v2 - v1 =? r_x r2 - r_x r1 else true)
        else true
    | _, _ => true
    end
  else true.

Definition holds_on (c : case) : bool :=
  forallb (row_ok c) (c_rows c) &&
  forallb (fun r1 => forallb (pair_ok c r1) (c_rows c)) (c_rows c).
