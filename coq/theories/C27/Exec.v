(** C27 — case evaluators.  A case: an MMU configuration, a pre-populated page table (given as
    the pages inserted, in order), a tick-by-tick script (requests delivered to Top, number of
    responses drained), and what the real component did: outcome, per-tick observations and
    the page table's checkpoint DTO after the run. *)
From Akita Require Import Lib.Base C26.Model C26.Exec C27.Model C27.Proofs C27.Proofs3.
Local Open Scope N_scope.

Record case := mk_case {
  c_log2 : N; c_lat : Z; c_max : Z; c_auto : bool; c_cap : N;
  c_pre : list page;
  c_cond : bool;                 (* the harness's evaluation of the alias-freedom condition on the initial table *)
  c_script : list (list req * nat);
  o_outcome : N;                 (* 0 ok, 1 panic "page not found", 2 panic in Insert, 3 any other panic *)
  o_ticks : list tick_obs;
  o_final : dto }.

Definition pre_table (log2 : N) (pre : list page) : table :=
  fst (run (tb_new log2) (map (fun p => (id_oracle, OInsert p)) pre)).

Definition rsp_eqb (a b : rsp) : bool :=
  (r_to a =? r_to b) && (r_dst a =? r_dst b) && page_eqb (r_page a) (r_page b).

Definition tobs_eqb (a b : tick_obs) : bool :=
  Bool.eqb (to_progress a) (to_progress b) && list_eqb rsp_eqb (to_rsps a) (to_rsps b) &&
  (to_next a =? to_next b) && (to_walking a =? to_walking b).

Definition outcome_code (oc : outcome) : N :=
  match oc with Ok => 0 | PanicNotFound => 1 | PanicInsert => 2 | Hang => 3 end.

Definition check_case (c : case) : bool :=
  let m0 := mmu_init (c_log2 c) (c_lat c) (c_max c) (c_auto c) (c_cap c) (pre_table (c_log2 c) (c_pre c)) in
  let '(oc, m, obs) := env_run id_oracle m0 (c_script c) in
  (outcome_code oc =? o_outcome c) && list_eqb tobs_eqb obs (o_ticks c) &&
  (* the classifier of the known finding is the condition of c27_no_alias_general *)
  Bool.eqb (alias_okb (c_log2 c) (all_pages (pre_table (c_log2 c) (c_pre c)))) (c_cond c) &&
  (if outcome_code oc =? 0 then dto_eqb (save id_oracle (m_tab m)) (o_final c) else true).

(** ---- the property on the observed behaviour (independent of Model.v's tick function) *)
Definition dto_pages (d : dto) : list page := flat_map snd d.

Definition same_key (a b : page) : bool := (pg_pid a =? pg_pid b) && (pg_vaddr a =? pg_vaddr b).

(** physical ranges [pa, pa+size) as sets of naturals (no wrap) *)
Definition disjoint (a b : page) : bool :=
  (pg_paddr a + pg_size a <=? pg_paddr b) || (pg_paddr b + pg_size b <=? pg_paddr a).

Definition all_reqs (s : list (list req * nat)) : list req := flat_map fst s.

Definition find_req (id : N) (qs : list req) : option req := find (fun q => q_id q =? id) qs.

Definition lookup_final (d : dto) (pid va : N) : option page :=
  find (fun p => (pg_pid p =? pid) && (pg_vaddr p =? va)) (dto_pages d).

Definition holds_on (c : case) : bool :=
  if c_auto c then
    (o_outcome c =? 0) &&    (* with auto allocation on, a translation never panics *)
    let final := dto_pages (o_final c) in
    let autos := filter (fun p => negb (existsb (same_key p) (c_pre c))) final in
    (* every answer carries the single mapping of its (process, virtual page) *)
    forallb (fun r =>
      match find_req (r_to r) (all_reqs (c_script c)) with
      | Some q => opage_eqb (lookup_final (o_final c) (q_pid q) (align (c_log2 c) (q_va q))) (Some (r_page r)) &&
                  (r_dst r =? q_src q)
      | None => false
      end) (flat_map to_rsps (o_ticks c)) &&
    (* one entry per (process, vaddr) *)
    forallb (fun e => nodupN (map pg_vaddr (snd e))) (o_final c) &&
    (* no auto-allocated page overlaps any other page of the table *)
    forallb (fun a => forallb (fun q => same_key a q || disjoint a q) final) autos
  else true.
