(** C27 — MMU auto-allocation never aliases physical memory.  Property theorems only. *)
From Akita Require Import Lib.Base C26.Model C26.Proofs C26.Proofs2 C26.Proofs3 C26.Proofs4 C26.Proofs5.
From Akita Require Import C27.Model C27.Proofs C27.Proofs2.
Local Open Scope N_scope.

(** A uniform pre-populated table: a consistent page table (every table reachable through the
    PageTable API is, theorem c26_invariant) of the MMU's page size in which every page is a
    frame: PageSize = 2^log2, PAddr and VAddr multiples of it.  Pages may share frames. *)
Definition uniform (log2 : N) (t : table) : Prop :=
  wf_table t /\ tb_log2 t = log2 /\ log2 < 64 /\ forall x, In x (all_pages t) -> frame log2 x.

Definition script_reqs (s : list (list req * nat)) : list req := flat_map fst s.

Lemma uniform_minv log2 lat mx cap t qs : uniform log2 t -> minv qs (mmu_init log2 lat mx true cap t).
Proof.
  intros [W [L [Hl F]]]. constructor; cbn [mmu_init m_log2 m_alloc m_tab m_auto m_out m_in m_walks]; try (intros ? []); [|reflexivity].
  constructor; try assumption.
  - intros y Hy. apply F. apply all_pages_inpages; assumption.
  - intros a [].
  - intros a q [].
Qed.

Lemma script_reqs_in s : forall st q, In st s -> In q (fst st) -> In q (script_reqs s).
Proof. intros st q H1 H2. unfold script_reqs. apply in_flat_map. exists st. tauto. Qed.

(** Exactly one mapping per (process, virtual page), for every uniform table, configuration,
    tick script (any request stream, incl. several walks of one page in flight, any draining
    pattern / back-pressure) and iteration oracle: the run never panics; every answer ever sent
    goes to the requester of a delivered request with that request's id and carries the page
    that the final table binds to the request's (process, page-aligned address) — so two
    answers for the same virtual page carry the same page; mappings that existed are never
    changed; and auto-allocation created at most one page per (process, virtual page), each
    still bound in the table. *)
Theorem c27_one_mapping : forall o log2 lat mx cap t0 script oc m obs,
  valid_oracle o -> uniform log2 t0 ->
  env_run o (mmu_init log2 lat mx true cap t0) script = (oc, m, obs) ->
  (oc = Ok \/ oc = Hang) /\
  (forall ob r, In ob obs -> In r (to_rsps ob) -> rsp_ok log2 (m_tab m) (script_reqs script) r) /\
  ext t0 (m_tab m) /\
  (forall a, In a (m_alloc m) -> abs (m_tab m) (pg_pid a) (pg_vaddr a) = Some a) /\
  (forall a1 a2, In a1 (m_alloc m) -> In a2 (m_alloc m) -> key_eq a1 a2 -> a1 = a2).
Proof.
  intros o log2 lat mx cap t0 script oc m obs V U R.
  destruct (env_run_spec o (script_reqs script) V script _ _ _ _ (uniform_minv log2 lat mx cap t0 _ U)
              (script_reqs_in script) R) as [A [B [C [D E]]]].
  cbn [mmu_init m_tab m_log2] in C, D, E.
  pose proof (mi_t _ _ B) as T. rewrite D in T.
  assert (Hb : forall a, In a (m_alloc m) -> abs (m_tab m) (pg_pid a) (pg_vaddr a) = Some a).
  { intros a Ha. apply inpages_abs; [apply (ti_wf _ _ _ T)|apply (ti_alloc_in _ _ _ T a Ha)]. }
  split; [exact A|split; [exact E|split; [exact C|split; [exact Hb|]]]].
  intros a1 a2 H1 H2 [K1 K2]. pose proof (Hb a1 H1) as B1. pose proof (Hb a2 H2) as B2.
  rewrite K1, K2 in B1. congruence.
Qed.
Print Assumptions c27_one_mapping.

(** No auto-allocated page overlaps the physical range of any other page of the table
    (pre-inserted or auto-allocated), in every state reached by every script. *)
Theorem c27_no_overlap : forall o log2 lat mx cap t0 script oc m obs,
  valid_oracle o -> uniform log2 t0 ->
  env_run o (mmu_init log2 lat mx true cap t0) script = (oc, m, obs) ->
  forall a q, In a (m_alloc m) -> In q (all_pages (m_tab m)) -> ~ key_eq a q ->
    pg_paddr a + pg_size a <= pg_paddr q \/ pg_paddr q + pg_size q <= pg_paddr a.
Proof.
  intros o log2 lat mx cap t0 script oc m obs V U R a q Ha Hq Hk.
  destruct (env_run_spec o (script_reqs script) V script _ _ _ _ (uniform_minv log2 lat mx cap t0 _ U)
              (script_reqs_in script) R) as [_ [B [_ [D _]]]].
  cbn [mmu_init m_log2] in D. pose proof (mi_t _ _ B) as T. rewrite D in T.
  apply (all_pages_inpages _ q (ti_wf _ _ _ T)) in Hq.
  pose proof (ti_distinct _ _ _ T a q Ha Hq Hk) as Hne.
  destruct (ti_frames _ _ _ T a (ti_alloc_in _ _ _ T a Ha)) as [Sa [Pa _]].
  destruct (ti_frames _ _ _ T q Hq) as [Sq [Pq _]].
  rewrite Sa, Sq.
  assert (0 < 2 ^ log2) as Hpos by (apply N.neq_0_lt_0, N.pow_nonzero; lia).
  apply N.mod_divide in Pa; [|lia]. apply N.mod_divide in Pq; [|lia].
  destruct Pa as [ka Ea]. destruct Pq as [kq Eq]. rewrite Ea, Eq in *.
  assert (ka <> kq) by congruence. nia.
Qed.
Print Assumptions c27_no_overlap.

(** allocatePhysicalPage returns: with the fuel the model gives it (one more than the number
    of pages) the probe loop finds a free frame, as long as the cursor cannot wrap. *)
Theorem c27_alloc_terminates : forall o log2 t next,
  wf_table t -> valid_oracle o -> log2 < 64 ->
  next + N.of_nat (alloc_fuel t) * 2 ^ log2 <= two64 ->
  exists c n', alloc (alloc_fuel t) o log2 t next = Some (c, n') /\
               rev_lookup o t c = None /\ c mod 2 ^ log2 = 0.
Proof.
  intros o log2 t next W V Hl Hw.
  destruct (alloc_terminates_gen o log2 t W V Hl (alloc_fuel t) next) as [[c n'] Hr].
  - unfold alloc_fuel. pose proof (above_le (align log2 next) (all_pages t)). lia.
  - exact Hw.
  - exists c, n'. split; [exact Hr|apply (alloc_safe o log2 t _ _ c n' Hl Hr)].
Qed.
Print Assumptions c27_alloc_terminates.

(** The full statement (no uniformity hypothesis) is false of the code: a page pre-inserted at
    the unaligned physical address 0x800, or a 2 MB page at 0, is overlapped by auto-allocated
    frames (confirmed on the real MMU; known finding F-C27-1). *)
Definition bad_table (p : page) : table := fst (run (tb_new 12) [(id_oracle, OInsert p)]).
Definition bad_script : list (list req * nat) :=
  [([mk_req 1 0 1 8192 0; mk_req 2 1 1 12288 0], 0%nat); ([], 2%nat); ([], 2%nat); ([], 2%nat)].

Theorem c27_mixed_sizes_refuted :
  forall pre, pre = mk_page 1 2048 65536 4096 0 1 \/ pre = mk_page 2 0 2097152 2097152 0 3 ->
  exists m obs a, env_run id_oracle (mmu_init 12 0 4 true 4 (bad_table pre)) bad_script = (Ok, m, obs) /\
    wf_table (bad_table pre) /\
    In a (m_alloc m) /\ In pre (all_pages (m_tab m)) /\ ~ key_eq a pre /\
    pg_paddr pre < pg_paddr a + pg_size a /\ pg_paddr a < pg_paddr pre + pg_size pre.
Proof.
  intros pre [->| ->].
  - eexists _, _, (mk_page 1 0 8192 4096 0 3). split; [vm_compute; reflexivity|].
    split; [apply (run_wf [(id_oracle, OInsert _)] (tb_new 12) (wf_new 12)); repeat constructor; apply id_oracle_valid|].
    split; [vm_compute; auto 10|]. split; [vm_compute; auto 10|]. split; [intros [_ H]; discriminate H|]. vm_compute. split; reflexivity.
  - eexists _, _, (mk_page 1 4096 8192 4096 0 3). split; [vm_compute; reflexivity|].
    split; [apply (run_wf [(id_oracle, OInsert _)] (tb_new 12) (wf_new 12)); repeat constructor; apply id_oracle_valid|].
    split; [vm_compute; auto 10|]. split; [vm_compute; auto 10|]. split; [intros [H _]; discriminate H|]. vm_compute. split; reflexivity.
Qed.
Print Assumptions c27_mixed_sizes_refuted.

(** Link to the implementation: when the correspondence check succeeds on a case with auto
    allocation on and a uniform pre-populated table, every response OBSERVED on the real MMU's
    Top port answers a scripted request (its ID, its requester) with the page that the model's
    final table — compared with the real table's checkpoint by the same check — binds to that
    request's (process, virtual page). *)
From Akita Require Import C26.Exec C27.Exec C27.Link.
Theorem c27_model_agreement_implies_property : forall c,
  c_auto c = true -> uniform (c_log2 c) (pre_table (c_log2 c) (c_pre c)) -> check_case c = true ->
  exists oc m obs,
    env_run id_oracle (mmu_init (c_log2 c) (c_lat c) (c_max c) true (c_cap c) (pre_table (c_log2 c) (c_pre c))) (c_script c) = (oc, m, obs) /\
    forall ob r, In ob (o_ticks c) -> In r (to_rsps ob) -> rsp_ok (c_log2 c) (m_tab m) (script_reqs (c_script c)) r.
Proof.
  intros c Au U H. pose proof (check_case_obs c H) as Hobs. cbv zeta in Hobs. rewrite Au in Hobs.
  destruct (env_run id_oracle (mmu_init (c_log2 c) (c_lat c) (c_max c) true (c_cap c) (pre_table (c_log2 c) (c_pre c))) (c_script c))
    as [[oc m] obs] eqn:E.
  cbn [snd] in Hobs. subst obs. exists oc, m, (o_ticks c). split; [reflexivity|].
  destruct (c27_one_mapping id_oracle _ _ _ _ _ _ _ _ _ id_oracle_valid U E) as [_ [R _]]. exact R.
Qed.
Print Assumptions c27_model_agreement_implies_property.

(** Non-vacuity: a uniform table in which two processes share frame 0 and frame 0x2000 is
    taken; four walks of one unmapped page in flight with a one-slot Top buffer. *)
Definition demo_table : table :=
  fst (run (tb_new 12) (map (fun p => (id_oracle, OInsert p))
        [mk_page 1 0 20480 4096 0 1; mk_page 3 0 0 4096 0 1; mk_page 3 8192 4096 4096 0 1])).
Definition demo_script : list (list req * nat) :=
  [([mk_req 10 0 1 28672 0], 0%nat); ([mk_req 11 1 1 28680 0], 0%nat); ([mk_req 12 0 1 28688 0], 0%nat);
   ([mk_req 13 1 2 5 7], 1%nat); ([], 1%nat); ([], 1%nat); ([], 1%nat); ([], 1%nat); ([], 1%nat); ([], 1%nat); ([], 1%nat)].

Example c27_nonvacuous :
  uniform 12 demo_table /\
  match env_run id_oracle (mmu_init 12 1 4 true 1 demo_table) demo_script with
  | (oc, m, obs) =>
      oc = Ok /\ m_alloc m = [mk_page 1 4096 28672 4096 0 3; mk_page 2 12288 0 4096 7 3] /\
      flat_map to_rsps obs = [mk_rsp 10 0 (mk_page 1 4096 28672 4096 0 3); mk_rsp 11 1 (mk_page 1 4096 28672 4096 0 3);
                              mk_rsp 12 0 (mk_page 1 4096 28672 4096 0 3); mk_rsp 13 1 (mk_page 2 12288 0 4096 7 3)]
  end.
Proof.
  split.
  - split; [|split; [reflexivity|split; [reflexivity|]]].
    + apply (run_wf _ (tb_new 12) (wf_new 12)). repeat constructor; apply id_oracle_valid.
    + vm_compute. intros x [<-|[<-|[<-|[]]]]; repeat split.
  - vm_compute. repeat split.
Qed.
