(** C27 — MMU auto-allocation never aliases physical memory.  Property theorems only. *)
From Akita Require Import Lib.Base C26.Model C26.Proofs C26.Proofs2 C26.Proofs3 C26.Proofs4 C26.Proofs5.
From Akita Require Import C27.Model C27.Proofs C27.Proofs2 C27.Proofs3.
Local Open Scope N_scope.

Definition script_reqs (s : list (list req * nat)) : list req := flat_map fst s.

Lemma script_reqs_in s : forall st q, In st s -> In q (fst st) -> In q (script_reqs s).
Proof. intros st q H1 H2. unfold script_reqs. apply in_flat_map. exists st. tauto. Qed.

(** ---- ARBITRARY initial tables.
    The exact condition on the initial page table [t] and the MMU's page size 2^log2 under which
    auto-allocation is alias-free, as a boolean predicate: [alias_okb log2 (all_pages t)] —
    every frame (address that is a multiple of the page size) that meets the physical range
    [PAddr, PAddr+PageSize) of a page of the table is itself the PAddr of some page of the table.
    This is what the ReverseLookup probe of allocatePhysicalPage needs: it skips a frame exactly
    when some page has that PAddr.  Pages of any size, at any address, shared by any number of
    processes are allowed as long as the frames they touch are "claimed" in this sense (a frame-
    sized page at an aligned address claims its own frame; a 2 MB page needs each of its 512
    frames to be the PAddr of some page; an unaligned page needs the frames it straddles claimed). *)
Definition general_ok (log2 : N) (t : table) : Prop :=
  wf_table t /\ tb_log2 t = log2 /\ log2 < 64 /\ alias_okb log2 (all_pages t) = true.

(** the Prop form used by the invariant *)
Definition general_pre (log2 : N) (t : table) : Prop :=
  wf_table t /\ tb_log2 t = log2 /\ log2 < 64 /\ alias_ok log2 t.

Lemma general_ok_pre log2 t : general_ok log2 t -> general_pre log2 t.
Proof. intros [W [L [Hl H]]]. split; [exact W|split; [exact L|split; [exact Hl|apply alias_okb_sound; assumption]]]. Qed.

Lemma general_minv log2 lat mx cap t qs : general_pre log2 t -> minv (inpages t) qs (mmu_init log2 lat mx true cap t).
Proof.
  intros [W [L [Hl F]]]. constructor; cbn [mmu_init m_log2 m_alloc m_tab m_auto m_out m_in m_walks]; try (intros ? []); [|reflexivity].
  constructor; try assumption.
  - intros a [].
  - intros a [].
  - intros a q [].
  - intros q Hq. right. exact Hq.
Qed.

(** No alias, for every initial table satisfying the condition, every configuration, every
    tick script (any interleaving of walks of any number of processes, several walks of one page
    in flight, any back-pressure) and every iteration oracle.  In every state reached:
    the run never panics; every auto-allocated page is a frame; no auto-allocated page overlaps
    the physical range of any other page of the table, pre-inserted or auto-allocated; two pages
    with distinct (PID, VPage) whose physical ranges overlap are both pre-inserted (they
    overlapped in the initial table already — shared frames stay shared, nothing new is aliased);
    every pre-inserted mapping is unchanged; and the condition still holds (it is inductive). *)
Theorem c27_no_alias_general : forall o log2 lat mx cap t0 script oc m obs,
  valid_oracle o -> general_ok log2 t0 ->
  env_run o (mmu_init log2 lat mx true cap t0) script = (oc, m, obs) ->
  (oc = Ok \/ oc = Hang) /\
  (forall a, In a (m_alloc m) -> pg_size a = 2 ^ log2 /\ pg_paddr a mod 2 ^ log2 = 0) /\
  (forall a q, In a (m_alloc m) -> In q (all_pages (m_tab m)) -> ~ key_eq a q -> disjoint a q) /\
  (forall x y, In x (all_pages (m_tab m)) -> In y (all_pages (m_tab m)) -> ~ key_eq x y -> ~ disjoint x y ->
     In x (all_pages t0) /\ In y (all_pages t0)) /\
  ext t0 (m_tab m) /\
  alias_ok log2 (m_tab m).
Proof.
  intros o log2 lat mx cap t0 script oc m obs V U R. apply general_ok_pre in U. pose proof U as [W0 _].
  destruct (env_run_spec (inpages t0) o (script_reqs script) V script _ _ _ _ (general_minv log2 lat mx cap t0 _ U)
              (script_reqs_in script) R) as [A [B [C [D _]]]].
  cbn [mmu_init m_tab m_log2] in C, D. pose proof (mi_t _ _ _ B) as T. rewrite D in T.
  pose proof (ti_wf _ _ _ _ T) as W.
  split; [exact A|split; [apply (ti_aframe _ _ _ _ T)|split; [|split; [|split; [exact C|apply (ti_cover _ _ _ _ T)]]]]].
  - intros a q Ha Hq Hk. apply (all_pages_inpages _ q W) in Hq. apply (ti_disj _ _ _ _ T a q Ha Hq Hk).
  - intros x y Hx Hy Hk Hov. apply (all_pages_inpages _ x W) in Hx. apply (all_pages_inpages _ y W) in Hy.
    destruct (ti_origin _ _ _ _ T x Hx) as [Ax|Px].
    { exfalso. apply Hov. apply (ti_disj _ _ _ _ T x y Ax Hy Hk). }
    destruct (ti_origin _ _ _ _ T y Hy) as [Ay|Py].
    { exfalso. apply Hov. assert (Hk' : ~ key_eq y x) by (intros [K1 K2]; apply Hk; split; congruence).
      destruct (ti_disj _ _ _ _ T y x Ay Hx Hk') as [D1|D1]; [right; exact D1|left; exact D1]. }
    split; apply (all_pages_inpages _ _ W0); assumption.
Qed.
Print Assumptions c27_no_alias_general.

(** Exactly one mapping per (process, virtual page), for the same initial tables. *)
Theorem c27_one_mapping_general : forall o log2 lat mx cap t0 script oc m obs,
  valid_oracle o -> general_ok log2 t0 ->
  env_run o (mmu_init log2 lat mx true cap t0) script = (oc, m, obs) ->
  (oc = Ok \/ oc = Hang) /\
  (forall ob r, In ob obs -> In r (to_rsps ob) -> rsp_ok log2 (m_tab m) (script_reqs script) r) /\
  ext t0 (m_tab m) /\
  (forall a, In a (m_alloc m) -> abs (m_tab m) (pg_pid a) (pg_vaddr a) = Some a) /\
  (forall a1 a2, In a1 (m_alloc m) -> In a2 (m_alloc m) -> key_eq a1 a2 -> a1 = a2).
Proof.
  intros o log2 lat mx cap t0 script oc m obs V U R. apply general_ok_pre in U.
  destruct (env_run_spec (inpages t0) o (script_reqs script) V script _ _ _ _ (general_minv log2 lat mx cap t0 _ U)
              (script_reqs_in script) R) as [A [B [C [D E]]]].
  cbn [mmu_init m_tab m_log2] in C, D, E.
  pose proof (mi_t _ _ _ B) as T. rewrite D in T.
  assert (Hb : forall a, In a (m_alloc m) -> abs (m_tab m) (pg_pid a) (pg_vaddr a) = Some a).
  { intros a Ha. apply inpages_abs; [apply (ti_wf _ _ _ _ T)|apply (ti_alloc_in _ _ _ _ T a Ha)]. }
  split; [exact A|split; [exact E|split; [exact C|split; [exact Hb|]]]].
  intros a1 a2 H1 H2 [K1 K2]. pose proof (Hb a1 H1) as B1. pose proof (Hb a2 H2) as B2.
  rewrite K1, K2 in B1. congruence.
Qed.
Print Assumptions c27_one_mapping_general.

(** ---- Uniform tables (the special case of the first version of these theorems): a consistent
    page table of the MMU's page size in which every page is a frame: PageSize = 2^log2, PAddr
    and VAddr multiples of it.  Pages may share frames. *)
Definition uniform (log2 : N) (t : table) : Prop :=
  wf_table t /\ tb_log2 t = log2 /\ log2 < 64 /\ forall x, In x (all_pages t) -> frame log2 x.

Lemma uniform_pre log2 t : uniform log2 t -> general_pre log2 t.
Proof.
  intros [W [L [Hl F]]]. split; [exact W|split; [exact L|split; [exact Hl|]]].
  apply frames_alias_ok; [exact Hl|]. intros x Hx. apply F. apply all_pages_inpages; assumption.
Qed.

Lemma uniform_minv log2 lat mx cap t qs : uniform log2 t -> minv (inpages t) qs (mmu_init log2 lat mx true cap t).
Proof. intro U. apply general_minv. apply uniform_pre. exact U. Qed.

(** Exactly one mapping per (process, virtual page), for every uniform table, configuration,
    tick script (any request stream, incl. several walks of one page in flight, any draining
    pattern / back-pressure) and iteration oracle: the run never panics; every answer ever sent
    goes to the requester of a delivered request with that request's id and carries the page
    that the final table binds to the request's (process, page-aligned address) — so two
    answers for the same virtual page carry the same page; mappings that existed are never
    changed; and auto-allocation created at most one page per (process, virtual page), each
    still bound in the table. *)
Theorem c27_one_mapping : forall o log2 lat mx cap t0 script oc m obs,
  valid_oracle o -> uniform log2 t0 ->
  env_run o (mmu_init log2 lat mx true cap t0) script = (oc, m, obs) ->
  (oc = Ok \/ oc = Hang) /\
  (forall ob r, In ob obs -> In r (to_rsps ob) -> rsp_ok log2 (m_tab m) (script_reqs script) r) /\
  ext t0 (m_tab m) /\
  (forall a, In a (m_alloc m) -> abs (m_tab m) (pg_pid a) (pg_vaddr a) = Some a) /\
  (forall a1 a2, In a1 (m_alloc m) -> In a2 (m_alloc m) -> key_eq a1 a2 -> a1 = a2).
Proof.
  intros o log2 lat mx cap t0 script oc m obs V U R.
  destruct (env_run_spec (inpages t0) o (script_reqs script) V script _ _ _ _ (uniform_minv log2 lat mx cap t0 _ U)
              (script_reqs_in script) R) as [A [B [C [D E]]]].
  cbn [mmu_init m_tab m_log2] in C, D, E.
  pose proof (mi_t _ _ _ B) as T. rewrite D in T.
  assert (Hb : forall a, In a (m_alloc m) -> abs (m_tab m) (pg_pid a) (pg_vaddr a) = Some a).
  { intros a Ha. apply inpages_abs; [apply (ti_wf _ _ _ _ T)|apply (ti_alloc_in _ _ _ _ T a Ha)]. }
  split; [exact A|split; [exact E|split; [exact C|split; [exact Hb|]]]].
  intros a1 a2 H1 H2 [K1 K2]. pose proof (Hb a1 H1) as B1. pose proof (Hb a2 H2) as B2.
  rewrite K1, K2 in B1. congruence.
Qed.
Print Assumptions c27_one_mapping.

(** No auto-allocated page overlaps the physical range of any other page of the table
    (pre-inserted or auto-allocated), in every state reached by every script. *)
Theorem c27_no_overlap : forall o log2 lat mx cap t0 script oc m obs,
  valid_oracle o -> uniform log2 t0 ->
  env_run o (mmu_init log2 lat mx true cap t0) script = (oc, m, obs) ->
  forall a q, In a (m_alloc m) -> In q (all_pages (m_tab m)) -> ~ key_eq a q ->
    pg_paddr a + pg_size a <= pg_paddr q \/ pg_paddr q + pg_size q <= pg_paddr a.
Proof.
  intros o log2 lat mx cap t0 script oc m obs V U R a q Ha Hq Hk.
  destruct (env_run_spec (inpages t0) o (script_reqs script) V script _ _ _ _ (uniform_minv log2 lat mx cap t0 _ U)
              (script_reqs_in script) R) as [_ [B [_ [D _]]]].
  cbn [mmu_init m_log2] in D. pose proof (mi_t _ _ _ B) as T. rewrite D in T.
  apply (all_pages_inpages _ q (ti_wf _ _ _ _ T)) in Hq. apply (ti_disj _ _ _ _ T a q Ha Hq Hk).
Qed.
Print Assumptions c27_no_overlap.

(** allocatePhysicalPage returns: with the fuel the model gives it (one more than the number
    of pages) the probe loop finds a free frame, as long as the cursor cannot wrap. *)
Theorem c27_alloc_terminates : forall o log2 t next,
  wf_table t -> valid_oracle o -> log2 < 64 ->
  next + N.of_nat (alloc_fuel t) * 2 ^ log2 <= two64 ->
  exists c n', alloc (alloc_fuel t) o log2 t next = Some (c, n') /\
               rev_lookup o t c = None /\ c mod 2 ^ log2 = 0.
Proof.
  intros o log2 t next W V Hl Hw.
  destruct (alloc_terminates_gen o log2 t W V Hl (alloc_fuel t) next) as [[c n'] Hr].
  - unfold alloc_fuel. pose proof (above_le (align log2 next) (all_pages t)). lia.
  - exact Hw.
  - exists c, n'. split; [exact Hr|apply (alloc_safe o log2 t _ _ c n' Hl Hr)].
Qed.
Print Assumptions c27_alloc_terminates.

(** The full statement (no uniformity hypothesis) is false of the code: a page pre-inserted at
    the unaligned physical address 0x800, or a 2 MB page at 0, is overlapped by auto-allocated
    frames (confirmed on the real MMU; known finding F-C27-1). *)
Definition bad_table (p : page) : table := fst (run (tb_new 12) [(id_oracle, OInsert p)]).
Definition bad_script : list (list req * nat) :=
  [([mk_req 1 0 1 8192 0; mk_req 2 1 1 12288 0], 0%nat); ([], 2%nat); ([], 2%nat); ([], 2%nat)].

Theorem c27_mixed_sizes_refuted :
  forall pre, pre = mk_page 1 2048 65536 4096 0 1 \/ pre = mk_page 2 0 2097152 2097152 0 3 ->
  exists m obs a, env_run id_oracle (mmu_init 12 0 4 true 4 (bad_table pre)) bad_script = (Ok, m, obs) /\
    wf_table (bad_table pre) /\
    In a (m_alloc m) /\ In pre (all_pages (m_tab m)) /\ ~ key_eq a pre /\
    pg_paddr pre < pg_paddr a + pg_size a /\ pg_paddr a < pg_paddr pre + pg_size pre.
Proof.
  intros pre [->| ->].
  - eexists _, _, (mk_page 1 0 8192 4096 0 3). split; [vm_compute; reflexivity|].
    split; [apply (run_wf [(id_oracle, OInsert _)] (tb_new 12) (wf_new 12)); repeat constructor; apply id_oracle_valid|].
    split; [vm_compute; auto 10|]. split; [vm_compute; auto 10|]. split; [intros [_ H]; discriminate H|]. vm_compute. split; reflexivity.
  - eexists _, _, (mk_page 1 4096 8192 4096 0 3). split; [vm_compute; reflexivity|].
    split; [apply (run_wf [(id_oracle, OInsert _)] (tb_new 12) (wf_new 12)); repeat constructor; apply id_oracle_valid|].
    split; [vm_compute; auto 10|]. split; [vm_compute; auto 10|]. split; [intros [H _]; discriminate H|]. vm_compute. split; reflexivity.
Qed.
Print Assumptions c27_mixed_sizes_refuted.

Lemma alias_ok_all_pages log2 t : wf_table t -> alias_ok log2 t ->
  forall q, In q (all_pages t) -> forall c, c mod 2 ^ log2 = 0 -> meets log2 c q ->
  exists q', In q' (all_pages t) /\ pg_paddr q' = c.
Proof.
  intros W H q Hq c Hc Hm. apply (all_pages_inpages t q W) in Hq.
  destruct (H q Hq c Hc Hm) as [q' [Hq' Hp]]. exists q'. split; [apply (all_pages_inpages t q' W); exact Hq'|exact Hp].
Qed.

Lemma bad_wf p : wf_table (bad_table p).
Proof. apply (run_wf [(id_oracle, OInsert _)] (tb_new 12) (wf_new 12)). repeat constructor. apply id_oracle_valid. Qed.

(** The witnesses of F-C27-1 violate exactly the condition: the one pre-inserted page meets a
    frame that no page claims (frame 0 for the page at 0x800; frame 0x1000 for the 2 MB page
    at 0), so [alias_okb] is false — and the same page made a claimed frame (or its missing
    frames claimed by further pages) satisfies it. *)
Theorem c27_refuted_witness_violates_condition :
  alias_okb 12 (all_pages (bad_table (mk_page 1 2048 65536 4096 0 1))) = false /\
  alias_okb 12 (all_pages (bad_table (mk_page 2 0 2097152 2097152 0 3))) = false /\
  ~ alias_ok 12 (bad_table (mk_page 1 2048 65536 4096 0 1)) /\
  ~ alias_ok 12 (bad_table (mk_page 2 0 2097152 2097152 0 3)) /\
  (* repaired neighbours of the two witnesses *)
  alias_okb 12 (all_pages (bad_table (mk_page 1 4096 65536 4096 0 1))) = true /\
  alias_okb 12 [mk_page 1 2048 65536 4096 0 1; mk_page 5 0 0 4096 0 1; mk_page 5 4096 4096 4096 0 1] = true.
Proof.
  split; [vm_compute; reflexivity|]. split; [vm_compute; reflexivity|].
  split; [|split; [|split; vm_compute; reflexivity]].
  - intro H. destruct (alias_ok_all_pages 12 _ (bad_wf _) H (mk_page 1 2048 65536 4096 0 1) ltac:(vm_compute; auto) 0 eq_refl
                         ltac:(unfold meets; cbn; lia)) as [q' [Hq' Hp]].
    vm_compute in Hq'. destruct Hq' as [<-|[]]. discriminate Hp.
  - intro H. destruct (alias_ok_all_pages 12 _ (bad_wf _) H (mk_page 2 0 2097152 2097152 0 3) ltac:(vm_compute; auto) 4096 eq_refl
                         ltac:(unfold meets; cbn; lia)) as [q' [Hq' Hp]].
    vm_compute in Hq'. destruct Hq' as [<-|[]]. discriminate Hp.
Qed.
Print Assumptions c27_refuted_witness_violates_condition.

(** The condition is necessary, one allocation at a time: whenever it fails — some frame [c]
    meets a page [q] of the table and no page has PAddr [c] — an MMU whose allocation cursor
    stands at [c] hands out exactly [c] for the next miss, and the page it creates overlaps [q].
    (That the cursor reaches [c] needs enough earlier misses; this is shown for the two
    witnesses of c27_mixed_sizes_refuted, not in general.) *)
Theorem c27_condition_necessary_step : forall o log2 t q c fuel pid va dev,
  wf_table t -> valid_oracle o -> log2 < 64 ->
  In q (all_pages t) -> c mod 2 ^ log2 = 0 -> meets log2 c q -> (forall q', In q' (all_pages t) -> pg_paddr q' <> c) ->
  alloc (S fuel) o log2 t c = Some (c, w64 (c + psize log2)) /\
  ~ disjoint (default_page log2 pid va dev c) q.
Proof.
  intros o log2 t q c fuel pid va dev W V Hl Hq Hc Hm Free.
  apply (alias_ok_necessary_step o log2 t q c fuel pid va dev W V Hl); try assumption.
  - apply (all_pages_inpages t q W). exact Hq.
  - intros q' Hq'. apply Free. apply (all_pages_inpages t q' W). exact Hq'.
Qed.
Print Assumptions c27_condition_necessary_step.

(** Link to the implementation: when the correspondence check succeeds on a case with auto
    allocation on whose initial table the harness classified as satisfying the condition (the
    check compares that classification with [alias_okb]), every response OBSERVED on the real
    MMU's Top port answers a scripted request (its ID, its requester) with the page that the
    model's final table — compared with the real table's checkpoint by the same check — binds to
    that request's (process, virtual page), and the model's final table is alias-free. *)
From Akita Require Import C26.Exec C27.Exec C27.Link.

Lemma pre_table_wf log2 pre : wf_table (pre_table log2 pre) /\ tb_log2 (pre_table log2 pre) = log2.
Proof.
  unfold pre_table. apply (run_wf _ (tb_new log2) (wf_new log2)).
  apply Forall_forall. intros [o x] Hx. apply in_map_iff in Hx. destruct Hx as [p [Hp _]]. inversion Hp; subst.
  split; [apply id_oracle_valid|exact I].
Qed.

Theorem c27_model_agreement_implies_property : forall c,
  c_auto c = true -> c_log2 c < 64 -> c_cond c = true -> check_case c = true ->
  exists oc m obs,
    env_run id_oracle (mmu_init (c_log2 c) (c_lat c) (c_max c) true (c_cap c) (pre_table (c_log2 c) (c_pre c))) (c_script c) = (oc, m, obs) /\
    (forall ob r, In ob (o_ticks c) -> In r (to_rsps ob) -> rsp_ok (c_log2 c) (m_tab m) (script_reqs (c_script c)) r) /\
    (forall a q, In a (m_alloc m) -> In q (all_pages (m_tab m)) -> ~ key_eq a q -> Proofs.disjoint a q).
Proof.
  intros c Au Hl Hc H. pose proof (check_case_obs c H) as Hobs. cbv zeta in Hobs. rewrite Au in Hobs.
  assert (U : general_ok (c_log2 c) (pre_table (c_log2 c) (c_pre c))).
  { destruct (pre_table_wf (c_log2 c) (c_pre c)) as [W L]. split; [exact W|split; [exact L|split; [exact Hl|]]].
    rewrite (check_case_cond c H). exact Hc. }
  destruct (env_run id_oracle (mmu_init (c_log2 c) (c_lat c) (c_max c) true (c_cap c) (pre_table (c_log2 c) (c_pre c))) (c_script c))
    as [[oc m] obs] eqn:E.
  cbn [snd] in Hobs. subst obs. exists oc, m, (o_ticks c). split; [reflexivity|].
  destruct (c27_one_mapping_general id_oracle _ _ _ _ _ _ _ _ _ id_oracle_valid U E) as [_ [R _]].
  destruct (c27_no_alias_general id_oracle _ _ _ _ _ _ _ _ _ id_oracle_valid U E) as [_ [_ [D _]]].
  split; [exact R|exact D].
Qed.
Print Assumptions c27_model_agreement_implies_property.

(** Non-vacuity: a uniform table in which two processes share frame 0 and frame 0x2000 is
    taken; four walks of one unmapped page in flight with a one-slot Top buffer. *)
Definition demo_table : table :=
  fst (run (tb_new 12) (map (fun p => (id_oracle, OInsert p))
        [mk_page 1 0 20480 4096 0 1; mk_page 3 0 0 4096 0 1; mk_page 3 8192 4096 4096 0 1])).
Definition demo_script : list (list req * nat) :=
  [([mk_req 10 0 1 28672 0], 0%nat); ([mk_req 11 1 1 28680 0], 0%nat); ([mk_req 12 0 1 28688 0], 0%nat);
   ([mk_req 13 1 2 5 7], 1%nat); ([], 1%nat); ([], 1%nat); ([], 1%nat); ([], 1%nat); ([], 1%nat); ([], 1%nat); ([], 1%nat)].

Example c27_nonvacuous :
  uniform 12 demo_table /\
  match env_run id_oracle (mmu_init 12 1 4 true 1 demo_table) demo_script with
  | (oc, m, obs) =>
      oc = Ok /\ m_alloc m = [mk_page 1 4096 28672 4096 0 3; mk_page 2 12288 0 4096 7 3] /\
      flat_map to_rsps obs = [mk_rsp 10 0 (mk_page 1 4096 28672 4096 0 3); mk_rsp 11 1 (mk_page 1 4096 28672 4096 0 3);
                              mk_rsp 12 0 (mk_page 1 4096 28672 4096 0 3); mk_rsp 13 1 (mk_page 2 12288 0 4096 7 3)]
  end.
Proof.
  split.
  - split; [|split; [reflexivity|split; [reflexivity|]]].
    + apply (run_wf _ (tb_new 12) (wf_new 12)). repeat constructor; apply id_oracle_valid.
    + vm_compute. intros x [<-|[<-|[<-|[]]]]; repeat split.
  - vm_compute. repeat split.
Qed.

(** Non-vacuity of the general theorems: a NON-uniform initial table satisfying the condition —
    a two-frame page at 0x4000 shared by processes 1 and 2 whose second frame 0x5000 is claimed
    by a page of process 3, an unaligned page at 0x800 (frames 0 and 0x1000 claimed by pages of
    process 4, one of them empty), and walks of three processes interleaved. *)
Definition mixed_pre : list page :=
  [mk_page 1 16384 0 8192 0 1; mk_page 2 16384 65536 8192 0 1; mk_page 3 20480 4096 4096 0 1;
   mk_page 7 2048 12288 4096 0 1; mk_page 4 0 0 4096 0 1; mk_page 4 4096 4096 0 0 0].
Definition mixed_table : table := fst (run (tb_new 12) (map (fun p => (id_oracle, OInsert p)) mixed_pre)).
Definition mixed_script : list (list req * nat) :=
  [([mk_req 10 0 1 28672 0; mk_req 11 1 2 40 0], 0%nat); ([mk_req 12 0 3 28688 0; mk_req 13 1 1 28700 1], 1%nat);
   ([mk_req 14 2 7 5 7], 1%nat); ([], 2%nat); ([], 2%nat); ([], 2%nat); ([], 2%nat); ([], 2%nat); ([], 2%nat); ([], 2%nat); ([], 2%nat)].

Example c27_nonvacuous_general :
  general_ok 12 mixed_table /\ ~ uniform 12 mixed_table /\
  match env_run id_oracle (mmu_init 12 1 4 true 2 mixed_table) mixed_script with
  | (oc, m, obs) =>
      oc = Ok /\ map pg_paddr (m_alloc m) = [8192; 12288; 24576; 28672] /\ length (flat_map to_rsps obs) = 4%nat
  end.
Proof.
  split; [|split].
  - split; [|split; [reflexivity|split; [reflexivity|vm_compute; reflexivity]]].
    apply (run_wf _ (tb_new 12) (wf_new 12)). repeat constructor; apply id_oracle_valid.
  - intros [_ [_ [_ F]]]. destruct (F (mk_page 7 2048 12288 4096 0 1)) as [_ [P _]]; [vm_compute; auto 10|]. vm_compute in P. discriminate.
  - vm_compute. repeat split.
Qed.
