(** C27 — link between the correspondence check and the theorems. *)
From Akita Require Import Lib.Base C26.Model C26.Exec C27.Model C27.Exec.
Local Open Scope N_scope.

Lemma page_eqb_eq a b : page_eqb a b = true <-> a = b.
Proof.
  destruct a as [a1 a2 a3 a4 a5 a6], b as [b1 b2 b3 b4 b5 b6]. unfold page_eqb. cbn [pg_pid pg_paddr pg_vaddr pg_size pg_dev pg_flags].
  rewrite !andb_true_iff, !N.eqb_eq. split.
  - intros [[[[[-> ->] ->] ->] ->] ->]. reflexivity.
  - intro H. inversion H. tauto.
Qed.

Lemma rsp_eqb_eq a b : rsp_eqb a b = true <-> a = b.
Proof.
  destruct a as [a1 a2 a3], b as [b1 b2 b3]. unfold rsp_eqb. cbn [r_to r_dst r_page].
  rewrite !andb_true_iff, !N.eqb_eq, page_eqb_eq. split.
  - intros [[-> ->] ->]. reflexivity.
  - intro H. inversion H. tauto.
Qed.

Lemma tobs_eqb_eq a b : tobs_eqb a b = true <-> a = b.
Proof.
  destruct a as [a1 a2 a3 a4], b as [b1 b2 b3 b4]. unfold tobs_eqb. cbn [to_progress to_rsps to_next to_walking].
  rewrite !andb_true_iff, Bool.eqb_true_iff, (list_eqb_eq rsp_eqb rsp_eqb_eq), !N.eqb_eq. split.
  - intros [[[-> ->] ->] ->]. reflexivity.
  - intro H. inversion H. tauto.
Qed.

Lemma check_case_obs c : check_case c = true ->
  let m0 := mmu_init (c_log2 c) (c_lat c) (c_max c) (c_auto c) (c_cap c) (pre_table (c_log2 c) (c_pre c)) in
  snd (env_run id_oracle m0 (c_script c)) = o_ticks c.
Proof.
  unfold check_case. cbv zeta.
  destruct (env_run id_oracle _ (c_script c)) as [[oc m] obs]. cbn [snd].
  rewrite !andb_true_iff. intros [[[_ H] _] _]. apply (list_eqb_eq tobs_eqb tobs_eqb_eq). exact H.
Qed.

Lemma check_case_cond c : check_case c = true ->
  Proofs3.alias_okb (c_log2 c) (all_pages (pre_table (c_log2 c) (c_pre c))) = c_cond c.
Proof.
  unfold check_case. cbv zeta.
  destruct (env_run id_oracle _ (c_script c)) as [[oc m] obs].
  rewrite !andb_true_iff. intros [[_ H] _]. apply Bool.eqb_prop. exact H.
Qed.
