(** C27 — proofs, part 3: the alias-freedom condition as a boolean predicate on the initial
    table and the MMU's page size; its necessity for a single allocation. *)
From Akita Require Import Lib.Base C26.Model C26.Proofs C26.Proofs2 C26.Proofs3 C26.Proofs4 C26.Proofs5 C27.Model C27.Proofs.
Local Open Scope N_scope.

(** the frames (aligned addresses) that meet the physical range of [q] *)
Definition frames_of (log2 : N) (q : page) : list N :=
  let s := 2 ^ log2 in
  let e := pg_paddr q + pg_size q in
  if e =? 0 then []
  else
    let first := pg_paddr q / s in
    let last := (e - 1) / s in
    map (fun k => (first + N.of_nat k) * s) (seq 0 (N.to_nat (last + 1 - first))).

(** every frame that meets a page of the table is itself the PAddr of a page of the table *)
Definition alias_okb (log2 : N) (ps : list page) : bool :=
  forallb (fun q => forallb (fun c => existsb (fun q' => pg_paddr q' =? c) ps) (frames_of log2 q)) ps.

Lemma frames_of_complete log2 q c : c mod 2 ^ log2 = 0 -> meets log2 c q -> In c (frames_of log2 q).
Proof.
  intros Hc [M1 M2]. assert (Hpos : 0 < 2 ^ log2) by (apply N.neq_0_lt_0, N.pow_nonzero; lia).
  set (s := 2 ^ log2) in *. unfold frames_of. fold s.
  destruct (pg_paddr q + pg_size q =? 0) eqn:Z; [lia|].
  apply N.mod_divide in Hc; [|lia]. destruct Hc as [kc ->].
  assert (F : pg_paddr q / s <= kc).
  { assert (pg_paddr q / s < kc + 1) by (apply N.div_lt_upper_bound; lia). lia. }
  assert (L : kc <= (pg_paddr q + pg_size q - 1) / s).
  { rewrite <- (N.div_mul kc s) at 1 by lia. apply N.div_le_mono; lia. }
  apply in_map_iff. exists (N.to_nat (kc - pg_paddr q / s)). split.
  - rewrite N2Nat.id. f_equal. lia.
  - apply in_seq. lia.
Qed.

Theorem alias_okb_sound log2 t : wf_table t -> alias_okb log2 (all_pages t) = true -> alias_ok log2 t.
Proof.
  intros W H q Hq c Hc Hm. unfold alias_okb in H. rewrite forallb_forall in H.
  apply (all_pages_inpages t q W) in Hq. specialize (H q Hq). rewrite forallb_forall in H.
  specialize (H c (frames_of_complete log2 q c Hc Hm)). apply existsb_exists in H.
  destruct H as [q' [Hq' Hp]]. exists q'. split; [apply (all_pages_inpages t q' W); exact Hq'|lia].
Qed.

(** pages that are frames satisfy the condition *)
Lemma frames_alias_ok log2 t : log2 < 64 -> (forall x, inpages t x -> frame log2 x) -> alias_ok log2 t.
Proof.
  intros Hl F q Hq c Hc [M1 M2]. destruct (F q Hq) as [Sq [Pq _]]. rewrite Sq in M1.
  assert (Hpos : 0 < 2 ^ log2) by (apply N.neq_0_lt_0, N.pow_nonzero; lia).
  exists q. split; [exact Hq|]. destruct (N.eq_dec (pg_paddr q) c) as [E|E]; [exact E|exfalso].
  destruct (aligned_apart _ _ _ Hpos Pq Hc E); lia.
Qed.

Lemma align_aligned log2 c : log2 < 64 -> c mod 2 ^ log2 = 0 -> align log2 c = c.
Proof.
  intros Hl Hc. unfold align. destruct (64 <=? log2) eqn:E; [lia|].
  apply N.mod_divide in Hc; [|apply N.pow_nonzero; lia]. destruct Hc as [k ->].
  rewrite N.div_mul by (apply N.pow_nonzero; lia). reflexivity.
Qed.

(** Necessity, one allocation: if some frame [c] meets a page [q] of the table and is not the PAddr
    of any page, then with the cursor at [c] allocatePhysicalPage hands out exactly [c], and the
    page created there overlaps [q]. *)
Theorem alias_ok_necessary_step o log2 t q c fuel pid va dev : wf_table t -> valid_oracle o -> log2 < 64 ->
  inpages t q -> c mod 2 ^ log2 = 0 -> meets log2 c q -> (forall q', inpages t q' -> pg_paddr q' <> c) ->
  alloc (S fuel) o log2 t c = Some (c, w64 (c + psize log2)) /\
  ~ disjoint (default_page log2 pid va dev c) q.
Proof.
  intros W V Hl Hq Hc [M1 M2] Free. split.
  - cbn [alloc]. rewrite (align_aligned log2 c Hl Hc).
    rewrite (proj2 (rev_none_iff o t c W V) Free). reflexivity.
  - unfold disjoint, default_page. cbn [pg_paddr pg_size]. rewrite (psize_lt log2 Hl). lia.
Qed.
