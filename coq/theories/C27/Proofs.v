(** C27 — proofs: the allocation probe, one resolve, and the invariant of the MMU. *)
From Coq Require Import Permutation.
From Akita Require Import Lib.Base C26.Model C26.Proofs C26.Proofs2 C26.Proofs3 C26.Proofs4 C26.Proofs5 C27.Model.
Local Open Scope N_scope.

(** ---- the pages of a table *)
Definition inpages (t : table) (x : page) : Prop := exists pid, In x (vget t pid).

Lemma inpages_abs t x : wf_table t -> inpages t x -> abs t (pg_pid x) (pg_vaddr x) = Some x.
Proof.
  intros W [pid Hin]. rewrite (vget_pid t pid x W Hin). unfold abs.
  apply l_find_in; [apply vget_nodup; exact W|exact Hin|reflexivity].
Qed.

Lemma abs_inpages t pid va x : abs t pid va = Some x -> inpages t x /\ pg_vaddr x = va.
Proof. unfold abs. intro H. apply l_find_some_in in H. destruct H. split; [exists pid; assumption|assumption]. Qed.

Lemma all_pages_inpages t x : wf_table t -> (In x (all_pages t) <-> inpages t x).
Proof.
  intro W. unfold all_pages, inpages. rewrite in_flat_map. split.
  - intros [[pid pt] [Hin Hx]]. cbn [snd] in Hx. exists pid.
    unfold vget, tview. rewrite (In_kget pid pt _ (wt_nodup t W) Hin). exact Hx.
  - intros [pid Hin]. unfold vget, tview in Hin. destruct (kget pid (tb_tabs t)) as [pt|] eqn:K; cbn [option_map] in Hin; [|destruct Hin].
    exists (pid, pt). split; [apply kget_In; exact K|exact Hin].
Qed.

(** the probe of allocatePhysicalPage: ReverseLookup misses iff no page has that PAddr *)
Lemma rev_none_iff o t c : wf_table t -> valid_oracle o ->
  (rev_lookup o t c = None <-> forall x, inpages t x -> pg_paddr x <> c).
Proof.
  intros W V. split.
  - intros R x Hx Hc.
    destruct (rev_complete o t c W V) as [q Hq]; [|congruence].
    exists (pg_pid x), (pg_vaddr x), x. split; [apply inpages_abs; assumption|exact Hc].
  - intro H. destruct (rev_lookup o t c) as [p|] eqn:R; [|reflexivity]. exfalso.
    destruct (rev_sound o t c p W R) as [Hpa Ha]. apply abs_inpages in Ha. apply (H p); tauto.
Qed.

(** ---- facts about the two page-table operations the MMU performs *)
Lemma find_step_facts o t pid va : wf_table t ->
  wf_table (fst (step o t (OFind pid va))) /\
  tb_log2 (fst (step o t (OFind pid va))) = tb_log2 t /\
  snd (step o t (OFind pid va)) = RFound (abs t pid (align (tb_log2 t) va)) /\
  forall i, vget (fst (step o t (OFind pid va))) i = vget t i.
Proof.
  intro W. destruct (step_wf o t (OFind pid va) W I) as [W1 L1].
  split; [exact W1|split; [exact L1|]]. rewrite find_step. cbn [fst snd]. split.
  - rewrite (find_result t pid _ W). reflexivity.
  - intro i. unfold vget at 1. rewrite (find_view t pid i).
    destruct (pid =? i) eqn:E; [|reflexivity]. assert (i = pid) by lia. subst. reflexivity.
Qed.

Lemma insert_step_facts o t p : wf_table t -> abs t (pg_pid p) (pg_vaddr p) = None ->
  snd (step o t (OInsert p)) = RUnit /\
  wf_table (fst (step o t (OInsert p))) /\
  tb_log2 (fst (step o t (OInsert p))) = tb_log2 t /\
  forall i, vget (fst (step o t (OInsert p))) i = if pg_pid p =? i then vget t (pg_pid p) ++ [p] else vget t i.
Proof.
  intros W A. cbn [step].
  destruct (with_tab_spec t (pg_pid p) _ _ W (insert_refines_l p) (l_insert_pid p)) as [W2 [L2 S]].
  unfold l_insert in S. unfold abs in A. rewrite A in S. destruct S as [Sr Sv].
  split; [exact Sr|split; [exact W2|split; [exact L2|]]].
  intro i. unfold vget at 1. rewrite (Sv i). destruct (pg_pid p =? i); reflexivity.
Qed.

(** ---- uniform frames *)
Definition frame (log2 : N) (x : page) : Prop :=
  pg_size x = 2 ^ log2 /\ pg_paddr x mod 2 ^ log2 = 0 /\ pg_vaddr x mod 2 ^ log2 = 0.

Definition key_eq (a b : page) : Prop := pg_pid a = pg_pid b /\ pg_vaddr a = pg_vaddr b.

(** physical ranges as sets of naturals *)
Definition disjoint (a q : page) : Prop :=
  pg_paddr a + pg_size a <= pg_paddr q \/ pg_paddr q + pg_size q <= pg_paddr a.

(** the frame [c, c + 2^log2) meets the physical range of [q] *)
Definition meets (log2 c : N) (q : page) : Prop := c < pg_paddr q + pg_size q /\ pg_paddr q < c + 2 ^ log2.

(** THE condition under which the equality probe of allocatePhysicalPage is enough: every frame
    (aligned address) that meets the physical range of a page of the table is the PAddr of some
    page of the table, so the probe never hands it out.  (Frames, empty pages, pages of the
    frame size at aligned addresses, larger pages all of whose frames are themselves mapped ... ) *)
Definition alias_ok (log2 : N) (t : table) : Prop :=
  forall q, inpages t q -> forall c, c mod 2 ^ log2 = 0 -> meets log2 c q ->
    exists q', inpages t q' /\ pg_paddr q' = c.

(** [A] = pages created by auto-allocation so far *)
Record tinv (pre : page -> Prop) (log2 : N) (A : list page) (t : table) : Prop := mk_tinv {
  ti_wf : wf_table t;
  ti_log2 : tb_log2 t = log2;
  ti_lt : log2 < 64;
  ti_alloc_in : forall a, In a A -> inpages t a;
  ti_aframe : forall a, In a A -> pg_size a = 2 ^ log2 /\ pg_paddr a mod 2 ^ log2 = 0;
  ti_cover : alias_ok log2 t;
  ti_disj : forall a q, In a A -> inpages t q -> ~ key_eq a q -> disjoint a q;
  (* every page of the table was pre-inserted or auto-allocated *)
  ti_origin : forall q, inpages t q -> In q A \/ pre q }.

Lemma aligned_apart g c c' : 0 < g -> c mod g = 0 -> c' mod g = 0 -> c <> c' -> c + g <= c' \/ c' + g <= c.
Proof.
  intros Hg H1 H2 Hne. apply N.mod_divide in H1; [|lia]. apply N.mod_divide in H2; [|lia].
  destruct H1 as [k1 ->]. destruct H2 as [k2 ->]. assert (k1 <> k2) by congruence. nia.
Qed.

(** the mappings of [t] are kept by [t'] *)
Definition ext (t t' : table) : Prop := forall pid va x, abs t pid va = Some x -> abs t' pid va = Some x.

Lemma ext_refl t : ext t t.
Proof. intros pid va x H. exact H. Qed.
Lemma ext_trans t1 t2 t3 : ext t1 t2 -> ext t2 t3 -> ext t1 t3.
Proof. intros H1 H2 pid va x H. apply H2, H1, H. Qed.

Lemma abs_vget_eq t t' : (forall i, vget t' i = vget t i) -> forall pid va, abs t' pid va = abs t pid va.
Proof. intros H pid va. unfold abs. rewrite H. reflexivity. Qed.

Lemma inpages_vget_eq t t' x : (forall i, vget t' i = vget t i) -> (inpages t' x <-> inpages t x).
Proof. intro H. unfold inpages. split; intros [pid Hin]; exists pid; [rewrite <- H|rewrite H]; exact Hin. Qed.

Lemma align_mod log2 a : log2 < 64 -> align log2 a mod 2 ^ log2 = 0.
Proof.
  intro H. unfold align. destruct (64 <=? log2) eqn:E; [lia|]. apply N.mod_mul.
  apply N.pow_nonzero. lia.
Qed.

Lemma psize_lt log2 : log2 < 64 -> psize log2 = 2 ^ log2.
Proof. intro H. unfold psize. destruct (64 <=? log2) eqn:E; [lia|reflexivity]. Qed.

(** allocatePhysicalPage returns an aligned frame address that no page of the table has *)
Lemma alloc_safe o log2 t : forall fuel next c n', log2 < 64 ->
  alloc fuel o log2 t next = Some (c, n') -> rev_lookup o t c = None /\ c mod 2 ^ log2 = 0.
Proof.
  induction fuel as [|f IH]; intros next c n' Hl; cbn [alloc]; [discriminate|].
  destruct (rev_lookup o t (align log2 next)) eqn:R.
  - apply IH. exact Hl.
  - intro H. inversion H; subst. split; [exact R|apply align_mod; exact Hl].
Qed.

(** ---- one resolve (finalizePageWalk up to the page) *)
Definition same_cfg (m m' : mmu) : Prop :=
  m_log2 m' = m_log2 m /\ m_lat m' = m_lat m /\ m_max m' = m_max m /\ m_auto m' = m_auto m /\
  m_cap m' = m_cap m /\ m_walks m' = m_walks m /\ m_in m' = m_in m /\ m_out m' = m_out m.

Lemma same_cfg_refl m : same_cfg m m.
Proof. repeat split. Qed.

Lemma resolve_spec pre o m q oc m' op : valid_oracle o -> m_auto m = true ->
  tinv pre (m_log2 m) (m_alloc m) (m_tab m) ->
  resolve o m q = (oc, m', op) ->
  (oc = Ok \/ oc = Hang) /\
  (oc = Ok -> exists x, op = Some x /\ same_cfg m m' /\
              tinv pre (m_log2 m) (m_alloc m') (m_tab m') /\ ext (m_tab m) (m_tab m') /\
              abs (m_tab m') (q_pid q) (align (m_log2 m) (q_va q)) = Some x) /\
  (oc <> Ok -> m' = m).
Proof.
  intros V Au T. unfold resolve.
  pose proof (ti_wf _ _ _ _ T) as W. pose proof (ti_log2 _ _ _ _ T) as L. pose proof (ti_lt _ _ _ _ T) as Hlt.
  destruct (find_step_facts o (m_tab m) (q_pid q) (q_va q) W) as [W1 [L1 [R1 V1]]].
  destruct (step o (m_tab m) (OFind (q_pid q) (q_va q))) as [t1 r]. cbn [fst snd] in W1, L1, R1, V1.
  rewrite L in R1. subst r.
  destruct (abs (m_tab m) (q_pid q) (align (m_log2 m) (q_va q))) as [x|] eqn:A.
  - (* found *)
    intro H. inversion H; subst. split; [left; reflexivity|split; [|congruence]].
    intros _. exists x. split; [reflexivity|]. cbn [m_alloc m_tab]. split; [unfold same_cfg; cbn; rewrite ?Au; repeat split|].
    split; [|split].
    + constructor; try assumption; try congruence.
      * intros a Ha. apply (inpages_vget_eq _ _ a V1). apply (ti_alloc_in _ _ _ _ T a Ha).
      * apply (ti_aframe _ _ _ _ T).
      * intros y Hy c Hc Hm. apply (inpages_vget_eq _ _ y V1) in Hy.
        destruct (ti_cover _ _ _ _ T y Hy c Hc Hm) as [q' [Hq' Hp]]. exists q'. split; [apply (inpages_vget_eq _ _ q' V1); exact Hq'|exact Hp].
      * intros a y Ha Hy. apply (ti_disj _ _ _ _ T a y Ha). apply (inpages_vget_eq _ _ y V1). exact Hy.
      * intros y Hy. apply (ti_origin _ _ _ _ T). apply (inpages_vget_eq _ _ y V1). exact Hy.
    + intros pid va y Hy. rewrite (abs_vget_eq _ _ V1). exact Hy.
    + rewrite (abs_vget_eq _ _ V1). exact A.
  - (* miss: allocate *)
    rewrite Au.
    destruct (alloc (alloc_fuel t1) o (m_log2 m) t1 (m_next m)) as [[c n']|] eqn:AL.
    + destruct (alloc_safe o (m_log2 m) t1 _ _ c n' Hlt AL) as [Rn Cm].
      pose proof (proj1 (rev_none_iff o t1 c W1 V) Rn) as Free.
      set (p := default_page (m_log2 m) (q_pid q) (q_va q) (q_dev q) c) in *.
      assert (A1 : abs t1 (pg_pid p) (pg_vaddr p) = None) by (rewrite (abs_vget_eq _ _ V1); exact A).
      destruct (insert_step_facts o t1 p W1 A1) as [R2 [W2 [L2 V2]]].
      destruct (step o t1 (OInsert p)) as [t2 r2]. cbn [fst snd] in R2, W2, L2, V2. subst r2.
      intro H. inversion H; subst. split; [left; reflexivity|split; [|congruence]].
      intros _. exists p. split; [reflexivity|]. cbn [m_alloc m_tab]. split; [unfold same_cfg; cbn; rewrite ?Au; repeat split|].
      assert (IP : forall y, inpages t2 y <-> y = p \/ inpages (m_tab m) y).
      { intro y. unfold inpages. split.
        - intros [i Hi]. rewrite V2 in Hi. destruct (pg_pid p =? i) eqn:E.
          + apply in_app_or in Hi. destruct Hi as [Hi|[<-|[]]]; [|left; reflexivity].
            right. exists (pg_pid p). rewrite <- V1. exact Hi.
          + right. exists i. rewrite <- V1. exact Hi.
        - intros [->|[i Hi]].
          + exists (pg_pid p). rewrite V2, N.eqb_refl. apply in_or_app. right. left. reflexivity.
          + exists i. rewrite V2. destruct (pg_pid p =? i) eqn:E.
            * assert (i = pg_pid p) by lia. subst i. apply in_or_app. left. rewrite V1. exact Hi.
            * rewrite V1. exact Hi. }
      assert (FreeM : forall y, inpages (m_tab m) y -> pg_paddr y <> c).
      { intros y Hy. apply Free. apply (inpages_vget_eq _ _ y V1). exact Hy. }
      split; [|split].
      * assert (Hpos : 0 < 2 ^ m_log2 m) by (apply N.neq_0_lt_0, N.pow_nonzero; lia).
        assert (Psz : pg_size p = 2 ^ m_log2 m) by (unfold p, default_page; cbn [pg_size]; apply psize_lt; exact Hlt).
        assert (Ppa : pg_paddr p = c) by reflexivity.
        constructor; try assumption; try congruence.
        -- intros a Ha. apply IP. apply in_app_or in Ha. destruct Ha as [Ha|[<-|[]]]; [right; apply (ti_alloc_in _ _ _ _ T a Ha)|left; reflexivity].
        -- intros a Ha. apply in_app_or in Ha. destruct Ha as [Ha|[<-|[]]]; [apply (ti_aframe _ _ _ _ T a Ha)|].
           split; [exact Psz|rewrite Ppa; exact Cm].
        -- (* the condition is inductive: the new page is a frame *)
           intros y Hy c' Hc' [M1 M2]. apply IP in Hy. destruct Hy as [->|Hy].
           ++ exists p. split; [apply IP; left; reflexivity|]. rewrite Ppa. rewrite Ppa, Psz in M1. rewrite Ppa in M2.
              destruct (N.eq_dec c c') as [E|E]; [exact E|exfalso].
              destruct (aligned_apart _ c c' Hpos Cm Hc' E); lia.
           ++ destruct (ti_cover _ _ _ _ T y Hy c' Hc' (conj M1 M2)) as [q' [Hq' Hp']].
              exists q'. split; [apply IP; right; exact Hq'|exact Hp'].
        -- intros a y Ha Hy Hk. apply IP in Hy. apply in_app_or in Ha.
           destruct Ha as [Ha|[<-|[]]]; destruct Hy as [->|Hy].
           ++ (* an older auto-allocated frame and the new one *)
              destruct (ti_aframe _ _ _ _ T a Ha) as [Sa Pa]. pose proof (FreeM a (ti_alloc_in _ _ _ _ T a Ha)) as Hf.
              unfold disjoint. rewrite Sa, Psz, Ppa. apply (aligned_apart _ _ _ Hpos Pa Cm Hf).
           ++ apply (ti_disj _ _ _ _ T a y Ha Hy Hk).
           ++ exfalso. apply Hk. split; reflexivity.
           ++ (* the new frame and an older page: an overlap would make the frame a mapped PAddr *)
              unfold disjoint. rewrite Psz, Ppa.
              destruct (N.le_gt_cases (c + 2 ^ m_log2 m) (pg_paddr y)) as [LL|G1]; [left; exact LL|].
              destruct (N.le_gt_cases (pg_paddr y + pg_size y) c) as [LL|G2]; [right; exact LL|exfalso].
              destruct (ti_cover _ _ _ _ T y Hy c Cm (conj G2 G1)) as [q' [Hq' Hp']]. apply (FreeM q' Hq' Hp').
        -- intros y Hy. apply IP in Hy. destruct Hy as [->|Hy]; [left; apply in_or_app; right; left; reflexivity|].
           destruct (ti_origin _ _ _ _ T y Hy) as [O|O]; [left; apply in_or_app; left; exact O|right; exact O].
      * intros pid va y Hy. unfold abs. rewrite V2. destruct (pg_pid p =? pid) eqn:E.
        -- assert (pid = pg_pid p) by lia. subst pid. rewrite l_find_app.
           fold (abs t1 (pg_pid p) va). rewrite (abs_vget_eq _ _ V1). rewrite Hy. reflexivity.
        -- fold (abs t1 pid va). rewrite (abs_vget_eq _ _ V1). exact Hy.
      * unfold abs. rewrite V2. change (pg_pid p) with (q_pid q). rewrite N.eqb_refl, l_find_app.
        fold (abs t1 (q_pid q) (align (m_log2 m) (q_va q))). rewrite (abs_vget_eq _ _ V1), A.
        change (pg_vaddr p) with (align (m_log2 m) (q_va q)). rewrite N.eqb_refl. reflexivity.
    + intro H. inversion H; subst. split; [right; reflexivity|split; [discriminate|reflexivity]].
Qed.
