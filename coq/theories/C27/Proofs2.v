(** C27 — proofs, part 2: the invariant through walkPageTable, Tick and scripted runs;
    termination of the allocation loop; the refutation witness. *)
From Coq Require Import Permutation.
From Akita Require Import Lib.Base C26.Model C26.Proofs C26.Proofs2 C26.Proofs3 C26.Proofs4 C26.Proofs5 C27.Model C27.Proofs.
Local Open Scope N_scope.

(** an answer is right when it goes back to the requester of a delivered request, with that
    request's id, and carries the page the table binds to the request's (process, virtual page) *)
Definition rsp_ok (log2 : N) (t : table) (qs : list req) (r : rsp) : Prop :=
  exists q, In q qs /\ r_to r = q_id q /\ r_dst r = q_src q /\
            abs t (q_pid q) (align log2 (q_va q)) = Some (r_page r).

Lemma rsp_ok_ext log2 t t' qs r : ext t t' -> rsp_ok log2 t qs r -> rsp_ok log2 t' qs r.
Proof. intros E [q [H1 [H2 [H3 H4]]]]. exists q. repeat split; try assumption. apply E. exact H4. Qed.

Section WithPre.
Variable pre : page -> Prop.

Record minv (qs : list req) (m : mmu) : Prop := mk_minv {
  mi_t : tinv pre (m_log2 m) (m_alloc m) (m_tab m);
  mi_auto : m_auto m = true;
  mi_out : forall r, In r (m_out m) -> rsp_ok (m_log2 m) (m_tab m) qs r;
  mi_in : forall q, In q (m_in m) -> In q qs;
  mi_walks : forall w, In w (m_walks m) -> In (w_req w) qs }.

(** everything but table, cursor, ghost and out buffer is untouched *)
Definition same0 (m m' : mmu) : Prop :=
  m_log2 m' = m_log2 m /\ m_lat m' = m_lat m /\ m_max m' = m_max m /\ m_auto m' = m_auto m /\
  m_cap m' = m_cap m /\ m_walks m' = m_walks m /\ m_in m' = m_in m.

Lemma same0_refl m : same0 m m.
Proof. repeat split. Qed.
Lemma same0_trans a b c : same0 a b -> same0 b c -> same0 a c.
Proof. unfold same0. intros (A1&A2&A3&A4&A5&A6&A7) (B1&B2&B3&B4&B5&B6&B7). repeat split; congruence. Qed.
Lemma same_cfg_same0 m m' : same_cfg m m' -> same0 m m'.
Proof. unfold same_cfg, same0. tauto. Qed.

Lemma walk_loop_spec o qs : valid_oracle o -> forall ws m oc keep pr m',
  minv qs m -> (forall w, In w ws -> In (w_req w) qs) ->
  walk_loop o ws m = (oc, keep, pr, m') ->
  (oc = Ok \/ oc = Hang) /\ minv qs m' /\ ext (m_tab m) (m_tab m') /\ same0 m m' /\
  (forall w, In w keep -> In (w_req w) qs).
Proof.
  intro V. induction ws as [|w r IH]; intros m oc keep pr m' M Hq; cbn [walk_loop].
  - intro H. inversion H; subst. split; [left; reflexivity|]. split; [exact M|]. split; [apply ext_refl|].
    split; [apply same0_refl|]. intros w [].
  - assert (Hr : forall w0, In w0 r -> In (w_req w0) qs) by (intros w0 H0; apply Hq; right; exact H0).
    destruct (0 <? w_cyc w)%Z.
    + destruct (walk_loop o r m) as [[[oc1 keep1] pr1] m1] eqn:WL. intro H. inversion H; subst.
      destruct (IH m oc keep1 pr1 m' M Hr WL) as [A [B [C [D E]]]].
      split; [exact A|split; [exact B|split; [exact C|split; [exact D|]]]].
      intros w0 [<-|H0]; [cbn [w_req]; apply Hq; left; reflexivity|apply E; exact H0].
    + destruct (resolve o m (w_req w)) as [[oc1 m1] op] eqn:R.
      destruct (resolve_spec pre o m (w_req w) oc1 m1 op V (mi_auto qs m M) (mi_t qs m M) R) as [Hoc [HOk HNot]].
      destruct oc1; try (destruct Hoc; discriminate).
      * (* Ok *)
        destruct (HOk eq_refl) as [x [-> [SC [T1 [E1 A1]]]]].
        pose proof (same_cfg_same0 m m1 SC) as S1. destruct SC as (c1&c2&c3&c4&c5&c6&c7&c8).
        assert (M1 : minv qs m1).
        { constructor.
          - rewrite c1. exact T1.
          - rewrite c4. apply (mi_auto qs m M).
          - intros r0 Hr0. rewrite c8 in Hr0. rewrite c1. apply (rsp_ok_ext _ _ _ _ _ E1). apply (mi_out qs m M r0 Hr0).
          - intros q Hq0. rewrite c7 in Hq0. apply (mi_in qs m M q Hq0).
          - intros w0 Hw0. rewrite c6 in Hw0. apply (mi_walks qs m M w0 Hw0). }
        destruct (can_send m1).
        -- set (m2 := set_out m1 (m_out m1 ++ [mk_rsp (q_id (w_req w)) (q_src (w_req w)) x])).
           assert (M2 : minv qs m2).
           { constructor; cbn [m2 set_out m_log2 m_alloc m_tab m_auto m_out m_in m_walks].
             - apply (mi_t qs m1 M1).
             - apply (mi_auto qs m1 M1).
             - intros r0 Hr0. apply in_app_or in Hr0. destruct Hr0 as [Hr0|[<-|[]]]; [apply (mi_out qs m1 M1 r0 Hr0)|].
               exists (w_req w). cbn [r_to r_dst r_page]. rewrite c1.
               split; [apply Hq; left; reflexivity|split; [reflexivity|split; [reflexivity|exact A1]]].
             - apply (mi_in qs m1 M1).
             - apply (mi_walks qs m1 M1). }
           destruct (walk_loop o r m2) as [[[oc2 keep2] pr2] m3] eqn:WL. intro H. inversion H; subst.
           destruct (IH m2 oc keep pr2 m' M2 Hr WL) as [A [B [C [D E]]]].
           split; [exact A|split; [exact B|split; [|split; [|exact E]]]].
           ++ eapply ext_trans; [exact E1|exact C].
           ++ eapply same0_trans; [exact S1|]. eapply same0_trans; [|exact D]. repeat split.
        -- destruct (walk_loop o r m1) as [[[oc2 keep2] pr2] m3] eqn:WL. intro H. inversion H; subst.
           destruct (IH m1 oc keep2 pr m' M1 Hr WL) as [A [B [C [D E]]]].
           split; [exact A|split; [exact B|split; [|split]]].
           ++ eapply ext_trans; [exact E1|exact C].
           ++ eapply same0_trans; [exact S1|exact D].
           ++ intros w0 [<-|H0]; [apply Hq; left; reflexivity|apply E; exact H0].
      * (* Hang *)
        rewrite (HNot ltac:(discriminate)). intro H. inversion H; subst.
        split; [right; reflexivity|split; [exact M|split; [apply ext_refl|split; [apply same0_refl|exact Hq]]]].
Qed.

Lemma parse_top_spec qs m pr m' : minv qs m -> parse_top m = (pr, m') ->
  minv qs m' /\ m_tab m' = m_tab m /\ m_log2 m' = m_log2 m.
Proof.
  intros M. unfold parse_top. destruct (m_in m) as [|q rest] eqn:I.
  - intro H. inversion H; subst. tauto.
  - destruct (m_max m <=? Z.of_nat (length (m_walks m)))%Z.
    + intro H. inversion H; subst. tauto.
    + intro H. inversion H; subst. split; [|split; reflexivity].
      constructor; cbn [set_walks set_in m_log2 m_alloc m_tab m_auto m_out m_in m_walks].
      * apply (mi_t qs m M).
      * apply (mi_auto qs m M).
      * apply (mi_out qs m M).
      * intros q0 H0. apply (mi_in qs m M). rewrite I. right. exact H0.
      * intros w Hw. apply in_app_or in Hw. destruct Hw as [Hw|[<-|[]]]; [apply (mi_walks qs m M w Hw)|].
        cbn [w_req]. apply (mi_in qs m M). rewrite I. left. reflexivity.
Qed.

Lemma tick_spec o qs m oc pr m' : valid_oracle o -> minv qs m -> tick o m = (oc, pr, m') ->
  (oc = Ok \/ oc = Hang) /\ minv qs m' /\ ext (m_tab m) (m_tab m') /\ m_log2 m' = m_log2 m.
Proof.
  intros V M. unfold tick.
  destruct (walk_loop o (m_walks m) m) as [[[oc1 keep] pr1] m1] eqn:WL.
  destruct (walk_loop_spec o qs V _ _ _ _ _ _ M (mi_walks qs m M) WL) as [A [B [C [D E]]]].
  destruct D as (d1&d2&d3&d4&d5&d6&d7).
  destruct oc1.
  - assert (Mk : minv qs (set_walks m1 keep)).
    { constructor; cbn [set_walks m_log2 m_alloc m_tab m_auto m_out m_in m_walks].
      - apply (mi_t qs m1 B). - apply (mi_auto qs m1 B). - apply (mi_out qs m1 B). - apply (mi_in qs m1 B). - exact E. }
    destruct (parse_top (set_walks m1 keep)) as [pr2 m2] eqn:P. intro H. inversion H; subst.
    destruct (parse_top_spec qs _ _ _ Mk P) as [M2 [T2 L2]].
    split; [left; reflexivity|split; [exact M2|split]].
    + rewrite T2. exact C.
    + rewrite L2. exact d1.
  - intro H. inversion H; subst. destruct A; discriminate.
  - intro H. inversion H; subst. destruct A; discriminate.
  - intro H. inversion H; subst. split; [right; reflexivity|split; [exact B|split; [exact C|exact d1]]].
Qed.

Lemma deliver_spec qs new : forall m, minv qs m -> (forall q, In q new -> In q qs) ->
  minv qs (deliver m new) /\ m_tab (deliver m new) = m_tab m /\ m_log2 (deliver m new) = m_log2 m.
Proof.
  unfold deliver. induction new as [|q r IH]; intros m M Hq; cbn [fold_left]; [tauto|].
  assert (Hr : forall q0, In q0 r -> In q0 qs) by (intros q0 H0; apply Hq; right; exact H0).
  destruct (N.of_nat (length (m_in m)) <? m_cap m).
  - assert (M1 : minv qs (set_in m (m_in m ++ [q]))).
    { constructor; cbn [set_in m_log2 m_alloc m_tab m_auto m_out m_in m_walks].
      - apply (mi_t qs m M). - apply (mi_auto qs m M). - apply (mi_out qs m M).
      - intros q0 H0. apply in_app_or in H0. destruct H0 as [H0|[<-|[]]]; [apply (mi_in qs m M q0 H0)|apply Hq; left; reflexivity].
      - apply (mi_walks qs m M). }
    destruct (IH _ M1 Hr) as [A [B C]]. split; [exact A|split; [rewrite B|rewrite C]; reflexivity].
  - apply IH; assumption.
Qed.

Lemma In_skipn_incl {A} (n : nat) (l : list A) x : In x (skipn n l) -> In x l.
Proof. intro H. rewrite <- (firstn_skipn n l). apply in_or_app. right. exact H. Qed.
Lemma In_firstn_incl {A} (n : nat) (l : list A) x : In x (firstn n l) -> In x l.
Proof. intro H. rewrite <- (firstn_skipn n l). apply in_or_app. left. exact H. Qed.

Lemma env_step_spec o qs m new n oc m' ob : valid_oracle o -> minv qs m ->
  (forall q, In q new -> In q qs) -> env_step o m new n = (oc, m', ob) ->
  (oc = Ok \/ oc = Hang) /\ minv qs m' /\ ext (m_tab m) (m_tab m') /\ m_log2 m' = m_log2 m /\
  (forall r, In r (to_rsps ob) -> rsp_ok (m_log2 m) (m_tab m') qs r).
Proof.
  intros V M Hq. unfold env_step.
  destruct (deliver_spec qs new m M Hq) as [M0 [T0 L0]].
  destruct (tick o (deliver m new)) as [[oc1 pr] m1] eqn:TK.
  destruct (tick_spec o qs _ _ _ _ V M0 TK) as [A [B [C D]]].
  intro H. inversion H; subst. cbn [to_rsps set_out m_tab m_log2].
  split; [exact A|split; [|split; [rewrite <- T0; exact C|split; [congruence|]]]].
  - constructor; cbn [set_out m_log2 m_alloc m_tab m_auto m_out m_in m_walks].
    + apply (mi_t qs m1 B). + apply (mi_auto qs m1 B).
    + intros r Hr. apply (mi_out qs m1 B). apply (In_skipn_incl _ _ _ Hr).
    + apply (mi_in qs m1 B). + apply (mi_walks qs m1 B).
  - intros r Hr. rewrite <- L0, <- D. apply (mi_out qs m1 B). apply (In_firstn_incl _ _ _ Hr).
Qed.

Lemma env_run_spec o qs : valid_oracle o -> forall script m oc m' obs,
  minv qs m -> (forall st q, In st script -> In q (fst st) -> In q qs) ->
  env_run o m script = (oc, m', obs) ->
  (oc = Ok \/ oc = Hang) /\ minv qs m' /\ ext (m_tab m) (m_tab m') /\ m_log2 m' = m_log2 m /\
  (forall ob r, In ob obs -> In r (to_rsps ob) -> rsp_ok (m_log2 m) (m_tab m') qs r).
Proof.
  intro V. induction script as [|[new n] rest IH]; intros m oc m' obs M Hq; cbn [env_run].
  - intro H. inversion H; subst. split; [left; reflexivity|split; [exact M|split; [apply ext_refl|split; [reflexivity|]]]].
    intros ob r [].
  - destruct (env_step o m new n) as [[oc1 m1] ob1] eqn:ES.
    assert (Hn : forall q, In q new -> In q qs) by (intros q Hin; apply (Hq (new, n) q); [left; reflexivity|exact Hin]).
    destruct (env_step_spec o qs m new n oc1 m1 ob1 V M Hn ES) as [A [B [C [D E]]]].
    destruct oc1.
    + destruct (env_run o m1 rest) as [[oc2 m2] obs2] eqn:ER. intro H. inversion H; subst.
      assert (Hrest : forall st q, In st rest -> In q (fst st) -> In q qs) by (intros st q H1 H2; apply (Hq st q); [right; exact H1|exact H2]).
      destruct (IH m1 oc m' obs2 B Hrest ER) as [A2 [B2 [C2 [D2 E2]]]].
      split; [exact A2|split; [exact B2|split; [eapply ext_trans; eassumption|split; [congruence|]]]].
      intros ob r [<-|Hob] Hr.
      * apply (rsp_ok_ext _ _ _ _ _ C2). apply E. exact Hr.
      * rewrite <- D. apply (E2 ob r Hob Hr).
    + destruct A; discriminate.
    + destruct A; discriminate.
    + intro H. inversion H; subst. split; [right; reflexivity|split; [exact B|split; [exact C|split; [exact D|]]]].
      intros ob r [].
Qed.

End WithPre.

(** ---- the allocation loop terminates (while the cursor does not wrap) *)
Definition above (c : N) (l : list page) : nat := length (filter (fun x => c <=? pg_paddr x) l).

Lemma above_lt c c' l x : c < c' -> In x l -> pg_paddr x = c -> (above c' l < above c l)%nat.
Proof.
  intros Hc Hin Hx. unfold above. induction l as [|y r IH]; [destruct Hin|].
  cbn [filter]. destruct Hin as [->|Hin].
  - assert (c' <=? pg_paddr x = false) as -> by lia. assert (c <=? pg_paddr x = true) as -> by lia.
    cbn [length]. apply Nat.lt_succ_r.
    clear IH. induction r as [|z r IHr]; cbn [filter length]; [lia|].
    destruct (c' <=? pg_paddr z) eqn:E1.
    + assert (c <=? pg_paddr z = true) as -> by lia. cbn [length]. lia.
    + destruct (c <=? pg_paddr z); cbn [length]; lia.
  - specialize (IH Hin). destruct (c' <=? pg_paddr y) eqn:E1.
    + assert (c <=? pg_paddr y = true) as -> by lia. cbn [length]. lia.
    + destruct (c <=? pg_paddr y); cbn [length]; lia.
Qed.

Lemma above_le c l : (above c l <= length l)%nat.
Proof.
  unfold above. induction l as [|y r IH]; cbn [filter length]; [lia|].
  destruct (c <=? pg_paddr y); cbn [length]; lia.
Qed.

Lemma align_step log2 x : log2 < 64 -> align log2 (x + 2 ^ log2) = align log2 x + 2 ^ log2.
Proof.
  intro H. unfold align. destruct (64 <=? log2) eqn:E; [lia|].
  assert (2 ^ log2 <> 0) as Hnz by (apply N.pow_nonzero; lia).
  replace (x + 2 ^ log2) with (x + 1 * 2 ^ log2) by lia. rewrite N.div_add by exact Hnz. lia.
Qed.

Lemma align_le log2 x : align log2 x <= x.
Proof.
  unfold align. destruct (64 <=? log2); [lia|].
  assert (2 ^ log2 <> 0) as Hnz by (apply N.pow_nonzero; lia).
  rewrite N.mul_comm. apply N.mul_div_le. exact Hnz.
Qed.

Lemma alloc_terminates_gen o log2 t : wf_table t -> valid_oracle o -> log2 < 64 ->
  forall fuel next, (above (align log2 next) (all_pages t) < fuel)%nat ->
  next + N.of_nat fuel * 2 ^ log2 <= two64 ->
  exists r, alloc fuel o log2 t next = Some r.
Proof.
  intros W V Hl. induction fuel as [|f IH]; intros next Hm Hw; [lia|].
  cbn [alloc]. destruct (rev_lookup o t (align log2 next)) as [x|] eqn:R; [|eauto].
  destruct (rev_sound o t _ x W R) as [Hpa Ha]. apply abs_inpages in Ha. destruct Ha as [Hin _].
  apply (all_pages_inpages t x W) in Hin.
  assert (0 < 2 ^ log2) as Hpos by (apply N.neq_0_lt_0, N.pow_nonzero; lia).
  assert (f <> O) as Hf.
  { intro; subst f. pose proof (above_lt (align log2 next) (align log2 next + 1) _ x ltac:(lia) Hin Hpa). lia. }
  rewrite (psize_lt log2 Hl).
  assert (next + 2 ^ log2 < two64) as Hs by nia.
  rewrite (w64_small _ Hs). apply IH.
  - rewrite (align_step log2 next Hl).
    pose proof (above_lt (align log2 next) (align log2 next + 2 ^ log2) _ x ltac:(lia) Hin Hpa). lia.
  - nia.
Qed.
