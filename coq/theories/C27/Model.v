(** C27 — executable model of the MMU translation middleware (mem/vm/mmu/translationmw.go):
    walkPageTable / finalizePageWalk / doPageWalkHit / parseFromTop / startWalking /
    createDefaultPage / allocatePhysicalPage, on top of the C26 page-table model, driven
    tick by tick through the component's real Top port (bounded incoming/outgoing buffers).

    The MMU is Enabled for the whole run (no control traffic), so ctrlMiddleware.Tick is a no-op.
    The unbounded `for` loop of allocatePhysicalPage takes fuel; running out of fuel is the
    explicit outcome [None] ("does not return").  uint64 arithmetic wraps ([w64]). *)
From Akita Require Import Lib.Base C26.Model.
Local Open Scope N_scope.

Record req := mk_req { q_id : N; q_src : N; q_pid : N; q_va : N; q_dev : N }.
Record rsp := mk_rsp { r_to : N; r_dst : N; r_page : page }.

(** transactionState (fields that influence behaviour; Page is recomputed on every retry) *)
Record walk := mk_walk { w_req : req; w_cyc : Z }.

Record mmu := mk_mmu {
  m_log2 : N;          (* Spec.Log2PageSize (= the page table's, checked by the builder) *)
  m_lat : Z;           (* Spec.Latency (int) *)
  m_max : Z;           (* Spec.MaxRequestsInFlight (int) *)
  m_auto : bool;       (* Spec.AutoPageAllocation *)
  m_cap : N;           (* Top port buffer capacity (incoming and outgoing) *)
  m_next : N;          (* State.NextPhysicalPage *)
  m_walks : list walk; (* State.WalkingTranslations *)
  m_tab : table;       (* the shared page table *)
  m_in : list req;     (* Top incoming buffer *)
  m_out : list rsp;    (* Top outgoing buffer *)
  m_alloc : list page  (* ghost: pages created by auto-allocation, oldest first *)
}.

(** uint64(1) << log2 *)
Definition psize (log2 : N) : N := if 64 <=? log2 then 0 else 2 ^ log2.

(** allocatePhysicalPage: returns (frame, new cursor). *)
Fixpoint alloc (fuel : nat) (o : oracle) (log2 : N) (t : table) (next : N) : option (N * N) :=
  match fuel with
  | O => None
  | S f =>
      let cand := align log2 next in
      match rev_lookup o t cand with
      | None => Some (cand, w64 (cand + psize log2))
      | Some _ => alloc f o log2 t (w64 (next + psize log2))
      end
  end.

Definition all_pages (t : table) : list page := flat_map (fun e => pt_pages (snd e)) (tb_tabs t).

(** enough fuel: one more than the number of pages in the table (see [alloc_terminates]) *)
Definition alloc_fuel (t : table) : nat := S (length (all_pages t)).

(** createDefaultPage: Valid and Unified set (flags bit0 | bit1). *)
Definition default_page (log2 pid va dev pa : N) : page :=
  mk_page pid pa (align log2 va) (psize log2) dev 3.

Inductive outcome := Ok | PanicNotFound | PanicInsert | Hang.

(** finalizePageWalk up to the page: Find, and on a miss allocate + Insert. *)
Definition resolve (o : oracle) (m : mmu) (q : req) : outcome * mmu * option page :=
  let '(t1, r) := step o (m_tab m) (OFind (q_pid q) (q_va q)) in
  match r with
  | RFound (Some p) =>
      (Ok, mk_mmu (m_log2 m) (m_lat m) (m_max m) (m_auto m) (m_cap m) (m_next m) (m_walks m) t1 (m_in m) (m_out m) (m_alloc m), Some p)
  | _ =>
      if m_auto m then
        match alloc (alloc_fuel t1) o (m_log2 m) t1 (m_next m) with
        | None => (Hang, m, None)
        | Some (pa, next') =>
            let p := default_page (m_log2 m) (q_pid q) (q_va q) (q_dev q) pa in
            let '(t2, r2) := step o t1 (OInsert p) in
            match r2 with
            | RUnit =>
                (Ok, mk_mmu (m_log2 m) (m_lat m) (m_max m) (m_auto m) (m_cap m) next' (m_walks m) t2 (m_in m) (m_out m)
                       (m_alloc m ++ [p]), Some p)
            | _ => (PanicInsert, m, None)
            end
        end
      else (PanicNotFound, m, None)
  end.

Definition can_send (m : mmu) : bool := N.of_nat (length (m_out m)) <? m_cap m.

Definition set_out (m : mmu) (out : list rsp) : mmu :=
  mk_mmu (m_log2 m) (m_lat m) (m_max m) (m_auto m) (m_cap m) (m_next m) (m_walks m) (m_tab m) (m_in m) out (m_alloc m).
Definition set_walks (m : mmu) (ws : list walk) : mmu :=
  mk_mmu (m_log2 m) (m_lat m) (m_max m) (m_auto m) (m_cap m) (m_next m) ws (m_tab m) (m_in m) (m_out m) (m_alloc m).
Definition set_in (m : mmu) (i : list req) : mmu :=
  mk_mmu (m_log2 m) (m_lat m) (m_max m) (m_auto m) (m_cap m) (m_next m) (m_walks m) (m_tab m) i (m_out m) (m_alloc m).

(** walkPageTable: the loop over the walking translations, front to back.  Returns the
    translations that stay, the progress flag and the updated MMU (table, cursor, out buffer). *)
Fixpoint walk_loop (o : oracle) (ws : list walk) (m : mmu) : outcome * list walk * bool * mmu :=
  match ws with
  | [] => (Ok, [], false, m)
  | w :: r =>
      if (0 <? w_cyc w)%Z then
        let '(oc, keep, pr, m') := walk_loop o r m in
        (oc, mk_walk (w_req w) (w_cyc w - 1) :: keep, true, m')
      else
        match resolve o m (w_req w) with
        | (Ok, m1, Some p) =>
            if can_send m1 then
              let m2 := set_out m1 (m_out m1 ++ [mk_rsp (q_id (w_req w)) (q_src (w_req w)) p]) in
              let '(oc, keep, pr, m') := walk_loop o r m2 in
              (oc, keep, true, m')
            else
              let '(oc, keep, pr, m') := walk_loop o r m1 in
              (oc, w :: keep, pr, m')
        | (oc, m1, _) => (oc, w :: r, false, m1)
        end
  end.

(** parseFromTop + startWalking: at most one request per tick. *)
Definition parse_top (m : mmu) : bool * mmu :=
  match m_in m with
  | [] => (false, m)
  | q :: rest =>
      if (m_max m <=? Z.of_nat (length (m_walks m)))%Z then (false, m)
      else (true, set_walks (set_in m rest) (m_walks m ++ [mk_walk q (m_lat m)]))
  end.

(** translationMW.Tick *)
Definition tick (o : oracle) (m : mmu) : outcome * bool * mmu :=
  let '(oc, keep, pr1, m1) := walk_loop o (m_walks m) m in
  match oc with
  | Ok =>
      let '(pr2, m2) := parse_top (set_walks m1 keep) in
      (Ok, pr1 || pr2, m2)
  | _ => (oc, pr1, m1)
  end.

(** One scripted instant of the environment: deliver requests into Top (those that fit),
    tick the component, drain up to [n] responses from Top's outgoing buffer. *)
Definition deliver (m : mmu) (qs : list req) : mmu :=
  fold_left (fun m q => if N.of_nat (length (m_in m)) <? m_cap m then set_in m (m_in m ++ [q]) else m) qs m.

Record tick_obs := mk_tobs { to_progress : bool; to_rsps : list rsp; to_next : N; to_walking : N }.

Definition env_step (o : oracle) (m : mmu) (qs : list req) (n : nat) : outcome * mmu * tick_obs :=
  let m0 := deliver m qs in
  let '(oc, pr, m1) := tick o m0 in
  let out := firstn n (m_out m1) in
  let m2 := set_out m1 (skipn n (m_out m1)) in
  (oc, m2, mk_tobs pr out (m_next m1) (N.of_nat (length (m_walks m1)))).

Fixpoint env_run (o : oracle) (m : mmu) (script : list (list req * nat)) : outcome * mmu * list tick_obs :=
  match script with
  | [] => (Ok, m, [])
  | (qs, n) :: r =>
      match env_step o m qs n with
      | (Ok, m1, ob) => let '(oc, m2, obs) := env_run o m1 r in (oc, m2, ob :: obs)
      | (oc, m1, ob) => (oc, m1, [])
      end
  end.

Definition mmu_init (log2 : N) (lat mx : Z) (auto : bool) (cap : N) (t : table) : mmu :=
  mk_mmu log2 lat mx auto cap 0 [] t [] [] [].
