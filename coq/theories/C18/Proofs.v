(** C18 — what an accepted history satisfies (soundness of the acceptor, clause by clause). *)
From Akita Require Import Lib.Base C18.Model.
Local Open Scope N_scope.

(* ------------------------------------------------------------------ projections of a history *)
Fixpoint ctrls (tr : list ev) : list (N * N) :=
  match tr with
  | [] => []
  | ECtrl id c :: r => (id, c) :: ctrls r
  | _ :: r => ctrls r
  end.
Fixpoint rsps (tr : list ev) : list (N * N) :=
  match tr with
  | [] => []
  | ERsp c rt _ _ :: r => (rt, c) :: rsps r
  | _ :: r => rsps r
  end.

(** the control mode as determined by the successful acknowledgements alone *)
Definition mode_step (m : mode) (e : ev) : mode :=
  match e with
  | ERsp c _ true _ =>
      if (c =? cPause) || (c =? cDrain) then Paused
      else if (c =? cEnable) || (c =? cReset) then Enabled else m
  | _ => m
  end.
Definition mode_from (m : mode) (tr : list ev) : mode := fold_left mode_step tr m.

(* ------------------------------------------------------------------ running *)
Lemma arun_app M tr1 tr2 a :
  arun M a (tr1 ++ tr2) = match arun M a tr1 with Some a' => arun M a' tr2 | None => None end.
Proof.
  revert a; induction tr1 as [|e r IH]; intro a; cbn [app arun]; [reflexivity|].
  destruct (astep M a e); [apply IH|reflexivity].
Qed.

Lemma accepts_split M pre e post : accepts M (pre ++ e :: post) = true ->
  exists a a' a'', arun M ast0 pre = Some a /\ astep M a e = Some a' /\ arun M a' post = Some a''.
Proof.
  unfold accepts. rewrite arun_app. destruct (arun M ast0 pre) as [a|]; [|discriminate].
  cbn [arun]. destruct (astep M a e) as [a'|] eqn:E; [|discriminate].
  destruct (arun M a' post) as [a''|] eqn:F; [|discriminate]. intros _. eauto 7.
Qed.

(** shape of an accepted control response *)
Lemma on_rsp_some M a c rt ok err a' : on_rsp M a c rt ok err = Some a' ->
  a_want a = None /\
  exists rest, a_fifo a = (rt, c) :: rest /\ a_fifo a' = rest /\ a_seen a' = a_seen a /\
  ((supports M c = false /\ ok = false /\ err = eUnsupported /\ a_mode a' = a_mode a /\
      a_live a' = a_live a /\ a_want a' = None) \/
   (supports M c = true /\ err <> eUnsupported /\
    (((c = cInvalidate \/ c = cFlush) /\ a_mode a' = a_mode a /\ a_live a' = a_live a /\ a_want a' = None /\
        ((a_mode a = Enabled /\ ok = false /\ err = eMustBePaused) \/
         (a_mode a = Paused /\ ok = true /\ err = eNone))) \/
     (ok = true /\ err = eNone /\
        ((c = cPause /\ a_mode a' = Paused /\ a_live a' = a_live a /\ a_want a' = None) \/
         (c = cDrain /\ a_mode a' = Paused /\ a_live a' = a_live a /\ a_want a' = Some (true, true)) \/
         (c = cEnable /\ a_mode a' = Enabled /\ a_live a' = a_live a /\ a_want a' = None) \/
         (c = cReset /\ a_mode a' = Enabled /\ a_live a' = [] /\ a_want a' = Some (true, false))))))).
Proof.
  unfold on_rsp. destruct (a_want a) eqn:W; [discriminate|].
  destruct (a_fifo a) as [|[id c0] rest] eqn:F; [discriminate|].
  destruct ((id =? rt) && (c0 =? c)) eqn:E; [|discriminate].
  apply andb_true_iff in E. destruct E as [E1 E2]. apply N.eqb_eq in E1, E2. subst id c0.
  intro H. split; [reflexivity|]. exists rest. split; [reflexivity|].
  destruct (supports M c) eqn:S; cbn [negb] in H.
  - destruct ((c =? cInvalidate) || (c =? cFlush)) eqn:IF.
    + assert (c = cInvalidate \/ c = cFlush) as CC
        by (apply orb_true_iff in IF; destruct IF as [Q|Q]; apply N.eqb_eq in Q; auto).
      destruct (a_mode a) eqn:Md.
      * destruct (negb ok && (err =? eMustBePaused)) eqn:Q; [|discriminate].
        apply andb_true_iff in Q. destruct Q as [Q1 Q2]. apply N.eqb_eq in Q2.
        inversion H; subst a'; cbn. repeat split; auto. right. split; [reflexivity|].
        split; [unfold eMustBePaused, eUnsupported in *; lia|]. left. repeat split; auto. left.
        destruct ok; [discriminate|auto].
      * destruct (ok && (err =? eNone)) eqn:Q; [|discriminate].
        apply andb_true_iff in Q. destruct Q as [Q1 Q2]. apply N.eqb_eq in Q2.
        inversion H; subst a'; cbn. repeat split; auto. right. split; [reflexivity|].
        split; [unfold eNone, eUnsupported in *; lia|]. left. repeat split; auto.
    + destruct (ok && (err =? eNone)) eqn:Q; [|discriminate].
      apply andb_true_iff in Q. destruct Q as [Q1 Q2]. apply N.eqb_eq in Q2. subst ok.
      assert (err <> eUnsupported) by (unfold eNone, eUnsupported in *; lia).
      destruct (c =? cPause) eqn:C0.
      { apply N.eqb_eq in C0. inversion H; subst a'; cbn. repeat split; auto.
        right. repeat split; auto. right. repeat split; auto. }
      destruct (c =? cDrain) eqn:C1.
      { apply N.eqb_eq in C1. inversion H; subst a'; cbn. repeat split; auto.
        right. repeat split; auto. right. repeat split; auto. right; left. auto. }
      destruct (c =? cEnable) eqn:C2.
      { apply N.eqb_eq in C2. inversion H; subst a'; cbn. repeat split; auto.
        right. repeat split; auto. right. repeat split; auto. right; right; left. auto. }
      destruct (c =? cReset) eqn:C3; [|discriminate].
      apply N.eqb_eq in C3. inversion H; subst a'; cbn. repeat split; auto.
      right. repeat split; auto. right. repeat split; auto. right; right; right. auto.
  - destruct (negb ok && (err =? eUnsupported)) eqn:Q; [|discriminate].
    apply andb_true_iff in Q. destruct Q as [Q1 Q2]. apply N.eqb_eq in Q2.
    inversion H; subst a'; cbn. repeat split; auto. left. repeat split; auto.
    destruct ok; [discriminate|reflexivity].
Qed.

(* ------------------------------------------------------------------ clause 1: responses answer the FIFO *)
Lemma fifo_inv M tr : forall a a', arun M a tr = Some a' ->
  rsps tr ++ a_fifo a' = a_fifo a ++ ctrls tr.
Proof.
  induction tr as [|e r IH]; intros a a' H; cbn [arun] in H.
  - inversion H; subst. cbn. rewrite app_nil_r. reflexivity.
  - destruct (astep M a e) as [a1|] eqn:S; [|discriminate]. specialize (IH _ _ H).
    destruct e; cbn [astep] in S; cbn [rsps ctrls].
    + destruct (a_want a); [discriminate|]. inversion S; subst a1. cbn [a_fifo] in IH.
      rewrite IH, <- app_assoc. reflexivity.
    + destruct (on_rsp_some _ _ _ _ _ _ _ S) as [_ [rest [F [F' _]]]].
      rewrite F. cbn [app]. rewrite <- F', IH. reflexivity.
    + destruct (a_want a); [discriminate|]. destruct (memN id (a_seen a)); [discriminate|].
      inversion S; subst a1. exact IH.
    + destruct (a_want a); [discriminate|].
      destruct (may_respond M a && memN rspTo (a_live a)); [|discriminate].
      inversion S; subst a1. exact IH.
    + destruct (a_want a) as [[q' p']|]; [|discriminate].
      destruct (Bool.eqb quiescent q' && Bool.eqb paused p'); [|discriminate].
      inversion S; subst a1. exact IH.
    + destruct (a_want a); [|discriminate]. inversion S; subst a1. exact IH.
    + destruct (a_want a); [discriminate|]. destruct (a_fifo a) eqn:F; [|discriminate].
      destruct (a_mode a); [destruct (a_live a); [|discriminate]|]; inversion S; subst a1; rewrite F in IH; exact IH.
Qed.

Lemma end_fifo_empty M a a' : astep M a EEnd = Some a' -> a_fifo a' = [] /\ a' = a /\
  (a_mode a = Enabled -> a_live a = []).
Proof.
  cbn [astep]. destruct (a_want a); [discriminate|]. destruct (a_fifo a) eqn:F; [|discriminate].
  destruct (a_mode a); [destruct (a_live a) eqn:L; [|discriminate]|]; intro H; inversion H; subst a'; auto.
  split; [exact F|]. split; [reflexivity|]. discriminate.
Qed.

(* ------------------------------------------------------------------ mode *)
Lemma mode_inv M tr : forall a a', arun M a tr = Some a' -> a_mode a' = mode_from (a_mode a) tr.
Proof.
  induction tr as [|e r IH]; intros a a' H; cbn [arun] in H; [inversion H; reflexivity|].
  destruct (astep M a e) as [a1|] eqn:S; [|discriminate]. rewrite (IH _ _ H).
  unfold mode_from. cbn [fold_left]. f_equal.
  destruct e; cbn [astep mode_step] in *.
  - destruct (a_want a); [discriminate|]. inversion S; reflexivity.
  - destruct (on_rsp_some _ _ _ _ _ _ _ S) as [_ [rest [_ [_ [_ Cs]]]]].
    destruct Cs as [[_ [-> [_ [Md _]]]]|[_ [_ [[CC [Md [_ [_ Q]]]]|[-> [_ Q]]]]]].
    + exact Md.
    + rewrite Md. destruct ok; [|reflexivity].
      destruct CC as [->| ->]; reflexivity.
    + destruct Q as [[-> [Md _]]|[[-> [Md _]]|[[-> [Md _]]|[-> [Md _]]]]]; rewrite Md; reflexivity.
  - destruct (a_want a); [discriminate|]. destruct (memN id (a_seen a)); [discriminate|]. inversion S; reflexivity.
  - destruct (a_want a); [discriminate|].
    destruct (may_respond M a && memN rspTo (a_live a)); [|discriminate]. inversion S; reflexivity.
  - destruct (a_want a) as [[q' p']|]; [|discriminate].
    destruct (Bool.eqb quiescent q' && Bool.eqb paused p'); [|discriminate]. inversion S; reflexivity.
  - destruct (a_want a); [|discriminate]. inversion S; reflexivity.
  - destruct (end_fifo_empty M _ _ S) as [_ [-> _]]. reflexivity.
Qed.

(* ------------------------------------------------------------------ data bookkeeping *)
Lemma memN_In x l : memN x l = true <-> In x l.
Proof.
  unfold memN. rewrite existsb_exists. split.
  - intros [y [H E]]. apply N.eqb_eq in E. subst. exact H.
  - intro H. exists x. split; [exact H|apply N.eqb_refl].
Qed.

Lemma remove1_subset x y l : In y (remove1 x l) -> In y l.
Proof.
  induction l as [|z r IH]; cbn [remove1]; [auto|]. destruct (x =? z); cbn; intuition.
Qed.

Lemma remove1_nodup_notin x l : NoDup l -> ~ In x (remove1 x l).
Proof.
  induction l as [|z r IH]; cbn [remove1]; intro ND; [auto|].
  inversion ND as [|? ? Hz Hr]; subst. destruct (x =? z) eqn:E.
  - apply N.eqb_eq in E. subst. exact Hz.
  - apply N.eqb_neq in E. intros [Q|Q]; [congruence|]. exact (IH Hr Q).
Qed.

Lemma remove1_nodup x l : NoDup l -> NoDup (remove1 x l).
Proof.
  induction l as [|z r IH]; cbn [remove1]; intro ND; [constructor|].
  inversion ND as [|? ? Hz Hr]; subst. destruct (x =? z); [exact Hr|].
  constructor; [intro Q; apply Hz; eapply remove1_subset; eauto|auto].
Qed.

Lemma remove1_keeps x y l : x <> y -> In y l -> In y (remove1 x l).
Proof.
  intros NE. induction l as [|z r IH]; cbn [remove1]; [auto|].
  destruct (x =? z) eqn:E.
  - apply N.eqb_eq in E. subst z. intros [Q|Q]; [congruence|exact Q].
  - intros [Q|Q]; [left; exact Q|right; auto].
Qed.

(** live requests are delivered requests, without duplicates *)
Definition data_inv (a : ast) : Prop := NoDup (a_live a) /\ forall x, In x (a_live a) -> In x (a_seen a).

Lemma data_inv_step M a e a' : data_inv a -> astep M a e = Some a' -> data_inv a'.
Proof.
  intros [ND Sub] S. destruct e; cbn [astep] in S.
  - destruct (a_want a); [discriminate|]. inversion S; subst a'. split; assumption.
  - destruct (on_rsp_some _ _ _ _ _ _ _ S) as [_ [rest [_ [_ [Sn Cs]]]]].
    assert (a_live a' = a_live a \/ a_live a' = []) as [L|L].
    { destruct Cs as [[_ [_ [_ [_ [L _]]]]]|[_ [_ [[_ [_ [L _]]]|[_ [_ Q]]]]]]; auto.
      destruct Q as [[_ [_ [L _]]]|[[_ [_ [L _]]]|[[_ [_ [L _]]]|[_ [_ [L _]]]]]]; auto. }
    + split; rewrite L; [exact ND|]. intros x Hx. rewrite Sn. auto.
    + split; rewrite L; [constructor|intros x []].
  - destruct (a_want a); [discriminate|]. destruct (memN id (a_seen a)) eqn:Mm; [discriminate|].
    inversion S; subst a'. cbn. split.
    + constructor; [|exact ND]. intro Q. apply Sub in Q. apply memN_In in Q. congruence.
    + intros x [->|Hx]; [left; reflexivity|right; auto].
  - destruct (a_want a); [discriminate|].
    destruct (may_respond M a && memN rspTo (a_live a)); [|discriminate].
    inversion S; subst a'. cbn. split; [apply remove1_nodup, ND|].
    intros x Hx. apply Sub. eapply remove1_subset; eauto.
  - destruct (a_want a) as [[q' p']|]; [|discriminate].
    destruct (Bool.eqb quiescent q' && Bool.eqb paused p'); [|discriminate].
    inversion S; subst a'. split; assumption.
  - destruct (a_want a); [|discriminate]. inversion S; subst a'. split; assumption.
  - destruct (end_fifo_empty M _ _ S) as [_ [-> _]]. split; assumption.
Qed.

Lemma data_inv_run M tr : forall a a', data_inv a -> arun M a tr = Some a' -> data_inv a'.
Proof.
  induction tr as [|e r IH]; intros a a' I H; cbn [arun] in H; [inversion H; subst; exact I|].
  destruct (astep M a e) as [a1|] eqn:S; [|discriminate]. eapply IH; [|exact H]. eapply data_inv_step; eauto.
Qed.

Lemma data_inv0 : data_inv ast0.
Proof. split; [constructor|intros x []]. Qed.

Lemma seen_mono_step M a e a' x : astep M a e = Some a' -> In x (a_seen a) -> In x (a_seen a').
Proof.
  intros S Hx. destruct e; cbn [astep] in S.
  - destruct (a_want a); [discriminate|]. inversion S; subst a'. exact Hx.
  - destruct (on_rsp_some _ _ _ _ _ _ _ S) as [_ [rest [_ [_ [Sn _]]]]]. rewrite Sn. exact Hx.
  - destruct (a_want a); [discriminate|]. destruct (memN id (a_seen a)); [discriminate|].
    inversion S; subst a'. right. exact Hx.
  - destruct (a_want a); [discriminate|].
    destruct (may_respond M a && memN rspTo (a_live a)); [|discriminate]. inversion S; subst a'. exact Hx.
  - destruct (a_want a) as [[q' p']|]; [|discriminate].
    destruct (Bool.eqb quiescent q' && Bool.eqb paused p'); [|discriminate]. inversion S; subst a'. exact Hx.
  - destruct (a_want a); [|discriminate]. inversion S; subst a'. exact Hx.
  - destruct (end_fifo_empty M _ _ S) as [_ [-> _]]. exact Hx.
Qed.

Lemma delivered_seen M tr : forall a a' id, arun M a tr = Some a' -> In (EDeliv id) tr -> In id (a_seen a').
Proof.
  induction tr as [|e r IH]; intros a a' id H Hin; [destruct Hin|].
  cbn [arun] in H. destruct (astep M a e) as [a1|] eqn:S; [|discriminate].
  destruct Hin as [->|Hin]; [|eapply IH; eauto].
  cbn [astep] in S. destruct (a_want a); [discriminate|]. destruct (memN id (a_seen a)); [discriminate|].
  inversion S; subst a1.
  assert (In id (a_seen (mk_ast (a_fifo a) (a_mode a) (id :: a_live a) (id :: a_seen a) None))) as Q by (left; reflexivity).
  clear S. revert Q H. generalize (mk_ast (a_fifo a) (a_mode a) (id :: a_live a) (id :: a_seen a) None).
  clear IH. induction r as [|e r IHr]; intros b Q H; cbn [arun] in H; [inversion H; subst; exact Q|].
  destruct (astep M b e) as [b1|] eqn:S; [|discriminate]. eapply IHr; [|exact H]. eapply seen_mono_step; eauto.
Qed.

(** a request that was delivered and is no longer live is never answered (again) *)
Lemma dead_stays_dead M tr : forall a a' id, arun M a tr = Some a' ->
  In id (a_seen a) -> ~ In id (a_live a) -> ~ In (EData id) tr.
Proof.
  induction tr as [|e r IH]; intros a a' id H Sn NL Hin; [destruct Hin|].
  cbn [arun] in H. destruct (astep M a e) as [a1|] eqn:S; [|discriminate].
  assert (In id (a_seen a1)) as Sn1 by (eapply seen_mono_step; eauto).
  assert (~ In id (a_live a1)) as NL1.
  { destruct e; cbn [astep] in S.
    - destruct (a_want a); [discriminate|]. inversion S; subst a1. exact NL.
    - destruct (on_rsp_some _ _ _ _ _ _ _ S) as [_ [rest [_ [_ [_ Cs]]]]].
      assert (a_live a1 = a_live a \/ a_live a1 = []) as [L|L].
      { destruct Cs as [[_ [_ [_ [_ [L _]]]]]|[_ [_ [[_ [_ [L _]]]|[_ [_ Q]]]]]]; auto.
        destruct Q as [[_ [_ [L _]]]|[[_ [_ [L _]]]|[[_ [_ [L _]]]|[_ [_ [L _]]]]]]; auto. }
      + rewrite L. exact NL.
      + rewrite L. intros [].
    - destruct (a_want a); [discriminate|]. destruct (memN id0 (a_seen a)) eqn:Mm; [discriminate|].
      inversion S; subst a1. cbn. intros [Q|Q]; [|exact (NL Q)]. subst id0.
      apply memN_In in Sn. congruence.
    - destruct (a_want a); [discriminate|].
      destruct (may_respond M a && memN rspTo (a_live a)); [|discriminate]. inversion S; subst a1. cbn.
      intro Q. apply NL. eapply remove1_subset; eauto.
    - destruct (a_want a) as [[q' p']|]; [|discriminate].
      destruct (Bool.eqb quiescent q' && Bool.eqb paused p'); [|discriminate]. inversion S; subst a1. exact NL.
    - destruct (a_want a); [|discriminate]. inversion S; subst a1. exact NL.
    - destruct (end_fifo_empty M _ _ S) as [_ [-> _]]. exact NL. }
  destruct Hin as [->|Hin]; [|exact (IH _ _ _ H Sn1 NL1 Hin)].
  cbn [astep] in S. destruct (a_want a); [discriminate|].
  destruct (may_respond M a && memN id (a_live a)) eqn:Q; [|discriminate].
  apply andb_true_iff in Q. destruct Q as [_ Q]. apply memN_In in Q. exact (NL Q).
Qed.

(** a live request stays live until it is answered or a Reset is acknowledged *)
Definition is_reset_ack (e : ev) : bool :=
  match e with ERsp c _ true _ => c =? cReset | _ => false end.

Lemma live_until M tr : forall a a' id, arun M a tr = Some a' -> In id (a_live a) ->
  In id (a_live a') \/ In (EData id) tr \/ existsb is_reset_ack tr = true.
Proof.
  induction tr as [|e r IH]; intros a a' id H L; cbn [arun] in H; [inversion H; subst; auto|].
  destruct (astep M a e) as [a1|] eqn:S; [|discriminate].
  assert (In id (a_live a1) \/ e = EData id \/ is_reset_ack e = true) as [L1|[->|RA]].
  { destruct e; cbn [astep] in S.
    - destruct (a_want a); [discriminate|]. inversion S; subst a1. auto.
    - destruct (on_rsp_some _ _ _ _ _ _ _ S) as [_ [rest [_ [_ [_ Cs]]]]].
      destruct Cs as [[_ [_ [_ [_ [Lv _]]]]]|[_ [_ [[_ [_ [Lv _]]]|[-> [_ Q]]]]]]; try (left; rewrite Lv; exact L).
      destruct Q as [[_ [_ [Lv _]]]|[[_ [_ [Lv _]]]|[[_ [_ [Lv _]]]|[-> _]]]]; try (left; rewrite Lv; exact L).
      right; right. reflexivity.
    - destruct (a_want a); [discriminate|]. destruct (memN id0 (a_seen a)); [discriminate|].
      inversion S; subst a1. left. right. exact L.
    - destruct (a_want a); [discriminate|].
      destruct (may_respond M a && memN rspTo (a_live a)); [|discriminate]. inversion S; subst a1. cbn.
      destruct (N.eq_dec rspTo id) as [->|NE]; [right; left; reflexivity|left; apply remove1_keeps; auto].
    - destruct (a_want a) as [[q' p']|]; [|discriminate].
      destruct (Bool.eqb quiescent q' && Bool.eqb paused p'); [|discriminate]. inversion S; subst a1. auto.
    - destruct (a_want a); [|discriminate]. inversion S; subst a1. auto.
    - destruct (end_fifo_empty M _ _ S) as [_ [-> _]]. auto. }
  - destruct (IH _ _ _ H L1) as [Q|[Q|Q]]; [left; exact Q|right; left; right; exact Q|].
    right; right. cbn [existsb]. rewrite Q. apply orb_true_r.
  - right; left. left. reflexivity.
  - right; right. cbn [existsb]. rewrite RA. reflexivity.
Qed.
