(** C18 — memory agents follow the control protocol under any history.

    [accepts M tr] is the verified acceptor of the protocol automaton of
    mem/CONTROL_PROTOCOL.md for an agent with verb-support matrix [M]; every history
    observed from the twelve REAL agents must be accepted (trace inclusion, evaluated by
    vm_compute on every run).  The theorems below say what every accepted history
    satisfies, clause by clause of the property statement. *)
From Akita Require Import Lib.Base C18.Model C18.Proofs C18.Ideal.
Local Open Scope N_scope.

(** Clause 1 — every control request receives exactly one response carrying its command and
    ID, and responses come back in request order: the (ID, command) sequence of the responses
    is a prefix of that of the requests at any time, and equal to it once the run has ended. *)
Theorem c18_one_response_in_order : forall M tr,
  accepts M tr = true ->
  (exists pending, ctrls tr = rsps tr ++ pending) /\
  (forall tr0, tr = tr0 ++ [EEnd] -> rsps tr0 = ctrls tr0).
Proof.
  intros M tr H. unfold accepts in H. destruct (arun M ast0 tr) as [a|] eqn:R; [|discriminate].
  pose proof (fifo_inv _ _ _ _ R) as F. cbn [a_fifo ast0 app] in F. split; [eauto|].
  intros tr0 ->. rewrite arun_app in R. destruct (arun M ast0 tr0) as [a0|] eqn:R0; [|discriminate].
  cbn [arun] in R. destruct (astep M a0 EEnd) as [a1|] eqn:S; [|discriminate].
  destruct (end_fifo_empty M _ _ S) as [_ [-> _]].
  pose proof (fifo_inv _ _ _ _ R0) as F0. cbn [a_fifo ast0 app] in F0.
  cbn [astep] in S. destruct (a_want a0); [discriminate|]. destruct (a_fifo a0); [|discriminate].
  rewrite app_nil_r in F0. exact F0.
Qed.
Print Assumptions c18_one_response_in_order.

(** Clause 2 — unsupported verbs are refused as unsupported (and only those). *)
Theorem c18_unsupported_refused : forall M pre c rt ok err post,
  accepts M (pre ++ ERsp c rt ok err :: post) = true ->
  (supports M c = false -> ok = false /\ err = eUnsupported) /\
  (supports M c = true -> err <> eUnsupported).
Proof.
  intros M pre c rt ok err post H.
  destruct (accepts_split _ _ _ _ H) as [a [a' [a'' [_ [S _]]]]]. cbn [astep] in S.
  destruct (on_rsp_some _ _ _ _ _ _ _ S) as [_ [rest [_ [_ [_ Cs]]]]].
  destruct Cs as [[Sp [-> [-> _]]]|[Sp [NE _]]]; split; intro Q; try congruence; auto.
Qed.
Print Assumptions c18_unsupported_refused.

(** Clause 3 — Invalidate / Flush while running are refused as illegal; once paused or
    drained they succeed.  "Running" is determined by the acknowledgements alone. *)
Theorem c18_illegal_refused : forall M pre c rt ok err post,
  accepts M (pre ++ ERsp c rt ok err :: post) = true ->
  supports M c = true -> c = cInvalidate \/ c = cFlush ->
  (mode_from Enabled pre = Enabled -> ok = false /\ err = eMustBePaused) /\
  (mode_from Enabled pre = Paused -> ok = true /\ err = eNone).
Proof.
  intros M pre c rt ok err post H Sp CC.
  destruct (accepts_split _ _ _ _ H) as [a [a' [a'' [R [S _]]]]]. cbn [astep] in S.
  pose proof (mode_inv _ _ _ _ R) as Md. cbn [a_mode ast0] in Md.
  destruct (on_rsp_some _ _ _ _ _ _ _ S) as [_ [rest [_ [_ [_ Cs]]]]].
  destruct Cs as [[Sp' _]|[_ [_ [[_ [_ [_ [_ Q]]]]|[_ [_ Q]]]]]]; [congruence| |].
  - destruct Q as [[Me [-> ->]]|[Me [-> ->]]]; rewrite <- Md, Me; split; intro Z; try discriminate; auto.
  - unfold cInvalidate, cFlush, cPause, cDrain, cEnable, cReset in *.
    destruct Q as [[-> _]|[[-> _]|[[-> _]|[-> _]]]]; destruct CC; discriminate.
Qed.
Print Assumptions c18_illegal_refused.

(** Clause 4 — after a Pause (or Drain) is acknowledged the agent emits no data responses
    until an Enable or Reset is acknowledged, except while it carries out a Drain, i.e. while
    a Drain is the oldest unanswered control request (the verb that lets in-flight
    transactions finish).  In particular nothing is emitted while a Flush is in progress. *)
Theorem c18_paused_silent : forall M pre r post,
  accepts M (pre ++ EData r :: post) = true ->
  mode_from Enabled pre = Enabled \/
  exists id rest, ctrls pre = rsps pre ++ (id, cDrain) :: rest /\ supports M cDrain = true.
Proof.
  intros M pre r post H.
  destruct (accepts_split _ _ _ _ H) as [a [a' [a'' [R [S _]]]]]. cbn [astep] in S.
  pose proof (mode_inv _ _ _ _ R) as Md. cbn [a_mode ast0] in Md.
  pose proof (fifo_inv _ _ _ _ R) as F. cbn [a_fifo ast0 app] in F.
  destruct (a_want a); [discriminate|].
  destruct (may_respond M a && memN r (a_live a)) eqn:Q; [|discriminate].
  apply andb_true_iff in Q. destruct Q as [Q _]. unfold may_respond in Q.
  rewrite <- Md. destruct (a_mode a); [left; reflexivity|right].
  destruct (a_fifo a) as [|[id c] rest] eqn:Ff; [discriminate|].
  apply andb_true_iff in Q. destruct Q as [Q1 Q2]. apply N.eqb_eq in Q1. subst c.
  exists id, rest. split; [symmetry; exact F|exact Q2].
Qed.
Print Assumptions c18_paused_silent.

(** Clause 5 — a Drain acknowledgement leaves the agent quiescent and paused: the state
    sampled at the end of the acknowledging tick is (quiescent, paused).  ([ENoSample] stands
    for "another control request was already queued, the agent started it in the same tick".) *)
Theorem c18_drain_quiescent_paused : forall M pre rt err post,
  accepts M (pre ++ ERsp cDrain rt true err :: post) = true ->
  post = [] \/ (exists post', post = ESample true true :: post') \/ (exists post', post = ENoSample :: post').
Proof.
  intros M pre rt err post H.
  destruct (accepts_split _ _ _ _ H) as [a [a' [a'' [_ [S R]]]]]. cbn [astep] in S.
  destruct (on_rsp_some _ _ _ _ _ _ _ S) as [_ [rest [_ [_ [_ Cs]]]]].
  assert (a_want a' = Some (true, true)) as W.
  { unfold cInvalidate, cFlush, cPause, cDrain, cEnable, cReset in *.
    destruct Cs as [[_ [Q _]]|[_ [_ [[[Q|Q] _]|[_ [_ Q]]]]]]; try discriminate.
    destruct Q as [[Q _]|[[_ [_ [_ Q]]]|[[Q _]|[Q _]]]]; try discriminate. exact Q. }
  destruct post as [|e post']; [left; reflexivity|right].
  cbn [arun] in R. destruct (astep M a' e) as [a1|] eqn:S1; [|discriminate].
  destruct e; cbn [astep] in S1; try (unfold on_rsp in S1); rewrite W in S1; try discriminate.
  - left. destruct (Bool.eqb quiescent true && Bool.eqb paused true) eqn:Q; [|discriminate].
    apply andb_true_iff in Q. destruct Q as [Q1 Q2]. apply eqb_prop in Q1, Q2. subst. eauto.
  - right. eauto.
Qed.
Print Assumptions c18_drain_quiescent_paused.

(** Clause 6 — a Reset acknowledgement leaves the agent quiescent and enabled, and no request
    delivered before it is answered afterwards. *)
Theorem c18_reset_quiescent_enabled : forall M pre rt err post,
  accepts M (pre ++ ERsp cReset rt true err :: post) = true ->
  (post = [] \/ (exists post', post = ESample true false :: post') \/ (exists post', post = ENoSample :: post')) /\
  (forall id, In (EDeliv id) pre -> ~ In (EData id) post).
Proof.
  intros M pre rt err post H.
  destruct (accepts_split _ _ _ _ H) as [a [a' [a'' [R0 [S R]]]]]. cbn [astep] in S.
  destruct (on_rsp_some _ _ _ _ _ _ _ S) as [_ [rest [_ [_ [Sn Cs]]]]].
  assert (a_want a' = Some (true, false) /\ a_live a' = []) as [W L].
  { unfold cInvalidate, cFlush, cPause, cDrain, cEnable, cReset in *.
    destruct Cs as [[_ [Q _]]|[_ [_ [[[Q|Q] _]|[_ [_ Q]]]]]]; try discriminate.
    destruct Q as [[Q _]|[[Q _]|[[Q _]|[_ [_ [Q1 Q2]]]]]]; try discriminate. auto. }
  split.
  - destruct post as [|e post']; [left; reflexivity|right].
    cbn [arun] in R. destruct (astep M a' e) as [a1|] eqn:S1; [|discriminate].
    destruct e; cbn [astep] in S1; try (unfold on_rsp in S1); rewrite W in S1; try discriminate.
    + left. destruct (Bool.eqb quiescent true && Bool.eqb paused false) eqn:Q; [|discriminate].
      apply andb_true_iff in Q. destruct Q as [Q1 Q2]. apply eqb_prop in Q1, Q2. subst. eauto.
    + right. eauto.
  - intros id Hd. eapply dead_stays_dead; [exact R| |rewrite L; intros []].
    rewrite Sn. eapply delivered_seen; eauto.
Qed.
Print Assumptions c18_reset_quiescent_enabled.

(** Clause 7 — requests queued during a pause are served after enable: when a run ends with
    the agent enabled, every data request that was delivered to it has been answered, unless a
    Reset was acknowledged after its delivery; and no request is answered twice. *)
Theorem c18_queued_served_after_enable : forall M tr p1 id p2,
  accepts M (tr ++ [EEnd]) = true -> mode_from Enabled tr = Enabled ->
  tr = p1 ++ EDeliv id :: p2 ->
  In (EData id) p2 \/ existsb is_reset_ack p2 = true.
Proof.
  intros M tr p1 id p2 H Md ->.
  unfold accepts in H. rewrite arun_app in H.
  destruct (arun M ast0 (p1 ++ EDeliv id :: p2)) as [af|] eqn:R; [|discriminate].
  cbn [arun] in H. destruct (astep M af EEnd) as [ae|] eqn:SE; [|discriminate].
  destruct (end_fifo_empty M _ _ SE) as [_ [_ LE]].
  pose proof (mode_inv _ _ _ _ R) as Mf. cbn [a_mode ast0] in Mf. rewrite Md in Mf. specialize (LE Mf).
  rewrite arun_app in R. destruct (arun M ast0 p1) as [a1|] eqn:R1; [|discriminate].
  cbn [arun] in R. destruct (astep M a1 (EDeliv id)) as [a2|] eqn:S2; [|discriminate].
  assert (In id (a_live a2)) as L2.
  { cbn [astep] in S2. destruct (a_want a1); [discriminate|]. destruct (memN id (a_seen a1)); [discriminate|].
    inversion S2; subst a2. left. reflexivity. }
  destruct (live_until _ _ _ _ _ R L2) as [Q|Q]; [rewrite LE in Q; destruct Q|exact Q].
Qed.
Print Assumptions c18_queued_served_after_enable.

Theorem c18_answered_at_most_once : forall M pre id post,
  accepts M (pre ++ EData id :: post) = true -> ~ In (EData id) post.
Proof.
  intros M pre id post H.
  destruct (accepts_split _ _ _ _ H) as [a [a' [a'' [R0 [S R]]]]].
  pose proof (data_inv_run _ _ _ _ data_inv0 R0) as [ND Sub].
  cbn [astep] in S. destruct (a_want a); [discriminate|].
  destruct (may_respond M a && memN id (a_live a)) eqn:Q; [|discriminate].
  apply andb_true_iff in Q. destruct Q as [_ Q]. apply memN_In in Q.
  inversion S; subst a'. eapply dead_stays_dead; [exact R| |]; cbn [a_seen a_live].
  - apply Sub, Q.
  - apply remove1_nodup_notin, ND.
Qed.
Print Assumptions c18_answered_at_most_once.

(** Exact tick-level model of the smallest agent (ideal memory controller control path,
    [Ideal.ideal_tick], compared tick by tick with the real component): for EVERY sequence of
    arrivals, outgoing-buffer occupancies and in-flight states, the requests received so far
    are exactly the answered ones (same ID and command, same order), then the Drain in
    progress, then the queued ones. *)
Theorem c18_ideal_one_response_in_order : forall ticks sf outs,
  ideal_run ist0 ticks = (sf, outs) ->
  all_arrivals ticks = map rsp_key outs ++ in_progress sf ++ i_queue sf.
Proof. intros ticks sf outs H. exact (ideal_fifo ticks ist0 sf outs H). Qed.
Print Assumptions c18_ideal_one_response_in_order.

(** ... Pause/Drain/Enable/Reset are acknowledged with success, everything else is refused as
    unsupported; a Drain is acknowledged only when nothing is in flight and leaves the
    controller Paused; the tick that acknowledges a Reset ends Enabled with the in-flight
    transactions discarded. *)
Theorem c18_ideal_verbs : forall s free e s' out cl, ideal_tick s free e = (s', out, cl) ->
  forall r, In r out -> verb_ok r.
Proof. exact ideal_verbs. Qed.
Print Assumptions c18_ideal_verbs.

Theorem c18_ideal_drain_quiescent_paused : forall s free e s1 out f1, state_update s free e = (s1, out, f1) ->
  forall rt ok err, In (IRsp 1 rt ok err) out -> e = true /\ i_state s1 = 2 /\ rt = i_cur s /\ i_state s = 3.
Proof. exact ideal_drain_ack. Qed.
Print Assumptions c18_ideal_drain_quiescent_paused.

Theorem c18_ideal_reset_quiescent_enabled : forall s free e s' out cl, ideal_tick s free e = (s', out, cl) ->
  forall rt ok err, In (IRsp 3 rt ok err) out -> i_state s' = 0 /\ cl = true /\ i_cur s' = 0.
Proof. exact ideal_reset_ack. Qed.
Print Assumptions c18_ideal_reset_quiescent_enabled.

Example c18_ideal_nonvacuous :
  ideal_run ist0 [mk_itick [(5, 1); (6, 4); (7, 0)] 2 false; mk_itick [] 2 false; mk_itick [(8, 2)] 2 true;
                  mk_itick [] 1 true; mk_itick [] 0 true; mk_itick [] 1 true] =
  (mk_ist 0 5 [], [IRsp 1 5 true 0; IRsp 4 6 false 1; IRsp 0 7 true 0; IRsp 2 8 true 0]).
Proof. vm_compute. reflexivity. Qed.

(** Non-vacuity: a full legal life cycle of a cache-like agent (traffic, pause with a request
    queued meanwhile, invalidate, enable, drain, flush, reset, an unknown verb) is accepted. *)
Definition mCacheLike : matrix := [true; true; true; true; true; true].
Definition mUniversal : matrix := [true; true; true; true; false; false].
Example c18_nonvacuous :
  accepts mCacheLike
    [EDeliv 1; EData 1; ECtrl 10 cFlush; ERsp cFlush 10 false eMustBePaused;
     EDeliv 2; ECtrl 11 cPause; ERsp cPause 11 true eNone; EDeliv 3;
     ECtrl 12 cInvalidate; ERsp cInvalidate 12 true eNone;
     ECtrl 13 cEnable; ERsp cEnable 13 true eNone; EData 2; EData 3;
     EDeliv 4; ECtrl 14 cDrain; EData 4; ERsp cDrain 14 true eNone; ESample true true;
     ECtrl 15 cFlush; ERsp cFlush 15 true eNone; EDeliv 5;
     ECtrl 16 cReset; ERsp cReset 16 true eNone; ESample true false;
     ECtrl 17 7; ERsp 7 17 false eUnsupported; EDeliv 6; EData 6; EEnd] = true /\
  accepts mUniversal [ECtrl 1 cFlush; ERsp cFlush 1 false eUnsupported; EEnd] = true.
Proof. vm_compute. split; reflexivity. Qed.

(** The confirmed write-back history (Pause acknowledged with a read outstanding, then Flush
    without Enable: the pre-flush quiesce completes the read and emits its response) is
    rejected by the acceptor — it is the recorded finding of this property.  So are the
    mutations the check is meant to catch. *)
Example c18_pause_then_flush_inflight_rejected :
  accepts mCacheLike [EDeliv 1; ECtrl 2 cPause; ERsp cPause 2 true eNone; ECtrl 3 cFlush; EData 1;
                      ERsp cFlush 3 true eNone; EEnd] = false.
Proof. vm_compute. reflexivity. Qed.

Example c18_rejects_mutations :
  (* Pause answered twice *)
  accepts mUniversal [ECtrl 1 cPause; ERsp cPause 1 true eNone; ERsp cPause 1 true eNone; EEnd] = false /\
  (* an unsupported verb answered with success *)
  accepts mUniversal [ECtrl 1 cFlush; ERsp cFlush 1 true eNone; EEnd] = false /\
  (* a data response while paused *)
  accepts mUniversal [EDeliv 1; ECtrl 2 cPause; ERsp cPause 2 true eNone; EData 1; EEnd] = false /\
  (* responses out of order *)
  accepts mUniversal [ECtrl 1 cPause; ECtrl 2 cEnable; ERsp cEnable 2 true eNone; ERsp cPause 1 true eNone; EEnd] = false /\
  (* not quiescent after a drain acknowledgement *)
  accepts mUniversal [ECtrl 1 cDrain; ERsp cDrain 1 true eNone; ESample false true; EEnd] = false /\
  (* a pre-reset request answered after the reset *)
  accepts mUniversal [EDeliv 1; ECtrl 2 cReset; ERsp cReset 2 true eNone; ESample true false; EData 1; EEnd] = false /\
  (* a request queued during a pause never served *)
  accepts mUniversal [ECtrl 1 cPause; ERsp cPause 1 true eNone; EDeliv 5; ECtrl 2 cEnable; ERsp cEnable 2 true eNone; EEnd] = false.
Proof. vm_compute. repeat split. Qed.
