(** C18 — exact tick-level model of the smallest agent's control path:
    mem/idealmemcontroller/ctrlmiddleware.go (Tick, handleStateUpdate, handleIncomingCommands,
    handlePause/Enable/Drain/Reset/Unsupported), with the Control port's incoming buffer as
    part of the state.  The data path (memmiddleware.go) is not modelled: per tick it shows
    only as "are there in-flight transactions" and as the free slots of the Control port's
    outgoing buffer.

    ControlState: 0 Enabled, 1 Pausing, 2 Paused, 3 Draining, 4 Flushing (memcontrolprotocol). *)
From Akita Require Import Lib.Base.
Local Open Scope N_scope.

Record ist := mk_ist {
  i_state : N;              (* State.ControlState *)
  i_cur : N;                (* State.CurrentCmdID *)
  i_queue : list (N * N) }. (* Control incoming buffer: (ID, Command), head first *)

Inductive irsp := IRsp (cmd rspTo : N) (ok : bool) (err : N).

(** handleStateUpdate *)
Definition state_update (s : ist) (free : nat) (inflight_empty : bool) : ist * list irsp * nat :=
  if (i_state s =? 3) && inflight_empty && (0 <? free)%nat
  then (mk_ist 2 (i_cur s) (i_queue s), [IRsp 1 (i_cur s) true 0], pred free)
  else (s, [], free).

(** handleIncomingCommands; the boolean says that Reset cleared the in-flight transactions *)
Definition incoming (s : ist) (free : nat) : ist * list irsp * bool :=
  match i_queue s with
  | [] => (s, [], false)
  | (id, c) :: rest =>
      if c =? 1 then (mk_ist 3 id rest, [], false)
      else if (0 <? free)%nat then
        if c =? 0 then (mk_ist 2 (i_cur s) rest, [IRsp 0 id true 0], false)
        else if c =? 2 then (mk_ist 0 (i_cur s) rest, [IRsp 2 id true 0], false)
        else if c =? 3 then (mk_ist 0 0 rest, [IRsp 3 id true 0], true)
        else (mk_ist (i_state s) (i_cur s) rest, [IRsp c id false 1], false)
      else (s, [], false)
  end.

(** ctrlMiddleware.Tick *)
Definition ideal_tick (s : ist) (free : nat) (inflight_empty : bool) : ist * list irsp * bool :=
  let '(s1, out1, free1) := state_update s free inflight_empty in
  if i_state s1 =? 3 then (s1, out1, false)
  else let '(s2, out2, cleared) := incoming s1 free1 in (s2, out1 ++ out2, cleared).

(** one observed tick: requests that arrived on the Control port since the previous tick,
    free outgoing slots and in-flight emptiness at the start of the tick *)
Record itick := mk_itick { k_arrivals : list (N * N); k_free : nat; k_empty : bool }.

Definition arrive (s : ist) (a : list (N * N)) : ist := mk_ist (i_state s) (i_cur s) (i_queue s ++ a).

Fixpoint ideal_run (s : ist) (ticks : list itick) : ist * list irsp :=
  match ticks with
  | [] => (s, [])
  | t :: r =>
      let '(s1, out, _) := ideal_tick (arrive s (k_arrivals t)) (k_free t) (k_empty t) in
      let '(sf, outs) := ideal_run s1 r in (sf, out ++ outs)
  end.

Definition ist0 : ist := mk_ist 0 0 [].

(* ------------------------------------------------------------------ theorems *)

Definition rsp_key (r : irsp) : N * N := match r with IRsp c rt _ _ => (rt, c) end.

(** the command being drained, if any *)
Definition in_progress (s : ist) : list (N * N) := if i_state s =? 3 then [(i_cur s, 1)] else [].

(** Clause 1 at tick level: at every moment the requests received so far are exactly the
    answered ones, then the one being drained (if any), then the queued ones — in order.  So
    every request is answered at most once, with its own ID and command, in request order, and
    commands are handled one at a time. *)
Lemma state_update_fifo s free e s1 out1 f1 : state_update s free e = (s1, out1, f1) ->
  i_queue s1 = i_queue s /\ in_progress s = map rsp_key out1 ++ in_progress s1.
Proof.
  unfold state_update, in_progress. destruct (i_state s =? 3) eqn:D.
  - destruct (e && (0 <? free)%nat) eqn:C; cbn [andb]; rewrite C; intro H; inversion H; subst; cbn.
    + auto.
    + rewrite D. auto.
  - cbn [andb]. intro H; inversion H; subst. rewrite D. auto.
Qed.

Lemma incoming_fifo s free s2 out2 cl : i_state s =? 3 = false -> incoming s free = (s2, out2, cl) ->
  i_queue s = map rsp_key out2 ++ in_progress s2 ++ i_queue s2.
Proof.
  intros D. unfold incoming, in_progress. destruct (i_queue s) as [|[id c] rest] eqn:Q.
  - intro H; inversion H; subst. rewrite D, Q. reflexivity.
  - destruct (c =? 1) eqn:C1.
    { apply N.eqb_eq in C1. subst c. intro H; inversion H; subst. reflexivity. }
    destruct (0 <? free)%nat.
    + destruct (c =? 0) eqn:E0; [|destruct (c =? 2) eqn:E2; [|destruct (c =? 3) eqn:E3]];
        intro H; inversion H; subst; cbn; try rewrite D;
        try (apply N.eqb_eq in E0; subst c); try (apply N.eqb_eq in E2; subst c); try (apply N.eqb_eq in E3; subst c);
        reflexivity.
    + intro H; inversion H; subst. rewrite D, Q. reflexivity.
Qed.

Lemma ideal_tick_fifo s free e s' out cl : ideal_tick s free e = (s', out, cl) ->
  in_progress s ++ i_queue s = map rsp_key out ++ in_progress s' ++ i_queue s'.
Proof.
  unfold ideal_tick. destruct (state_update s free e) as [[s1 out1] f1] eqn:U.
  destruct (state_update_fifo _ _ _ _ _ _ U) as [Q P]. rewrite P, <- Q.
  destruct (i_state s1 =? 3) eqn:D.
  - intro H; inversion H; subst. rewrite <- app_assoc. reflexivity.
  - destruct (incoming s1 f1) as [[s2 out2] cl2] eqn:I. intro H; inversion H; subst.
    rewrite (incoming_fifo _ _ _ _ _ D I).
    assert (in_progress s1 = []) as -> by (unfold in_progress; rewrite D; reflexivity).
    rewrite map_app, <- !app_assoc. reflexivity.
Qed.

Fixpoint all_arrivals (ticks : list itick) : list (N * N) :=
  match ticks with [] => [] | t :: r => k_arrivals t ++ all_arrivals r end.

Theorem ideal_fifo : forall ticks s sf outs, ideal_run s ticks = (sf, outs) ->
  in_progress s ++ i_queue s ++ all_arrivals ticks = map rsp_key outs ++ in_progress sf ++ i_queue sf.
Proof.
  induction ticks as [|t r IH]; intros s sf outs H; cbn [ideal_run all_arrivals] in *.
  - inversion H; subst. cbn. rewrite app_nil_r. reflexivity.
  - destruct (ideal_tick (arrive s (k_arrivals t)) (k_free t) (k_empty t)) as [[s1 out] cl] eqn:T.
    destruct (ideal_run s1 r) as [sf' outs'] eqn:R. inversion H; subst.
    pose proof (ideal_tick_fifo _ _ _ _ _ _ T) as F. specialize (IH _ _ _ R).
    change (in_progress (arrive s (k_arrivals t))) with (in_progress s) in F.
    change (i_queue (arrive s (k_arrivals t))) with (i_queue s ++ k_arrivals t) in F.
    rewrite map_app, <- app_assoc, <- IH.
    transitivity ((in_progress s ++ i_queue s ++ k_arrivals t) ++ all_arrivals r);
      [rewrite <- !app_assoc; reflexivity|].
    rewrite F, <- !app_assoc. reflexivity.
Qed.

Definition verb_ok (r : irsp) : Prop :=
  match r with IRsp c _ ok err => (c <= 3 -> ok = true /\ err = 0) /\ (3 < c -> ok = false /\ err = 1) end.

Lemma state_update_verbs s free e s' out f' : state_update s free e = (s', out, f') ->
  forall r, In r out -> verb_ok r.
Proof.
  unfold state_update. destruct ((i_state s =? 3) && e && (0 <? free)%nat); intro H; inversion H; subst.
  - intros r [<-|[]]. cbn. split; intro; [auto|lia].
  - intros r [].
Qed.

Lemma incoming_verbs s free s' out cl : incoming s free = (s', out, cl) ->
  forall r, In r out -> verb_ok r.
Proof.
  unfold incoming. destruct (i_queue s) as [|[id c] rest]; [intro H; inversion H; intros r []|].
  destruct (c =? 1) eqn:E1; [intro H; inversion H; intros r []|].
  destruct (0 <? free)%nat; [|intro H; inversion H; intros r []].
  destruct (c =? 0) eqn:E0; [|destruct (c =? 2) eqn:E2; [|destruct (c =? 3) eqn:E3]];
    intro H; inversion H; subst; intros r [<-|[]]; cbn.
  - apply N.eqb_eq in E0. subst. split; intro; [auto|lia].
  - apply N.eqb_eq in E2. subst. split; intro; [auto|lia].
  - apply N.eqb_eq in E3. subst. split; intro; [auto|lia].
  - apply N.eqb_neq in E0, E1, E2, E3. split; intro; [lia|auto].
Qed.

(** Clause 2 at tick level: Pause/Drain/Enable/Reset succeed, every other verb is refused as
    unsupported. *)
Theorem ideal_verbs : forall s free e s' out cl, ideal_tick s free e = (s', out, cl) ->
  forall r, In r out -> verb_ok r.
Proof.
  intros s free e s' out cl H r Hin. unfold ideal_tick in H.
  destruct (state_update s free e) as [[s1 out1] free1] eqn:U.
  destruct (i_state s1 =? 3).
  - inversion H; subst. eapply state_update_verbs; eauto.
  - destruct (incoming s1 free1) as [[s2 out2] cl2] eqn:I. inversion H; subst.
    apply in_app_or in Hin. destruct Hin; [eapply state_update_verbs|eapply incoming_verbs]; eauto.
Qed.

(** Clause 5 at tick level: a Drain is acknowledged only in a tick that starts with no
    in-flight transaction, and the controller is Paused right after the acknowledgement
    (before it looks at the next command). *)
Theorem ideal_drain_ack : forall s free e s1 out f1, state_update s free e = (s1, out, f1) ->
  forall rt ok err, In (IRsp 1 rt ok err) out -> e = true /\ i_state s1 = 2 /\ rt = i_cur s /\ i_state s = 3.
Proof.
  unfold state_update. intros s free e s1 out f1 H rt ok err Hin.
  destruct ((i_state s =? 3) && e && (0 <? free)%nat) eqn:C; inversion H; subst; [|destruct Hin].
  destruct Hin as [Q|[]]. inversion Q; subst.
  apply andb_true_iff in C. destruct C as [C _]. apply andb_true_iff in C. destruct C as [C1 C2].
  apply N.eqb_eq in C1. auto.
Qed.

(** Clause 6 at tick level: the tick that acknowledges a Reset ends Enabled with the in-flight
    transactions discarded. *)
Theorem ideal_reset_ack : forall s free e s' out cl, ideal_tick s free e = (s', out, cl) ->
  forall rt ok err, In (IRsp 3 rt ok err) out -> i_state s' = 0 /\ cl = true /\ i_cur s' = 0.
Proof.
  intros s free e s' out cl H rt ok err Hin. unfold ideal_tick in H.
  destruct (state_update s free e) as [[s1 out1] free1] eqn:U.
  assert (~ In (IRsp 3 rt ok err) out1) as N1.
  { unfold state_update in U. destruct ((i_state s =? 3) && e && (0 <? free)%nat); inversion U; subst.
    - intros [Q|[]]. discriminate.
    - intros []. }
  destruct (i_state s1 =? 3); [inversion H; subst; contradiction|].
  destruct (incoming s1 free1) as [[s2 out2] cl2] eqn:I. inversion H; subst.
  apply in_app_or in Hin. destruct Hin as [Hin|Hin]; [contradiction|].
  unfold incoming in I. destruct (i_queue s1) as [|[id c] rest]; [inversion I; subst; destruct Hin|].
  destruct (c =? 1); [inversion I; subst; destruct Hin|].
  destruct (0 <? free1)%nat; [|inversion I; subst; destruct Hin].
  destruct (c =? 0) eqn:E0; [|destruct (c =? 2) eqn:E2; [|destruct (c =? 3) eqn:E3]];
    inversion I; subst; destruct Hin as [Q|[]]; inversion Q; subst; try discriminate; auto.
Qed.
