(** C18 — case evaluators.  A case is the port-level history of ONE real memory agent
    (built by its own Builder, driven by a scripted requester with random verb sequences,
    live data traffic and a delaying lower-module stub) together with the agent's
    verb-support matrix as the agent declares it.
    [holds_on] is the verified acceptor (trace inclusion into the protocol automaton);
    [check_case] checks that the harness observed a complete, well-formed history. *)
From Akita Require Import Lib.Base C18.Model C18.Ideal.
Local Open Scope N_scope.

Inductive case :=
| mk_case (c_agent : N) (c_matrix : matrix) (c_trace : list ev) (c_clean : bool)
  (** exact tick-level tie of the ideal memory controller's control path: per tick of the real
      component the inputs of [Ideal.ideal_tick] and what the tick did (responses sent on the
      Control port, State.ControlState and State.CurrentCmdID afterwards) *)
| IdealCase (ticks : list itick) (obs : list (list irsp * N * N)).

Definition is_end (e : ev) : bool := match e with EEnd => true | _ => false end.

(** exactly one EEnd, at the end; six matrix entries *)
Definition trace_wf (tr : list ev) : bool :=
  match rev tr with
  | EEnd :: r => negb (existsb is_end r)
  | _ => false
  end.

Definition irsp_eqb (a b : irsp) : bool :=
  match a, b with IRsp c1 r1 o1 e1, IRsp c2 r2 o2 e2 => (c1 =? c2) && (r1 =? r2) && Bool.eqb o1 o2 && (e1 =? e2) end.

Fixpoint ideal_check (s : ist) (ticks : list itick) (obs : list (list irsp * N * N)) : bool :=
  match ticks, obs with
  | [], [] => true
  | t :: r, (out, st, cur) :: ro =>
      let '(s1, out', _) := ideal_tick (arrive s (k_arrivals t)) (k_free t) (k_empty t) in
      list_eqb irsp_eqb out' out && (i_state s1 =? st) && (i_cur s1 =? cur) && ideal_check s1 r ro
  | _, _ => false
  end.

Definition check_case (c : case) : bool :=
  match c with
  | mk_case _ M tr clean => clean && trace_wf tr && (length M =? 6)%nat
  | IdealCase ticks obs => ideal_check ist0 ticks obs
  end.

Definition holds_on (c : case) : bool :=
  match c with
  | mk_case _ M tr _ => accepts M tr
  | IdealCase _ _ => true
  end.
