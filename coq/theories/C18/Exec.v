(** C18 — case evaluators.  A case is the port-level history of ONE real memory agent
    (built by its own Builder, driven by a scripted requester with random verb sequences,
    live data traffic and a delaying lower-module stub) together with the agent's
    verb-support matrix as the agent declares it.
    [holds_on] is the verified acceptor (trace inclusion into the protocol automaton);
    [check_case] checks that the harness observed a complete, well-formed history. *)
From Akita Require Import Lib.Base C18.Model.
Local Open Scope N_scope.

Record case := mk_case {
  c_agent : N; c_matrix : matrix; c_trace : list ev; c_clean : bool }.

Definition is_end (e : ev) : bool := match e with EEnd => true | _ => false end.

(** exactly one EEnd, at the end; six matrix entries *)
Definition trace_wf (tr : list ev) : bool :=
  match rev tr with
  | EEnd :: r => negb (existsb is_end r)
  | _ => false
  end.

Definition check_case (c : case) : bool :=
  c_clean c && trace_wf (c_trace c) && (length (c_matrix c) =? 6)%nat.

Definition holds_on (c : case) : bool := accepts (c_matrix c) (c_trace c).
