(** C18 — the control-protocol view of a memory agent.

    The twelve agents are far too large to model at tick level; what is modelled is the
    abstract control automaton of mem/CONTROL_PROTOCOL.md, parametrised by the agent's
    verb-support matrix, as a VERIFIED ACCEPTOR over the port-level history of one agent:

      ECtrl id cmd            a control request is handed to the agent's Control connection
                              (requests of one history come from one requester, in this order)
      ERsp cmd rspTo ok err   the agent sends a control response (observed at its Control port)
      EDeliv id               a data request is delivered into one of the agent's request ports
      EData rspTo             the agent sends a data response (observed at its request ports)
      ESample q p             the agent's state sampled at the end of the tick in which it sent
                              the preceding Drain/Reset acknowledgement: q = quiescent (the agent's
                              own documented quiescence condition), p = paused
      ENoSample               recorded instead of ESample when, at the instant of the acknowledgement,
                              a further control request was already waiting in the agent's Control
                              buffer: agents start the next command in the very tick in which they
                              acknowledge the previous one, so the state "left" by the acknowledged
                              verb is then not observable at a tick boundary
      EEnd                    the simulation ran out of events

    Commands: 0 Pause, 1 Drain, 2 Enable, 3 Reset, 4 Invalidate, 5 Flush (anything else is an
    unknown verb).  Errors: 0 none, 1 "unsupported", 2 "must be paused or drained", 3 other text. *)
From Akita Require Import Lib.Base.
Local Open Scope N_scope.

Definition cPause : N := 0.  Definition cDrain : N := 1.  Definition cEnable : N := 2.
Definition cReset : N := 3.  Definition cInvalidate : N := 4.  Definition cFlush : N := 5.
Definition eNone : N := 0.  Definition eUnsupported : N := 1.  Definition eMustBePaused : N := 2.

Inductive ev :=
| ECtrl (id cmd : N)
| ERsp (cmd rspTo : N) (ok : bool) (err : N)
| EDeliv (id : N)
| EData (rspTo : N)
| ESample (quiescent paused : bool)
| ENoSample
| EEnd.

(** VerbSupport as the list [Pause; Drain; Enable; Reset; Invalidate; Flush] *)
Definition matrix := list bool.
Definition supports (M : matrix) (cmd : N) : bool := nth (N.to_nat cmd) M false.

Inductive mode := Enabled | Paused.
Definition mode_eqb (a b : mode) : bool :=
  match a, b with Enabled, Enabled | Paused, Paused => true | _, _ => false end.

Record ast := mk_ast {
  a_fifo : list (N * N);          (* unanswered control requests, oldest first *)
  a_mode : mode;                  (* by the acknowledgements seen so far *)
  a_live : list N;                (* delivered, unanswered, not reset away *)
  a_seen : list N;                (* every data request ever delivered *)
  a_want : option (bool * bool)   (* the sample that must come next *) }.

Definition ast0 : ast := mk_ast [] Enabled [] [] None.

Definition memN (x : N) (l : list N) : bool := existsb (N.eqb x) l.
Fixpoint remove1 (x : N) (l : list N) : list N :=
  match l with [] => [] | y :: r => if x =? y then r else y :: remove1 x r end.

(** the effect of an acknowledged verb on the mode / bookkeeping; None = protocol violation *)
Definition on_rsp (M : matrix) (a : ast) (cmd rspTo : N) (ok : bool) (err : N) : option ast :=
  match a_want a, a_fifo a with
  | None, (id, c) :: rest =>
      if (id =? rspTo) && (c =? cmd) then
        if negb (supports M cmd) then
          if negb ok && (err =? eUnsupported) then Some (mk_ast rest (a_mode a) (a_live a) (a_seen a) None)
          else None
        else if (cmd =? cInvalidate) || (cmd =? cFlush) then
          match a_mode a with
          | Enabled => if negb ok && (err =? eMustBePaused)
                       then Some (mk_ast rest Enabled (a_live a) (a_seen a) None) else None
          | Paused => if ok && (err =? eNone)
                      then Some (mk_ast rest Paused (a_live a) (a_seen a) None) else None
          end
        else if ok && (err =? eNone) then
          if cmd =? cPause then Some (mk_ast rest Paused (a_live a) (a_seen a) None)
          else if cmd =? cDrain then Some (mk_ast rest Paused (a_live a) (a_seen a) (Some (true, true)))
          else if cmd =? cEnable then Some (mk_ast rest Enabled (a_live a) (a_seen a) None)
          else if cmd =? cReset then Some (mk_ast rest Enabled [] (a_seen a) (Some (true, false)))
          else None
        else None
      else None
  | _, _ => None
  end.

(** The agent may emit data responses while it is enabled, and while it is carrying out a
    Drain: commands are handled one at a time, so that is exactly when a supported Drain is
    the oldest unanswered control request ("let in-flight transactions finish").  After a
    Pause/Drain acknowledgement and before the next Enable/Reset acknowledgement nothing
    else may be emitted — in particular not while a Flush is in progress. *)
Definition may_respond (M : matrix) (a : ast) : bool :=
  match a_mode a with
  | Enabled => true
  | Paused => match a_fifo a with
              | (_, c) :: _ => (c =? cDrain) && supports M c
              | [] => false end
  end.

Definition astep (M : matrix) (a : ast) (e : ev) : option ast :=
  match e with
  | ECtrl id cmd =>
      match a_want a with
      | None => Some (mk_ast (a_fifo a ++ [(id, cmd)]) (a_mode a) (a_live a) (a_seen a) None)
      | Some _ => None end
  | ERsp cmd rspTo ok err => on_rsp M a cmd rspTo ok err
  | EDeliv id =>
      match a_want a with
      | None => if memN id (a_seen a) then None
                else Some (mk_ast (a_fifo a) (a_mode a) (id :: a_live a) (id :: a_seen a) None)
      | Some _ => None end
  | EData r =>
      match a_want a with
      | None => if may_respond M a && memN r (a_live a)
                then Some (mk_ast (a_fifo a) (a_mode a) (remove1 r (a_live a)) (a_seen a) None)
                else None
      | Some _ => None end
  | ESample q p =>
      match a_want a with
      | Some (q', p') => if Bool.eqb q q' && Bool.eqb p p'
                         then Some (mk_ast (a_fifo a) (a_mode a) (a_live a) (a_seen a) None) else None
      | None => None end
  | ENoSample =>
      match a_want a with
      | Some _ => Some (mk_ast (a_fifo a) (a_mode a) (a_live a) (a_seen a) None)
      | None => None end
  | EEnd =>
      match a_want a, a_fifo a with
      | None, [] => match a_mode a with
                    | Enabled => match a_live a with [] => Some a | _ => None end
                    | Paused => Some a end
      | _, _ => None end
  end.

Fixpoint arun (M : matrix) (a : ast) (tr : list ev) : option ast :=
  match tr with
  | [] => Some a
  | e :: r => match astep M a e with Some a' => arun M a' r | None => None end
  end.

Definition accepts (M : matrix) (tr : list ev) : bool :=
  match arun M ast0 tr with Some _ => true | None => false end.

(** index of the first rejected event (for diagnostics) *)
Fixpoint first_reject (M : matrix) (a : ast) (tr : list ev) (i : N) : option N :=
  match tr with
  | [] => None
  | e :: r => match astep M a e with Some a' => first_reject M a' r (i + 1) | None => Some i end
  end.
