From Akita Require Import Lib.Base C42.Model.
Local Open Scope N_scope.

Definition in_range (f : N) : Prop := 1 <= f <= 1000000000000.

Lemma period_in_range f : in_range f ->
  exists p, period f = Some p /\ 1 <= p /\ p = ps_per_second / f.
Proof.
  intros [Hlo Hhi]. unfold period.
  destruct (f =? 0) eqn:E; [apply N.eqb_eq in E; lia|].
  exists (ps_per_second / f). repeat split.
  unfold ps_per_second.
  assert (H : f * 1 <= 1000000000000) by lia.
  apply N.div_le_lower_bound in H; lia.
Qed.

(** characterisation of the least multiple >= t *)
Lemma lmge_spec p t : 1 <= p ->
  let r := least_multiple_ge p t in
  r mod p = 0 /\ t <= r /\ r < t + p /\
  (forall m, m mod p = 0 -> t <= m -> r <= m).
Proof.
  intros Hp r. subst r. unfold least_multiple_ge.
  assert (Hp0 : p <> 0) by lia.
  repeat split.
  - apply N.mod_mul; exact Hp0.
  - pose proof (N.div_mod (t + p - 1) p Hp0) as D.
    pose proof (N.mod_lt (t + p - 1) p Hp0) as L. nia.
  - pose proof (N.div_mod (t + p - 1) p Hp0) as D.
    pose proof (N.mod_lt (t + p - 1) p Hp0) as L. nia.
  - intros m Hm Htm.
    apply N.mod_divides in Hm; [|exact Hp0]. destruct Hm as [k Hk]. subst m.
    rewrite (N.mul_comm p k).
    apply N.mul_le_mono_r.
    assert ((t + p - 1) / p < k + 1); [|lia].
    apply N.div_lt_upper_bound; [exact Hp0|]. nia.
Qed.

Lemma lmgt_spec p t : 1 <= p ->
  let r := least_multiple_gt p t in
  r mod p = 0 /\ t < r /\ r <= t + p /\
  (forall m, m mod p = 0 -> t < m -> r <= m).
Proof.
  intros Hp r. subst r. unfold least_multiple_gt.
  assert (Hp0 : p <> 0) by lia.
  pose proof (N.div_mod t p Hp0) as D.
  pose proof (N.mod_lt t p Hp0) as L.
  repeat split.
  - apply N.mod_mul; exact Hp0.
  - nia.
  - nia.
  - intros m Hm Htm.
    apply N.mod_divides in Hm; [|exact Hp0]. destruct Hm as [k Hk]. subst m.
    rewrite (N.mul_comm p k).
    apply N.mul_le_mono_r.
    assert (t / p < k); [|lia].
    apply N.div_lt_upper_bound; [exact Hp0|]. nia.
Qed.

Lemma this_tick_exact f t : in_range f -> t < two64 ->
  forall p, period f = Some p ->
  least_multiple_ge p t < two64 ->
  this_tick f t = Some (least_multiple_ge p t).
Proof.
  intros Hf Ht p Hp Hfit.
  destruct (period_in_range f Hf) as [p' [Hp' [Hp1 _]]].
  rewrite Hp in Hp'. inversion Hp'; subst p'. clear Hp'.
  unfold this_tick. rewrite Hp.
  assert (Hp0 : p <> 0) by lia.
  destruct (p =? 0) eqn:E; [apply N.eqb_eq in E; lia|].
  f_equal.
  unfold least_multiple_ge in *.
  pose proof (N.div_mod t p Hp0) as D.
  pose proof (N.mod_lt t p Hp0) as L.
  destruct (t mod p =? 0) eqn:Em.
  - apply N.eqb_eq in Em.
    assert (Hq : (t + p - 1) / p = t / p).
    { symmetry. apply (N.div_unique (t + p - 1) p (t / p) (p - 1)); [lia|]. nia. }
    rewrite Hq in *. apply w64_small. exact Hfit.
  - apply N.eqb_neq in Em.
    assert (Hq : (t + p - 1) / p = t / p + 1).
    { symmetry. apply (N.div_unique (t + p - 1) p (t / p + 1) (t mod p - 1)); [lia|]. nia. }
    rewrite Hq in *.
    assert (Hs : t / p + 1 < two64).
    { unfold two64 in *. nia. }
    rewrite (w64_small _ Hs). apply w64_small. exact Hfit.
Qed.

Lemma next_tick_exact f t : in_range f -> t < two64 ->
  forall p, period f = Some p ->
  least_multiple_gt p t < two64 ->
  next_tick f t = Some (least_multiple_gt p t).
Proof.
  intros Hf Ht p Hp Hfit.
  destruct (period_in_range f Hf) as [p' [Hp' [Hp1 _]]].
  rewrite Hp in Hp'. inversion Hp'; subst p'. clear Hp'.
  unfold next_tick. rewrite Hp.
  destruct (p =? 0) eqn:E; [apply N.eqb_eq in E; lia|].
  f_equal. unfold least_multiple_gt in *.
  assert (Hs : t / p + 1 < two64) by (unfold two64 in *; nia).
  rewrite (w64_small _ Hs). apply w64_small. exact Hfit.
Qed.

Lemma n_cycles_later_exact f n t : in_range f -> t < two64 -> (0 <= n)%Z ->
  forall p, period f = Some p ->
  least_multiple_ge p t + Z.to_N n * p < two64 ->
  n_cycles_later f n t = Some (least_multiple_ge p t + Z.to_N n * p).
Proof.
  intros Hf Ht Hn p Hp Hfit.
  destruct (period_in_range f Hf) as [p' [Hp' [Hp1 _]]].
  rewrite Hp in Hp'. inversion Hp'; subst p'. clear Hp'.
  unfold n_cycles_later. rewrite Hp.
  assert (Hb : least_multiple_ge p t < two64) by lia.
  rewrite (this_tick_exact f t Hf Ht p Hp Hb).
  f_equal.
  assert (Hnn : Z.to_N n < two64) by (unfold two64 in *; nia).
  assert (Hwz : w64z n = Z.to_N n).
  { unfold w64z. rewrite Z.mod_small; [reflexivity|]. unfold two64 in Hnn. lia. }
  rewrite Hwz.
  assert (Hm : Z.to_N n * p < two64) by lia.
  rewrite (w64_small _ Hm). apply w64_small. exact Hfit.
Qed.

Lemma cycle_floor f t : in_range f ->
  forall p, period f = Some p ->
  exists c, cycle f t = Some c /\ c * p <= t < (c + 1) * p.
Proof.
  intros Hf p Hp.
  destruct (period_in_range f Hf) as [p' [Hp' [Hp1 Hpe]]].
  rewrite Hp in Hp'. injection Hp' as Hpp. rewrite <- Hpp in Hp1, Hpe. clear Hpp p'.
  unfold cycle. destruct Hf as [Hlo Hhi].
  destruct (f =? 0) eqn:E; [apply N.eqb_eq in E; lia|].
  rewrite <- Hpe.
  destruct (p =? 0) eqn:E2; [apply N.eqb_eq in E2; lia|].
  exists (t / p). split; [reflexivity|].
  assert (Hp0 : p <> 0) by lia.
  pose proof (N.div_mod t p Hp0) as D.
  pose proof (N.mod_lt t p Hp0) as L. nia.
Qed.

(** The pre-fix ThisTick overflows although the result is representable. *)
Lemma this_tick_old_overflow :
  let f := 1000000000 in let t := two64 - 616 in
  least_multiple_ge 1000 t < two64 /\
  this_tick_old f t = Some 0 /\ this_tick f t = Some (least_multiple_ge 1000 t).
Proof. vm_compute. repeat split; reflexivity. Qed.

(** Link between the two evaluators of Exec.v: an implementation output that
    agrees with the model satisfies the property predicate. *)
From Akita Require Import C42.Exec.

Lemma oeq_eq a b : oeq a b = true -> a = b.
Proof.
  destruct a, b; cbn; intro H; try discriminate; try reflexivity.
  apply N.eqb_eq in H. subst. reflexivity.
Qed.

Lemma oeq_refl a : oeq a a = true.
Proof. destruct a; cbn; [apply N.eqb_refl|reflexivity]. Qed.

Lemma check_implies_holds c : c_t c < two64 ->
  check_case c = true -> holds_on c = true.
Proof.
  intros Ht Hc. unfold check_case in Hc.
  repeat (apply andb_true_iff in Hc; destruct Hc as [Hc ?]).
  repeat match goal with H : oeq _ _ = true |- _ => apply oeq_eq in H end.
  unfold holds_on.
  destruct ((1 <=? c_f c) && (c_f c <=? ps_per_second)) eqn:Er; [|reflexivity].
  assert (Hf : in_range (c_f c)) by (unfold in_range, ps_per_second in *; lia).
  destruct (period_in_range _ Hf) as [p [Hp [Hp1 Hpe]]].
  rewrite <- Hc, Hp.
  destruct (cycle_floor (c_f c) (c_t c) Hf p Hp) as [k [Hk Hkb]].
  match goal with H : cycle _ _ = _ |- _ => rewrite <- H, Hk end.
  repeat (apply andb_true_iff; split).
  - apply N.eqb_eq. exact Hpe.
  - lia.
  - lia.
  - destruct (least_multiple_ge p (c_t c) <? two64) eqn:E; [|reflexivity].
    match goal with H : this_tick _ _ = _ |- _ => rewrite <- H end.
    rewrite (this_tick_exact _ _ Hf Ht p Hp); [apply oeq_refl|lia].
  - destruct (least_multiple_gt p (c_t c) <? two64) eqn:E; [|reflexivity].
    match goal with H : next_tick _ _ = _ |- _ => rewrite <- H end.
    rewrite (next_tick_exact _ _ Hf Ht p Hp); [apply oeq_refl|lia].
  - destruct ((0 <=? c_n c)%Z && (least_multiple_ge p (c_t c) + Z.to_N (c_n c) * p <? two64)) eqn:E;
      [|reflexivity].
    match goal with H : n_cycles_later _ _ _ = _ |- _ => rewrite <- H end.
    apply andb_true_iff in E. destruct E as [E1 E2].
    assert (Hn0 : (0 <= c_n c)%Z) by lia.
    rewrite (n_cycles_later_exact _ _ _ Hf Ht Hn0 p Hp); [apply oeq_refl|lia].
Qed.
