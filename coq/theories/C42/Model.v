(** C42 — model of timing/freq.go (Freq.Period/Cycle/ThisTick/NextTick/NCyclesLater).
    uint64 arithmetic is written with explicit wrap-around ([w64]); a Go
    run-time panic (log.Panic for f = 0, integer division by zero for a zero
    period) is the outcome [None]. *)
From Akita Require Import Lib.Base.
Local Open Scope N_scope.

Definition ps_per_second : N := 1000000000000.

(** Freq.Period: panics for f = 0, otherwise psPerSecond / f (0 when f > 10^12). *)
Definition period (f : N) : option N :=
  if f =? 0 then None else Some (ps_per_second / f).

(** Freq.Cycle: uint64(time) / (psPerSecond / uint64(f)); both divisions can trap. *)
Definition cycle (f t : N) : option N :=
  if f =? 0 then None
  else let p := ps_per_second / f in
       if p =? 0 then None else Some (t / p).

(** Freq.ThisTick as repaired by the fix commit: q := n / period;
    if n % period != 0 { q++ }; return q * period. *)
Definition this_tick (f t : N) : option N :=
  match period f with
  | None => None
  | Some p =>
      if p =? 0 then None
      else let q := t / p in
           let q' := if t mod p =? 0 then q else w64 (q + 1) in
           Some (w64 (q' * p))
  end.

(** Freq.ThisTick before the fix: ((n + period - 1) / period) * period. *)
Definition this_tick_old (f t : N) : option N :=
  match period f with
  | None => None
  | Some p =>
      if p =? 0 then None
      else Some (w64 (w64 (w64 (t + p) - 1) / p * p))
  end.

(** Freq.NextTick: (n / period + 1) * period. *)
Definition next_tick (f t : N) : option N :=
  match period f with
  | None => None
  | Some p =>
      if p =? 0 then None
      else Some (w64 (w64 (t / p + 1) * p))
  end.

(** Freq.NCyclesLater: ThisTick(now) + uint64(n) * period, n a Go int. *)
Definition n_cycles_later (f : N) (n : Z) (t : N) : option N :=
  match period f, this_tick f t with
  | Some p, Some base => Some (w64 (base + w64 (w64z n * p)))
  | _, _ => None
  end.

(** Specification side: the least multiple of [p] that is [>= t] / [> t]. *)
Definition least_multiple_ge (p t : N) : N := (t + p - 1) / p * p.
Definition least_multiple_gt (p t : N) : N := (t / p + 1) * p.
