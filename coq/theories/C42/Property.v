(** C42 — clock arithmetic is exact.  Property theorems only. *)
From Akita Require Import Lib.Base C42.Model C42.Proofs.
Local Open Scope N_scope.

(** For every frequency 1 Hz..1 THz the period is at least one picosecond. *)
Theorem c42_period_positive : forall f, in_range f ->
  exists p, period f = Some p /\ 1 <= p /\ p = ps_per_second / f.
Proof. exact period_in_range. Qed.
Print Assumptions c42_period_positive.

(** ThisTick is the smallest multiple of the period not before t, whenever that
    multiple fits in 64 bits. *)
Theorem c42_this_tick_least : forall f t p, in_range f -> t < two64 ->
  period f = Some p -> least_multiple_ge p t < two64 ->
  exists r, this_tick f t = Some r /\ r mod p = 0 /\ t <= r /\
            (forall m, m mod p = 0 -> t <= m -> r <= m).
Proof.
  intros f t p Hf Ht Hp Hfit. exists (least_multiple_ge p t).
  destruct (period_in_range f Hf) as [p' [Hp' [Hp1 _]]].
  rewrite Hp in Hp'. injection Hp' as <-.
  destruct (lmge_spec p t Hp1) as [A [B [_ D]]].
  split; [exact (this_tick_exact f t Hf Ht p Hp Hfit)|]. auto.
Qed.
Print Assumptions c42_this_tick_least.

(** NextTick is the smallest multiple strictly after t. *)
Theorem c42_next_tick_least : forall f t p, in_range f -> t < two64 ->
  period f = Some p -> least_multiple_gt p t < two64 ->
  exists r, next_tick f t = Some r /\ r mod p = 0 /\ t < r /\
            (forall m, m mod p = 0 -> t < m -> r <= m).
Proof.
  intros f t p Hf Ht Hp Hfit. exists (least_multiple_gt p t).
  destruct (period_in_range f Hf) as [p' [Hp' [Hp1 _]]].
  rewrite Hp in Hp'. injection Hp' as <-.
  destruct (lmgt_spec p t Hp1) as [A [B [_ D]]].
  split; [exact (next_tick_exact f t Hf Ht p Hp Hfit)|]. auto.
Qed.
Print Assumptions c42_next_tick_least.

(** N cycles later is the current tick plus N periods. *)
Theorem c42_ncycles : forall f n t p, in_range f -> t < two64 -> (0 <= n)%Z ->
  period f = Some p -> least_multiple_ge p t + Z.to_N n * p < two64 ->
  exists r, this_tick f t = Some r /\ n_cycles_later f n t = Some (r + Z.to_N n * p).
Proof.
  intros f n t p Hf Ht Hn Hp Hfit. exists (least_multiple_ge p t). split.
  - apply this_tick_exact; auto. lia.
  - apply n_cycles_later_exact; auto.
Qed.
Print Assumptions c42_ncycles.

(** The cycle count is the number of whole periods elapsed. *)
Theorem c42_cycle_floor : forall f t p, in_range f -> period f = Some p ->
  exists c, cycle f t = Some c /\ c * p <= t < (c + 1) * p.
Proof. intros f t p Hf Hp. exact (cycle_floor f t Hf p Hp). Qed.
Print Assumptions c42_cycle_floor.

(** Regression lemma: the pre-fix ThisTick (n + period - 1 overflow) returned 0
    for 1 GHz at t = 2^64 - 616 although the answer 2^64 - 616 is representable. *)
Theorem c42_this_tick_old_overflow_refuted :
  let f := 1000000000 in let t := two64 - 616 in
  least_multiple_ge 1000 t < two64 /\
  this_tick_old f t = Some 0 /\ this_tick f t = Some (least_multiple_ge 1000 t).
Proof. exact this_tick_old_overflow. Qed.
Print Assumptions c42_this_tick_old_overflow_refuted.

(** Non-vacuity: the hypotheses are met by a concrete non-edge time. *)
Example c42_nonvacuous :
  in_range 3 /\ period 3 = Some 333333333333 /\
  this_tick 3 1000000000000 = Some 1333333333332 /\
  next_tick 3 333333333333 = Some 666666666666.
Proof. unfold in_range. vm_compute. repeat split; congruence. Qed.

(** The predicate evaluated on the implementation's observed outputs
    ([Exec.holds_on]) is implied by agreement with the model. *)
From Akita Require Import C42.Exec.
Theorem c42_model_agreement_implies_property : forall c, c_t c < two64 ->
  check_case c = true -> holds_on c = true.
Proof. exact check_implies_holds. Qed.
Print Assumptions c42_model_agreement_implies_property.
