(** C42 — case evaluators for the correspondence check. *)
From Akita Require Import Lib.Base C42.Model.
Local Open Scope N_scope.

Record case := mk_case {
  c_f : N; c_t : N; c_n : Z;
  o_period : option N; o_cycle : option N; o_this : option N;
  o_next : option N; o_ncl : option N }.

Definition oeq := opt_eqb N.eqb.

(** model output = implementation output *)
Definition check_case (c : case) : bool :=
  oeq (period (c_f c)) (o_period c) &&
  oeq (cycle (c_f c) (c_t c)) (o_cycle c) &&
  oeq (this_tick (c_f c) (c_t c)) (o_this c) &&
  oeq (next_tick (c_f c) (c_t c)) (o_next c) &&
  oeq (n_cycles_later (c_f c) (c_n c) (c_t c)) (o_ncl c).

(** the property itself, evaluated on the implementation's observed outputs *)
Definition holds_on (c : case) : bool :=
  let f := c_f c in let t := c_t c in
  if (1 <=? f) && (f <=? ps_per_second) then
    match o_period c with
    | Some p =>
        (p =? ps_per_second / f) &&
        (match o_cycle c with Some k => (k * p <=? t) && (t <? (k + 1) * p) | None => false end) &&
        (if least_multiple_ge p t <? two64
         then oeq (o_this c) (Some (least_multiple_ge p t)) else true) &&
        (if least_multiple_gt p t <? two64
         then oeq (o_next c) (Some (least_multiple_gt p t)) else true) &&
        (if (0 <=? c_n c)%Z && (least_multiple_ge p t + Z.to_N (c_n c) * p <? two64)
         then oeq (o_ncl c) (Some (least_multiple_ge p t + Z.to_N (c_n c) * p)) else true)
    | None => false
    end
  else true.
