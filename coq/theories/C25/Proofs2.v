(** C25 — at-most-once / exactly-once for translations and accesses, and the coalescing clause. *)
From Akita Require Import Lib.Base C25.Model C25.Proofs.
Local Open Scope N_scope.

Definition pkey (x : pend) : N * N := (p_b x, p_id x).

(* ------------------------------------------------------------------ boolean NoDup *)
Lemma nodup_keyb_sound l : nodup_keyb l = true -> NoDup l.
Proof.
  induction l as [|x r IH]; cbn [nodup_keyb]; intro H; [constructor|].
  apply andb_true_iff in H. destruct H as [H1 H2]. constructor; [|auto].
  intro Hin. apply negb_true_iff in H1. assert (existsb (fun y => (fst x =? fst y) && (snd x =? snd y)) r = true) as Q.
  { apply existsb_exists. exists x. split; [exact Hin|]. rewrite !N.eqb_refl. reflexivity. }
  congruence.
Qed.

Lemma nodupNb_sound l : nodupNb l = true -> NoDup l.
Proof.
  induction l as [|x r IH]; cbn [nodupNb]; intro H; [constructor|].
  apply andb_true_iff in H. destruct H as [H1 H2]. constructor; [|auto].
  intro Hin. apply negb_true_iff in H1. assert (existsb (N.eqb x) r = true) as Q.
  { apply existsb_exists. exists x. split; [exact Hin|apply N.eqb_refl]. }
  congruence.
Qed.

Lemma req_keys_app a b : req_keys (a ++ b) = req_keys a ++ req_keys b.
Proof. induction a as [|e r IH]; [reflexivity|]. destruct e; cbn [app req_keys]; rewrite IH; reflexivity. Qed.

Lemma acc_ids_app a b : acc_ids (a ++ b) = acc_ids a ++ acc_ids b.
Proof. induction a as [|e r IH]; [reflexivity|]. destruct e; cbn [app acc_ids]; rewrite IH; reflexivity. Qed.

Lemma in_req_keys tr b id src pid va : In (EReq b id src pid va) tr -> In (b, id) (req_keys tr).
Proof.
  induction tr as [|e r IH]; [intros []|]. intros [->|H]; [left; reflexivity| ].
  destruct e; cbn [req_keys]; try (apply IH; exact H). right. apply IH. exact H.
Qed.

Lemma req_keys_in tr b id : In (b, id) (req_keys tr) -> exists src pid va, In (EReq b id src pid va) tr.
Proof.
  induction tr as [|e r IH]; [intros []|]. destruct e; cbn [req_keys]; intro H;
    try (destruct (IH H) as [s [p [v Q]]]; exists s, p, v; right; exact Q).
  destruct H as [E|H]; [inversion E; subst; eauto 6 using in_eq|].
  destruct (IH H) as [s [p [v Q]]]. exists s, p, v. right. exact Q.
Qed.

Lemma in_acc_ids tr id src pid va : In (EAcc id src pid va) tr -> In id (acc_ids tr).
Proof.
  induction tr as [|e r IH]; [intros []|]. intros [->|H]; [left; reflexivity| ].
  destruct e; cbn [acc_ids]; try (apply IH; exact H). right. apply IH. exact H.
Qed.

Lemma NoDup_app_disjoint {A} (l1 l2 : list A) x : NoDup (l1 ++ l2) -> In x l1 -> ~ In x l2.
Proof.
  induction l1 as [|y r IH]; intros ND H1 H2; [destruct H1|]. cbn [app] in ND. inversion ND; subst.
  destruct H1 as [->|H1]; [apply H3; apply in_or_app; right; exact H2|exact (IH H4 H1 H2)].
Qed.

(* ------------------------------------------------------------------ pending keys are unique *)
Lemma take_pend_none b id l : take_pend b id l = None -> ~ In (b, id) (map pkey l).
Proof.
  induction l as [|x r IH]; cbn [take_pend map]; [intros _ []|]. intros H [E|Hin].
  - unfold pkey in E. inversion E. subst. rewrite !N.eqb_refl in H. discriminate.
  - destruct ((p_b x =? b) && (p_id x =? id)); [discriminate|].
    destruct (take_pend b id r); [destruct p; discriminate|]. exact (IH eq_refl Hin).
Qed.

Lemma take_pend_nodup b id l x rest : NoDup (map pkey l) -> take_pend b id l = Some (x, rest) ->
  NoDup (map pkey rest) /\ ~ In (b, id) (map pkey rest) /\ (forall kk, In kk (map pkey rest) -> In kk (map pkey l)).
Proof.
  revert x rest; induction l as [|y r IH]; intros x rest ND H; cbn [take_pend] in H; [discriminate|].
  cbn [map] in ND. inversion ND as [|? ? Hy Hr]; subst.
  destruct ((p_b y =? b) && (p_id y =? id)) eqn:E.
  - inversion H; subst. apply andb_true_iff in E. destruct E as [E1 E2]. apply N.eqb_eq in E1, E2.
    split; [exact Hr|]. split; [|intros kk Q; right; exact Q].
    intro Q. apply Hy. unfold pkey at 1. rewrite E1, E2. exact Q.
  - destruct (take_pend b id r) as [[z r']|] eqn:T; [|discriminate]. inversion H; subst.
    destruct (IH _ _ Hr eq_refl) as [A [B C]]. cbn [map]. split; [|split].
    + constructor; [|exact A]. intro Q. apply Hy, C, Q.
    + intros [Q|Q]; [|exact (B Q)]. unfold pkey in Q. inversion Q. subst. rewrite !N.eqb_refl in E. discriminate.
    + intros kk [Q|Q]; [left; exact Q|right; apply C, Q].
Qed.

Definition pend_nodup (s : tst) : Prop := NoDup (map pkey (t_pend s)).

Lemma pend_nodup_step k s e s' : pend_nodup s -> tstep k s e = Some s' -> pend_nodup s'.
Proof.
  unfold pend_nodup. intros ND S. destruct e; cbn [tstep] in S.
  - destruct (take_pend b id (t_pend s)) eqn:T; [discriminate|]. inversion S; subst s'. cbn [t_pend map].
    constructor; [apply (take_pend_none _ _ _ T)|exact ND].
  - destruct (take_pend b rspTo (t_pend s)) as [[x rest]|] eqn:T; [|discriminate].
    destruct (_ && _); [|discriminate]. inversion S; subst s'. cbn [t_pend].
    exact (proj1 (take_pend_nodup _ _ _ _ _ ND T)).
  - destruct (take_acc id (t_acc s)); [discriminate|]. inversion S; subst s'. exact ND.
  - destruct (take_acc id (t_acc s)) as [[x rest]|]; [|discriminate].
    destruct (_ && _); [|discriminate]. inversion S; subst s'. exact ND.
  - destruct (take_acc rspTo (t_acc s)) as [[x rest]|]; [|discriminate].
    destruct (_ && _); [|discriminate]. inversion S; subst s'. exact ND.
  - inversion S; subst s'. exact ND.
  - inversion S; subst s'. exact ND.
  - destruct (t_pend s) eqn:E1; [|discriminate]. destruct (t_acc s); [|discriminate]. inversion S; subst s'.
    rewrite E1. constructor.
Qed.

Lemma pend_nodup_run k tr : forall s s', pend_nodup s -> trun k s tr = Some s' -> pend_nodup s'.
Proof.
  induction tr as [|e r IH]; intros s s' ND H; cbn [trun] in H; [inversion H; subst; exact ND|].
  destruct (tstep k s e) as [s1|] eqn:S; [|discriminate]. eapply IH; [|exact H]. eapply pend_nodup_step; eauto.
Qed.

(** a key that is not pending and is not requested again is never answered (again) *)
Lemma not_pending_never_answered k post : forall s s' b r,
  trun k s post = Some s' -> ~ In (b, r) (map pkey (t_pend s)) -> ~ In (b, r) (req_keys post) ->
  forall d p v pa vl, ~ In (ERsp b r d p v pa vl) post.
Proof.
  induction post as [|e rest IH]; intros s s' b r H NP NR d p v pa vl Hin; [destruct Hin|].
  cbn [trun] in H. destruct (tstep k s e) as [s1|] eqn:S; [|discriminate].
  assert (~ In (b, r) (map pkey (t_pend s1)) /\ ~ In (b, r) (req_keys rest) /\ e <> ERsp b r d p v pa vl) as [NP1 [NR1 NE]].
  { destruct e; cbn [tstep] in S; cbn [req_keys] in NR.
    - destruct (take_pend b0 id (t_pend s)); [discriminate|]. inversion S; subst s1. cbn [t_pend map].
      split; [|split; [|discriminate]].
      + intros [Q|Q]; [|exact (NP Q)]. apply NR. left. exact Q.
      + intro Q. apply NR. right. exact Q.
    - destruct (take_pend b0 rspTo (t_pend s)) as [[x rest']|] eqn:T; [|discriminate].
      destruct (_ && _); [|discriminate]. inversion S; subst s1. cbn [t_pend].
      split; [|split; [exact NR|]].
      + intro Q. apply NP. clear - T Q. revert x rest' T Q. induction (t_pend s) as [|y l IHl]; intros x rest' T Q; cbn [take_pend] in T; [discriminate|].
        destruct ((p_b y =? b0) && (p_id y =? rspTo)).
        * inversion T; subst. right. exact Q.
        * destruct (take_pend b0 rspTo l) as [[z r']|] eqn:T'; [|discriminate]. inversion T; subst.
          destruct Q as [Q|Q]; [left; exact Q|right; eapply IHl; eauto].
      + intro E. inversion E; subst. destruct (take_pend_in _ _ _ _ _ T) as [Hx [E1 E2]].
        apply NP. apply in_map_iff. exists x. split; [unfold pkey; rewrite E1, E2; reflexivity|exact Hx].
    - destruct (take_acc id (t_acc s)); [discriminate|]. inversion S; subst s1. split; [exact NP|split; [exact NR|discriminate]].
    - destruct (take_acc id (t_acc s)) as [[x r']|]; [|discriminate].
      destruct (_ && _); [|discriminate]. inversion S; subst s1. split; [exact NP|split; [exact NR|discriminate]].
    - destruct (take_acc rspTo (t_acc s)) as [[x r']|]; [|discriminate].
      destruct (_ && _); [|discriminate]. inversion S; subst s1. split; [exact NP|split; [exact NR|discriminate]].
    - inversion S; subst s1. split; [exact NP|split; [exact NR|discriminate]].
    - inversion S; subst s1. split; [exact NP|split; [exact NR|discriminate]].
    - destruct (t_pend s) eqn:E1; [|discriminate]. destruct (t_acc s); [|discriminate]. inversion S; subst s1.
      split; [rewrite E1; exact NP|split; [exact NR|discriminate]]. }
  destruct Hin as [E|Hin]; [exact (NE E)|]. exact (IH _ _ _ _ H NP1 NR1 d p v pa vl Hin).
Qed.

(* ------------------------------------------------------------------ the same for accesses *)
Lemma take_acc_none id l : take_acc id l = None -> ~ In id (map x_id l).
Proof.
  induction l as [|x r IH]; cbn [take_acc map]; [intros _ []|]. intros H [E|Hin].
  - subst. rewrite N.eqb_refl in H. discriminate.
  - destruct (x_id x =? id); [discriminate|].
    destruct (take_acc id r); [destruct p; discriminate|]. exact (IH eq_refl Hin).
Qed.

Lemma take_acc_nodup id l x rest : NoDup (map x_id l) -> take_acc id l = Some (x, rest) ->
  NoDup (map x_id rest) /\ ~ In id (map x_id rest) /\ (forall i, In i (map x_id rest) -> In i (map x_id l)).
Proof.
  revert x rest; induction l as [|y r IH]; intros x rest ND H; cbn [take_acc] in H; [discriminate|].
  cbn [map] in ND. inversion ND as [|? ? Hy Hr]; subst.
  destruct (x_id y =? id) eqn:E.
  - inversion H; subst. apply N.eqb_eq in E. split; [exact Hr|]. split; [rewrite <- E; exact Hy|intros i Q; right; exact Q].
  - destruct (take_acc id r) as [[z r']|] eqn:T; [|discriminate]. inversion H; subst.
    destruct (IH _ _ Hr eq_refl) as [A [B C]]. cbn [map]. split; [|split].
    + constructor; [|exact A]. intro Q. apply Hy, C, Q.
    + intros [Q|Q]; [|exact (B Q)]. subst. rewrite N.eqb_refl in E. discriminate.
    + intros i [Q|Q]; [left; exact Q|right; apply C, Q].
Qed.

Definition acc_nodup (s : tst) : Prop := NoDup (map x_id (t_acc s)).

Lemma acc_nodup_step k s e s' : acc_nodup s -> tstep k s e = Some s' -> acc_nodup s'.
Proof.
  unfold acc_nodup. intros ND S. destruct e; cbn [tstep] in S.
  - destruct (take_pend b id (t_pend s)); [discriminate|]. inversion S; subst s'. exact ND.
  - destruct (take_pend b rspTo (t_pend s)) as [[x rest]|]; [|discriminate].
    destruct (_ && _); [|discriminate]. inversion S; subst s'. exact ND.
  - destruct (take_acc id (t_acc s)) eqn:T; [discriminate|]. inversion S; subst s'. cbn [t_acc map x_id].
    constructor; [apply (take_acc_none _ _ T)|exact ND].
  - destruct (take_acc id (t_acc s)) as [[x rest]|] eqn:T; [|discriminate].
    destruct (_ && _); [|discriminate]. inversion S; subst s'. cbn [t_acc map x_id].
    destruct (take_acc_nodup _ _ _ _ ND T) as [A [B _]]. destruct (take_acc_in _ _ _ _ T) as [_ E].
    constructor; [rewrite E; exact B|exact A].
  - destruct (take_acc rspTo (t_acc s)) as [[x rest]|] eqn:T; [|discriminate].
    destruct (_ && _); [|discriminate]. inversion S; subst s'. cbn [t_acc].
    exact (proj1 (take_acc_nodup _ _ _ _ ND T)).
  - inversion S; subst s'. exact ND.
  - inversion S; subst s'. exact ND.
  - destruct (t_pend s); [|discriminate]. destruct (t_acc s) eqn:E2; [|discriminate]. inversion S; subst s'.
    rewrite E2. constructor.
Qed.

Lemma acc_nodup_run k tr : forall s s', acc_nodup s -> trun k s tr = Some s' -> acc_nodup s'.
Proof.
  induction tr as [|e r IH]; intros s s' ND H; cbn [trun] in H; [inversion H; subst; exact ND|].
  destruct (tstep k s e) as [s1|] eqn:S; [|discriminate]. eapply IH; [|exact H]. eapply acc_nodup_step; eauto.
Qed.

Lemma sent_step k s s1 e id : tstep k s e = Some s1 -> ~ In id (acc_ids [e]) ->
  (forall x, In x (t_acc s) -> x_id x = id -> x_sent x = true) ->
  (forall x, In x (t_acc s1) -> x_id x = id -> x_sent x = true).
Proof.
  intros S NA SENT. destruct e; cbn [tstep] in S; cbn [acc_ids] in NA.
  - destruct (take_pend b id0 (t_pend s)); [discriminate|]. inversion S; subst s1. exact SENT.
  - destruct (take_pend b rspTo (t_pend s)) as [[x r']|]; [|discriminate].
    destruct (_ && _); [|discriminate]. inversion S; subst s1. exact SENT.
  - destruct (take_acc id0 (t_acc s)); [discriminate|]. inversion S; subst s1. cbn [t_acc].
    intros x [<-|Hx] Ex; [cbn in Ex; exfalso; apply NA; left; exact Ex|exact (SENT x Hx Ex)].
  - destruct (take_acc id0 (t_acc s)) as [[y r']|] eqn:T; [|discriminate].
    destruct (_ && _); [|discriminate]. inversion S; subst s1. cbn [t_acc].
    intros x [<-|Hx] Ex; [reflexivity|]. apply (SENT x); [eapply take_acc_subset; eauto|exact Ex].
  - destruct (take_acc rspTo (t_acc s)) as [[y r']|] eqn:T; [|discriminate].
    destruct (_ && _); [|discriminate]. inversion S; subst s1. cbn [t_acc].
    intros x Hx Ex. apply (SENT x); [eapply take_acc_subset; eauto|exact Ex].
  - inversion S; subst s1. exact SENT.
  - inversion S; subst s1. exact SENT.
  - destruct (t_pend s); [|discriminate]. destruct (t_acc s) eqn:E2; [|discriminate]. inversion S; subst s1.
    rewrite E2. intros x [].
Qed.

(** an access that is not (or no longer) with the translator and is not issued again is never
    forwarded or answered (again); one that was forwarded is never forwarded again *)
Lemma acc_gone_stays_gone k post : forall s s' id,
  trun k s post = Some s' -> ~ In id (acc_ids post) ->
  ((~ In id (map x_id (t_acc s))) -> (forall d, ~ In (EAccRsp id d) post) /\ (forall pa, ~ In (EBot id pa) post)) /\
  ((forall x, In x (t_acc s) -> x_id x = id -> x_sent x = true) -> forall pa, ~ In (EBot id pa) post).
Proof.
  induction post as [|e rest IH]; intros s s' id H NA; [split; [intros _; split; intros ? []|intros _ ? []]|].
  cbn [trun] in H. destruct (tstep k s e) as [s1|] eqn:S; [|discriminate].
  assert (NA1 : ~ In id (acc_ids rest)) by (destruct e; cbn [acc_ids] in NA; auto; intro Q; apply NA; right; exact Q).
  destruct (IH _ _ _ H NA1) as [IH1 IH2]. split.
  - intros NP.
    assert (~ In id (map x_id (t_acc s1)) /\ (forall d, e <> EAccRsp id d) /\ (forall pa, e <> EBot id pa)) as [NP1 [N1 N2]].
    { destruct e; cbn [tstep] in S; cbn [acc_ids] in NA.
      - destruct (take_pend b id0 (t_pend s)); [discriminate|]. inversion S; subst s1. repeat split; try discriminate; exact NP.
      - destruct (take_pend b rspTo (t_pend s)) as [[x r']|]; [|discriminate].
        destruct (_ && _); [|discriminate]. inversion S; subst s1. repeat split; try discriminate; exact NP.
      - destruct (take_acc id0 (t_acc s)); [discriminate|]. inversion S; subst s1. cbn [t_acc map x_id].
        repeat split; try discriminate. intros [Q|Q]; [apply NA; left; exact Q|exact (NP Q)].
      - destruct (take_acc id0 (t_acc s)) as [[x r']|] eqn:T; [|discriminate].
        destruct (_ && _); [|discriminate]. inversion S; subst s1. cbn [t_acc map x_id].
        destruct (take_acc_in _ _ _ _ T) as [Hx E].
        assert (id0 <> id) as NE by (intro Q; subst; apply NP; apply in_map_iff; exists x; auto).
        split; [|split; [discriminate|intros pa Q; inversion Q; congruence]].
        intros [Q|Q]; [congruence|]. apply NP. apply in_map_iff in Q. destruct Q as [y [Ey Hy]].
        apply in_map_iff. exists y. split; [exact Ey|eapply take_acc_subset; eauto].
      - destruct (take_acc rspTo (t_acc s)) as [[x r']|] eqn:T; [|discriminate].
        destruct (_ && _); [|discriminate]. inversion S; subst s1. cbn [t_acc].
        destruct (take_acc_in _ _ _ _ T) as [Hx E].
        assert (rspTo <> id) as NE by (intro Q; subst; apply NP; apply in_map_iff; exists x; auto).
        split; [|split; [intros d Q; inversion Q; congruence|discriminate]].
        intro Q. apply NP. apply in_map_iff in Q. destruct Q as [y [Ey Hy]].
        apply in_map_iff. exists y. split; [exact Ey|eapply take_acc_subset; eauto].
      - inversion S; subst s1. repeat split; try discriminate; exact NP.
      - inversion S; subst s1. repeat split; try discriminate; exact NP.
      - destruct (t_pend s); [|discriminate]. destruct (t_acc s) eqn:E2; [|discriminate]. inversion S; subst s1.
        repeat split; try discriminate. rewrite E2. intros []. }
    destruct (IH1 NP1) as [A B]. split.
    + intros d [E|Hin]; [exact (N1 d E)|exact (A d Hin)].
    + intros pa [E|Hin]; [exact (N2 pa E)|exact (B pa Hin)].
  - intros SENT pa [E|Hin].
    + subst e. cbn [tstep] in S. destruct (take_acc id (t_acc s)) as [[x r']|] eqn:T; [|discriminate].
      destruct (take_acc_in _ _ _ _ T) as [Hx Ex]. rewrite (SENT x Hx Ex) in S. cbn in S. discriminate.
    + assert (~ In id (acc_ids [e])) as NA0.
      { intro Q. apply NA. destruct e; cbn [acc_ids] in Q |- *; try (destruct Q; fail).
        destruct Q as [Q|Q]; [left; exact Q|destruct Q]. }
      exact (IH2 (sent_step k s s1 e id S NA0 SENT) pa Hin).
Qed.

(* ------------------------------------------------------------------ coalescing *)
Lemma crun_app n k a : forall out b,
  crun n k out (a ++ b) = match crun n k out a with Some o' => crun n k o' b | None => None end.
Proof.
  induction a as [|e r IH]; intros out b; cbn [app crun]; [reflexivity|].
  destruct (cstep n k out e); [apply IH|reflexivity].
Qed.

Lemma cout_until n k tr : forall out out' o, crun n k out tr = Some out' -> In o out ->
  In o out' \/ exists d p v pa vl, In (ERsp (o_b o) (o_id o) d p v pa vl) tr.
Proof.
  induction tr as [|e r IH]; intros out out' o H Ho; cbn [crun] in H; [inversion H; subst; auto|].
  destruct (cstep n k out e) as [o1|] eqn:S; [|discriminate].
  assert (In o o1 \/ exists d p v pa vl, e = ERsp (o_b o) (o_id o) d p v pa vl) as [H1|H1].
  { destruct e; cbn [cstep] in S; try (inversion S; subst; auto; fail).
    - destruct ((1 <=? b) && (b <=? n)); [|inversion S; subst; auto].
      destruct (existsb _ out); [discriminate|]. inversion S; subst. left. right. exact Ho.
    - inversion S; subst. destruct ((o_b o =? b) && (o_id o =? rspTo)) eqn:E.
      + apply andb_true_iff in E. destruct E as [E1 E2]. apply N.eqb_eq in E1, E2. subst. right. eauto 6.
      + left. apply filter_In. split; [exact Ho|]. rewrite E. reflexivity. }
  - destruct (IH _ _ _ H H1) as [Q|[d [p [v [pa [vl Q]]]]]]; [left; exact Q|right].
    exists d, p, v, pa, vl. right. exact Q.
  - destruct H1 as [d [p [v [pa [vl ->]]]]]. right. exists d, p, v, pa, vl. left. reflexivity.
Qed.

(* ------------------------------------------------------------------ helpers for the access theorem *)
Lemma first_split (P : ev -> bool) l : existsb P l = true ->
  exists a x b, l = a ++ x :: b /\ P x = true /\ forall y, In y a -> P y = false.
Proof.
  induction l as [|e r IH]; cbn [existsb]; [discriminate|]. destruct (P e) eqn:E.
  - intros _. exists [], e, r. split; [reflexivity|]. split; [exact E|intros y []].
  - cbn [orb]. intro H. destruct (IH H) as [a [x [b [-> [Px Na]]]]].
    exists (e :: a), x, b. split; [reflexivity|]. split; [exact Px|]. intros y [<-|Hy]; auto.
Qed.

Lemma accepts_prefix k a b : accepts k (a ++ b) = true -> accepts k a = true.
Proof. unfold accepts. rewrite trun_app. destruct (trun k tst0 a); [reflexivity|discriminate]. Qed.

(** a forwarded access has its EBot in the history *)
Definition bot_inv (tr : list ev) (s : tst) : Prop :=
  forall x, In x (t_acc s) -> x_sent x = true -> exists pa, In (EBot (x_id x) pa) tr.

Lemma bot_inv_step k tr s e s' : bot_inv tr s -> tstep k s e = Some s' -> bot_inv (tr ++ [e]) s'.
Proof.
  intros B S.
  assert (B' : forall x, In x (t_acc s) -> x_sent x = true -> exists pa, In (EBot (x_id x) pa) (tr ++ [e])).
  { intros x Hx Sx. destruct (B x Hx Sx) as [pa Q]. exists pa. apply in_or_app. left. exact Q. }
  destruct e; cbn [tstep] in S.
  - destruct (take_pend b id (t_pend s)); [discriminate|]. inversion S; subst s'. exact B'.
  - destruct (take_pend b rspTo (t_pend s)) as [[x r']|]; [|discriminate].
    destruct (_ && _); [|discriminate]. inversion S; subst s'. exact B'.
  - destruct (take_acc id (t_acc s)); [discriminate|]. inversion S; subst s'. cbn [t_acc].
    intros x [<-|Hx] Sx; [discriminate|exact (B' x Hx Sx)].
  - destruct (take_acc id (t_acc s)) as [[y r']|] eqn:T; [|discriminate].
    destruct (_ && _); [|discriminate]. inversion S; subst s'. cbn [t_acc].
    destruct (take_acc_in _ _ _ _ T) as [_ Ey].
    intros x [<-|Hx] Sx.
    + cbn [x_id]. exists paddr. apply in_or_app. right. left. rewrite Ey. reflexivity.
    + apply B'; [eapply take_acc_subset; eauto|exact Sx].
  - destruct (take_acc rspTo (t_acc s)) as [[y r']|] eqn:T; [|discriminate].
    destruct (_ && _); [|discriminate]. inversion S; subst s'. cbn [t_acc].
    intros x Hx Sx. apply B'; [eapply take_acc_subset; eauto|exact Sx].
  - inversion S; subst s'. exact B'.
  - inversion S; subst s'. exact B'.
  - destruct (t_pend s); [|discriminate]. destruct (t_acc s) eqn:E2; [|discriminate]. inversion S; subst s'.
    intros x Hx. rewrite E2 in Hx. destruct Hx.
Qed.

Lemma bot_inv_run k tr2 : forall tr1 s s', bot_inv tr1 s -> trun k s tr2 = Some s' -> bot_inv (tr1 ++ tr2) s'.
Proof.
  induction tr2 as [|e r IH]; intros tr1 s s' I H; cbn [trun] in H.
  - inversion H; subst. rewrite app_nil_r. exact I.
  - destruct (tstep k s e) as [s1|] eqn:S; [|discriminate].
    replace (tr1 ++ e :: r) with ((tr1 ++ [e]) ++ r) by (rewrite <- app_assoc; reflexivity).
    eapply IH; [|exact H]. eapply bot_inv_step; eauto.
Qed.

(** an answered access was delivered by that requester and forwarded before *)
Lemma accrsp_has_acc_and_bot k pre id dst post : accepts k (pre ++ EAccRsp id dst :: post) = true ->
  (exists pid va, In (EAcc id dst pid va) pre) /\ (exists pa, In (EBot id pa) pre).
Proof.
  intro H. destruct (accepts_split _ _ _ _ H) as [s [s1 [s2 [R [S _]]]]].
  pose proof (hist_inv_run k pre [] _ _ hist_inv0 R) as [_ HA]. cbn [app] in HA.
  assert (bot_inv pre s) as BI by (apply (bot_inv_run k pre [] tst0 s); [intros x []|exact R]).
  cbn [tstep] in S. destruct (take_acc id (t_acc s)) as [[x rest]|] eqn:T; [|discriminate].
  destruct (take_acc_in _ _ _ _ T) as [Hx Ex].
  destruct (x_sent x && (x_src x =? dst)) eqn:C; [|discriminate].
  apply andb_true_iff in C. destruct C as [C1 C2]. apply N.eqb_eq in C2.
  split.
  - specialize (HA x Hx). rewrite Ex, C2 in HA. eauto.
  - destruct (BI x Hx C1) as [pa Q]. rewrite Ex in Q. eauto.
Qed.
