(** C25 — case evaluators.
    [KernelCase]: the real address translator / TLB answered a single probe; the model must
    give the same numbers.  [StackCase]: the event history of a real translation stack;
    [holds_on] is the acceptor (trace inclusion). *)
From Akita Require Import Lib.Base C25.Model.
Local Open Scope N_scope.

Inductive case :=
| ATCase (k pid vaddr ppage : N) (o_vpage : N) (o_paddr : option N)
| TLBCase (psize nsets nways vaddr : N) (o_set : option N)
          (addrs : list N) (fpid : N) (cached : list (N * N)) (o_left : list (N * N))
| StackCase (k ntlb : N) (tr : list ev) (clean : bool).

Definition oeq := opt_eqb N.eqb.
Definition pair_eqb (a b : N * N) : bool := (fst a =? fst b) && (snd a =? snd b).

Definition is_end (e : ev) : bool := match e with EEnd => true | _ => false end.

Definition check_case (c : case) : bool :=
  match c with
  | ATCase k pid vaddr ppage ov op =>
      (at_vpage k vaddr =? ov) && oeq (at_paddr k ppage vaddr) op
  | TLBCase psize nsets nways vaddr os addrs fpid cached lft =>
      oeq (tlb_set_id psize nsets vaddr) os &&
      list_eqb pair_eqb (filter (fun pg => negb (inval_match psize addrs fpid (fst pg) (snd pg))) cached) lft
  | StackCase k _ tr clean =>
      clean && match rev tr with EEnd :: r => negb (existsb is_end r) | _ => false end
  end.

(** offset preserved and the frame is the mapped one, evaluated on the observed numbers *)
Definition holds_on (c : case) : bool :=
  match c with
  | ATCase k pid vaddr ppage ov op =>
      if (k <? 64) && (ppage mod 2 ^ k =? 0) && (ppage + 2 ^ k <=? two64) then
        match op with
        | Some a => (a mod 2 ^ k =? vaddr mod 2 ^ k) && (a / 2 ^ k =? ppage / 2 ^ k) &&
                    (ov mod 2 ^ k =? 0) && (ov <=? vaddr) && (vaddr <? ov + 2 ^ k)
        | None => false end
      else true
  | TLBCase psize _ _ _ _ addrs fpid cached lft =>
      (* after the acknowledged Invalidate nothing that the filter covers is still cached, and
         what is still cached was cached before *)
      forallb (fun pg => negb (inval_match psize addrs fpid (fst pg) (snd pg))) lft &&
      forallb (fun pg => existsb (pair_eqb pg) cached) lft
  | StackCase k ntlb tr _ => accepts_stack ntlb k tr
  end.
