(** C25 — kernel lemmas and soundness of the translation-view acceptor. *)
From Akita Require Import Lib.Base C25.Model.
Local Open Scope N_scope.

(* ------------------------------------------------------------------ kernels *)

Lemma two64_pow k : k < 64 -> 2 ^ k * 2 ^ (64 - k) = two64.
Proof.
  intro H. rewrite <- N.pow_add_r. replace (k + (64 - k)) with 64 by lia. reflexivity.
Qed.

Lemma pow_pos k : 0 < 2 ^ k.
Proof. apply N.neq_0_lt_0. apply N.pow_nonzero. lia. Qed.

(** the page asked for is the page-aligned address at or below vaddr, less than a page away *)
Lemma at_vpage_spec k vaddr : k < 64 -> vaddr < two64 ->
  at_vpage k vaddr = vaddr / 2 ^ k * 2 ^ k /\
  at_vpage k vaddr mod 2 ^ k = 0 /\ at_vpage k vaddr <= vaddr < at_vpage k vaddr + 2 ^ k.
Proof.
  intros Hk Hv. unfold at_vpage. rewrite N.shiftr_div_pow2, N.shiftl_mul_pow2.
  pose proof (pow_pos k) as P.
  assert (vaddr / 2 ^ k * 2 ^ k <= vaddr) as L.
  { rewrite N.mul_comm. apply N.mul_div_le. lia. }
  rewrite w64_small by lia. split; [reflexivity|]. split.
  - apply N.mod_mul. lia.
  - split; [exact L|]. pose proof (N.mod_lt vaddr (2 ^ k) ltac:(lia)).
    pose proof (N.div_mod vaddr (2 ^ k) ltac:(lia)). nia.
Qed.

(** the translated address keeps the page offset and lies in the mapped frame *)
Lemma at_paddr_spec k ppage vaddr : k < 64 -> ppage mod 2 ^ k = 0 -> ppage + 2 ^ k <= two64 ->
  exists a, at_paddr k ppage vaddr = Some a /\ a = ppage + vaddr mod 2 ^ k /\
    a mod 2 ^ k = vaddr mod 2 ^ k /\ a / 2 ^ k = ppage / 2 ^ k.
Proof.
  intros Hk Ha Hf. unfold at_paddr.
  assert (64 <=? k = false) as -> by (apply N.leb_gt; exact Hk).
  pose proof (pow_pos k) as P.
  pose proof (N.mod_lt vaddr (2 ^ k) ltac:(lia)) as Lo.
  exists (ppage + vaddr mod 2 ^ k). rewrite w64_small by lia.
  split; [reflexivity|]. split; [reflexivity|].
  apply N.mod_divides in Ha; [|lia]. destruct Ha as [q Hq]. subst ppage. split.
  - rewrite N.mul_comm, N.add_comm, N.mod_add by lia. apply N.mod_small. exact Lo.
  - rewrite (N.mul_comm (2 ^ k) q), N.div_add_l by lia.
    rewrite N.div_mul by lia. rewrite (N.div_small _ _ Lo). lia.
Qed.

(* ------------------------------------------------------------------ acceptor: running *)

Lemma trun_app k tr1 tr2 s :
  trun k s (tr1 ++ tr2) = match trun k s tr1 with Some s' => trun k s' tr2 | None => None end.
Proof.
  revert s; induction tr1 as [|e r IH]; intro s; cbn [app trun]; [reflexivity|].
  destruct (tstep k s e); [apply IH|reflexivity].
Qed.

Lemma accepts_split k pre e post : accepts k (pre ++ e :: post) = true ->
  exists s s' s'', trun k tst0 pre = Some s /\ tstep k s e = Some s' /\ trun k s' post = Some s''.
Proof.
  unfold accepts. rewrite trun_app. destruct (trun k tst0 pre) as [s|]; [|discriminate].
  cbn [trun]. destruct (tstep k s e) as [s'|] eqn:E; [|discriminate].
  destruct (trun k s' post) as [s''|] eqn:F; [|discriminate]. intros _. eauto 7.
Qed.

(* ------------------------------------------------------------------ page-table view as a function of the history *)

(** the page table and the not-yet-invalidated older mappings, as determined by the
    page-table writes and acknowledged invalidations of a history alone *)
Definition pt_step (st : list (key * N) * list (key * N)) (e : ev) : list (key * N) * list (key * N) :=
  let '(pt, stale) := st in
  match e with
  | EPT pid vpage paddr =>
      let kk := (pid, vpage) in
      ((kk, paddr) :: pt,
       match pt_lookup kk pt with
       | Some p => if p =? paddr then stale else (kk, p) :: stale
       | None => stale end)
  | EInv pid vpage => (pt, filter (fun e => negb (key_eqb (fst e) (pid, vpage))) stale)
  | _ => (pt, stale)
  end.
Definition pt_view (tr : list ev) : list (key * N) * list (key * N) := fold_left pt_step tr ([], []).

Lemma tstep_pt k s e s' : tstep k s e = Some s' -> (t_pt s', t_stale s') = pt_step (t_pt s, t_stale s) e.
Proof.
  destruct e; cbn [tstep pt_step]; intro H.
  - destruct (take_pend b id (t_pend s)); [discriminate|]. inversion H; reflexivity.
  - destruct (take_pend b rspTo (t_pend s)) as [[x rest]|]; [|discriminate].
    destruct (_ && _); [|discriminate]. inversion H; reflexivity.
  - destruct (take_acc id (t_acc s)); [discriminate|]. inversion H; reflexivity.
  - destruct (take_acc id (t_acc s)) as [[x rest]|]; [|discriminate].
    destruct (_ && _); [|discriminate]. inversion H; reflexivity.
  - destruct (take_acc rspTo (t_acc s)) as [[x rest]|]; [|discriminate].
    destruct (_ && _); [|discriminate]. inversion H; reflexivity.
  - inversion H; reflexivity.
  - inversion H; reflexivity.
  - destruct (t_pend s); [|discriminate]. destruct (t_acc s); [|discriminate]. inversion H; reflexivity.
Qed.

Lemma trun_pt k tr : forall s s', trun k s tr = Some s' ->
  (t_pt s', t_stale s') = fold_left pt_step tr (t_pt s, t_stale s).
Proof.
  induction tr as [|e r IH]; intros s s' H; cbn [trun] in H; [inversion H; reflexivity|].
  destruct (tstep k s e) as [s1|] eqn:S; [|discriminate]. cbn [fold_left].
  rewrite <- (tstep_pt _ _ _ _ S). apply IH. exact H.
Qed.

Definition permitted_in (v : list (key * N) * list (key * N)) (kk : key) (p : N) : bool :=
  (match pt_lookup kk (fst v) with Some p' => p' =? p | None => false end) ||
  existsb (fun e => key_eqb (fst e) kk && (snd e =? p)) (snd v).

(* ------------------------------------------------------------------ pending requests come from the history *)

Lemma take_pend_in b id l x rest : take_pend b id l = Some (x, rest) ->
  In x l /\ p_b x = b /\ p_id x = id.
Proof.
  revert x rest; induction l as [|y r IH]; intros x rest H; cbn [take_pend] in H; [discriminate|].
  destruct ((p_b y =? b) && (p_id y =? id)) eqn:E.
  - inversion H; subst. apply andb_true_iff in E. destruct E as [E1 E2].
    apply N.eqb_eq in E1, E2. split; [left; reflexivity|auto].
  - destruct (take_pend b id r) as [[z r']|] eqn:T; [|discriminate]. inversion H; subst.
    destruct (IH _ _ eq_refl) as [A B]. split; [right; exact A|exact B].
Qed.

Lemma take_pend_subset b id l x rest y : take_pend b id l = Some (x, rest) -> In y rest -> In y l.
Proof.
  revert x rest; induction l as [|z r IH]; intros x rest H Hy; cbn [take_pend] in H; [discriminate|].
  destruct ((p_b z =? b) && (p_id z =? id)).
  - inversion H; subst. right. exact Hy.
  - destruct (take_pend b id r) as [[w r']|] eqn:T; [|discriminate]. inversion H; subst.
    destruct Hy as [->|Hy]; [left; reflexivity|right; eapply IH; eauto].
Qed.

Lemma take_acc_in id l x rest : take_acc id l = Some (x, rest) -> In x l /\ x_id x = id.
Proof.
  revert x rest; induction l as [|y r IH]; intros x rest H; cbn [take_acc] in H; [discriminate|].
  destruct (x_id y =? id) eqn:E.
  - inversion H; subst. apply N.eqb_eq in E. split; [left; reflexivity|exact E].
  - destruct (take_acc id r) as [[z r']|] eqn:T; [|discriminate]. inversion H; subst.
    destruct (IH _ _ eq_refl) as [A B]. split; [right; exact A|exact B].
Qed.

Lemma take_acc_subset id l x rest y : take_acc id l = Some (x, rest) -> In y rest -> In y l.
Proof.
  revert x rest; induction l as [|z r IH]; intros x rest H Hy; cbn [take_acc] in H; [discriminate|].
  destruct (x_id z =? id).
  - inversion H; subst. right. exact Hy.
  - destruct (take_acc id r) as [[w r']|] eqn:T; [|discriminate]. inversion H; subst.
    destruct Hy as [->|Hy]; [left; reflexivity|right; eapply IH; eauto].
Qed.

(** every pending translation request / access of the state was delivered in the history *)
Definition hist_inv (tr : list ev) (s : tst) : Prop :=
  (forall x, In x (t_pend s) -> In (EReq (p_b x) (p_id x) (p_src x) (p_pid x) (p_vaddr x)) tr) /\
  (forall x, In x (t_acc s) -> In (EAcc (x_id x) (x_src x) (x_pid x) (x_vaddr x)) tr).

Lemma hist_inv_step k tr s e s' : hist_inv tr s -> tstep k s e = Some s' -> hist_inv (tr ++ [e]) s'.
Proof.
  intros [HP HA] S.
  assert (HP' : forall x, In x (t_pend s) -> In (EReq (p_b x) (p_id x) (p_src x) (p_pid x) (p_vaddr x)) (tr ++ [e]))
    by (intros; apply in_or_app; left; auto).
  assert (HA' : forall x, In x (t_acc s) -> In (EAcc (x_id x) (x_src x) (x_pid x) (x_vaddr x)) (tr ++ [e]))
    by (intros; apply in_or_app; left; auto).
  destruct e; cbn [tstep] in S.
  - destruct (take_pend b id (t_pend s)); [discriminate|]. inversion S; subst s'. split; cbn [t_pend t_acc]; [|exact HA'].
    intros x [<-|Hx]; [apply in_or_app; right; left; reflexivity|auto].
  - destruct (take_pend b rspTo (t_pend s)) as [[x rest]|] eqn:T; [|discriminate].
    destruct (_ && _); [|discriminate]. inversion S; subst s'. split; cbn [t_pend t_acc]; [|exact HA'].
    intros y Hy. apply HP'. eapply take_pend_subset; eauto.
  - destruct (take_acc id (t_acc s)); [discriminate|]. inversion S; subst s'. split; cbn [t_pend t_acc]; [exact HP'|].
    intros x [<-|Hx]; [apply in_or_app; right; left; reflexivity|auto].
  - destruct (take_acc id (t_acc s)) as [[x rest]|] eqn:T; [|discriminate].
    destruct (_ && _); [|discriminate]. inversion S; subst s'. split; cbn [t_pend t_acc]; [exact HP'|].
    destruct (take_acc_in _ _ _ _ T) as [Hx _].
    intros y [<-|Hy]; [cbn; apply HA'; exact Hx|apply HA'; eapply take_acc_subset; eauto].
  - destruct (take_acc rspTo (t_acc s)) as [[x rest]|] eqn:T; [|discriminate].
    destruct (_ && _); [|discriminate]. inversion S; subst s'. split; cbn [t_pend t_acc]; [exact HP'|].
    intros y Hy. apply HA'. eapply take_acc_subset; eauto.
  - inversion S; subst s'. split; assumption.
  - inversion S; subst s'. split; assumption.
  - destruct (t_pend s) eqn:E1; [|discriminate]. destruct (t_acc s) eqn:E2; [|discriminate].
    inversion S; subst s'. split; intros x Hx; [rewrite E1 in Hx|rewrite E2 in Hx]; destruct Hx.
Qed.

Lemma hist_inv_run k tr2 : forall tr1 s s', hist_inv tr1 s -> trun k s tr2 = Some s' -> hist_inv (tr1 ++ tr2) s'.
Proof.
  induction tr2 as [|e r IH]; intros tr1 s s' I H; cbn [trun] in H.
  - inversion H; subst. rewrite app_nil_r. exact I.
  - destruct (tstep k s e) as [s1|] eqn:S; [|discriminate].
    replace (tr1 ++ e :: r) with ((tr1 ++ [e]) ++ r) by (rewrite <- app_assoc; reflexivity).
    eapply IH; [|exact H]. eapply hist_inv_step; eauto.
Qed.

Lemma hist_inv0 : hist_inv [] tst0.
Proof. split; intros x []. Qed.

(* ------------------------------------------------------------------ invalidation *)

Lemma key_eqb_eq a b : key_eqb a b = true <-> a = b.
Proof.
  destruct a, b. unfold key_eqb. cbn [fst snd]. rewrite andb_true_iff, !N.eqb_eq.
  split; [intros [-> ->]; reflexivity|intro H; inversion H; auto].
Qed.

(** a history without page-table writes of a key does not change the key's mapping *)
Lemma pt_lookup_unchanged pid va mid : (forall p, ~ In (EPT pid va p) mid) ->
  forall st, pt_lookup (pid, va) (fst (fold_left pt_step mid st)) = pt_lookup (pid, va) (fst st).
Proof.
  induction mid as [|x r IH]; intros NoPT st; [reflexivity|]. cbn [fold_left].
  rewrite IH by (intros p Q; apply (NoPT p); right; exact Q).
  destruct st as [pt stale]. destruct x; cbn [pt_step fst]; try reflexivity.
  cbn [pt_lookup]. destruct (key_eqb (pid, va) (pid0, vpage)) eqn:E; [|reflexivity].
  apply key_eqb_eq in E. inversion E; subst. exfalso. apply (NoPT paddr). left. reflexivity.
Qed.

(** ... and creates no stale mapping of that key *)
Lemma stale_clean pid va mid : (forall p, ~ In (EPT pid va p) mid) ->
  forall st, (forall e, In e (snd st) -> key_eqb (fst e) (pid, va) = false) ->
  forall e, In e (snd (fold_left pt_step mid st)) -> key_eqb (fst e) (pid, va) = false.
Proof.
  induction mid as [|x r IH]; intros NoPT st Hs e He; cbn [fold_left] in He; [auto|].
  apply (IH (fun p Q => NoPT p (or_intror Q)) (pt_step st x)); [|exact He].
  destruct st as [pt stale]. cbn [snd] in Hs. intros e0 H0.
  destruct x; cbn [pt_step snd] in H0; auto.
  - destruct (pt_lookup (pid0, vpage) pt) as [p|]; [|auto].
    destruct (p =? paddr); [auto|]. destruct H0 as [<-|H0]; [|auto]. cbn [fst].
    destruct (key_eqb (pid0, vpage) (pid, va)) eqn:E; [|reflexivity].
    apply key_eqb_eq in E. inversion E; subst. exfalso. apply (NoPT paddr). left. reflexivity.
  - apply filter_In in H0. destruct H0 as [H0 _]. auto.
Qed.

(* ------------------------------------------------------------------ everything is answered *)

Lemma take_pend_cases b id l y rest x : take_pend b id l = Some (y, rest) -> In x l -> x = y \/ In x rest.
Proof.
  revert y rest; induction l as [|z r IH]; intros y rest H Hx; cbn [take_pend] in H; [discriminate|].
  destruct ((p_b z =? b) && (p_id z =? id)).
  - inversion H; subst. destruct Hx as [->|Hx]; auto.
  - destruct (take_pend b id r) as [[w r']|] eqn:T; [|discriminate]. inversion H; subst.
    destruct Hx as [->|Hx]; [right; left; reflexivity|].
    destruct (IH _ _ eq_refl Hx) as [->|Q]; [left; reflexivity|right; right; exact Q].
Qed.

Lemma take_acc_cases id l y rest x : take_acc id l = Some (y, rest) -> In x l -> x = y \/ In x rest.
Proof.
  revert y rest; induction l as [|z r IH]; intros y rest H Hx; cbn [take_acc] in H; [discriminate|].
  destruct (x_id z =? id).
  - inversion H; subst. destruct Hx as [->|Hx]; auto.
  - destruct (take_acc id r) as [[w r']|] eqn:T; [|discriminate]. inversion H; subst.
    destruct Hx as [->|Hx]; [right; left; reflexivity|].
    destruct (IH _ _ eq_refl Hx) as [->|Q]; [left; reflexivity|right; right; exact Q].
Qed.

(** a pending translation request stays pending until its level answers it *)
Lemma pend_until k tr : forall s s' x, trun k s tr = Some s' -> In x (t_pend s) ->
  In x (t_pend s') \/ exists dst pid va pa valid, In (ERsp (p_b x) (p_id x) dst pid va pa valid) tr.
Proof.
  induction tr as [|e r IH]; intros s s' x H Hx; cbn [trun] in H; [inversion H; subst; auto|].
  destruct (tstep k s e) as [s1|] eqn:S; [|discriminate].
  assert (In x (t_pend s1) \/ exists dst pid va pa valid, e = ERsp (p_b x) (p_id x) dst pid va pa valid) as [H1|H1].
  { destruct e; cbn [tstep] in S.
    - destruct (take_pend b id (t_pend s)); [discriminate|]. inversion S; subst s1. left. right. exact Hx.
    - destruct (take_pend b rspTo (t_pend s)) as [[y rest]|] eqn:T; [|discriminate].
      destruct (_ && _); [|discriminate]. inversion S; subst s1. cbn [t_pend].
      destruct (take_pend_cases _ _ _ _ _ _ T Hx) as [->|Q]; [|left; exact Q].
      destruct (take_pend_in _ _ _ _ _ T) as [_ [<- <-]]. right. eauto 6.
    - destruct (take_acc id (t_acc s)); [discriminate|]. inversion S; subst s1. auto.
    - destruct (take_acc id (t_acc s)) as [[y rest]|]; [|discriminate].
      destruct (_ && _); [|discriminate]. inversion S; subst s1. auto.
    - destruct (take_acc rspTo (t_acc s)) as [[y rest]|]; [|discriminate].
      destruct (_ && _); [|discriminate]. inversion S; subst s1. auto.
    - inversion S; subst s1. auto.
    - inversion S; subst s1. auto.
    - destruct (t_pend s) eqn:E1; [|discriminate]. destruct Hx. }
  - destruct (IH _ _ _ H H1) as [Q|[dst [pid [va [pa [valid Q]]]]]]; [left; exact Q|right].
    exists dst, pid, va, pa, valid. right. exact Q.
  - destruct H1 as [dst [pid [va [pa [valid ->]]]]]. right. exists dst, pid, va, pa, valid. left. reflexivity.
Qed.

(** an access stays with the translator until the translator answers it *)
Lemma acc_until k tr : forall s s' id, trun k s tr = Some s' -> (exists x, In x (t_acc s) /\ x_id x = id) ->
  (exists y, In y (t_acc s') /\ x_id y = id) \/ exists dst, In (EAccRsp id dst) tr.
Proof.
  induction tr as [|e r IH]; intros s s' id H Hx; cbn [trun] in H; [inversion H; subst; auto|].
  destruct (tstep k s e) as [s1|] eqn:S; [|discriminate]. destruct Hx as [x [Hx Ei]].
  assert ((exists y, In y (t_acc s1) /\ x_id y = id) \/ exists dst, e = EAccRsp id dst) as [H1|H1].
  { destruct e; cbn [tstep] in S.
    - destruct (take_pend b id0 (t_pend s)); [discriminate|]. inversion S; subst s1. left. eauto.
    - destruct (take_pend b rspTo (t_pend s)) as [[y rest]|]; [|discriminate].
      destruct (_ && _); [|discriminate]. inversion S; subst s1. left. eauto.
    - destruct (take_acc id0 (t_acc s)); [discriminate|]. inversion S; subst s1. left. exists x. split; [right; exact Hx|exact Ei].
    - destruct (take_acc id0 (t_acc s)) as [[y rest]|] eqn:T; [|discriminate].
      destruct (_ && _); [|discriminate]. inversion S; subst s1. cbn [t_acc]. left.
      destruct (take_acc_cases _ _ _ _ _ T Hx) as [->|Q].
      + eexists. split; [left; reflexivity|]. cbn [x_id]. exact Ei.
      + exists x. split; [right; exact Q|exact Ei].
    - destruct (take_acc rspTo (t_acc s)) as [[y rest]|] eqn:T; [|discriminate].
      destruct (_ && _); [|discriminate]. inversion S; subst s1. cbn [t_acc].
      destruct (take_acc_cases _ _ _ _ _ T Hx) as [->|Q].
      + destruct (take_acc_in _ _ _ _ T) as [_ E]. rewrite Ei in E. subst rspTo. right. eauto.
      + left. exists x. auto.
    - inversion S; subst s1. left. eauto.
    - inversion S; subst s1. left. eauto.
    - destruct (t_pend s); [|discriminate]. destruct (t_acc s) eqn:E2; [|discriminate]. destruct Hx. }
  - destruct (IH _ _ _ H H1) as [Q|[dst Q]]; [left; exact Q|right; exists dst; right; exact Q].
  - destruct H1 as [dst ->]. right. exists dst. left. reflexivity.
Qed.
