(** C25 — address-translation stacks.

    Exact kernels (tied output-for-output to the real components):
      - the address translator's arithmetic (addresstranslator/comp.go addrToPageID,
        createTranslatedReq): the page asked for and the physical address of the
        translated access;
      - the TLB's set index (tlb/tlbmiddleware.go vAddrToSetID) and the Invalidate filter
        (tlb/ctrlmiddleware.go invalidateEntries);
    and the translation view of a whole stack (address translator, TLB levels, optional MMU
    cache, MMU or GMMU) as a VERIFIED ACCEPTOR over the events observed at every component
    boundary of REAL stacks. *)
From Akita Require Import Lib.Base.
Local Open Scope N_scope.

(* ------------------------------------------------------------------ kernels *)

(** addrToPageID: (addr >> k) << k, in 64 bits *)
Definition at_vpage (k vaddr : N) : N := w64 (N.shiftl (N.shiftr vaddr k) k).

(** createTranslatedReq: page.PAddr + addr % (1 << k), in 64 bits.  [1 << k] is 0 for k >= 64
    (Go shifts do not wrap the count) and the modulo then panics: outcome None. *)
Definition at_paddr (k ppage vaddr : N) : option N :=
  if 64 <=? k then None else Some (w64 (ppage + vaddr mod 2 ^ k)).

(** vAddrToSetID: int(vAddr / PageSize % NumSets); division by zero panics *)
Definition tlb_set_id (psize nsets vaddr : N) : option N :=
  if (psize =? 0) || (nsets =? 0) then None else Some ((vaddr / psize) mod nsets).

(** invalidateEntries: is a valid cached page (pid', vaddr') dropped by filter (addrs, pid)? *)
Definition inval_match (psize : N) (addrs : list N) (pid : N) (pid' vaddr' : N) : bool :=
  ((pid =? 0) || (pid' =? pid)) &&
  (match addrs with
   | [] => true
   | _ => existsb (fun a => a / psize * psize =? vaddr') addrs
   end).

(* ------------------------------------------------------------------ translation view *)

Inductive ev :=
| EReq (b id src pid vaddr : N)              (* translation request delivered at boundary b *)
| ERsp (b rspTo dst pid vaddr paddr : N) (valid : bool)  (* translation response sent at boundary b *)
| EAcc (id src pid vaddr : N)                (* memory access delivered to the address translator *)
| EBot (id paddr : N)                        (* the translated access for top request id leaves the translator *)
| EAccRsp (rspTo dst : N)                    (* the translator answers the top request *)
| EPT (pid vpage paddr : N)                  (* page-table insert / update of (pid, vpage) *)
| EInv (pid vpage : N)                       (* an invalidation covering (pid, vpage) was acknowledged by every caching level *)
| EEnd.

Definition key := (N * N)%type.
Definition key_eqb (a b : key) : bool := (fst a =? fst b) && (snd a =? snd b).

Fixpoint pt_lookup (k : key) (pt : list (key * N)) : option N :=
  match pt with
  | [] => None
  | (k', p) :: r => if key_eqb k k' then Some p else pt_lookup k r
  end.

Record pend := mk_pend { p_b : N; p_id : N; p_src : N; p_pid : N; p_vaddr : N }.
Record access := mk_access { x_id : N; x_src : N; x_pid : N; x_vaddr : N; x_sent : bool }.

Record tst := mk_tst {
  t_pend : list pend;
  t_acc : list access;
  t_pt : list (key * N);          (* current page table, newest binding first *)
  t_stale : list (key * N) }.      (* older mappings not yet invalidated *)

Definition tst0 : tst := mk_tst [] [] [] [].

(** the mapping [p] of [k] may be used now: it is the current one, or an older one whose
    invalidation has not been acknowledged yet *)
Definition permitted (s : tst) (k : key) (p : N) : bool :=
  (match pt_lookup k (t_pt s) with Some p' => p' =? p | None => false end) ||
  existsb (fun e => key_eqb (fst e) k && (snd e =? p)) (t_stale s).

Fixpoint take_pend (b id : N) (l : list pend) : option (pend * list pend) :=
  match l with
  | [] => None
  | x :: r => if (p_b x =? b) && (p_id x =? id) then Some (x, r)
              else match take_pend b id r with Some (y, r') => Some (y, x :: r') | None => None end
  end.

Fixpoint take_acc (id : N) (l : list access) : option (access * list access) :=
  match l with
  | [] => None
  | x :: r => if x_id x =? id then Some (x, r)
              else match take_acc id r with Some (y, r') => Some (y, x :: r') | None => None end
  end.

Definition tstep (k : N) (s : tst) (e : ev) : option tst :=
  match e with
  | EReq b id src pid vaddr =>
      match take_pend b id (t_pend s) with
      | Some _ => None
      | None => Some (mk_tst (mk_pend b id src pid vaddr :: t_pend s) (t_acc s) (t_pt s) (t_stale s))
      end
  | ERsp b rspTo dst pid vaddr paddr valid =>
      match take_pend b rspTo (t_pend s) with
      | Some (x, rest) =>
          if (p_src x =? dst) && (p_pid x =? pid) && (at_vpage k (p_vaddr x) =? vaddr) && valid &&
             permitted s (pid, vaddr) paddr
          then Some (mk_tst rest (t_acc s) (t_pt s) (t_stale s)) else None
      | None => None
      end
  | EAcc id src pid vaddr =>
      match take_acc id (t_acc s) with
      | Some _ => None
      | None => Some (mk_tst (t_pend s) (mk_access id src pid vaddr false :: t_acc s) (t_pt s) (t_stale s))
      end
  | EBot id paddr =>
      match take_acc id (t_acc s) with
      | Some (x, rest) =>
          if negb (x_sent x) &&
             existsb (fun p => match at_paddr k p (x_vaddr x) with Some a => a =? paddr | None => false end)
               (match pt_lookup (x_pid x, at_vpage k (x_vaddr x)) (t_pt s) with Some p => [p] | None => [] end ++
                map snd (filter (fun e => key_eqb (fst e) (x_pid x, at_vpage k (x_vaddr x))) (t_stale s)))
          then Some (mk_tst (t_pend s) (mk_access (x_id x) (x_src x) (x_pid x) (x_vaddr x) true :: rest) (t_pt s) (t_stale s))
          else None
      | None => None
      end
  | EAccRsp rspTo dst =>
      match take_acc rspTo (t_acc s) with
      | Some (x, rest) =>
          if x_sent x && (x_src x =? dst) then Some (mk_tst (t_pend s) rest (t_pt s) (t_stale s)) else None
      | None => None
      end
  | EPT pid vpage paddr =>
      let kk := (pid, vpage) in
      let st := match pt_lookup kk (t_pt s) with
                | Some p => if p =? paddr then t_stale s else (kk, p) :: t_stale s
                | None => t_stale s end in
      Some (mk_tst (t_pend s) (t_acc s) ((kk, paddr) :: t_pt s) st)
  | EInv pid vpage =>
      Some (mk_tst (t_pend s) (t_acc s) (t_pt s)
                   (filter (fun e => negb (key_eqb (fst e) (pid, vpage))) (t_stale s)))
  | EEnd =>
      match t_pend s, t_acc s with [], [] => Some s | _, _ => None end
  end.

Fixpoint trun (k : N) (s : tst) (tr : list ev) : option tst :=
  match tr with
  | [] => Some s
  | e :: r => match tstep k s e with Some s' => trun k s' r | None => None end
  end.

Definition accepts (k : N) (tr : list ev) : bool :=
  match trun k tst0 tr with Some _ => true | None => false end.

Fixpoint first_reject (k : N) (s : tst) (tr : list ev) (i : N) : option N :=
  match tr with
  | [] => None
  | e :: r => match tstep k s e with Some s' => first_reject k s' r (i + 1) | None => Some i end
  end.

(* ------------------------------------------------------------------ identifiers and coalescing *)

(** request identifiers are never reused: per boundary for translation requests, globally for
    accesses (the simulator draws them from one generator) *)
Fixpoint req_keys (tr : list ev) : list (N * N) :=
  match tr with
  | [] => []
  | EReq b id _ _ _ :: r => (b, id) :: req_keys r
  | _ :: r => req_keys r
  end.
Fixpoint acc_ids (tr : list ev) : list N :=
  match tr with
  | [] => []
  | EAcc id _ _ _ :: r => id :: acc_ids r
  | _ :: r => acc_ids r
  end.
Fixpoint nodup_keyb (l : list (N * N)) : bool :=
  match l with
  | [] => true
  | x :: r => negb (existsb (fun y => (fst x =? fst y) && (snd x =? snd y)) r) && nodup_keyb r
  end.
Fixpoint nodupNb (l : list N) : bool :=
  match l with [] => true | x :: r => negb (existsb (N.eqb x) r) && nodupNb r end.
Definition ids_fresh (tr : list ev) : bool := nodup_keyb (req_keys tr) && nodupNb (acc_ids tr).

(** MSHR coalescing seen from outside: boundaries 1..ntlb are fed by a TLB; such a TLB never has
    two requests for the same (PID, page) outstanding below it — later lookups of that page wait
    in its MSHR entry.  [c_out] lists the outstanding (boundary, id, src, pid, page). *)
Record cout := mk_cout { o_b : N; o_id : N; o_src : N; o_pid : N; o_page : N }.
Definition cstep (ntlb k : N) (out : list cout) (e : ev) : option (list cout) :=
  match e with
  | EReq b id src pid vaddr =>
      if (1 <=? b) && (b <=? ntlb) then
        if existsb (fun o => (o_b o =? b) && (o_src o =? src) && (o_pid o =? pid) && (o_page o =? at_vpage k vaddr)) out
        then None else Some (mk_cout b id src pid (at_vpage k vaddr) :: out)
      else Some out
  | ERsp b rspTo _ _ _ _ _ =>
      Some (filter (fun o => negb ((o_b o =? b) && (o_id o =? rspTo))) out)
  | _ => Some out
  end.
Fixpoint crun (ntlb k : N) (out : list cout) (tr : list ev) : option (list cout) :=
  match tr with
  | [] => Some out
  | e :: r => match cstep ntlb k out e with Some o' => crun ntlb k o' r | None => None end
  end.
Definition coalesced (ntlb k : N) (tr : list ev) : bool :=
  match crun ntlb k [] tr with Some _ => true | None => false end.

(** the complete stack acceptor *)
Definition accepts_stack (ntlb k : N) (tr : list ev) : bool :=
  accepts k tr && ids_fresh tr && coalesced ntlb k tr.
