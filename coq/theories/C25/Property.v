(** C25 — address translation stacks translate correctly.

    Kernels (exact, tied to the real address translator / TLB): [at_vpage], [at_paddr],
    [tlb_set_id], [inval_match].  Whole stacks: [accepts k tr] is the verified acceptor of the
    translation view (k = log2 of the page size the stack is configured with); every history
    observed at the component boundaries of REAL stacks must be accepted. *)
From Akita Require Import Lib.Base C25.Model C25.Proofs.
Local Open Scope N_scope.

(** Kernel: for every page size 2^k (k < 64), every frame aligned to it and every 64-bit
    virtual address, the translated access goes to frame + (vaddr mod 2^k): the page offset is
    preserved and the address lies in the mapped frame; the page asked for is the aligned page
    containing vaddr. *)
Theorem c25_paddr_correct : forall k ppage vaddr,
  k < 64 -> vaddr < two64 -> ppage mod 2 ^ k = 0 -> ppage + 2 ^ k <= two64 ->
  (exists a, at_paddr k ppage vaddr = Some a /\ a = ppage + vaddr mod 2 ^ k /\
             a mod 2 ^ k = vaddr mod 2 ^ k /\ a / 2 ^ k = ppage / 2 ^ k) /\
  at_vpage k vaddr mod 2 ^ k = 0 /\ at_vpage k vaddr <= vaddr < at_vpage k vaddr + 2 ^ k.
Proof.
  intros k ppage vaddr Hk Hv Ha Hf. split; [apply at_paddr_spec; auto|].
  destruct (at_vpage_spec k vaddr Hk Hv) as [_ H]. exact H.
Qed.
Print Assumptions c25_paddr_correct.

(** Page sizes of 2^64 and more make the translator panic (1 << k = 0, modulo by zero). *)
Theorem c25_paddr_panics_refuted : forall ppage vaddr, at_paddr 64 ppage vaddr = None.
Proof. reflexivity. Qed.
Print Assumptions c25_paddr_panics_refuted.

(** Stacks (1): every level's response references a request that was delivered to that level
    and goes back to its source, for the page that contains the requested address. *)
Theorem c25_response_matches_request : forall k pre b r dst pid va pa valid post,
  accepts k (pre ++ ERsp b r dst pid va pa valid :: post) = true ->
  exists va0, In (EReq b r dst pid va0) pre /\ at_vpage k va0 = va /\ valid = true.
Proof.
  intros k pre b r dst pid va pa valid post H.
  destruct (accepts_split _ _ _ _ H) as [s [s' [s'' [R [S _]]]]].
  pose proof (hist_inv_run k pre [] _ _ hist_inv0 R) as [HP _]. cbn [app] in HP.
  cbn [tstep] in S. destruct (take_pend b r (t_pend s)) as [[x rest]|] eqn:T; [|discriminate].
  destruct (take_pend_in _ _ _ _ _ T) as [Hx [Eb Ei]].
  destruct ((p_src x =? dst) && (p_pid x =? pid) && (at_vpage k (p_vaddr x) =? va) && valid &&
            permitted s (pid, va) pa) eqn:C; [|discriminate].
  apply andb_true_iff in C; destruct C as [C _].
  apply andb_true_iff in C; destruct C as [C C4].
  apply andb_true_iff in C; destruct C as [C C3].
  apply andb_true_iff in C; destruct C as [C1 C2].
  apply N.eqb_eq in C1, C2, C3. specialize (HP x Hx). rewrite Eb, Ei, C1, C2 in HP.
  exists (p_vaddr x). auto.
Qed.
Print Assumptions c25_response_matches_request.

(** Stacks (2): the page a level answers with is the current page-table mapping of
    (pid, page), or an older mapping whose invalidation has not been acknowledged yet.  The
    page-table view is a function of the page-table writes and acknowledged invalidations of
    the history alone ([pt_view]). *)
Theorem c25_page_current_or_permitted : forall k pre b r dst pid va pa valid post,
  accepts k (pre ++ ERsp b r dst pid va pa valid :: post) = true ->
  permitted_in (pt_view pre) (pid, va) pa = true.
Proof.
  intros k pre b r dst pid va pa valid post H.
  destruct (accepts_split _ _ _ _ H) as [s [s' [s'' [R [S _]]]]].
  pose proof (trun_pt _ _ _ _ R) as V. cbn [t_pt t_stale tst0] in V.
  cbn [tstep] in S. destruct (take_pend b r (t_pend s)) as [[x rest]|]; [|discriminate].
  destruct ((p_src x =? dst) && (p_pid x =? pid) && (at_vpage k (p_vaddr x) =? va) && valid &&
            permitted s (pid, va) pa) eqn:C; [|discriminate].
  apply andb_true_iff in C. destruct C as [_ C]. unfold permitted in C. unfold permitted_in, pt_view.
  rewrite <- V. exact C.
Qed.
Print Assumptions c25_page_current_or_permitted.

(** Stacks (3): every access leaves the translator for frame + offset of a current or
    still-permitted mapping of its (pid, page). *)
Theorem c25_access_reaches_mapped_address : forall k pre id paddr post,
  accepts k (pre ++ EBot id paddr :: post) = true ->
  exists src pid va frame, In (EAcc id src pid va) pre /\
    permitted_in (pt_view pre) (pid, at_vpage k va) frame = true /\
    at_paddr k frame va = Some paddr.
Proof.
  intros k pre id paddr post H.
  destruct (accepts_split _ _ _ _ H) as [s [s' [s'' [R [S _]]]]].
  pose proof (hist_inv_run k pre [] _ _ hist_inv0 R) as [_ HA]. cbn [app] in HA.
  pose proof (trun_pt _ _ _ _ R) as V. cbn [t_pt t_stale tst0] in V.
  cbn [tstep] in S. destruct (take_acc id (t_acc s)) as [[x rest]|] eqn:T; [|discriminate].
  destruct (take_acc_in _ _ _ _ T) as [Hx Ei].
  match type of S with (if negb _ && existsb ?f ?l then _ else _) = _ =>
    destruct (negb (x_sent x) && existsb f l) eqn:C; [|discriminate] end.
  apply andb_true_iff in C. destruct C as [_ C]. apply existsb_exists in C.
  destruct C as [frame [Hin Hp]].
  destruct (at_paddr k frame (x_vaddr x)) as [a|] eqn:AP; [|discriminate]. apply N.eqb_eq in Hp. subst a.
  specialize (HA x Hx). rewrite Ei in HA.
  exists (x_src x), (x_pid x), (x_vaddr x), frame. split; [exact HA|]. split; [|exact AP].
  unfold permitted_in, pt_view. rewrite <- V. cbn [fst snd].
  apply in_app_or in Hin. destruct Hin as [Hin|Hin].
  - destruct (pt_lookup (x_pid x, at_vpage k (x_vaddr x)) (t_pt s)) as [p|]; [|destruct Hin].
    destruct Hin as [->|[]]. rewrite N.eqb_refl. reflexivity.
  - apply orb_true_iff. right. apply in_map_iff in Hin. destruct Hin as [[kk p] [E Hf]]. cbn [snd] in E. subst p.
    apply filter_In in Hf. destruct Hf as [Hf1 Hf2]. apply existsb_exists. exists (kk, frame).
    split; [exact Hf1|]. cbn [fst snd] in *. rewrite Hf2, N.eqb_refl. reflexivity.
Qed.
Print Assumptions c25_access_reaches_mapped_address.

(** Stacks (4): after a page-table change followed by an acknowledged invalidation of the
    affected entries no translation uses the old mapping: once (pid, page) has been invalidated
    and is not remapped again, only its current mapping is permitted. *)
Theorem c25_invalidate_effective : forall k pre pid va mid b r dst pa valid post,
  accepts k (pre ++ EInv pid va :: mid ++ ERsp b r dst pid va pa valid :: post) = true ->
  (forall p, ~ In (EPT pid va p) mid) ->
  pt_lookup (pid, va) (fst (pt_view pre)) = Some pa.
Proof.
  intros k pre pid va mid b r dst pa valid post H NoPT.
  replace (pre ++ EInv pid va :: mid ++ ERsp b r dst pid va pa valid :: post)
    with ((pre ++ EInv pid va :: mid) ++ ERsp b r dst pid va pa valid :: post) in H
    by (rewrite <- app_assoc; reflexivity).
  pose proof (c25_page_current_or_permitted _ _ _ _ _ _ _ _ _ _ H) as P.
  unfold permitted_in, pt_view in P. rewrite fold_left_app in P. cbn [fold_left] in P.
  unfold pt_view. destruct (fold_left pt_step pre ([], [])) as [pt0 stale0].
  cbn [pt_step] in P. cbn [fst].
  remember (pt0, filter (fun e : key * N => negb (key_eqb (fst e) (pid, va))) stale0) as st1 eqn:E1.
  assert (forall e, In e (snd (fold_left pt_step mid st1)) -> key_eqb (fst e) (pid, va) = false) as NS.
  { apply (stale_clean pid va mid NoPT st1).
    intros e He. rewrite E1 in He. cbn [snd] in He. apply filter_In in He. destruct He as [_ He].
    destruct (key_eqb (fst e) (pid, va)); [discriminate|reflexivity]. }
  pose proof (pt_lookup_unchanged pid va mid NoPT st1) as PT.
  replace (fst st1) with pt0 in PT by (rewrite E1; reflexivity).
  apply orb_true_iff in P. destruct P as [P|P].
  - rewrite PT in P. destruct (pt_lookup (pid, va) pt0) as [p|]; [|discriminate].
    apply N.eqb_eq in P. subst. reflexivity.
  - apply existsb_exists in P. destruct P as [e [He Hk]]. apply andb_true_iff in Hk. destruct Hk as [Hk _].
    rewrite (NS e He) in Hk. discriminate.
Qed.
Print Assumptions c25_invalidate_effective.

(** Non-vacuity: a two-level history with a remap, a stale hit that is still permitted, the
    invalidation, and the new mapping afterwards; and what the acceptor rejects. *)
Example c25_nonvacuous :
  accepts 12 [EPT 1 4096 65536; EAcc 10 1 1 4100; EReq 0 11 2 1 4096; EReq 1 12 3 1 4096;
              ERsp 1 12 3 1 4096 65536 true; ERsp 0 11 2 1 4096 65536 true; EBot 10 65540; EAccRsp 10 1;
              EPT 1 4096 131072;
              EAcc 20 1 1 4104; EReq 0 21 2 1 4096; ERsp 0 21 2 1 4096 65536 true; EBot 20 65544; EAccRsp 20 1;
              EInv 1 4096;
              EAcc 30 1 1 4104; EReq 0 31 2 1 4096; EReq 1 32 3 1 4096; ERsp 1 32 3 1 4096 131072 true;
              ERsp 0 31 2 1 4096 131072 true; EBot 30 131080; EAccRsp 30 1; EEnd] = true /\
  (* offset dropped *)
  accepts 12 [EPT 1 4096 65536; EAcc 10 1 1 4100; EBot 10 65536] = false /\
  (* a fill under the wrong process *)
  accepts 12 [EPT 1 4096 65536; EPT 2 4096 99999744; EReq 0 11 2 1 4096; ERsp 0 11 2 2 4096 99999744 true] = false /\
  (* the old mapping after its invalidation was acknowledged *)
  accepts 12 [EPT 1 4096 65536; EPT 1 4096 131072; EInv 1 4096; EReq 0 11 2 1 4096; ERsp 0 11 2 1 4096 65536 true] = false /\
  (* a response that quotes the forwarded request's ID instead of the requester's *)
  accepts 12 [EPT 1 4096 65536; EReq 0 11 2 1 4096; EReq 1 12 3 1 4096; ERsp 1 12 3 1 4096 65536 true;
              ERsp 0 12 2 1 4096 65536 true] = false /\
  (* a request that is never answered *)
  accepts 12 [EPT 1 4096 65536; EAcc 10 1 1 4100; EReq 0 11 2 1 4096; EEnd] = false.
Proof. vm_compute. repeat split. Qed.

(** Stacks (5): when a run ends, every translation request delivered at any level has been
    answered by that level, and every access has been answered by the translator. *)
Theorem c25_answered : forall k tr,
  accepts k (tr ++ [EEnd]) = true ->
  (forall p1 b id src pid va p2, tr = p1 ++ EReq b id src pid va :: p2 ->
     exists dst pid' va' pa valid, In (ERsp b id dst pid' va' pa valid) p2) /\
  (forall p1 id src pid va p2, tr = p1 ++ EAcc id src pid va :: p2 ->
     exists dst, In (EAccRsp id dst) p2).
Proof.
  intros k tr H. unfold accepts in H. rewrite trun_app in H.
  destruct (trun k tst0 tr) as [sf|] eqn:R; [|discriminate].
  cbn [trun tstep] in H. destruct (t_pend sf) eqn:EP; [|discriminate]. destruct (t_acc sf) eqn:EA; [|discriminate].
  clear H. split.
  - intros p1 b id src pid va p2 ->. rewrite trun_app in R.
    destruct (trun k tst0 p1) as [s1|]; [|discriminate]. cbn [trun] in R.
    destruct (tstep k s1 (EReq b id src pid va)) as [s2|] eqn:S; [|discriminate].
    cbn [tstep] in S. destruct (take_pend b id (t_pend s1)); [discriminate|]. inversion S; subst s2.
    destruct (pend_until k p2 _ _ (mk_pend b id src pid va) R (or_introl eq_refl)) as [Q|Q].
    + rewrite EP in Q. destruct Q.
    + exact Q.
  - intros p1 id src pid va p2 ->. rewrite trun_app in R.
    destruct (trun k tst0 p1) as [s1|]; [|discriminate]. cbn [trun] in R.
    destruct (tstep k s1 (EAcc id src pid va)) as [s2|] eqn:S; [|discriminate].
    cbn [tstep] in S. destruct (take_acc id (t_acc s1)); [discriminate|]. inversion S; subst s2.
    destruct (acc_until k p2 _ _ id R) as [[y [Q _]]|Q].
    + eexists. split; [left; reflexivity|reflexivity].
    + rewrite EA in Q. destruct Q.
    + exact Q.
Qed.
Print Assumptions c25_answered.

(** Link between the two evaluators for the translator probes: agreement with the model implies
    the property predicate evaluated on the numbers the real address translator produced. *)
From Akita Require Import C25.Exec.
Theorem c25_model_agreement_implies_property : forall k pid vaddr ppage ov op,
  vaddr < two64 ->
  check_case (ATCase k pid vaddr ppage ov op) = true ->
  holds_on (ATCase k pid vaddr ppage ov op) = true.
Proof.
  intros k pid vaddr ppage ov op Hv CK. cbn [check_case] in CK.
  apply andb_true_iff in CK. destruct CK as [C1 C2]. apply N.eqb_eq in C1. subst ov.
  cbn [holds_on].
  destruct ((k <? 64) && (ppage mod 2 ^ k =? 0) && (ppage + 2 ^ k <=? two64)) eqn:G; [|reflexivity].
  apply andb_true_iff in G. destruct G as [G G3]. apply andb_true_iff in G. destruct G as [G1 G2].
  apply N.ltb_lt in G1. apply N.eqb_eq in G2. apply N.leb_le in G3.
  destruct (at_paddr_spec k ppage vaddr G1 G2 G3) as [a [E [_ [M D]]]].
  rewrite E in C2. destruct op as [a'|]; [|discriminate]. cbn in C2. apply N.eqb_eq in C2. subst a'.
  destruct (at_vpage_spec k vaddr G1 Hv) as [_ [A [L U]]].
  rewrite M, D, A, !N.eqb_refl. cbn [andb].
  apply andb_true_iff. split; [apply N.leb_le; exact L|apply N.ltb_lt; exact U].
Qed.
Print Assumptions c25_model_agreement_implies_property.
