(** C25 — address translation stacks translate correctly.

    Kernels (exact, tied to the real address translator / TLB): [at_vpage], [at_paddr],
    [tlb_set_id], [inval_match].  Whole stacks: [accepts k tr] is the verified acceptor of the
    translation view (k = log2 of the page size the stack is configured with); every history
    observed at the component boundaries of REAL stacks must be accepted. *)
From Akita Require Import Lib.Base C25.Model C25.Proofs C25.Proofs2.
Local Open Scope N_scope.

(** Kernel: for every page size 2^k (k < 64), every frame aligned to it and every 64-bit
    virtual address, the translated access goes to frame + (vaddr mod 2^k): the page offset is
    preserved and the address lies in the mapped frame; the page asked for is the aligned page
    containing vaddr. *)
Theorem c25_paddr_correct : forall k ppage vaddr,
  k < 64 -> vaddr < two64 -> ppage mod 2 ^ k = 0 -> ppage + 2 ^ k <= two64 ->
  (exists a, at_paddr k ppage vaddr = Some a /\ a = ppage + vaddr mod 2 ^ k /\
             a mod 2 ^ k = vaddr mod 2 ^ k /\ a / 2 ^ k = ppage / 2 ^ k) /\
  at_vpage k vaddr mod 2 ^ k = 0 /\ at_vpage k vaddr <= vaddr < at_vpage k vaddr + 2 ^ k.
Proof.
  intros k ppage vaddr Hk Hv Ha Hf. split; [apply at_paddr_spec; auto|].
  destruct (at_vpage_spec k vaddr Hk Hv) as [_ H]. exact H.
Qed.
Print Assumptions c25_paddr_correct.

(** Page sizes of 2^64 and more make the translator panic (1 << k = 0, modulo by zero). *)
Theorem c25_paddr_panics_refuted : forall ppage vaddr, at_paddr 64 ppage vaddr = None.
Proof. reflexivity. Qed.
Print Assumptions c25_paddr_panics_refuted.

(** Stacks (1): every level's response references a request that was delivered to that level
    and goes back to its source, for the page that contains the requested address. *)
Theorem c25_response_matches_request : forall k pre b r dst pid va pa valid post,
  accepts k (pre ++ ERsp b r dst pid va pa valid :: post) = true ->
  exists va0, In (EReq b r dst pid va0) pre /\ at_vpage k va0 = va /\ valid = true.
Proof.
  intros k pre b r dst pid va pa valid post H.
  destruct (accepts_split _ _ _ _ H) as [s [s' [s'' [R [S _]]]]].
  pose proof (hist_inv_run k pre [] _ _ hist_inv0 R) as [HP _]. cbn [app] in HP.
  cbn [tstep] in S. destruct (take_pend b r (t_pend s)) as [[x rest]|] eqn:T; [|discriminate].
  destruct (take_pend_in _ _ _ _ _ T) as [Hx [Eb Ei]].
  destruct ((p_src x =? dst) && (p_pid x =? pid) && (at_vpage k (p_vaddr x) =? va) && valid &&
            permitted s (pid, va) pa) eqn:C; [|discriminate].
  apply andb_true_iff in C; destruct C as [C _].
  apply andb_true_iff in C; destruct C as [C C4].
  apply andb_true_iff in C; destruct C as [C C3].
  apply andb_true_iff in C; destruct C as [C1 C2].
  apply N.eqb_eq in C1, C2, C3. specialize (HP x Hx). rewrite Eb, Ei, C1, C2 in HP.
  exists (p_vaddr x). auto.
Qed.
Print Assumptions c25_response_matches_request.

(** Stacks (2): the page a level answers with is the current page-table mapping of
    (pid, page), or an older mapping whose invalidation has not been acknowledged yet.  The
    page-table view is a function of the page-table writes and acknowledged invalidations of
    the history alone ([pt_view]). *)
Theorem c25_page_current_or_permitted : forall k pre b r dst pid va pa valid post,
  accepts k (pre ++ ERsp b r dst pid va pa valid :: post) = true ->
  permitted_in (pt_view pre) (pid, va) pa = true.
Proof.
  intros k pre b r dst pid va pa valid post H.
  destruct (accepts_split _ _ _ _ H) as [s [s' [s'' [R [S _]]]]].
  pose proof (trun_pt _ _ _ _ R) as V. cbn [t_pt t_stale tst0] in V.
  cbn [tstep] in S. destruct (take_pend b r (t_pend s)) as [[x rest]|]; [|discriminate].
  destruct ((p_src x =? dst) && (p_pid x =? pid) && (at_vpage k (p_vaddr x) =? va) && valid &&
            permitted s (pid, va) pa) eqn:C; [|discriminate].
  apply andb_true_iff in C. destruct C as [_ C]. unfold permitted in C. unfold permitted_in, pt_view.
  rewrite <- V. exact C.
Qed.
Print Assumptions c25_page_current_or_permitted.

(** Stacks (3): every access leaves the translator for frame + offset of a current or
    still-permitted mapping of its (pid, page). *)
Theorem c25_access_reaches_mapped_address : forall k pre id paddr post,
  accepts k (pre ++ EBot id paddr :: post) = true ->
  exists src pid va frame, In (EAcc id src pid va) pre /\
    permitted_in (pt_view pre) (pid, at_vpage k va) frame = true /\
    at_paddr k frame va = Some paddr.
Proof.
  intros k pre id paddr post H.
  destruct (accepts_split _ _ _ _ H) as [s [s' [s'' [R [S _]]]]].
  pose proof (hist_inv_run k pre [] _ _ hist_inv0 R) as [_ HA]. cbn [app] in HA.
  pose proof (trun_pt _ _ _ _ R) as V. cbn [t_pt t_stale tst0] in V.
  cbn [tstep] in S. destruct (take_acc id (t_acc s)) as [[x rest]|] eqn:T; [|discriminate].
  destruct (take_acc_in _ _ _ _ T) as [Hx Ei].
  match type of S with (if negb _ && existsb ?f ?l then _ else _) = _ =>
    destruct (negb (x_sent x) && existsb f l) eqn:C; [|discriminate] end.
  apply andb_true_iff in C. destruct C as [_ C]. apply existsb_exists in C.
  destruct C as [frame [Hin Hp]].
  destruct (at_paddr k frame (x_vaddr x)) as [a|] eqn:AP; [|discriminate]. apply N.eqb_eq in Hp. subst a.
  specialize (HA x Hx). rewrite Ei in HA.
  exists (x_src x), (x_pid x), (x_vaddr x), frame. split; [exact HA|]. split; [|exact AP].
  unfold permitted_in, pt_view. rewrite <- V. cbn [fst snd].
  apply in_app_or in Hin. destruct Hin as [Hin|Hin].
  - destruct (pt_lookup (x_pid x, at_vpage k (x_vaddr x)) (t_pt s)) as [p|]; [|destruct Hin].
    destruct Hin as [->|[]]. rewrite N.eqb_refl. reflexivity.
  - apply orb_true_iff. right. apply in_map_iff in Hin. destruct Hin as [[kk p] [E Hf]]. cbn [snd] in E. subst p.
    apply filter_In in Hf. destruct Hf as [Hf1 Hf2]. apply existsb_exists. exists (kk, frame).
    split; [exact Hf1|]. cbn [fst snd] in *. rewrite Hf2, N.eqb_refl. reflexivity.
Qed.
Print Assumptions c25_access_reaches_mapped_address.

(** Stacks (4): after a page-table change followed by an acknowledged invalidation of the
    affected entries no translation uses the old mapping: once (pid, page) has been invalidated
    and is not remapped again, only its current mapping is permitted. *)
Theorem c25_invalidate_effective : forall k pre pid va mid b r dst pa valid post,
  accepts k (pre ++ EInv pid va :: mid ++ ERsp b r dst pid va pa valid :: post) = true ->
  (forall p, ~ In (EPT pid va p) mid) ->
  pt_lookup (pid, va) (fst (pt_view pre)) = Some pa.
Proof.
  intros k pre pid va mid b r dst pa valid post H NoPT.
  replace (pre ++ EInv pid va :: mid ++ ERsp b r dst pid va pa valid :: post)
    with ((pre ++ EInv pid va :: mid) ++ ERsp b r dst pid va pa valid :: post) in H
    by (rewrite <- app_assoc; reflexivity).
  pose proof (c25_page_current_or_permitted _ _ _ _ _ _ _ _ _ _ H) as P.
  unfold permitted_in, pt_view in P. rewrite fold_left_app in P. cbn [fold_left] in P.
  unfold pt_view. destruct (fold_left pt_step pre ([], [])) as [pt0 stale0].
  cbn [pt_step] in P. cbn [fst].
  remember (pt0, filter (fun e : key * N => negb (key_eqb (fst e) (pid, va))) stale0) as st1 eqn:E1.
  assert (forall e, In e (snd (fold_left pt_step mid st1)) -> key_eqb (fst e) (pid, va) = false) as NS.
  { apply (stale_clean pid va mid NoPT st1).
    intros e He. rewrite E1 in He. cbn [snd] in He. apply filter_In in He. destruct He as [_ He].
    destruct (key_eqb (fst e) (pid, va)); [discriminate|reflexivity]. }
  pose proof (pt_lookup_unchanged pid va mid NoPT st1) as PT.
  replace (fst st1) with pt0 in PT by (rewrite E1; reflexivity).
  apply orb_true_iff in P. destruct P as [P|P].
  - rewrite PT in P. destruct (pt_lookup (pid, va) pt0) as [p|]; [|discriminate].
    apply N.eqb_eq in P. subst. reflexivity.
  - apply existsb_exists in P. destruct P as [e [He Hk]]. apply andb_true_iff in Hk. destruct Hk as [Hk _].
    rewrite (NS e He) in Hk. discriminate.
Qed.
Print Assumptions c25_invalidate_effective.

(** Non-vacuity: a two-level history with a remap, a stale hit that is still permitted, the
    invalidation, and the new mapping afterwards; and what the acceptor rejects. *)
Example c25_nonvacuous :
  accepts 12 [EPT 1 4096 65536; EAcc 10 1 1 4100; EReq 0 11 2 1 4096; EReq 1 12 3 1 4096;
              ERsp 1 12 3 1 4096 65536 true; ERsp 0 11 2 1 4096 65536 true; EBot 10 65540; EAccRsp 10 1;
              EPT 1 4096 131072;
              EAcc 20 1 1 4104; EReq 0 21 2 1 4096; ERsp 0 21 2 1 4096 65536 true; EBot 20 65544; EAccRsp 20 1;
              EInv 1 4096;
              EAcc 30 1 1 4104; EReq 0 31 2 1 4096; EReq 1 32 3 1 4096; ERsp 1 32 3 1 4096 131072 true;
              ERsp 0 31 2 1 4096 131072 true; EBot 30 131080; EAccRsp 30 1; EEnd] = true /\
  (* offset dropped *)
  accepts 12 [EPT 1 4096 65536; EAcc 10 1 1 4100; EBot 10 65536] = false /\
  (* a fill under the wrong process *)
  accepts 12 [EPT 1 4096 65536; EPT 2 4096 99999744; EReq 0 11 2 1 4096; ERsp 0 11 2 2 4096 99999744 true] = false /\
  (* the old mapping after its invalidation was acknowledged *)
  accepts 12 [EPT 1 4096 65536; EPT 1 4096 131072; EInv 1 4096; EReq 0 11 2 1 4096; ERsp 0 11 2 1 4096 65536 true] = false /\
  (* a response that quotes the forwarded request's ID instead of the requester's *)
  accepts 12 [EPT 1 4096 65536; EReq 0 11 2 1 4096; EReq 1 12 3 1 4096; ERsp 1 12 3 1 4096 65536 true;
              ERsp 0 12 2 1 4096 65536 true] = false /\
  (* a request that is never answered *)
  accepts 12 [EPT 1 4096 65536; EAcc 10 1 1 4100; EReq 0 11 2 1 4096; EEnd] = false.
Proof. vm_compute. repeat split. Qed.

(** Stacks (5): when a run ends, every translation request delivered at any level has been
    answered by that level, and every access has been answered by the translator. *)
Theorem c25_answered : forall k tr,
  accepts k (tr ++ [EEnd]) = true ->
  (forall p1 b id src pid va p2, tr = p1 ++ EReq b id src pid va :: p2 ->
     exists dst pid' va' pa valid, In (ERsp b id dst pid' va' pa valid) p2) /\
  (forall p1 id src pid va p2, tr = p1 ++ EAcc id src pid va :: p2 ->
     exists dst, In (EAccRsp id dst) p2).
Proof.
  intros k tr H. unfold accepts in H. rewrite trun_app in H.
  destruct (trun k tst0 tr) as [sf|] eqn:R; [|discriminate].
  cbn [trun tstep] in H. destruct (t_pend sf) eqn:EP; [|discriminate]. destruct (t_acc sf) eqn:EA; [|discriminate].
  clear H. split.
  - intros p1 b id src pid va p2 ->. rewrite trun_app in R.
    destruct (trun k tst0 p1) as [s1|]; [|discriminate]. cbn [trun] in R.
    destruct (tstep k s1 (EReq b id src pid va)) as [s2|] eqn:S; [|discriminate].
    cbn [tstep] in S. destruct (take_pend b id (t_pend s1)); [discriminate|]. inversion S; subst s2.
    destruct (pend_until k p2 _ _ (mk_pend b id src pid va) R (or_introl eq_refl)) as [Q|Q].
    + rewrite EP in Q. destruct Q.
    + exact Q.
  - intros p1 id src pid va p2 ->. rewrite trun_app in R.
    destruct (trun k tst0 p1) as [s1|]; [|discriminate]. cbn [trun] in R.
    destruct (tstep k s1 (EAcc id src pid va)) as [s2|] eqn:S; [|discriminate].
    cbn [tstep] in S. destruct (take_acc id (t_acc s1)); [discriminate|]. inversion S; subst s2.
    destruct (acc_until k p2 _ _ id R) as [[y [Q _]]|Q].
    + eexists. split; [left; reflexivity|reflexivity].
    + rewrite EA in Q. destruct Q.
    + exact Q.
Qed.
Print Assumptions c25_answered.

(** Link between the two evaluators for the translator probes: agreement with the model implies
    the property predicate evaluated on the numbers the real address translator produced. *)
From Akita Require Import C25.Exec.
Theorem c25_model_agreement_implies_property : forall k pid vaddr ppage ov op,
  vaddr < two64 ->
  check_case (ATCase k pid vaddr ppage ov op) = true ->
  holds_on (ATCase k pid vaddr ppage ov op) = true.
Proof.
  intros k pid vaddr ppage ov op Hv CK. cbn [check_case] in CK.
  apply andb_true_iff in CK. destruct CK as [C1 C2]. apply N.eqb_eq in C1. subst ov.
  cbn [holds_on].
  destruct ((k <? 64) && (ppage mod 2 ^ k =? 0) && (ppage + 2 ^ k <=? two64)) eqn:G; [|reflexivity].
  apply andb_true_iff in G. destruct G as [G G3]. apply andb_true_iff in G. destruct G as [G1 G2].
  apply N.ltb_lt in G1. apply N.eqb_eq in G2. apply N.leb_le in G3.
  destruct (at_paddr_spec k ppage vaddr G1 G2 G3) as [a [E [_ [M D]]]].
  rewrite E in C2. destruct op as [a'|]; [|discriminate]. cbn in C2. apply N.eqb_eq in C2. subst a'.
  destruct (at_vpage_spec k vaddr G1 Hv) as [_ [A [L U]]].
  rewrite M, D, A, !N.eqb_refl. cbn [andb].
  apply andb_true_iff. split; [apply N.leb_le; exact L|apply N.ltb_lt; exact U].
Qed.
Print Assumptions c25_model_agreement_implies_property.

(* ====================================================================================== *)
(** Exactly once.  [accepts_stack ntlb k tr] = the translation-view acceptor + identifiers are
    never reused ([ids_fresh]) + the coalescing clause ([coalesced]: below each of the [ntlb] TLB
    levels at most one request per (PID, page) is outstanding).  All theorems hold for EVERY
    accepted history, i.e. for every order and delay of the lower levels' answers. *)

Lemma accepts_stack_parts n k tr : accepts_stack n k tr = true ->
  accepts k tr = true /\ NoDup (req_keys tr) /\ NoDup (acc_ids tr) /\ coalesced n k tr = true.
Proof.
  unfold accepts_stack, ids_fresh. intro H.
  apply andb_true_iff in H. destruct H as [H H3]. apply andb_true_iff in H. destruct H as [H1 H2].
  apply andb_true_iff in H2. destruct H2 as [H2 H4].
  repeat split; auto using nodup_keyb_sound, nodupNb_sound.
Qed.

(** A translation request is answered at most once at its level. *)
Theorem c25_answered_at_most_once : forall n k pre b r d p v pa vl post,
  accepts_stack n k (pre ++ ERsp b r d p v pa vl :: post) = true ->
  forall d' p' v' pa' vl', ~ In (ERsp b r d' p' v' pa' vl') post.
Proof.
  intros n k pre b r d p v pa vl post H. destruct (accepts_stack_parts _ _ _ H) as [A [ND _]].
  destruct (c25_response_matches_request _ _ _ _ _ _ _ _ _ _ A) as [va0 [Hreq _]].
  destruct (accepts_split _ _ _ _ A) as [s [s1 [s2 [R0 [S R]]]]].
  assert (pend_nodup s) as PN by (eapply pend_nodup_run; [|exact R0]; constructor).
  cbn [tstep] in S. destruct (take_pend b r (t_pend s)) as [[x rest]|] eqn:T; [|discriminate].
  destruct (_ && _); [|discriminate]. inversion S; subst s1.
  destruct (take_pend_nodup _ _ _ _ _ PN T) as [_ [NP _]].
  eapply not_pending_never_answered; [exact R|exact NP|].
  rewrite req_keys_app in ND. cbn [req_keys] in ND.
  eapply NoDup_app_disjoint; [exact ND|]. eapply in_req_keys; eauto.
Qed.
Print Assumptions c25_answered_at_most_once.

(** EXACTLY once, to the original requester, with the original ID, for the requested page, with a
    current (or not yet invalidated) mapping: when the run has ended, every translation request
    delivered at any level has exactly one response of that level after it. *)
Theorem c25_translation_exactly_once : forall n k tr p1 b id src pid va p2,
  accepts_stack n k (tr ++ [EEnd]) = true -> tr = p1 ++ EReq b id src pid va :: p2 ->
  exists q1 pa q2, p2 = q1 ++ ERsp b id src pid (at_vpage k va) pa true :: q2 /\
    (forall d' p' v' pa' vl', ~ In (ERsp b id d' p' v' pa' vl') q1) /\
    (forall d' p' v' pa' vl', ~ In (ERsp b id d' p' v' pa' vl') q2) /\
    permitted_in (pt_view (p1 ++ EReq b id src pid va :: q1)) (pid, at_vpage k va) pa = true.
Proof.
  intros n k tr p1 b id src pid va p2 H ->.
  destruct (accepts_stack_parts _ _ _ H) as [A [ND _]].
  destruct (c25_answered k _ A) as [An _].
  destruct (An p1 b id src pid va p2 eq_refl) as [d [p0 [v0 [pa [vl Hin]]]]].
  (* the FIRST response to (b, id) in p2 *)
  assert (exists q1 d p v pa vl q2, p2 = q1 ++ ERsp b id d p v pa vl :: q2 /\
            forall d' p' v' pa' vl', ~ In (ERsp b id d' p' v' pa' vl') q1) as [q1 [d1 [pp [vv [pa1 [vl1 [q2 [E NF]]]]]]]].
  { clear - Hin. induction p2 as [|e r IH]; [destruct Hin|].
    destruct (match e with ERsp b' r' _ _ _ _ _ => (b' =? b) && (r' =? id) | _ => false end) eqn:M.
    - destruct e; try discriminate. apply andb_true_iff in M. destruct M as [M1 M2]. apply N.eqb_eq in M1, M2. subst.
      exists [], dst, pid, vaddr, paddr, valid, r. split; [reflexivity|intros ? ? ? ? ? []].
    - destruct Hin as [->|Hin]; [cbn in M; rewrite !N.eqb_refl in M; discriminate|].
      destruct (IH Hin) as [q1 [d1 [pp [vv [pa1 [vl1 [q2 [E NF]]]]]]]].
      exists (e :: q1), d1, pp, vv, pa1, vl1, q2. split; [rewrite E; reflexivity|].
      intros d' p' v' pa' vl' [Q|Q]; [subst e; cbn in M; rewrite !N.eqb_refl in M; discriminate|exact (NF _ _ _ _ _ Q)]. }
  subst p2.
  assert (HH : accepts_stack n k ((p1 ++ EReq b id src pid va :: q1) ++ ERsp b id d1 pp vv pa1 vl1 :: (q2 ++ [EEnd])) = true).
  { rewrite <- H. f_equal. repeat (rewrite <- app_assoc; cbn [app]). reflexivity. }
  destruct (accepts_stack_parts _ _ _ HH) as [A2 [ND2 _]].
  destruct (c25_response_matches_request _ _ _ _ _ _ _ _ _ _ A2) as [va0 [Hreq [Ev Evl]]].
  pose proof (c25_page_current_or_permitted _ _ _ _ _ _ _ _ _ _ A2) as PM.
  (* the matching request is this one: identifiers are not reused *)
  assert (EReq b id d1 pp va0 = EReq b id src pid va) as EQ.
  { rewrite req_keys_app in ND2. cbn [req_keys] in ND2.
    apply in_app_or in Hreq. destruct Hreq as [Q|[Q|Q]]; [| symmetry; exact Q |].
    - exfalso. rewrite req_keys_app in ND2. cbn [req_keys] in ND2. rewrite <- app_assoc in ND2.
      apply (NoDup_app_disjoint _ _ (b, id) ND2 (in_req_keys _ _ _ _ _ _ Q)). left. reflexivity.
    - exfalso. rewrite req_keys_app in ND2. cbn [req_keys] in ND2. rewrite <- app_assoc in ND2. cbn [app] in ND2.
      apply NoDup_remove_2 in ND2. apply ND2. apply in_or_app. right. apply in_or_app. left.
      eapply in_req_keys; eauto. }
  inversion EQ; subst d1 pp va0. subst vv vl1.
  exists q1, pa1, q2. split; [reflexivity|]. split; [exact NF|]. split; [|exact PM].
  intros d' p' v' pa' vl' Q.
  apply (c25_answered_at_most_once _ _ _ _ _ _ _ _ _ _ _ HH d' p' v' pa' vl'). apply in_or_app. left. exact Q.
Qed.
Print Assumptions c25_translation_exactly_once.

(** Coalescing: below a TLB level at most one request per (PID, page) is outstanding — a request
    for a page is sent down only after every earlier request of that TLB for the same page has
    been answered by the level below (later lookups wait in the MSHR entry; they are all answered
    by [c25_translation_exactly_once] at the level above). *)
Theorem c25_coalesced_one_below : forall n k pre b id src pid va post,
  accepts_stack n k (pre ++ EReq b id src pid va :: post) = true -> 1 <= b <= n ->
  forall p1 id' va' p2, pre = p1 ++ EReq b id' src pid va' :: p2 -> at_vpage k va' = at_vpage k va ->
  exists d p v pa vl, In (ERsp b id' d p v pa vl) p2.
Proof.
  intros n k pre b id src pid va post H Hb p1 id' va' p2 -> Epg.
  destruct (accepts_stack_parts _ _ _ H) as [_ [_ [_ C]]]. unfold coalesced in C.
  rewrite <- app_assoc in C. cbn [app] in C. rewrite crun_app in C.
  destruct (crun n k [] p1) as [o1|]; [|discriminate]. cbn [crun] in C.
  assert ((1 <=? b) && (b <=? n) = true) as InR by (apply andb_true_iff; split; apply N.leb_le; lia).
  cbn [cstep] in C. rewrite InR in C.
  destruct (existsb _ o1); [discriminate|].
  rewrite crun_app in C.
  destruct (crun n k (mk_cout b id' src pid (at_vpage k va') :: o1) p2) as [o2|] eqn:R2; [|discriminate].
  cbn [crun cstep] in C. rewrite InR in C.
  destruct (existsb (fun o => (o_b o =? b) && (o_src o =? src) && (o_pid o =? pid) && (o_page o =? at_vpage k va)) o2) eqn:EX; [discriminate|].
  destruct (cout_until _ _ _ _ _ (mk_cout b id' src pid (at_vpage k va')) R2 (or_introl eq_refl)) as [Q|Q]; [|exact Q].
  exfalso. assert (existsb (fun o => (o_b o =? b) && (o_src o =? src) && (o_pid o =? pid) && (o_page o =? at_vpage k va)) o2 = true) as T.
  { apply existsb_exists. eexists. split; [exact Q|]. cbn. rewrite Epg, !N.eqb_refl. reflexivity. }
  congruence.
Qed.
Print Assumptions c25_coalesced_one_below.

Definition is_accrsp (id : N) (e : ev) : bool := match e with EAccRsp r _ => r =? id | _ => false end.
Definition is_bot (id : N) (e : ev) : bool := match e with EBot r _ => r =? id | _ => false end.

(** EXACTLY once for accesses: when the run has ended, every access delivered to the address
    translator was forwarded exactly once — to frame + offset of a current (or not yet
    invalidated) mapping of its (PID, page) — and afterwards answered exactly once, to its own
    requester under its own ID. *)
Theorem c25_access_exactly_once : forall n k tr p1 id src pid va p2,
  accepts_stack n k (tr ++ [EEnd]) = true -> tr = p1 ++ EAcc id src pid va :: p2 ->
  exists q1 paddr q2 q3 frame,
    p2 = q1 ++ EBot id paddr :: q2 ++ EAccRsp id src :: q3 /\
    (forall e, In e (q1 ++ q2 ++ q3) -> is_bot id e = false) /\
    (forall e, In e (q1 ++ q2 ++ q3) -> is_accrsp id e = false) /\
    permitted_in (pt_view (p1 ++ EAcc id src pid va :: q1)) (pid, at_vpage k va) frame = true /\
    at_paddr k frame va = Some paddr.
Proof.
  intros n k tr p1 id src pid va p2 H ->.
  destruct (accepts_stack_parts _ _ _ H) as [A [_ [NDA _]]].
  (* no other access carries this id *)
  assert (NI1 : ~ In id (acc_ids p1) /\ ~ In id (acc_ids p2)).
  { rewrite acc_ids_app, acc_ids_app in NDA. cbn [acc_ids] in NDA. rewrite <- app_assoc in NDA. cbn [app] in NDA.
    split.
    - intro Q. apply (NoDup_app_disjoint _ _ id NDA Q). left. reflexivity.
    - apply NoDup_remove_2 in NDA. intro Q. apply NDA. apply in_or_app. right. apply in_or_app. left. exact Q. }
  destruct NI1 as [NI1 NI2].
  (* the answer exists ... *)
  destruct (c25_answered k _ A) as [_ An]. destruct (An p1 id src pid va p2 eq_refl) as [d0 Hrsp].
  assert (existsb (is_accrsp id) p2 = true) as EX.
  { apply existsb_exists. eexists. split; [exact Hrsp|]. cbn. apply N.eqb_refl. }
  destruct (first_split _ _ EX) as [r1 [x [r2 [-> [Px Nr1]]]]].
  destruct x; try discriminate. cbn in Px. apply N.eqb_eq in Px. subst rspTo.
  (* ... it goes to the requester, and the access was forwarded before it *)
  assert (A1 : accepts k ((p1 ++ EAcc id src pid va :: r1) ++ EAccRsp id dst :: (r2 ++ [EEnd])) = true).
  { rewrite <- A. f_equal. repeat (rewrite <- app_assoc; cbn [app]). reflexivity. }
  destruct (accrsp_has_acc_and_bot _ _ _ _ _ A1) as [[pid' [va' Hacc]] [pa Hbot]].
  assert (dst = src) as ->.
  { apply in_app_or in Hacc. destruct Hacc as [Q|[Q|Q]].
    - exfalso. apply NI1. eapply in_acc_ids; eauto.
    - inversion Q; reflexivity.
    - exfalso. apply NI2. rewrite acc_ids_app. apply in_or_app. left. eapply in_acc_ids; eauto. }
  (* the forwarding happened after the delivery: before it there is no access with this id *)
  assert (In (EBot id pa) r1) as Hb1.
  { apply in_app_or in Hbot. destruct Hbot as [Q|[Q|Q]]; [|discriminate|exact Q]. exfalso.
    apply in_split in Q. destruct Q as [u1 [u2 Eu]].
    assert (accepts k (u1 ++ EBot id pa :: u2) = true) as Au.
    { rewrite <- Eu. apply (accepts_prefix k p1 (EAcc id src pid va :: r1 ++ EAccRsp id src :: r2 ++ [EEnd])).
      rewrite <- A. f_equal. repeat (rewrite <- app_assoc; cbn [app]). reflexivity. }
    destruct (c25_access_reaches_mapped_address _ _ _ _ _ Au) as [s0 [pd [v0 [fr [Q _]]]]].
    apply NI1. rewrite Eu, acc_ids_app. apply in_or_app. left. eapply in_acc_ids; eauto. }
  assert (existsb (is_bot id) r1 = true) as EXb.
  { apply existsb_exists. eexists. split; [exact Hb1|]. cbn. apply N.eqb_refl. }
  destruct (first_split _ _ EXb) as [q1 [y [q2 [-> [Py Nq1]]]]].
  destruct y; try discriminate. cbn in Py. apply N.eqb_eq in Py. subst id0.
  (* the frame *)
  assert (A2 : accepts k ((p1 ++ EAcc id src pid va :: q1) ++ EBot id paddr :: (q2 ++ EAccRsp id src :: r2 ++ [EEnd])) = true).
  { rewrite <- A. f_equal. repeat (rewrite <- app_assoc; cbn [app]). reflexivity. }
  destruct (c25_access_reaches_mapped_address _ _ _ _ _ A2) as [s0 [pd [v0 [fr [Hacc2 [Perm AP]]]]]].
  assert (EAcc id s0 pd v0 = EAcc id src pid va) as EQ.
  { apply in_app_or in Hacc2. destruct Hacc2 as [Q|[Q|Q]].
    - exfalso. apply NI1. eapply in_acc_ids; eauto.
    - symmetry. exact Q.
    - exfalso. apply NI2. rewrite !acc_ids_app. apply in_or_app. left. apply in_or_app. left. eapply in_acc_ids; eauto. }
  inversion EQ; subst s0 pd v0.
  exists q1, paddr, q2, r2, fr. split; [repeat (rewrite <- app_assoc; cbn [app]); reflexivity|].
  (* uniqueness: run the acceptor to the two points *)
  destruct (accepts_split _ _ _ _ A2) as [sa [sb [sc [Ra [Sa Rb]]]]].
  assert (acc_nodup sa) as NDa by (eapply acc_nodup_run; [|exact Ra]; constructor).
  assert (NI3 : ~ In id (acc_ids q2) /\ ~ In id (acc_ids r2)).
  { split; intro Q; apply NI2; repeat (rewrite acc_ids_app; cbn [acc_ids]); apply in_or_app.
    - left. apply in_or_app. right. exact Q.
    - right. exact Q. }
  destruct NI3 as [NIq2 NIr2].
  assert (NIq : ~ In id (acc_ids (q2 ++ EAccRsp id src :: r2 ++ [EEnd]))).
  { repeat (rewrite acc_ids_app; cbn [acc_ids]). rewrite app_nil_r. intro Q. apply in_app_or in Q. tauto. }
  assert (SENTb : forall x, In x (t_acc sb) -> x_id x = id -> x_sent x = true).
  { cbn [tstep] in Sa. destruct (take_acc id (t_acc sa)) as [[x0 rest]|] eqn:T; [|discriminate].
    destruct (_ && _); [|discriminate]. inversion Sa; subst sb. cbn [t_acc].
    destruct (take_acc_nodup _ _ _ _ NDa T) as [_ [NB _]].
    intros x [<-|Hx] Ex; [reflexivity|]. exfalso. apply NB. apply in_map_iff. exists x. auto. }
  pose proof (proj2 (acc_gone_stays_gone k _ _ _ id Rb NIq) SENTb) as NoBot.
  assert (A3 : accepts k ((p1 ++ EAcc id src pid va :: q1 ++ EBot id paddr :: q2) ++ EAccRsp id src :: (r2 ++ [EEnd])) = true).
  { rewrite <- A. f_equal. repeat (rewrite <- app_assoc; cbn [app]). reflexivity. }
  destruct (accepts_split _ _ _ _ A3) as [ta [tb [tc [Rta [Sta Rtb]]]]].
  assert (acc_nodup ta) as NDt by (eapply acc_nodup_run; [|exact Rta]; constructor).
  assert (GONE : ~ In id (map x_id (t_acc tb))).
  { cbn [tstep] in Sta. destruct (take_acc id (t_acc ta)) as [[x0 rest]|] eqn:T; [|discriminate].
    destruct (_ && _); [|discriminate]. inversion Sta; subst tb. cbn [t_acc].
    exact (proj1 (proj2 (take_acc_nodup _ _ _ _ NDt T))). }
  assert (NIr : ~ In id (acc_ids (r2 ++ [EEnd]))).
  { rewrite acc_ids_app. cbn [acc_ids]. rewrite app_nil_r. exact NIr2. }
  destruct (proj1 (acc_gone_stays_gone k _ _ _ id Rtb NIr) GONE) as [NoRsp2 NoBot2].
  split; [|split; [|split; [exact Perm|exact AP]]].
  - intros e He. destruct (is_bot id e) eqn:B; [|reflexivity]. exfalso.
    destruct e; try discriminate. cbn in B. apply N.eqb_eq in B. subst id0.
    apply in_app_or in He. destruct He as [Q|Q].
    { pose proof (Nq1 _ Q) as Z. cbn in Z. rewrite N.eqb_refl in Z. discriminate. }
    apply (NoBot paddr0). apply in_app_or in Q. destruct Q as [Q|Q]; apply in_or_app; [left; exact Q|].
    right. right. apply in_or_app. left. exact Q.
  - intros e He. destruct (is_accrsp id e) eqn:B; [|reflexivity]. exfalso.
    destruct e; try discriminate. cbn in B. apply N.eqb_eq in B. subst rspTo.
    apply in_app_or in He. destruct He as [Q|Q].
    + assert (is_accrsp id (EAccRsp id dst) = false) as Z by (apply Nr1; apply in_or_app; left; exact Q).
      cbn in Z. rewrite N.eqb_refl in Z. discriminate.
    + apply in_app_or in Q. destruct Q as [Q|Q].
      * assert (is_accrsp id (EAccRsp id dst) = false) as Z by (apply Nr1; apply in_or_app; right; right; exact Q).
        cbn in Z. rewrite N.eqb_refl in Z. discriminate.
      * apply (NoRsp2 dst). apply in_or_app. left. exact Q.
Qed.
Print Assumptions c25_access_exactly_once.

(** No access is forwarded with a stale frame after the invalidation was acknowledged. *)
Lemma permitted_after_inv pre pid vp mid p :
  (forall q, ~ In (EPT pid vp q) mid) ->
  permitted_in (pt_view (pre ++ EInv pid vp :: mid)) (pid, vp) p = true ->
  pt_lookup (pid, vp) (fst (pt_view pre)) = Some p.
Proof.
  intros NoPT P. unfold permitted_in, pt_view in P. rewrite fold_left_app in P. cbn [fold_left] in P.
  unfold pt_view. destruct (fold_left pt_step pre ([], [])) as [pt0 stale0].
  cbn [pt_step] in P. cbn [fst].
  remember (pt0, filter (fun e : key * N => negb (key_eqb (fst e) (pid, vp))) stale0) as st1 eqn:E1.
  assert (forall e, In e (snd (fold_left pt_step mid st1)) -> key_eqb (fst e) (pid, vp) = false) as NS.
  { apply (stale_clean pid vp mid NoPT st1).
    intros e He. rewrite E1 in He. cbn [snd] in He. apply filter_In in He. destruct He as [_ He].
    destruct (key_eqb (fst e) (pid, vp)); [discriminate|reflexivity]. }
  pose proof (pt_lookup_unchanged pid vp mid NoPT st1) as PT.
  replace (fst st1) with pt0 in PT by (rewrite E1; reflexivity).
  apply orb_true_iff in P. destruct P as [P|P].
  - rewrite PT in P. destruct (pt_lookup (pid, vp) pt0) as [q|]; [|discriminate].
    apply N.eqb_eq in P. subst. reflexivity.
  - apply existsb_exists in P. destruct P as [e [He Hk]]. apply andb_true_iff in Hk. destruct Hk as [Hk _].
    rewrite (NS e He) in Hk. discriminate.
Qed.

Theorem c25_invalidate_effective_access : forall k pre pid vp mid id paddr post,
  accepts k (pre ++ EInv pid vp :: mid ++ EBot id paddr :: post) = true ->
  (forall q, ~ In (EPT pid vp q) mid) ->
  exists src pid' va frame, In (EAcc id src pid' va) (pre ++ EInv pid vp :: mid) /\
    at_paddr k frame va = Some paddr /\
    (pid' = pid -> at_vpage k va = vp -> pt_lookup (pid, vp) (fst (pt_view pre)) = Some frame).
Proof.
  intros k pre pid vp mid id paddr post H NoPT.
  replace (pre ++ EInv pid vp :: mid ++ EBot id paddr :: post)
    with ((pre ++ EInv pid vp :: mid) ++ EBot id paddr :: post) in H by (rewrite <- app_assoc; reflexivity).
  destruct (c25_access_reaches_mapped_address _ _ _ _ _ H) as [src [pid' [va [frame [Hacc [Perm AP]]]]]].
  exists src, pid', va, frame. split; [exact Hacc|]. split; [exact AP|].
  intros -> <-. eapply permitted_after_inv; eauto.
Qed.
Print Assumptions c25_invalidate_effective_access.

(** Non-vacuity of the exactly-once theorems: one TLB level (boundary 0) above an MMU (boundary
    1).  Three accesses of one page while the miss is outstanding: three lookups at the TLB, ONE
    request below, all three answered; then the page is remapped, the invalidation acknowledged,
    and three more coalesced misses get the new frame.  And what the added clauses reject. *)
Example c25_exactly_once_nonvacuous :
  accepts_stack 1 12
    [EPT 1 4096 65536;
     EAcc 10 1 1 4100; EAcc 11 1 1 4104; EAcc 12 1 1 4108;
     EReq 0 20 2 1 4096; EReq 0 21 2 1 4096; EReq 0 22 2 1 4096;
     EReq 1 30 3 1 4096; ERsp 1 30 3 1 4096 65536 true;
     ERsp 0 20 2 1 4096 65536 true; ERsp 0 21 2 1 4096 65536 true; ERsp 0 22 2 1 4096 65536 true;
     EBot 10 65540; EBot 11 65544; EBot 12 65548; EAccRsp 10 1; EAccRsp 11 1; EAccRsp 12 1;
     EPT 1 4096 131072; EInv 1 4096;
     EAcc 13 1 1 4100; EAcc 14 1 1 4104; EAcc 15 1 1 4108;
     EReq 0 23 2 1 4096; EReq 0 24 2 1 4096; EReq 0 25 2 1 4096;
     EReq 1 31 3 1 4096; ERsp 1 31 3 1 4096 131072 true;
     ERsp 0 23 2 1 4096 131072 true; ERsp 0 24 2 1 4096 131072 true; ERsp 0 25 2 1 4096 131072 true;
     EBot 13 131076; EBot 14 131080; EBot 15 131084; EAccRsp 13 1; EAccRsp 14 1; EAccRsp 15 1; EEnd] = true /\
  (* a second request below for the same page while the first is outstanding *)
  accepts_stack 1 12 [EPT 1 4096 65536; EReq 0 20 2 1 4096; EReq 0 21 2 1 4096; EReq 1 30 3 1 4096; EReq 1 31 3 1 4096] = false /\
  (* a request answered twice (the identifier would have to be reused) *)
  accepts_stack 1 12 [EPT 1 4096 65536; EReq 1 30 3 1 4096; ERsp 1 30 3 1 4096 65536 true;
                      EReq 1 30 3 1 4096; ERsp 1 30 3 1 4096 65536 true; EEnd] = false /\
  (* one of three coalesced lookups never answered *)
  accepts_stack 1 12 [EPT 1 4096 65536; EReq 0 20 2 1 4096; EReq 0 21 2 1 4096; EReq 0 22 2 1 4096;
                      EReq 1 30 3 1 4096; ERsp 1 30 3 1 4096 65536 true;
                      ERsp 0 20 2 1 4096 65536 true; ERsp 0 21 2 1 4096 65536 true; EEnd] = false /\
  (* a coalesced lookup answered from the stale entry after the invalidation *)
  accepts_stack 1 12 [EPT 1 4096 65536; EPT 1 4096 131072; EInv 1 4096; EReq 0 20 2 1 4096; EReq 0 21 2 1 4096;
                      EReq 1 30 3 1 4096; ERsp 1 30 3 1 4096 131072 true;
                      ERsp 0 20 2 1 4096 131072 true; ERsp 0 21 2 1 4096 65536 true; EEnd] = false.
Proof. vm_compute. repeat split. Qed.

(** Link between the two evaluators, all kernel probes: agreement with the model implies the
    property predicate on the observed numbers.  (For stack histories [holds_on] IS the acceptor:
    trace inclusion is evaluated directly, there is no separate model output to agree with.) *)
Theorem c25_kernel_agreement_implies_property : forall c,
  match c with
  | ATCase _ _ vaddr _ _ _ => vaddr < two64
  | TLBCase _ _ _ _ _ _ _ _ _ => True
  | StackCase _ _ _ _ => False
  end ->
  check_case c = true -> holds_on c = true.
Proof.
  intros [k pid vaddr ppage ov op|psize nsets nways vaddr os addrs fpid cached lft|k n tr cl] W CK; [|clear W|destruct W].
  - exact (c25_model_agreement_implies_property k pid vaddr ppage ov op W CK).
  - cbn [check_case] in CK. apply andb_true_iff in CK. destruct CK as [_ CK].
    assert (lft = filter (fun pg => negb (inval_match psize addrs fpid (fst pg) (snd pg))) cached) as ->.
    { symmetry. apply (list_eqb_eq pair_eqb); [|exact CK]. intros [a1 a2] [b1 b2]. unfold pair_eqb. cbn [fst snd].
      rewrite andb_true_iff, !N.eqb_eq. split; [intros [-> ->]; reflexivity|intro Q; inversion Q; auto]. }
    cbn [holds_on]. apply andb_true_iff. split; apply forallb_forall; intros pg Hpg; apply filter_In in Hpg; destruct Hpg as [H1 H2].
    + exact H2.
    + apply existsb_exists. exists pg. split; [exact H1|]. unfold pair_eqb. rewrite !N.eqb_refl. reflexivity.
Qed.
Print Assumptions c25_kernel_agreement_implies_property.
