(** C38 — outbound LLM connections never reach internal addresses.  Property theorems only. *)
From Akita Require Import Lib.Base C38.Model C38.Proofs.
Local Open Scope N_scope.

(** EVERY address of the loopback / private-use / unique-local / link-local /
    unspecified ranges (as numeric CIDR ranges over the whole 32- and 128-bit
    spaces), in EVERY encoding net hands to the guard (4 bytes, IPv4-mapped 16
    bytes, 16 bytes), is classified internal. *)
Theorem c38_classify_complete : forall a, addr_wf a -> addr_internal a = true ->
  forall e, In e (encodings a) -> is_internal e = true.
Proof. intros a Hwf Hi e He. rewrite (classify_exact a Hwf e He). exact Hi. Qed.
Print Assumptions c38_classify_complete.

(** ... and nothing else is: the classifier computes exactly the class. *)
Theorem c38_classify_exact : forall a, addr_wf a ->
  forall e, In e (encodings a) -> is_internal e = addr_internal a.
Proof. exact classify_exact. Qed.
Print Assumptions c38_classify_exact.

(** An IPv4 address and ::ffff:a.b.c.d are in the same class (the unmapping is handled). *)
Theorem c38_mapped_same_class : forall v, v < 2 ^ 32 ->
  addr_internal (V6 (65535 * 2 ^ 32 + v)) = addr_internal (V4 v) /\
  is_internal (enc_v6 (65535 * 2 ^ 32 + v)) = is_internal (enc_v4 v).
Proof.
  intros v Hv. split; [apply mapped_same_class; exact Hv|].
  rewrite classify_v6, classify_v4 by (try exact Hv; change (2 ^ 128) with (65536 * 2 ^ 32 * 2 ^ 80); change (2 ^ 32) with 4294967296 in *; lia).
  apply (mapped_same_class v Hv).
Qed.
Print Assumptions c38_mapped_same_class.

(** If any resolved address is internal and private endpoints are not allowed,
    the URL guard refuses, whatever the URL. *)
Theorem c38_guard_refuses : forall u ips x,
  In x ips -> is_internal x = true -> guard_url false u (Some ips) <> GAllow.
Proof. exact guard_refuses. Qed.
Print Assumptions c38_guard_refuses.

(** The guard allows exactly: parsed, http/https, resolved, no internal address. *)
Theorem c38_guard_allow_characterised : forall u ans,
  guard_url false u ans = GAllow <->
  exists pu ips, u = Some pu /\ scheme_ok pu = true /\ ans = Some ips /\
                 forall x, In x ips -> is_internal x = false.
Proof. exact guard_allow_iff. Qed.
Print Assumptions c38_guard_allow_characterised.

(** Every redirect is re-checked before it is followed: a target that resolves
    to an internal address stops the client; nothing further is sent. *)
Theorem c38_redirect_rechecked : forall f w k via u ev k1 n ips x,
  w_allow w = false ->
  round_trip w k u = (ev, k1, None) ->
  w_respond w via u = Some (Some n) ->
  w_resolve w k1 (u_host n) = Some ips -> In x ips -> is_internal x = true ->
  fst (client_do (S f) w k via u) = ev /\
  exists s, snd (client_do (S f) w k via u) = s /\ s <> SDone.
Proof. exact redirect_rechecked. Qed.
Print Assumptions c38_redirect_rechecked.

(** The dialer re-resolves, refuses if ANY answer is internal, and otherwise
    connects only to addresses of that vetted answer (by IP: the events carry
    addresses, never names), whatever the resolver said earlier. *)
Theorem c38_dial_by_vetted_ip : forall split ans reach t ok,
  guarded_dial false false split ans reach = DTried t ok ->
  exists ips, ans = Some ips /\ (forall x, In x ips -> is_internal x = false) /\ incl t ips /\
              (forall x, In x t -> is_internal x = false).
Proof. exact dial_vetted. Qed.
Print Assumptions c38_dial_by_vetted_ip.

Theorem c38_dial_refuses : forall hp ips reach x, In x ips -> is_internal x = true ->
  exists bad, guarded_dial false false (Some hp) (Some ips) reach = DRefused bad /\
              In bad ips /\ is_internal bad = true.
Proof. exact dial_refuses. Qed.
Print Assumptions c38_dial_refuses.

(** End to end, for every adversarial resolver (rebinding between check and
    dial), every redirect chain, every reachability and every proxy choice:
    with the opt-in off the client never opens a connection to any encoding of
    any internal address; its only other connections go to the configured proxy. *)
Theorem c38_no_internal_connect : forall fuel w u a e,
  w_allow w = false -> addr_wf a -> addr_internal a = true -> In e (encodings a) ->
  ~ In (EConnect e) (fst (handle fuel w u)).
Proof. exact no_internal_connect. Qed.
Print Assumptions c38_no_internal_connect.

Theorem c38_only_vetted_or_proxy : forall fuel w u, w_allow w = false ->
  Forall safe_event (fst (handle fuel w u)).
Proof. exact handle_safe. Qed.
Print Assumptions c38_only_vetted_or_proxy.

(** Regression witnesses for the mutants. *)
Theorem c38_drop_private_refuted :
  exists a e, addr_wf a /\ addr_internal a = true /\ In e (encodings a) /\
              is_internal_no_private e = false.
Proof. exists (V4 167772161), (enc_v4_mapped 167772161). vm_compute. intuition congruence. Qed.
Print Assumptions c38_drop_private_refuted.

Definition rebind_world : world :=
  mk_world false
    (fun k _ => if (k <=? 1)%nat then Some [[8;8;8;8]] else Some [[8;8;4;4]])
    (fun _ => true) (fun _ => None)
    (fun via _ => if (via =? 0)%nat then Some (Some (mk_purl s_http [105])) else None).

Definition redirect_to_internal_world : world :=
  mk_world false
    (fun k h => if bytes_eqb h [105] then (if (k =? 2)%nat then Some [[10;0;0;1]] else Some [[8;8;4;4]])
                else Some [[8;8;8;8]])
    (fun _ => true) (fun _ => None)
    (fun via _ => if (via =? 0)%nat then Some (Some (mk_purl s_http [105])) else None).

Theorem c38_no_recheck_mutant_refuted :
  let u := mk_purl s_http [101] in
  (* the code: stops at the redirect whose check-time answer is 10.0.0.1 *)
  client_do 5 redirect_to_internal_world 1 0 u = ([EConnect [8;8;8;8]], SRefusedGuard GInternal) /\
  (* the mutant follows it (the dial-time answer has been rebound to a public address) *)
  fst (client_do_norecheck 5 redirect_to_internal_world 1 0 u) = [EConnect [8;8;8;8]; EConnect [8;8;4;4]].
Proof. vm_compute. split; reflexivity. Qed.
Print Assumptions c38_no_recheck_mutant_refuted.

(** Regression witness for a dialer that re-resolves multi-address names: with a
    vetted answer of two public records and a rebound second answer it connects
    to 127.0.0.1, which [guarded_dial] (one resolution, dial by IP) never does. *)
Theorem c38_multi_by_name_mutant_refuted :
  let a1 := Some [[8;8;8;8]; [1;1;1;1]] in let a2 := Some [[127;0;0;1]] in
  let reach := fun x => bytes_eqb x [127;0;0;1] in
  dial_multi_by_name a1 a2 reach = [[127;0;0;1]] /\
  guarded_dial false false (Some ([], [])) a1 reach = DTried [[8;8;8;8]; [1;1;1;1]] false /\
  dial_multi_by_name (Some [[8;8;8;8]]) a2 reach = [[8;8;8;8]].
Proof. vm_compute. repeat split; reflexivity. Qed.
Print Assumptions c38_multi_by_name_mutant_refuted.

(** Non-vacuity: the hypotheses are met by concrete non-trivial instances. *)
Example c38_nonvacuous :
  addr_wf (V4 2851995902) /\ addr_internal (V4 2851995902) = true /\          (* 169.254.169.254 *)
  is_internal (enc_v4_mapped 2851995902) = true /\
  addr_wf (V6 (65152 * 2 ^ 112 + 1)) /\ addr_internal (V6 (65152 * 2 ^ 112 + 1)) = true /\   (* fe80::1 *)
  addr_internal (V4 134744072) = false /\                                       (* 8.8.8.8 *)
  guard_url false (Some (mk_purl s_https [101])) (Some [[8;8;8;8]; [127;0;0;1]]) = GInternal /\
  guarded_dial false false (Some ([101], [56;48])) (Some [[8;8;8;8]; [8;8;4;4]])
               (fun x => bytes_eqb x [8;8;4;4]) = DTried [[8;8;8;8]; [8;8;4;4]] true /\
  client_do 5 rebind_world 1 0 (mk_purl s_http [101]) = ([EConnect [8;8;8;8]; EConnect [8;8;4;4]], SDone).
Proof. vm_compute. repeat split; congruence. Qed.

(** The predicate evaluated on the implementation's observed behaviour
    ([Exec.holds_on], which classifies addresses with the numeric CIDR
    specification) is implied by agreement with the model, for the classifier,
    URL-guard and dialer cases (bytes < 256). *)
From Akita Require Import C38.Exec C38.Proofs2.
Theorem c38_model_agreement_implies_property : forall c, case_ok c ->
  check_case c = true -> holds_on c = true.
Proof. exact check_implies_holds. Qed.
Print Assumptions c38_model_agreement_implies_property.

(** The CIDR specification and the model of isInternalIP agree on EVERY byte slice
    (any length, bytes < 256). *)
Theorem c38_spec_equals_model : forall x, bytes_ok x -> spec_internal x = is_internal x.
Proof. exact spec_internal_eq. Qed.
Print Assumptions c38_spec_equals_model.
