(** C38 — model of the outbound-LLM address guard of
    daisen2/internal/httpapi/chat.go: [isInternalIP] (with the [net.IP]
    methods it calls, at the level of their documented byte patterns),
    [guardLLMURL], [guardedDialContext], [dialTargetIsProxy],
    [proxyForLLMRequest] and [guardedLLMClient.CheckRedirect], plus a small
    model of the [net/http] client loop that calls them (redirect following,
    proxy selection, dialing).

    An IP address is the byte slice [net.IP] holds: a [list N] of length 4 or
    16 (any other length is "not an address": every predicate is false).
    DNS is an adversarial oracle: [resolve k h] is the answer to the k-th
    resolution performed, so two look-ups of one name may disagree (rebinding). *)
From Akita Require Import Lib.Base.
Local Open Scope N_scope.

Definition ip := list N.
Definition host := list N.      (* bytes of a host name / literal *)

(* ------------------------------------------------------------------ net.IP *)

Definition bytes_eqb : list N -> list N -> bool := list_eqb N.eqb.

Definition v4_in_v6_prefix : list N := [0;0;0;0;0;0;0;0;0;0;255;255].
Definition ipv4zero : ip := v4_in_v6_prefix ++ [0;0;0;0].     (* net.IPv4zero (16-byte form) *)
Definition ipv6unspecified : ip := [0;0;0;0;0;0;0;0;0;0;0;0;0;0;0;0].
Definition ipv6loopback : ip := [0;0;0;0;0;0;0;0;0;0;0;0;0;0;0;1].

Definition len (x : list N) : N := N.of_nat (length x).

(** IP.To4: a 4-byte slice is returned as is; a 16-byte slice whose first ten
    bytes are zero and whose bytes 10, 11 are 0xff yields its last four bytes. *)
Definition to4 (x : ip) : option ip :=
  if len x =? 4 then Some x
  else if (len x =? 16) && bytes_eqb (firstn 12 x) v4_in_v6_prefix then Some (skipn 12 x)
  else None.

(** IP.Equal. *)
Definition ip_equal (a b : ip) : bool :=
  if len a =? len b then bytes_eqb a b
  else if (len a =? 4) && (len b =? 16) then
    bytes_eqb (firstn 12 b) v4_in_v6_prefix && bytes_eqb a (skipn 12 b)
  else if (len a =? 16) && (len b =? 4) then
    bytes_eqb (firstn 12 a) v4_in_v6_prefix && bytes_eqb (skipn 12 a) b
  else false.

Definition byte (x : list N) (i : nat) : N := nth i x 0.

Definition is_unspecified (x : ip) : bool :=
  ip_equal x ipv4zero || ip_equal x ipv6unspecified.

Definition is_loopback (x : ip) : bool :=
  match to4 x with
  | Some y => byte y 0 =? 127
  | None => ip_equal x ipv6loopback
  end.

Definition is_private (x : ip) : bool :=
  match to4 x with
  | Some y => (byte y 0 =? 10)
              || ((byte y 0 =? 172) && (N.land (byte y 1) 240 =? 16))
              || ((byte y 0 =? 192) && (byte y 1 =? 168))
  | None => (len x =? 16) && (N.land (byte x 0) 254 =? 252)
  end.

Definition is_link_local_unicast (x : ip) : bool :=
  match to4 x with
  | Some y => (byte y 0 =? 169) && (byte y 1 =? 254)
  | None => (len x =? 16) && (byte x 0 =? 254) && (N.land (byte x 1) 192 =? 128)
  end.

Definition is_link_local_multicast (x : ip) : bool :=
  match to4 x with
  | Some y => (byte y 0 =? 224) && (byte y 1 =? 0) && (byte y 2 =? 0)
  | None => (len x =? 16) && (byte x 0 =? 255) && (N.land (byte x 1) 15 =? 2)
  end.

(** chat.go: isInternalIP. *)
Definition is_internal (x : ip) : bool :=
  is_loopback x || is_private x || is_unspecified x
  || is_link_local_unicast x || is_link_local_multicast x.

(** Mutants kept for regression lemmas (not the code). *)
Definition is_internal_no_private (x : ip) : bool :=
  is_loopback x || is_unspecified x || is_link_local_unicast x || is_link_local_multicast x.

(* --------------------------------------------------------- the address space *)

(** An abstract address: a 32-bit IPv4 value or a 128-bit IPv6 value. *)
Inductive addr := V4 (v : N) | V6 (v : N).

Definition addr_wf (a : addr) : Prop :=
  match a with V4 v => v < 2 ^ 32 | V6 v => v < 2 ^ 128 end.

(** big-endian bytes of a value *)
Fixpoint be_bytes (n : nat) (v : N) : list N :=
  match n with
  | O => []
  | S k => (v / 256 ^ N.of_nat k) mod 256 :: be_bytes k v
  end.

Fixpoint be_value (bs : list N) : N :=
  match bs with
  | [] => 0
  | b :: r => b * 256 ^ len r + be_value r
  end.

(** The byte encodings under which [net] hands an address to the guard. *)
Definition enc_v4 (v : N) : ip := be_bytes 4 v.                       (* 4-byte form *)
Definition enc_v4_mapped (v : N) : ip := v4_in_v6_prefix ++ be_bytes 4 v. (* ::ffff:a.b.c.d *)
Definition enc_v6 (v : N) : ip := be_bytes 16 v.

Definition encodings (a : addr) : list ip :=
  match a with
  | V4 v => [enc_v4 v; enc_v4_mapped v]
  | V6 v => [enc_v6 v]
  end.

(** CIDR membership on values: the top [plen] of [bits] bits equal those of [base]. *)
Definition in_cidr (bits plen base v : N) : bool :=
  v / 2 ^ (bits - plen) =? base / 2 ^ (bits - plen).

(** The classes named by the property, as numeric ranges (IANA registries):
    IPv4 loopback 127/8; private-use 10/8, 172.16/12, 192.168/16 (RFC 1918);
    link-local 169.254/16 and link-local multicast 224.0.0/24; unspecified 0.0.0.0. *)
Definition v4_loopback (v : N) := in_cidr 32 8 2130706432 v.            (* 127.0.0.0 *)
Definition v4_private (v : N) :=
  in_cidr 32 8 167772160 v            (* 10.0.0.0/8 *)
  || in_cidr 32 12 2886729728 v       (* 172.16.0.0/12 *)
  || in_cidr 32 16 3232235520 v.      (* 192.168.0.0/16 *)
Definition v4_link_local (v : N) :=
  in_cidr 32 16 2851995648 v          (* 169.254.0.0/16 *)
  || in_cidr 32 24 3758096384 v.      (* 224.0.0.0/24 *)
Definition v4_unspecified (v : N) := v =? 0.
Definition v4_internal (v : N) : bool :=
  v4_loopback v || v4_private v || v4_link_local v || v4_unspecified v.

(** IPv6: loopback ::1; unspecified ::; unique-local fc00::/7 (RFC 4193);
    link-local unicast fe80::/10; link-local-scope multicast ff?2::/16;
    and the IPv4-mapped block ::ffff:0:0/96 inherits the IPv4 classes. *)
Definition v6_mapped (v : N) := in_cidr 128 96 (65535 * 2 ^ 32) v.
Definition v6_internal (v : N) : bool :=
  if v6_mapped v then v4_internal (v mod 2 ^ 32)
  else (v =? 1) || (v =? 0)
       || in_cidr 128 7 (252 * 2 ^ 120) v
       || in_cidr 128 10 (65152 * 2 ^ 112) v
       || ((v / 2 ^ 120 =? 255) && ((v / 2 ^ 112) mod 16 =? 2)).

Definition addr_internal (a : addr) : bool :=
  match a with V4 v => v4_internal v | V6 v => v6_internal v end.

(* ------------------------------------------------------------------ the guard *)

(** What [url.Parse] + [u.Hostname()] produced (assumed, not modelled):
    [None] = parse error. The scheme is lower-cased by url.Parse. *)
Record purl := mk_purl { u_scheme : list N; u_host : host }.

Definition s_http : list N := [104;116;116;112].
Definition s_https : list N := [104;116;116;112;115].

Inductive gres := GAllow | GParseErr | GSchemeErr | GResolveErr | GInternal.

Definition gres_eqb (a b : gres) : bool :=
  match a, b with
  | GAllow, GAllow | GParseErr, GParseErr | GSchemeErr, GSchemeErr
  | GResolveErr, GResolveErr | GInternal, GInternal => true
  | _, _ => false
  end.

(** guardLLMURL, given the answer [ans] of net.LookupIP for the host
    ([None] = resolution error). *)
Definition guard_url (allow : bool) (u : option purl) (ans : option (list ip)) : gres :=
  if allow then GAllow
  else match u with
       | None => GParseErr
       | Some pu =>
           if bytes_eqb (u_scheme pu) s_http || bytes_eqb (u_scheme pu) s_https then
             match ans with
             | None => GResolveErr
             | Some ips => if existsb is_internal ips then GInternal else GAllow
             end
           else GSchemeErr
       end.

(** Mutant: guard that skips the classification. *)
Definition guard_url_unchecked (allow : bool) (u : option purl) (ans : option (list ip)) : gres :=
  match guard_url allow u ans with GInternal => GAllow | r => r end.

(** dialTargetIsProxy: [proxies] are the configured proxy URLs as
    (Host, Hostname) pairs; [addr] the dial target, [ahost] its host part
    (the whole of [addr] when SplitHostPort fails). *)
Definition dial_target_is_proxy (proxies : list (list N * list N)) (addr ahost : list N) : bool :=
  existsb (fun p => bytes_eqb (fst p) addr
                    || (negb (bytes_eqb (snd p) []) && bytes_eqb (snd p) ahost)) proxies.

(** guardedDialContext.  [DDirect]: dialled as given, unchecked (opt-in or
    proxy target).  [DTried l ok]: the vetted addresses that were dialled, in
    order, by IP literal; [ok] = one of them connected. *)
Inductive dres :=
| DDirect
| DSplitErr
| DResolveErr
| DRefused (bad : ip)
| DTried (tried : list ip) (ok : bool).

Fixpoint dial_each (ips : list ip) (reach : ip -> bool) : list ip * bool :=
  match ips with
  | [] => ([], false)
  | x :: r => if reach x then ([x], true)
              else let '(t, ok) := dial_each r reach in (x :: t, ok)
  end.

Definition guarded_dial (allow is_proxy : bool) (split : option (host * list N))
           (ans : option (list ip)) (reach : ip -> bool) : dres :=
  if allow || is_proxy then DDirect
  else match split with
       | None => DSplitErr
       | Some _ =>
           match ans with
           | None => DResolveErr
           | Some ips =>
               match find is_internal ips with
               | Some bad => DRefused bad
               | None => let '(t, ok) := dial_each ips reach in DTried t ok
               end
           end
       end.

(** Mutant: a dialer that vets the first answer only. *)
Definition guarded_dial_first_only (allow is_proxy : bool) (split : option (host * list N))
           (ans : option (list ip)) (reach : ip -> bool) : dres :=
  if allow || is_proxy then DDirect
  else match split, ans with
       | None, _ => DSplitErr
       | _, None => DResolveErr
       | _, Some ips =>
           match find is_internal (firstn 1 ips) with
           | Some bad => DRefused bad
           | None => let '(t, ok) := dial_each ips reach in DTried t ok
           end
       end.

(* ------------------------------------------------------ the client loop *)

(** A world the client runs in.  Every oracle is adversarial. *)
Record world := mk_world {
  w_allow : bool;                               (* DAISEN_ALLOW_PRIVATE_LLM_URL *)
  w_resolve : nat -> host -> option (list ip);  (* k-th look-up of a name *)
  w_reach : ip -> bool;                         (* does a connect to this address succeed *)
  w_proxy : purl -> option host;                (* proxy chosen for a request URL (environment) *)
  w_respond : nat -> purl -> option (option purl) (* hop k answer: None = final, Some r = redirect to r
                                                     (r = None: unparsable Location) *)
}.

Inductive event :=
| EConnect (target : ip)          (* a TCP connect to an address vetted by the dialer *)
| EConnectProxy (h : host)        (* a connect to the configured proxy (unchecked by design) *)
| EConnectUnchecked (h : host).   (* opt-in mode: dial by name, unchecked *)

Inductive stop := SDone | SRefusedGuard (g : gres) | SRefusedDial (d : dres) | STooManyRedirects | SFuel.

(** One transport round trip for request URL [u]; [k] is the resolution clock.
    Returns the events, the new clock and whether a connection was made. *)
Definition round_trip (w : world) (k : nat) (u : purl) : list event * nat * option stop :=
  match w_proxy w u with
  | Some ph =>
      (* proxyForLLMRequest re-validates the target, then the transport dials the proxy *)
      match guard_url (w_allow w) (Some u) (w_resolve w k (u_host u)) with
      | GAllow => ([EConnectProxy ph], S k, None)
      | g => ([], S k, Some (SRefusedGuard g))
      end
  | None =>
      match guarded_dial (w_allow w) false (Some (u_host u, [])) (w_resolve w k (u_host u)) (w_reach w) with
      | DDirect => ([EConnectUnchecked (u_host u)], k, None)
      | DTried t true => (map EConnect t, S k, None)
      | d => (match d with DTried t _ => map EConnect t | _ => [] end, S k, Some (SRefusedDial d))
      end
  end.

(** http.Client.Do with the guarded client's CheckRedirect: [via] is the number
    of requests already made. *)
Fixpoint client_do (fuel : nat) (w : world) (k : nat) (via : nat) (u : purl) : list event * stop :=
  match fuel with
  | O => ([], SFuel)
  | S f =>
      let '(ev, k1, st) := round_trip w k u in
      match st with
      | Some s => (ev, s)
      | None =>
          match w_respond w via u with
          | None => (ev, SDone)
          | Some next =>
              (* CheckRedirect(req, via) runs before the next request is sent *)
              if (10 <=? S via)%nat then (ev, STooManyRedirects)
              else
                let g := match next with
                         | None => guard_url (w_allow w) None None
                         | Some n => guard_url (w_allow w) (Some n) (w_resolve w k1 (u_host n))
                         end in
                match g, next with
                | GAllow, Some n =>
                    let '(ev2, s) := client_do f w (S k1) (S via) n in (ev ++ ev2, s)
                | GAllow, None => (ev, SRefusedGuard GParseErr)
                | g, _ => (ev, SRefusedGuard g)
                end
          end
      end
  end.

(** The handler: guardLLMURL on the configured base URL, then the client. *)
Definition handle (fuel : nat) (w : world) (u : option purl) : list event * stop :=
  match u with
  | None => ([], SRefusedGuard (guard_url (w_allow w) None None))
  | Some pu =>
      match guard_url (w_allow w) (Some pu) (w_resolve w O (u_host pu)) with
      | GAllow => client_do fuel w 1%nat 0%nat pu
      | g => ([], SRefusedGuard g)
      end
  end.

(** Mutant client that follows redirects ignoring the outcome of the re-check
    (the look-up still happens, so the resolution clock is the same). *)
Fixpoint client_do_norecheck (fuel : nat) (w : world) (k : nat) (via : nat) (u : purl) : list event * stop :=
  match fuel with
  | O => ([], SFuel)
  | S f =>
      let '(ev, k1, st) := round_trip w k u in
      match st with
      | Some s => (ev, s)
      | None =>
          match w_respond w via u with
          | None => (ev, SDone)
          | Some None => (ev, SRefusedGuard GParseErr)
          | Some (Some n) =>
              if (10 <=? S via)%nat then (ev, STooManyRedirects)
              else let '(ev2, s) := client_do_norecheck f w (S k1) (S via) n in (ev ++ ev2, s)
          end
      end
  end.

(** Mutant (regression lemma only): a dialer that pins a single vetted address
    but hands a name with two or more vetted addresses back to net.Dialer, which
    resolves it once more ([ans2]) and connects to that unvetted answer. *)
Definition dial_multi_by_name (ans1 ans2 : option (list ip)) (reach : ip -> bool) : list ip :=
  match guarded_dial false false (Some ([], [])) ans1 reach, ans1 with
  | DTried t _, Some ips =>
      if (2 <=? length ips)%nat then match ans2 with Some l => fst (dial_each l reach) | None => [] end
      else t
  | _, _ => []
  end.
