(** C38 — link between the two evaluators of Exec.v. *)
From Akita Require Import Lib.Base C38.Model C38.Proofs C38.Exec.
Local Open Scope N_scope.

Definition bytes_ok (x : ip) : Prop := Forall (fun b => b < 256) x.

(** the numeric CIDR specification and the model of isInternalIP agree on every byte slice *)
Lemma spec_internal_eq x : bytes_ok x -> spec_internal x = is_internal x.
Proof.
  intro Hx. unfold spec_internal, decode.
  destruct (len x =? 4) eqn:E4.
  - apply N.eqb_eq in E4. assert (Hl : length x = 4%nat) by (unfold len in E4; lia).
    destruct (list4 x Hl Hx) as (a & b & c & d & -> & Ha & Hb & Hc & Hd).
    cbn [addr_internal]. rewrite be_value_4. symmetry. apply is_internal_4; assumption.
  - destruct (len x =? 16) eqn:E16.
    + apply N.eqb_eq in E16. assert (Hl : length x = 16%nat) by (unfold len in E16; lia).
      cbn [addr_internal]. symmetry. apply is_internal_16; assumption.
    + symmetry. apply malformed_not_internal; apply N.eqb_neq; assumption.
Qed.

Definition ans_ok (a : option (list ip)) : Prop :=
  match a with Some ips => Forall bytes_ok ips | None => True end.

Lemma any_internal_exists a : ans_ok a -> any_internal a = true ->
  exists ips x, a = Some ips /\ In x ips /\ is_internal x = true.
Proof.
  destruct a as [ips|]; cbn [ans_ok any_internal]; [|discriminate].
  intros Hok H. apply existsb_exists in H. destruct H as (x & Hx & Hs).
  exists ips, x. repeat split; try assumption.
  rewrite <- spec_internal_eq; [exact Hs|]. rewrite Forall_forall in Hok. apply Hok. exact Hx.
Qed.

Lemma find_index_some f : forall l i x, In x l -> f x = true -> exists j, find_index f l i = Some j.
Proof.
  induction l as [|y r IH]; intros i x Hin Hf; [destruct Hin|].
  cbn [find_index]. destruct (f y) eqn:E; [eauto|].
  destruct Hin as [->|Hin]; [congruence|]. eapply IH; eassumption.
Qed.

Definition case_ok (c : case) : Prop :=
  match c with
  | CClassify x _ => bytes_ok x
  | CGuard _ _ ans _ => ans_ok ans
  | CDial _ _ _ _ _ ans _ _ => ans_ok ans
  | CRedirect _ _ _ _ => False          (* not covered by the link theorem *)
  | CEndToEnd _ _ _ _ _ _ _ => False
  end.

Theorem check_implies_holds c : case_ok c -> check_case c = true -> holds_on c = true.
Proof.
  destruct c as [x obs|allow u ans obs|allow proxies addr ahost split ans obs_proxy obs| |];
    cbn [case_ok check_case holds_on]; intros Hok H; try contradiction.
  - rewrite (spec_internal_eq x Hok). apply eqb_prop in H. rewrite <- H.
    destruct (is_internal x); reflexivity.
  - destruct (negb allow && any_internal ans) eqn:E; [|reflexivity].
    apply andb_true_iff in E. destruct E as [Ea Ei]. destruct allow; [discriminate|].
    destruct (any_internal_exists ans Hok Ei) as (ips & x & -> & Hx & Hi).
    pose proof (guard_refuses u ips x Hx Hi) as HG.
    destruct (guard_url false u (Some ips)) eqn:Eg; try congruence;
      destruct obs; cbn in H; try discriminate; reflexivity.
  - apply andb_true_iff in H. destruct H as [Hp Hd]. apply eqb_prop in Hp.
    destruct (negb allow && negb obs_proxy && any_internal ans) eqn:E; [|reflexivity].
    apply andb_true_iff in E. destruct E as [E Ei]. apply andb_true_iff in E. destruct E as [Ea Ep].
    destruct allow; [discriminate|]. destruct obs_proxy; [discriminate|]. rewrite Hp in Hd.
    destruct (any_internal_exists ans Hok Ei) as (ips & x & -> & Hx & Hi).
    unfold guarded_dial in Hd. cbn [orb] in Hd.
    destruct split as [hp|].
    + destruct (find is_internal ips) as [bad|] eqn:Ef.
      * cbn [project_dial] in Hd. destruct (find_index_some is_internal ips 0 x Hx Hi) as [j Hj].
        rewrite Hj in Hd. destruct obs; cbn in Hd; try discriminate; reflexivity.
      * pose proof (proj1 (find_internal_none ips) Ef x Hx). congruence.
    + cbn [project_dial] in Hd. destruct obs; cbn in Hd; try discriminate; reflexivity.
Qed.
