(** C38 — case evaluators for the correspondence check. *)
From Akita Require Import Lib.Base C38.Model.
Local Open Scope N_scope.

(** what the harness can observe of a guarded dial *)
Inductive dobs :=
| ORefused (idx : N)     (* refused; the reported address is the idx-th resolved one *)
| OSplitErr
| OResolveErr
| OAttempt.              (* a TCP dial was attempted (its network outcome is irrelevant) *)

Definition dobs_eqb (a b : dobs) : bool :=
  match a, b with
  | ORefused i, ORefused j => i =? j
  | OSplitErr, OSplitErr | OResolveErr, OResolveErr | OAttempt, OAttempt => true
  | _, _ => false
  end.

Fixpoint find_index (f : ip -> bool) (l : list ip) (i : N) : option N :=
  match l with
  | [] => None
  | x :: r => if f x then Some i else find_index f r (i + 1)
  end.

Definition project_dial (d : dres) (ans : option (list ip)) : dobs :=
  match d with
  | DDirect => OAttempt
  | DSplitErr => OSplitErr
  | DResolveErr => OResolveErr
  | DRefused _ => match ans with
                  | Some ips => match find_index is_internal ips 0 with Some i => ORefused i | None => OAttempt end
                  | None => OAttempt
                  end
  | DTried _ _ => OAttempt
  end.

(** one hop of a scripted redirect chain: the Location target as parsed by
    net/url (None = unparsable) and the resolver's answer for its host *)
Definition hop := (option purl * option (list ip))%type.

Inductive case :=
| CClassify (x : ip) (obs : bool)
| CGuard (allow : bool) (u : option purl) (ans : option (list ip)) (obs : gres)
| CDial (allow : bool) (proxies : list (list N * list N)) (addr ahost : list N)
        (split : option (host * list N)) (ans : option (list ip)) (obs_proxy : bool) (obs : dobs)
| CRedirect (allow : bool) (first : purl) (chain : list hop) (sent : N)
| CEndToEnd (allow : bool) (u : option purl) (ans_check ans_dial ans_later : option (list ip)) (hits : N)
            (extra_lookups : N).   (* resolutions of the name during the request beyond the vetted one *)

(* --- independent classification: decode the bytes to a number, use the CIDR spec --- *)
Definition decode (x : ip) : option addr :=
  if len x =? 4 then Some (V4 (be_value x))
  else if len x =? 16 then Some (V6 (be_value x))
  else None.

Definition spec_internal (x : ip) : bool :=
  match decode x with Some a => addr_internal a | None => false end.

(* --- the scripted world for redirect chains --- *)
Definition public_ip : ip := [8; 8; 8; 8].

Definition chain_world (allow : bool) (first : purl) (chain : list hop) : world :=
  mk_world allow
    (fun k _ => if Nat.odd k then Some [public_ip]          (* dial-time look-ups: always public *)
                else match nth_error chain (Nat.div2 k - 1) with   (* check of redirect #(k/2) *)
                     | Some (_, a) => a
                     | None => None
                     end)
    (fun _ => true)
    (fun _ => None)
    (fun via _ => match nth_error chain via with
                  | Some (n, _) => Some n
                  | None => None
                  end).

Fixpoint count_connects (l : list event) : N :=
  match l with
  | [] => 0
  | EConnect _ :: r => 1 + count_connects r
  | EConnectProxy _ :: r => 1 + count_connects r
  | EConnectUnchecked _ :: r => 1 + count_connects r
  end.

Definition redirect_sent (allow : bool) (first : purl) (chain : list hop) : N :=
  count_connects (fst (client_do 40 (chain_world allow first chain) 1%nat 0%nat first)).

(* --- end to end: one request, no redirects.  The resolver answers [ans_check]
   to the handler's URL check and [ans_dial] afterwards (rebinding); in the
   sandbox only this host's loopback addresses accept connections. --- *)
Definition e2e_world (allow : bool) (ans_check ans_dial : option (list ip)) : world :=
  mk_world allow (fun k _ => match k with O => ans_check | _ => ans_dial end)
           is_loopback (fun _ => None) (fun _ _ => None).

Definition e2e_hits (allow : bool) (u : option purl) (ans_check ans_dial : option (list ip)) : N :=
  match snd (handle 5 (e2e_world allow ans_check ans_dial) u) with SDone => 1 | _ => 0 end.

(** model output = implementation output *)
Definition check_case (c : case) : bool :=
  match c with
  | CClassify x obs => Bool.eqb (is_internal x) obs
  | CGuard allow u ans obs => gres_eqb (guard_url allow u ans) obs
  | CDial allow proxies addr ahost split ans obs_proxy obs =>
      let isp := dial_target_is_proxy proxies addr ahost in
      Bool.eqb isp obs_proxy &&
      dobs_eqb (project_dial (guarded_dial allow isp split ans (fun _ => false)) ans) obs
  | CRedirect allow first chain sent => redirect_sent allow first chain =? sent
  | CEndToEnd allow u a0 a1 _ hits extra =>
      (* the modelled client consults the resolver exactly once per dial: no further resolution *)
      (e2e_hits allow u a0 a1 =? hits) && (extra =? 0)
  end.

(** the property on the implementation's observed behaviour, classifying the
    addresses with the numeric CIDR specification (not with the model of the code) *)
Definition any_internal (ans : option (list ip)) : bool :=
  match ans with Some ips => existsb spec_internal ips | None => false end.

(** requests a chain may legitimately send: hop i+1 only if every redirect target
    up to it resolved to no internal address *)
Fixpoint allowed_prefix (chain : list hop) : N :=
  match chain with
  | [] => 0
  | (_, a) :: r => if any_internal a then 0 else 1 + allowed_prefix r
  end.

Definition holds_on (c : case) : bool :=
  match c with
  | CClassify x obs => if spec_internal x then obs else true
  | CGuard allow u ans obs =>
      if negb allow && any_internal ans then negb (gres_eqb obs GAllow) else true
  | CDial allow proxies addr ahost split ans obs_proxy obs =>
      if negb allow && negb obs_proxy && any_internal ans
      then match obs with OAttempt => false | _ => true end else true
  | CRedirect allow first chain sent =>
      if allow then true else sent <=? 1 + allowed_prefix chain
  | CEndToEnd allow u a0 a1 a2 hits extra =>
      (* whichever look-up (check time, dial time, or one more at dial time) shows an internal
         address, nothing is reached *)
      (if negb allow && (any_internal a0 || any_internal a1 || any_internal a2) then hits =? 0 else true) &&
      (* no re-resolution at dial time: the connection uses the vetted answer *)
      (if negb allow then extra =? 0 else true)
  end.
