(** C38 — proofs: the classifier is exact on the whole address space, in every
    encoding; the guard, the dialer and the client loop never connect to an
    internal address. *)
From Akita Require Import Lib.Base C38.Model.
Local Open Scope N_scope.

(* ------------------------------------------------- finite checks over a byte *)

Fixpoint all_below (n : nat) (p : N -> bool) : bool :=
  match n with O => true | S k => p (N.of_nat k) && all_below k p end.

Lemma all_below_spec n p : all_below n p = true -> forall x, x < N.of_nat n -> p x = true.
Proof.
  induction n as [|k IH]; cbn [all_below]; intros H x Hx; [lia|].
  apply andb_true_iff in H. destruct H as [H1 H2].
  destruct (N.eq_dec x (N.of_nat k)) as [->|Hne]; [exact H1|].
  apply IH; [exact H2|lia].
Qed.

Lemma byte_cases (p : N -> bool) : all_below 256 p = true -> forall b, b < 256 -> p b = true.
Proof. intros H b Hb. apply (all_below_spec 256 p H). exact Hb. Qed.


Definition beq (a b : bool) : bool := if a then b else negb b.
Lemma beq_eq a b : beq a b = true -> a = b.
Proof. destruct a, b; cbn; congruence. Qed.

Lemma land_240 b : b < 256 -> (N.land b 240 =? 16) = ((16 <=? b) && (b <? 32)).
Proof.
  intro Hb. apply beq_eq.
  apply (byte_cases (fun b => beq (N.land b 240 =? 16) ((16 <=? b) && (b <? 32)))); [vm_compute; reflexivity|exact Hb].
Qed.

Lemma land_254 b : b < 256 -> (N.land b 254 =? 252) = (b / 2 =? 126).
Proof.
  intro Hb. apply beq_eq.
  apply (byte_cases (fun b => beq (N.land b 254 =? 252) (b / 2 =? 126))); [vm_compute; reflexivity|exact Hb].
Qed.

Lemma land_192 b : b < 256 -> (N.land b 192 =? 128) = (b / 64 =? 2).
Proof.
  intro Hb. apply beq_eq.
  apply (byte_cases (fun b => beq (N.land b 192 =? 128) (b / 64 =? 2))); [vm_compute; reflexivity|exact Hb].
Qed.

Lemma land_15 b : b < 256 -> (N.land b 15 =? 2) = (b mod 16 =? 2).
Proof.
  intro Hb. apply beq_eq.
  apply (byte_cases (fun b => beq (N.land b 15 =? 2) (b mod 16 =? 2))); [vm_compute; reflexivity|exact Hb].
Qed.

(* ------------------------------------------------------- big-endian bytes *)

Lemma len_be_bytes n v : len (be_bytes n v) = N.of_nat n.
Proof.
  unfold len. f_equal. induction n as [|k IH]; cbn [be_bytes length]; [reflexivity|].
  rewrite IH. reflexivity.
Qed.

Lemma be_value_be_bytes n v : be_value (be_bytes n v) = v mod 256 ^ N.of_nat n.
Proof.
  induction n as [|k IH]; cbn [be_bytes be_value].
  - change (256 ^ N.of_nat 0) with 1. rewrite N.mod_1_r. reflexivity.
  - rewrite len_be_bytes, IH.
    replace (N.of_nat (S k)) with (N.of_nat k + 1) by lia.
    rewrite N.pow_add_r. change (256 ^ 1) with 256.
    assert (Hp : 256 ^ N.of_nat k <> 0) by (apply N.pow_nonzero; lia).
    rewrite (N.mod_mul_r v (256 ^ N.of_nat k) 256) by lia.
    lia.
Qed.

Lemma be_bytes_lt n v : Forall (fun b => b < 256) (be_bytes n v).
Proof.
  induction n as [|k IH]; cbn [be_bytes]; constructor; [|exact IH].
  apply N.mod_lt. lia.
Qed.

(* ------------------------------------------------- the classifier, IPv4 *)

Ltac norm_pow :=
  repeat match goal with
         | |- context [2 ^ ?e] => let v := eval vm_compute in (2 ^ e) in change (2 ^ e) with v
         | |- context [?a * ?b] =>
             match a with
             | N.pos _ => match b with N.pos _ => let v := eval vm_compute in (a * b) in change (a * b) with v end
             end
         end.

Definition v4_of (a b c d : N) : N := a * 16777216 + b * 65536 + c * 256 + d.

Section V4.
Variables a b c d : N.
Hypotheses (Ha : a < 256) (Hb : b < 256) (Hc : c < 256) (Hd : d < 256).

Lemma v4_d24 : v4_of a b c d / 16777216 = a.
Proof. unfold v4_of. lia. Qed.
Lemma v4_d20 : (v4_of a b c d / 1048576 =? 2753) = ((a =? 172) && ((16 <=? b) && (b <? 32))).
Proof. unfold v4_of. lia. Qed.
Lemma v4_d16 k : (v4_of a b c d / 65536 =? k) = (a * 256 + b =? k).
Proof. unfold v4_of. lia. Qed.
Lemma v4_d8 : (v4_of a b c d / 256 =? 14680064) = ((a =? 224) && (b =? 0) && (c =? 0)).
Proof. unfold v4_of. lia. Qed.
Lemma v4_zero : (v4_of a b c d =? 0) = ((a =? 0) && (b =? 0) && (c =? 0) && (d =? 0)).
Proof. unfold v4_of. lia. Qed.

Lemma v4_internal_bytes :
  v4_internal (v4_of a b c d) =
  ((a =? 127)
   || ((a =? 10) || ((a =? 172) && ((16 <=? b) && (b <? 32))) || ((a =? 192) && (b =? 168)))
   || (((a =? 169) && (b =? 254)) || ((a =? 224) && (b =? 0) && (c =? 0)))
   || ((a =? 0) && (b =? 0) && (c =? 0) && (d =? 0))).
Proof.
  unfold v4_internal, v4_loopback, v4_private, v4_link_local, v4_unspecified, in_cidr.
  change (32 - 8) with 24. change (32 - 12) with 20. change (32 - 16) with 16. change (32 - 24) with 8.
  norm_pow.
  change (2130706432 / 16777216) with 127.
  change (167772160 / 16777216) with 10.
  change (2886729728 / 1048576) with 2753.
  change (3232235520 / 65536) with 49320.
  change (2851995648 / 65536) with 43518.
  change (3758096384 / 256) with 14680064.
  rewrite v4_d24, v4_d20, !v4_d16, v4_d8, v4_zero.
  assert (E1 : (a * 256 + b =? 49320) = ((a =? 192) && (b =? 168))) by lia.
  assert (E2 : (a * 256 + b =? 43518) = ((a =? 169) && (b =? 254))) by lia.
  rewrite E1, E2. reflexivity.
Qed.
End V4.

Lemma is_internal_4 a b c d :
  a < 256 -> b < 256 -> c < 256 -> d < 256 ->
  is_internal [a; b; c; d] = v4_internal (v4_of a b c d).
Proof.
  intros Ha Hb Hc Hd. rewrite v4_internal_bytes by assumption.
  unfold is_internal, is_loopback, is_private, is_unspecified, is_link_local_unicast,
    is_link_local_multicast.
  change (to4 [a; b; c; d]) with (Some [a; b; c; d]).
  cbn [byte nth].
  rewrite (land_240 b Hb).
  unfold ip_equal, ipv4zero, ipv6unspecified, v4_in_v6_prefix, len.
  cbn [length app N.of_nat firstn skipn bytes_eqb list_eqb Pos.of_succ_nat Pos.succ N.eqb Pos.eqb andb orb].
  lia.
Qed.

Lemma be_bytes_4 v : v < 2 ^ 32 ->
  exists a b c d, a < 256 /\ b < 256 /\ c < 256 /\ d < 256 /\
                  be_bytes 4 v = [a; b; c; d] /\ v = v4_of a b c d.
Proof.
  intro Hv. pose proof (be_value_be_bytes 4 v) as HV. pose proof (be_bytes_lt 4 v) as HF.
  cbn [be_bytes] in *.
  set (a := (v / 256 ^ N.of_nat 3) mod 256) in *.
  set (b := (v / 256 ^ N.of_nat 2) mod 256) in *.
  set (c := (v / 256 ^ N.of_nat 1) mod 256) in *.
  set (d := (v / 256 ^ N.of_nat 0) mod 256) in *.
  inversion HF as [|? ? Ha HF1]; subst. inversion HF1 as [|? ? Hb HF2]; subst.
  inversion HF2 as [|? ? Hc HF3]; subst. inversion HF3 as [|? ? Hd _]; subst.
  exists a, b, c, d. repeat split; try assumption.
  cbn [be_value len length N.of_nat Pos.of_succ_nat Pos.succ] in HV.
  rewrite N.mod_small in HV by (change (256 ^ N.of_nat 4) with (2 ^ 32); exact Hv).
  unfold v4_of. rewrite <- HV.
  change (256 ^ 3) with 16777216. change (256 ^ 2) with 65536.
  change (256 ^ 1) with 256. change (256 ^ 0) with 1. lia.
Qed.

Lemma classify_v4 v : v < 2 ^ 32 -> is_internal (enc_v4 v) = v4_internal v.
Proof.
  intro Hv. destruct (be_bytes_4 v Hv) as (a & b & c & d & Ha & Hb & Hc & Hd & HB & HV).
  unfold enc_v4. rewrite HB, HV. apply is_internal_4; assumption.
Qed.

(** the 16-byte IPv4-mapped form is classified exactly like the 4-byte form *)
Lemma is_internal_mapped x : len x = 4 ->
  is_internal (v4_in_v6_prefix ++ x) = is_internal x.
Proof.
  intro Hl. destruct x as [|a [|b [|c [|d [|e r]]]]]; cbn in Hl; try discriminate; [|lia].
  unfold is_internal, is_loopback, is_private, is_unspecified, is_link_local_unicast,
    is_link_local_multicast, to4, ip_equal, ipv4zero, ipv6unspecified, ipv6loopback, v4_in_v6_prefix, len.
  cbn [length app N.of_nat firstn skipn bytes_eqb list_eqb Pos.of_succ_nat Pos.succ N.eqb Pos.eqb andb orb byte nth].
  destruct (a =? 0) eqn:Ea, (b =? 0) eqn:Eb, (c =? 0) eqn:Ec, (d =? 0) eqn:Ed; cbn [andb orb]; reflexivity.
Qed.

Lemma classify_v4_mapped v : v < 2 ^ 32 -> is_internal (enc_v4_mapped v) = v4_internal v.
Proof.
  intro Hv. unfold enc_v4_mapped. rewrite is_internal_mapped by apply len_be_bytes.
  apply classify_v4. exact Hv.
Qed.

(* ------------------------------------------------- positional lemmas *)

Lemma bytes_eqb_eq x y : bytes_eqb x y = true <-> x = y.
Proof. apply listN_eqb_eq. Qed.

Lemma len_app (x y : list N) : len (x ++ y) = len x + len y.
Proof. unfold len. rewrite app_length. lia. Qed.

Lemma be_value_app x y : be_value (x ++ y) = be_value x * 256 ^ len y + be_value y.
Proof.
  induction x as [|b r IH]; cbn [app be_value]; [lia|].
  rewrite IH, len_app, N.pow_add_r. lia.
Qed.

Lemma be_value_lt x : Forall (fun b => b < 256) x -> be_value x < 256 ^ len x.
Proof.
  induction 1 as [|b r Hb _ IH]; cbn [be_value]; [cbn; lia|].
  replace (len (b :: r)) with (len r + 1) by (unfold len; cbn [length]; lia).
  rewrite N.pow_add_r. change (256 ^ 1) with 256. nia.
Qed.

Lemma be_value_inj x : Forall (fun b => b < 256) x -> forall y, Forall (fun b => b < 256) y ->
  length x = length y -> be_value x = be_value y -> x = y.
Proof.
  induction 1 as [|b r Hb Hr IH]; intros y Hy Hl HV; destruct y as [|c s]; try discriminate; [reflexivity|].
  inversion Hy as [|? ? Hc Hs]; subst. cbn [length] in Hl. injection Hl as Hl.
  cbn [be_value] in HV.
  assert (Hlen : len r = len s) by (unfold len; rewrite Hl; reflexivity).
  rewrite Hlen in HV.
  pose proof (be_value_lt r Hr) as L1. pose proof (be_value_lt s Hs) as L2. rewrite Hlen in L1.
  assert (Hbc : b = c) by nia. subst c.
  f_equal. apply IH; [assumption|assumption|lia].
Qed.

Lemma be_value_eqb x y : Forall (fun b => b < 256) x -> Forall (fun b => b < 256) y ->
  length x = length y -> (be_value x =? be_value y) = bytes_eqb x y.
Proof.
  intros Hx Hy Hl. destruct (bytes_eqb x y) eqn:E.
  - apply bytes_eqb_eq in E. subst. apply N.eqb_refl.
  - apply N.eqb_neq. intro HV. apply (be_value_inj x Hx y Hy Hl) in HV.
    apply bytes_eqb_eq in HV. congruence.
Qed.

Lemma be_value_split p s : Forall (fun b => b < 256) s ->
  be_value (p ++ s) / 256 ^ len s = be_value p /\
  be_value (p ++ s) mod 256 ^ len s = be_value s.
Proof.
  intro Hs. rewrite be_value_app.
  pose proof (be_value_lt _ Hs) as L.
  assert (Hp : 256 ^ len s <> 0) by (apply N.pow_nonzero; lia).
  split.
  - rewrite N.div_add_l by exact Hp. rewrite N.div_small by exact L. lia.
  - rewrite N.add_comm, N.mod_add by exact Hp. apply N.mod_small. exact L.
Qed.

(* ------------------------------------------------- the classifier, IPv6 *)

Lemma forall_lt_firstn n x : Forall (fun b => b < 256) x -> Forall (fun b => b < 256) (firstn n x).
Proof. intro H. rewrite <- (firstn_skipn n x) in H. apply Forall_app in H. tauto. Qed.
Lemma forall_lt_skipn n x : Forall (fun b => b < 256) x -> Forall (fun b => b < 256) (skipn n x).
Proof. intro H. rewrite <- (firstn_skipn n x) in H. apply Forall_app in H. tauto. Qed.

Lemma prefix_lt : Forall (fun b => b < 256) v4_in_v6_prefix.
Proof. unfold v4_in_v6_prefix. repeat constructor. Qed.

Lemma v6_mapped_bytes x : length x = 16%nat -> Forall (fun b => b < 256) x ->
  v6_mapped (be_value x) = bytes_eqb (firstn 12 x) v4_in_v6_prefix /\
  be_value x mod 2 ^ 32 = be_value (skipn 12 x).
Proof.
  intros Hl Hx.
  destruct (be_value_split (firstn 12 x) (skipn 12 x) (forall_lt_skipn 12 x Hx)) as [Hd Hm].
  rewrite (firstn_skipn 12 x) in Hd, Hm.
  assert (Hs : len (skipn 12 x) = 4) by (unfold len; rewrite skipn_length, Hl; reflexivity).
  rewrite Hs in Hd, Hm. change (256 ^ 4) with (2 ^ 32) in Hd, Hm. split; [|exact Hm].
  unfold v6_mapped, in_cidr. change (128 - 96) with 32. rewrite Hd.
  change (65535 * 2 ^ 32 / 2 ^ 32) with (be_value v4_in_v6_prefix).
  apply be_value_eqb; [apply forall_lt_firstn; exact Hx|exact prefix_lt|].
  rewrite firstn_length, Hl. reflexivity.
Qed.

Lemma list4 (y : list N) : length y = 4%nat -> Forall (fun b => b < 256) y ->
  exists a b c d, y = [a; b; c; d] /\ a < 256 /\ b < 256 /\ c < 256 /\ d < 256.
Proof.
  intros Hl Hy. destruct y as [|a [|b [|c [|d [|e r]]]]]; try discriminate.
  inversion Hy as [|? ? Ha H1]; subst. inversion H1 as [|? ? Hb H2]; subst.
  inversion H2 as [|? ? Hc H3]; subst. inversion H3 as [|? ? Hd _]; subst.
  exists a, b, c, d. tauto.
Qed.

Lemma be_value_4 a b c d : be_value [a; b; c; d] = v4_of a b c d.
Proof.
  cbn [be_value len length N.of_nat Pos.of_succ_nat Pos.succ]. unfold v4_of.
  change (256 ^ 3) with 16777216. change (256 ^ 2) with 65536.
  change (256 ^ 1) with 256. change (256 ^ 0) with 1. lia.
Qed.

(** top two bytes and the rest *)
Lemma be_value_top2 b0 b1 r : length r = 14%nat -> Forall (fun b => b < 256) r ->
  exists R, R < 2 ^ 112 /\ be_value (b0 :: b1 :: r) = (b0 * 256 + b1) * 2 ^ 112 + R.
Proof.
  intros Hl Hr. exists (be_value r). pose proof (be_value_lt r Hr) as L.
  assert (Hlen : len r = 14) by (unfold len; rewrite Hl; reflexivity).
  rewrite Hlen in L. change (256 ^ 14) with (2 ^ 112) in L. split; [exact L|].
  cbn [be_value]. replace (len (b1 :: r)) with 15 by (unfold len; cbn [length]; rewrite Hl; reflexivity).
  rewrite Hlen. change (256 ^ 15) with (256 * 2 ^ 112). change (256 ^ 14) with (2 ^ 112). lia.
Qed.

Lemma is_internal_16 x : length x = 16%nat -> Forall (fun b => b < 256) x ->
  is_internal x = v6_internal (be_value x).
Proof.
  intros Hl Hx. destruct (v6_mapped_bytes x Hl Hx) as [HM Hlo].
  unfold v6_internal. rewrite HM, Hlo.
  assert (Hlen : len x = 16) by (unfold len; rewrite Hl; reflexivity).
  destruct (bytes_eqb (firstn 12 x) v4_in_v6_prefix) eqn:EM.
  - (* IPv4-mapped: same as the 4-byte form *)
    apply bytes_eqb_eq in EM.
    assert (Hy : length (skipn 12 x) = 4%nat) by (rewrite skipn_length, Hl; reflexivity).
    destruct (list4 _ Hy (forall_lt_skipn 12 x Hx)) as (a & b & c & d & Ey & Ha & Hb & Hc & Hd).
    rewrite <- (firstn_skipn 12 x) at 1. rewrite EM, Ey.
    rewrite is_internal_mapped by reflexivity.
    rewrite be_value_4. apply is_internal_4; assumption.
  - (* genuine IPv6 *)
    assert (T4 : to4 x = None).
    { unfold to4. rewrite Hlen, EM. reflexivity. }
    unfold is_internal, is_loopback, is_private, is_unspecified, is_link_local_unicast,
      is_link_local_multicast. rewrite T4.
    assert (Hz : ip_equal x ipv4zero = false).
    { unfold ip_equal. rewrite Hlen. change (len ipv4zero) with 16. cbn [N.eqb Pos.eqb].
      destruct (bytes_eqb x ipv4zero) eqn:E; [|reflexivity].
      apply bytes_eqb_eq in E. rewrite E in EM. vm_compute in EM. discriminate. }
    rewrite Hz.
    assert (Hu : ip_equal x ipv6unspecified = (be_value x =? 0)).
    { unfold ip_equal. rewrite Hlen. change (len ipv6unspecified) with 16. cbn [N.eqb Pos.eqb].
      change 0 with (be_value ipv6unspecified) at 1. symmetry.
      apply be_value_eqb; [exact Hx|unfold ipv6unspecified; repeat constructor|rewrite Hl; reflexivity]. }
    assert (Hlo1 : ip_equal x ipv6loopback = (be_value x =? 1)).
    { unfold ip_equal. rewrite Hlen. change (len ipv6loopback) with 16. cbn [N.eqb Pos.eqb].
      change 1 with (be_value ipv6loopback) at 1. symmetry.
      apply be_value_eqb; [exact Hx|unfold ipv6loopback; repeat constructor|rewrite Hl; reflexivity]. }
    rewrite Hu, Hlo1, Hlen. cbn [N.eqb Pos.eqb andb orb].
    destruct x as [|b0 [|b1 r]]; try discriminate.
    cbn [length] in Hl. injection Hl as Hl.
    inversion Hx as [|? ? Hb0 Hx1]; subst. inversion Hx1 as [|? ? Hb1 Hr]; subst.
    destruct (be_value_top2 b0 b1 r Hl Hr) as (R & HR & EV).
    cbn [byte nth]. rewrite (land_254 b0 Hb0), (land_192 b1 Hb1), (land_15 b1 Hb1).
    rewrite EV. clear EV Hu Hlo1 Hz T4 EM HM Hlo Hx Hx1 Hr.
    unfold in_cidr. change (128 - 7) with 121. change (128 - 10) with 118.
    change (252 * 2 ^ 120 / 2 ^ 121) with 126. change (65152 * 2 ^ 112 / 2 ^ 118) with 1018.
    set (h := b0 * 256 + b1).
    assert (D121 : (h * 2 ^ 112 + R) / 2 ^ 121 = b0 / 2).
    { change (2 ^ 121) with (2 ^ 112 * 512). rewrite <- N.div_div by lia.
      rewrite N.div_add_l by lia. rewrite (N.div_small R) by exact HR. subst h. lia. }
    assert (D118 : (h * 2 ^ 112 + R) / 2 ^ 118 = h / 64).
    { change (2 ^ 118) with (2 ^ 112 * 64). rewrite <- N.div_div by lia.
      rewrite N.div_add_l by lia. rewrite (N.div_small R) by exact HR. f_equal. lia. }
    assert (D120 : (h * 2 ^ 112 + R) / 2 ^ 120 = b0).
    { change (2 ^ 120) with (2 ^ 112 * 256). rewrite <- N.div_div by lia.
      rewrite N.div_add_l by lia. rewrite (N.div_small R) by exact HR. subst h. lia. }
    assert (D112 : (h * 2 ^ 112 + R) / 2 ^ 112 = h).
    { rewrite N.div_add_l by lia. rewrite (N.div_small R) by exact HR. lia. }
    rewrite D121, D118, D120, D112. subst h.
    assert (E1 : ((b0 * 256 + b1) / 64 =? 1018) = ((b0 =? 254) && (b1 / 64 =? 2))) by lia.
    assert (E2 : ((b0 * 256 + b1) mod 16 =? 2) = (b1 mod 16 =? 2)) by lia.
    rewrite E1, E2.
    destruct ((b0 * 256 + b1) * 2 ^ 112 + R =? 1), ((b0 * 256 + b1) * 2 ^ 112 + R =? 0),
      (b0 / 2 =? 126), (b0 =? 254), (b1 / 64 =? 2), (b0 =? 255), (b1 mod 16 =? 2); reflexivity.
Qed.

Lemma classify_v6 v : v < 2 ^ 128 -> is_internal (enc_v6 v) = v6_internal v.
Proof.
  intro Hv. unfold enc_v6.
  rewrite (is_internal_16 (be_bytes 16 v)).
  - rewrite be_value_be_bytes. change (256 ^ N.of_nat 16) with (2 ^ 128).
    rewrite N.mod_small by exact Hv. reflexivity.
  - pose proof (len_be_bytes 16 v) as H. unfold len in H. lia.
  - apply be_bytes_lt.
Qed.

(** Exactness: in every encoding the classifier returns the class of the address. *)
Theorem classify_exact a : addr_wf a -> forall e, In e (encodings a) -> is_internal e = addr_internal a.
Proof.
  destruct a as [v|v]; cbn [addr_wf encodings addr_internal In]; intros Hv e He.
  - destruct He as [<-|[<-|[]]]; [apply classify_v4|apply classify_v4_mapped]; exact Hv.
  - destruct He as [<-|[]]. apply classify_v6. exact Hv.
Qed.

(** An IPv4 address and its IPv4-mapped IPv6 address are in the same class. *)
Lemma mapped_same_class v : v < 2 ^ 32 -> addr_internal (V6 (65535 * 2 ^ 32 + v)) = addr_internal (V4 v).
Proof.
  intro Hv. cbn [addr_internal]. unfold v6_internal, v6_mapped, in_cidr.
  change (128 - 96) with 32. change (65535 * 2 ^ 32 / 2 ^ 32) with 65535.
  assert (E : (65535 * 2 ^ 32 + v) / 2 ^ 32 = 65535).
  { rewrite N.div_add_l by (cbn; lia). rewrite N.div_small by exact Hv. lia. }
  rewrite E. cbn [N.eqb Pos.eqb].
  rewrite N.add_comm, N.mod_add by (cbn; lia). rewrite N.mod_small by exact Hv. reflexivity.
Qed.

(** Anything that is not a 4- or 16-byte slice is never classified internal
    (net.LookupIP does not produce such values). *)
Lemma malformed_not_internal x : len x <> 4 -> len x <> 16 -> is_internal x = false.
Proof.
  intros H4 H16.
  apply N.eqb_neq in H4. apply N.eqb_neq in H16.
  unfold is_internal, is_loopback, is_private, is_unspecified, is_link_local_unicast,
    is_link_local_multicast, to4, ip_equal.
  change (len ipv4zero) with 16. change (len ipv6unspecified) with 16. change (len ipv6loopback) with 16.
  rewrite H4, H16. cbn [andb orb]. reflexivity.
Qed.

(* ------------------------------------------------- the guard *)

Definition scheme_ok (pu : purl) : bool :=
  bytes_eqb (u_scheme pu) s_http || bytes_eqb (u_scheme pu) s_https.

Lemma existsb_internal_false ips :
  existsb is_internal ips = false <-> forall x, In x ips -> is_internal x = false.
Proof.
  split.
  - intros H x Hx. destruct (is_internal x) eqn:E; [|reflexivity].
    assert (existsb is_internal ips = true) by (apply existsb_exists; eauto). congruence.
  - intro H. destruct (existsb is_internal ips) eqn:E; [|reflexivity].
    apply existsb_exists in E. destruct E as (x & Hx & Hi). rewrite (H x Hx) in Hi. discriminate.
Qed.

Lemma guard_allow_iff u ans :
  guard_url false u ans = GAllow <->
  exists pu ips, u = Some pu /\ scheme_ok pu = true /\ ans = Some ips /\
                 forall x, In x ips -> is_internal x = false.
Proof.
  unfold guard_url, scheme_ok. split.
  - destruct u as [pu|]; [|discriminate].
    destruct (bytes_eqb (u_scheme pu) s_http || bytes_eqb (u_scheme pu) s_https) eqn:Es; [|discriminate].
    destruct ans as [ips|]; [|discriminate].
    destruct (existsb is_internal ips) eqn:Ei; [discriminate|]. intros _.
    exists pu, ips. repeat split; try assumption. apply existsb_internal_false. exact Ei.
  - intros (pu & ips & -> & Hs & -> & Hall). rewrite Hs.
    apply existsb_internal_false in Hall. rewrite Hall. reflexivity.
Qed.

Lemma guard_refuses u ips x :
  In x ips -> is_internal x = true -> guard_url false u (Some ips) <> GAllow.
Proof.
  intros Hx Hi HG. apply guard_allow_iff in HG.
  destruct HG as (pu & ips' & _ & _ & E & Hall). injection E as <-.
  rewrite (Hall x Hx) in Hi. discriminate.
Qed.

Lemma guard_internal_result pu ips x : scheme_ok pu = true ->
  In x ips -> is_internal x = true -> guard_url false (Some pu) (Some ips) = GInternal.
Proof.
  intros Hs Hx Hi. unfold guard_url. unfold scheme_ok in Hs. rewrite Hs.
  assert (E : existsb is_internal ips = true) by (apply existsb_exists; eauto).
  rewrite E. reflexivity.
Qed.

Lemma guard_opt_in u ans : guard_url true u ans = GAllow.
Proof. reflexivity. Qed.

(* ------------------------------------------------- the dialer *)

Lemma dial_each_incl ips reach : incl (fst (dial_each ips reach)) ips.
Proof.
  induction ips as [|x r IH]; cbn [dial_each]; [intros y []|].
  destruct (reach x).
  - cbn [fst]. intros y [<-|[]]. left. reflexivity.
  - destruct (dial_each r reach) as [t ok]. cbn [fst] in *.
    intros y [<-|Hy]; [left; reflexivity|right; apply IH; exact Hy].
Qed.

Lemma find_internal_none ips :
  find is_internal ips = None <-> forall x, In x ips -> is_internal x = false.
Proof.
  split.
  - intros H x Hx. eapply find_none in H; eauto.
  - intro H. destruct (find is_internal ips) as [b|] eqn:E; [|reflexivity].
    apply find_some in E. destruct E as [Hb Hi]. rewrite (H b Hb) in Hi. discriminate.
Qed.

Lemma dial_vetted split ans reach t ok :
  guarded_dial false false split ans reach = DTried t ok ->
  exists ips, ans = Some ips /\ (forall x, In x ips -> is_internal x = false) /\ incl t ips /\
              (forall x, In x t -> is_internal x = false).
Proof.
  unfold guarded_dial. cbn [orb].
  destruct split as [hp|]; [|discriminate]. destruct ans as [ips|]; [|discriminate].
  destruct (find is_internal ips) as [bad|] eqn:Ef; [discriminate|].
  pose proof (dial_each_incl ips reach) as Hincl.
  destruct (dial_each ips reach) as [t' ok'] eqn:Ed. cbn [fst] in Hincl.
  intro H. injection H as <- <-.
  pose proof (proj1 (find_internal_none ips) Ef) as Hall.
  exists ips. repeat split; auto.
Qed.

Lemma dial_refuses hp ips reach x :
  In x ips -> is_internal x = true ->
  exists bad, guarded_dial false false (Some hp) (Some ips) reach = DRefused bad /\
              In bad ips /\ is_internal bad = true.
Proof.
  intros Hx Hi. unfold guarded_dial. cbn [orb].
  destruct (find is_internal ips) as [bad|] eqn:Ef.
  - exists bad. apply find_some in Ef. tauto.
  - pose proof (proj1 (find_internal_none ips) Ef x Hx) as Hf. congruence.
Qed.

(* ------------------------------------------------- the client loop *)

(** With the opt-in off, every connection the client opens is either to an
    address the dialer vetted as not internal, or to the configured proxy. *)
Definition safe_event (e : event) : Prop :=
  match e with
  | EConnect t => is_internal t = false
  | EConnectProxy _ => True
  | EConnectUnchecked _ => False
  end.

Lemma round_trip_safe w k u : w_allow w = false ->
  Forall safe_event (fst (fst (round_trip w k u))).
Proof.
  intro Ha. unfold round_trip. rewrite Ha.
  destruct (w_proxy w u) as [ph|].
  - destruct (guard_url false (Some u) (w_resolve w k (u_host u))); cbn [fst]; repeat constructor.
  - destruct (guarded_dial false false (Some (u_host u, [])) (w_resolve w k (u_host u)) (w_reach w)) as [| | |bad|t ok] eqn:Ed.
    + exfalso. unfold guarded_dial in Ed. cbn [orb] in Ed.
      destruct (w_resolve w k (u_host u)) as [ips|]; [|discriminate].
      destruct (find is_internal ips); [discriminate|].
      destruct (dial_each ips (w_reach w)); discriminate.
    + cbn [fst]. constructor.
    + cbn [fst]. constructor.
    + cbn [fst]. constructor.
    + apply dial_vetted in Ed. destruct Ed as (ips & _ & _ & _ & Hall).
      assert (HF : Forall safe_event (map EConnect t)).
      { apply Forall_forall. intros e He. apply in_map_iff in He.
        destruct He as (x & <- & Hx). cbn. apply Hall. exact Hx. }
      destruct ok; cbn [fst]; exact HF.
Qed.

Theorem client_safe fuel : forall w k via u, w_allow w = false ->
  Forall safe_event (fst (client_do fuel w k via u)).
Proof.
  induction fuel as [|f IH]; intros w k via u Ha; cbn [client_do]; [constructor|].
  pose proof (round_trip_safe w k u Ha) as HR.
  destruct (round_trip w k u) as [[ev k1] st]. cbn [fst] in HR.
  destruct st as [s|]; [exact HR|].
  destruct (w_respond w via u) as [next|]; [|exact HR].
  destruct (10 <=? S via)%nat; [exact HR|].
  destruct next as [n|].
  - destruct (guard_url (w_allow w) (Some n) (w_resolve w k1 (u_host n))); try exact HR.
    specialize (IH w (S k1) (S via) n Ha).
    destruct (client_do f w (S k1) (S via) n) as [ev2 s]. cbn [fst] in *.
    apply Forall_app. split; assumption.
  - destruct (guard_url (w_allow w) None None); exact HR.
Qed.

Theorem handle_safe fuel w u : w_allow w = false -> Forall safe_event (fst (handle fuel w u)).
Proof.
  intro Ha. unfold handle. destruct u as [pu|]; [|constructor].
  destruct (guard_url (w_allow w) (Some pu) (w_resolve w 0%nat (u_host pu))); try constructor.
  apply client_safe. exact Ha.
Qed.

(** The handler refuses up front when the first resolution has an internal address. *)
Lemma handle_refuses_up_front fuel w pu ips x :
  w_allow w = false -> w_resolve w O (u_host pu) = Some ips ->
  In x ips -> is_internal x = true ->
  fst (handle fuel w (Some pu)) = [] /\ exists g, snd (handle fuel w (Some pu)) = SRefusedGuard g /\ g <> GAllow.
Proof.
  intros Ha Hr Hx Hi. unfold handle. rewrite Ha, Hr.
  pose proof (guard_refuses (Some pu) ips x Hx Hi) as HG.
  destruct (guard_url false (Some pu) (Some ips)) eqn:E; try congruence;
    (split; [reflexivity|eexists; split; [reflexivity|discriminate]]).
Qed.

(** A redirect is re-checked before it is followed: if the target resolves to an
    internal address at check time, the client stops there — the events are those
    of the hops already made. *)
Lemma redirect_rechecked f w k via u ev k1 n ips x :
  w_allow w = false ->
  round_trip w k u = (ev, k1, None) ->
  w_respond w via u = Some (Some n) ->
  w_resolve w k1 (u_host n) = Some ips -> In x ips -> is_internal x = true ->
  fst (client_do (S f) w k via u) = ev /\
  exists s, snd (client_do (S f) w k via u) = s /\ s <> SDone.
Proof.
  intros Ha HR Hrsp Hres Hx Hi. cbn [client_do]. rewrite HR, Hrsp.
  destruct (10 <=? S via)%nat; [split; [reflexivity|eexists; split; [reflexivity|discriminate]]|].
  rewrite Ha, Hres.
  pose proof (guard_refuses (Some n) ips x Hx Hi) as HG.
  destruct (guard_url false (Some n) (Some ips)) eqn:E; try congruence;
    (split; [reflexivity|eexists; split; [reflexivity|discriminate]]).
Qed.

(** The un-rechecked mutant does follow such a redirect when the dial-time
    answer differs (regression witness in Property.v). *)

(** No proxy configured: every event is a vetted direct connect. *)
Lemma round_trip_direct w k u : w_allow w = false -> w_proxy w u = None ->
  Forall (fun e => exists t, e = EConnect t /\ is_internal t = false) (fst (fst (round_trip w k u))).
Proof.
  intros Ha Hp. pose proof (round_trip_safe w k u Ha) as HS.
  unfold round_trip in *. rewrite Hp in *. rewrite Ha in *.
  destruct (guarded_dial false false (Some (u_host u, [])) (w_resolve w k (u_host u)) (w_reach w)) as [| | |bad|t ok];
    cbn [fst] in *.
  - inversion HS as [|? ? H1 _]. destruct H1.
  - constructor.
  - constructor.
  - constructor.
  - assert (HF : Forall safe_event (map EConnect t)) by (destruct ok; exact HS).
    assert (HG : Forall (fun e => exists t0, e = EConnect t0 /\ is_internal t0 = false) (map EConnect t)).
    { apply Forall_forall. intros e He. rewrite Forall_forall in HF. specialize (HF e He).
      apply in_map_iff in He. destruct He as (y & <- & _). exists y. split; [reflexivity|exact HF]. }
    destruct ok; exact HG.
Qed.

(** End to end: no connection to any encoding of any internal address. *)
Theorem no_internal_connect fuel w u a e :
  w_allow w = false -> addr_wf a -> addr_internal a = true -> In e (encodings a) ->
  ~ In (EConnect e) (fst (handle fuel w u)).
Proof.
  intros Ha Hwf Hint He Hin.
  pose proof (handle_safe fuel w u Ha) as HS. rewrite Forall_forall in HS.
  specialize (HS _ Hin). cbn in HS.
  rewrite (classify_exact a Hwf e He) in HS. congruence.
Qed.
