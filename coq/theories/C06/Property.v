(** C06 — checkpoint/restore at any time boundary is invisible.  Property theorems only. *)
From Akita Require Import Lib.Base Lib.AbsSim Lib.AbsSimProofs C06.Model C06.Exec C06.Proofs C06.HeapBridge C06.EngineBridge.
From Akita Require Lib.Engine Lib.EngineProofs.
From Coq Require Import Permutation Sorting.Sorted.
Local Open Scope N_scope.

(** Restoring a queue snapshot (events in pop order) into a fresh queue re-assigns
    sequence numbers but reproduces exactly the same pop order
    (unsafeEventQueue.snapshot / restore). *)
Theorem c06_restore_rebuilds_pop_order :
  forall (Ev : Type) (ev_time : Ev -> N) (q : @queue Ev), wfq Ev ev_time q ->
  wfq Ev ev_time (restore Ev ev_time (snapshot Ev q)) /\
  snapshot Ev (restore Ev ev_time (snapshot Ev q)) = snapshot Ev q.
Proof.
  intros Ev ev_time q.
  exact (restore_snapshot unit Ev ev_time (fun _ => false) (fun w _ => (w, [])) q).
Qed.
Print Assumptions c06_restore_rebuilds_pop_order.

(** Framework theorem, for EVERY world type, handler program, boundary and run
    length: run to boundary b, save, load into a freshly rebuilt simulation, run
    on: the remaining handled trace, the outcome and the final state (time,
    world, queue contents) are those of the uninterrupted run, which is the
    concatenation of both parts.  The world codec round trip is the hypothesis
    discharged per State type by C08. *)
Theorem c06_framework_invisible :
  forall (W Ev : Type) (ev_time : Ev -> N) (ev_sec : Ev -> bool)
         (H : W -> Ev -> W * list Ev) (P : Type) (encW : W -> P) (decW : P -> option W),
  (forall w, decW (encW w) = Some w) ->
  forall s b n1 tr1 s1, wfs W Ev ev_time s ->
  run_until W Ev ev_time ev_sec H b n1 s = (tr1, s1, Done) ->
  exists s1', load W Ev ev_time P decW (save W Ev P encW s1) = Some s1' /\
  forall n2,
    let '(tr2, f, o) := run W Ev ev_time ev_sec H n2 s1 in
    let '(tr2', f', o') := run W Ev ev_time ev_sec H n2 s1' in
    tr2' = tr2 /\ o' = o /\ R W Ev ev_time f f' /\
    exists k, run W Ev ev_time ev_sec H (k + n2) s = (tr1 ++ tr2, f, o).
Proof. exact checkpoint_invisible. Qed.
Print Assumptions c06_framework_invisible.

(** Simulation states that differ only in queue sequence numbering are
    indistinguishable by any run (bisimulation up to renumbering). *)
Theorem c06_renumbering_bisimulation :
  forall (W Ev : Type) (ev_time : Ev -> N) (ev_sec : Ev -> bool) (H : W -> Ev -> W * list Ev)
         n s s', R W Ev ev_time s s' ->
  let '(tr, f, o) := run W Ev ev_time ev_sec H n s in
  let '(tr', f', o') := run W Ev ev_time ev_sec H n s' in
  tr = tr' /\ o = o' /\ R W Ev ev_time f f'.
Proof. exact run_R. Qed.
Print Assumptions c06_renumbering_bisimulation.

(** The scripted instance used by the correspondence check (every script,
    initial schedule, boundary and fuel). *)
Theorem c06_script_invisible : forall sc (s : ssim) b n1 tr1 s1,
  s_wfs s -> s_run_until sc b n1 s = (tr1, s1, Done) ->
  exists s1', s_load (s_save s1) = Some s1' /\
  forall n2,
    let '(tr2, f, o) := s_run sc n2 s1 in
    let '(tr2', f', o') := s_run sc n2 s1' in
    tr2' = tr2 /\ o' = o /\ final_of f' = final_of f /\
    exists k, s_run sc (k + n2) s = (tr1 ++ tr2, f, o).
Proof. exact script_invisible. Qed.
Print Assumptions c06_script_invisible.

(** Agreement of the implementation with the model on a scripted case implies
    the property predicate evaluated on the implementation's own traces. *)
Theorem c06_model_agreement_implies_property : forall c,
  check_case c = true -> holds_on c = true \/ (exists a b c' d e, c = LibCase a b c' d e).
Proof. exact check_implies_holds. Qed.
Print Assumptions c06_model_agreement_implies_property.

(** The heap-backed queue of timing/eventqueue.go as modelled in Lib/Engine (C01: list-backed
    eventHeap with its index arithmetic, tied exactly to the Go code) refines the canonical
    sorted queue used by the C06 framework theorems: for EVERY sequence of pushes and pops,
    started from related queues (in particular from two fresh queues, i.e. after a restore),
    both yield the same events in the same order.  This discharges the assumption "the
    event queue behaves as a (time, seq) priority queue" inside Coq. *)
Theorem c06_heap_queue_refines_canonical :
  forall (Ev : Type) (ev_time : Ev -> N) (ops : list (qop Ev)) hq aq,
  QRel Ev ev_time hq aq -> run_heap Ev ev_time ops hq = run_abs Ev ev_time ops aq.
Proof. exact heap_refines_canonical. Qed.
Print Assumptions c06_heap_queue_refines_canonical.

Theorem c06_fresh_heap_queue_refines_canonical :
  forall (Ev : Type) (ev_time : Ev -> N) (ops : list (qop Ev)),
  run_heap Ev ev_time ops Engine.q_empty = run_abs Ev ev_time ops empty_queue.
Proof. exact heap_restore_pop_order. Qed.
Print Assumptions c06_fresh_heap_queue_refines_canonical.

(** Non-vacuity: a two-handler script with a same-instant primary->secondary
    chain cut in the middle; the hypotheses hold and the cut is non-trivial. *)
Example c06_nonvacuous :
  let sc := [[[mk_rule 0 1 true 7; mk_rule 5 0 false 8]]; [[mk_rule 3 0 false 9]]] in
  match init_sim 2 [(0, 0, false, 3, 1); (2, 1, true, 2, 2)] with
  | Some s0 =>
      s_wfs s0 /\
      match s_run_until sc 4 50 s0 with
      | (tr1, s1, Done) => (0 < length tr1)%nat /\ (0 < length (snapshot sev (pq s1)))%nat
      | _ => False
      end
  | None => False
  end.
Proof.
  cbv zeta.
  destruct (init_sim 2 [(0, 0, false, 3, 1); (2, 1, true, 2, 2)]) as [s0|] eqn:E; [|vm_compute in E; discriminate].
  split; [eapply init_sim_wfs; exact E|].
  vm_compute in E. injection E as <-. vm_compute. split; lia.
Qed.

(** The engine model of C01/C02 (Lib/Engine: the binary heap of eventqueue.go and the
    run loops of serialengine.go, tied to the Go code by the C01 and C02 harnesses)
    refines the abstract simulation the theorems above are stated on: related start
    states, the same handler program => Run handles the same events in the same
    order, ends the same way and ends in related states. *)
Theorem c06_heap_engine_run_refines_abstract :
  forall (W Ev : Type) (ev_time : Ev -> N) (ev_sec : Ev -> bool) (H : W -> Ev -> W * list Ev)
         n w en s, ERel W Ev ev_time w en s ->
  let r := Engine.run ev_time ev_sec H n w en in
  let '(tr, f, o) := AbsSim.run W Ev ev_time ev_sec H n s in
  out_rel r.(Engine.r_out) o /\
  (r.(Engine.r_out) <> Engine.Panicked ->
     log_events Ev r.(Engine.r_log) = tr /\ ERel W Ev ev_time r.(Engine.r_hs) r.(Engine.r_en) f).
Proof. exact run_rel. Qed.
Print Assumptions c06_heap_engine_run_refines_abstract.

Theorem c06_heap_engine_run_until_refines_abstract :
  forall (W Ev : Type) (ev_time : Ev -> N) (ev_sec : Ev -> bool) (H : W -> Ev -> W * list Ev)
         b n w en s, ERel W Ev ev_time w en s ->
  let r := Engine.run_until ev_time ev_sec H b n w en in
  let '(tr, f, o) := AbsSim.run_until W Ev ev_time ev_sec H b n s in
  out_rel r.(Engine.r_out) o /\
  (r.(Engine.r_out) <> Engine.Panicked ->
     log_events Ev r.(Engine.r_log) = tr /\ ERel W Ev ev_time r.(Engine.r_hs) r.(Engine.r_en) f).
Proof. exact run_until_rel. Qed.
Print Assumptions c06_heap_engine_run_until_refines_abstract.

(** C06 on the heap engine itself: RunUntil any boundary, save (time + both heaps
    drained in pop order), load into fresh heaps, Run: the same events are handled,
    the run ends the same way and in the same observable state (handler state, time,
    queue contents in pop order) as the uninterrupted continuation, and the
    uninterrupted Run from the start handles the concatenation. *)
Theorem c06_heap_engine_checkpoint_invisible :
  forall (W Ev : Type) (ev_time : Ev -> N) (ev_sec : Ev -> bool) (H : W -> Ev -> W * list Ev)
         w en s b n1, ERel W Ev ev_time w en s ->
  let r1 := Engine.run_until ev_time ev_sec H b n1 w en in
  r1.(Engine.r_out) = Engine.Done ->
  forall n2,
    let ra := Engine.run ev_time ev_sec H n2 r1.(Engine.r_hs) r1.(Engine.r_en) in
    let rb := Engine.run ev_time ev_sec H n2 r1.(Engine.r_hs) (he_load Ev ev_time (he_save Ev ev_time r1.(Engine.r_en))) in
    rb.(Engine.r_out) = ra.(Engine.r_out) /\
    (ra.(Engine.r_out) <> Engine.Panicked ->
       log_events Ev rb.(Engine.r_log) = log_events Ev ra.(Engine.r_log) /\
       he_obs W Ev ev_time rb = he_obs W Ev ev_time ra /\
       exists k, let rw := Engine.run ev_time ev_sec H (k + n2) w en in
                 rw.(Engine.r_out) = ra.(Engine.r_out) /\
                 log_events Ev rw.(Engine.r_log) = log_events Ev r1.(Engine.r_log) ++ log_events Ev ra.(Engine.r_log) /\
                 he_obs W Ev ev_time rw = he_obs W Ev ev_time ra).
Proof. exact engine_checkpoint_invisible. Qed.
Print Assumptions c06_heap_engine_checkpoint_invisible.

(** unsafeEventQueue.snapshot sorts a copy of the heap slice with eventHeap.less: any
    strictly sorted permutation of the heap content is the pop order that [he_save] records
    (there is exactly one), whatever sorting algorithm sort.Slice uses. *)
Theorem c06_sorted_snapshot_is_pop_order :
  forall (Ev : Type) (ev_time : Ev -> N) hq aq (l : list (@Engine.qev Ev)),
  QRel Ev ev_time hq aq ->
  Permutation (Engine.q_heap hq) l ->
  Sorted.StronglySorted (EngineProofs.slt (Engine.qless ev_time)) l ->
  map fst l = q_drain Ev ev_time (Engine.q_len hq) hq.
Proof. exact sorted_snapshot_is_pop_order. Qed.
Print Assumptions c06_sorted_snapshot_is_pop_order.

(** ... and every engine obtained from NewSerialEngine by Schedule calls is in the
    domain of the three theorems above. *)
Theorem c06_heap_engine_from_new_related :
  forall (W Ev : Type) (ev_time : Ev -> N) (ev_sec : Ev -> bool) (w : W) inits,
  let '(en, _, ok) := Engine.schedule_all ev_time ev_sec Engine.new_engine inits in
  ok = true -> exists s, ERel W Ev ev_time w en s.
Proof. exact engine_from_new_related. Qed.
Print Assumptions c06_heap_engine_from_new_related.

(** Non-vacuity on the heap engine: events (time, secondary?, tag); the handler of a
    primary event with tag < 3 schedules a secondary at the same instant and a primary
    2 later.  Cut at 3: events were handled, events remain, the restored engine differs
    (sequence numbers) yet the run after it agrees. *)
Example c06_heap_engine_nonvacuous :
  let ev_time := fun e : N * bool * N => fst (fst e) in
  let ev_sec := fun e : N * bool * N => snd (fst e) in
  let H := fun (w : list N) (e : N * bool * N) =>
             (snd e :: w,
              if snd (fst e) then [] else
              if snd e <? 3 then [(fst (fst e), true, snd e + 10); (fst (fst e) + 2, false, snd e + 1)] else []) in
  let '(en, _, ok) := Engine.schedule_all ev_time ev_sec Engine.new_engine [(1, false, 0); (1, true, 20); (2, false, 1)] in
  ok = true /\
  let r1 := Engine.run_until ev_time ev_sec H 3 50 [] en in
  r1.(Engine.r_out) = Engine.Done /\ (3 <= length r1.(Engine.r_log))%nat /\ (0 < Engine.q_len (Engine.e_p r1.(Engine.r_en)))%nat /\
  he_load _ ev_time (he_save _ ev_time r1.(Engine.r_en)) <> r1.(Engine.r_en) /\
  (Engine.run ev_time ev_sec H 50 r1.(Engine.r_hs) r1.(Engine.r_en)).(Engine.r_out) = Engine.Done.
Proof. vm_compute. repeat split; try lia. discriminate. Qed.
