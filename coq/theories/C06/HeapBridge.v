(** C06 — bridge between the two queue models.

    [Lib/AbsSim] keeps each event queue in canonical form (a (time, seq)-sorted
    list); [Lib/Engine] (C01) models the real [eventHeap] with its index
    arithmetic and is tied exactly to timing/eventqueue.go.  This file proves
    that the heap queue refines the canonical queue operation by operation, so
    the C06 framework theorems hold of the heap-backed engine as modelled in C01:
    for every sequence of pushes and pops the two produce the same events. *)
From Coq Require Import Permutation Sorting.Sorted.
From Akita Require Import Lib.Base Lib.AbsSim Lib.AbsSimProofs Lib.Engine Lib.EngineProofs.
Local Open Scope N_scope.

Section Bridge.
  Variable Ev : Type.
  Variable ev_time : Ev -> N.

  Notation entry := (@AbsSim.entry Ev).
  Notation aqueue := (@AbsSim.queue Ev).
  Notation hqueue := (@Engine.queue Ev).
  Notation QL := (qless ev_time).

  Definition to_qev (x : entry) : @qev Ev := (e_ev x, e_seq x).
  Definition consistent (x : entry) : Prop := e_time x = ev_time (e_ev x).

  Lemma entry_lt_qless a b : consistent a -> consistent b ->
    entry_lt Ev a b = QL (to_qev a) (to_qev b).
  Proof.
    unfold consistent, entry_lt, qless, qtime, qseq, to_qev. cbn [fst snd].
    intros -> ->. destruct (ev_time (e_ev a) =? ev_time (e_ev b)); reflexivity.
  Qed.

  Lemma map_insert x l : consistent x -> Forall consistent l ->
    map to_qev (AbsSim.insert Ev x l) = sins QL (to_qev x) (map to_qev l).
  Proof.
    intros Hx HF. induction l as [|y r IH]; [reflexivity|].
    inversion HF as [|y' r' Hy Hr]; subst.
    cbn [AbsSim.insert map sins]. rewrite (entry_lt_qless x y Hx Hy).
    destruct (QL (to_qev x) (to_qev y)); cbn [map]; [reflexivity|].
    f_equal. apply IH. exact Hr.
  Qed.

  (** the heap queue [hq] represents the canonical queue [aq] *)
  Definition QRel (hq : hqueue) (aq : aqueue) : Prop :=
    Repr QL (Engine.q_heap hq) (map to_qev (AbsSim.q_items aq)) /\
    Engine.q_next hq = AbsSim.q_next aq /\
    Forall (fun x => consistent x /\ e_seq x < AbsSim.q_next aq) (AbsSim.q_items aq).

  Lemma QRel_empty : QRel q_empty empty_queue.
  Proof.
    split; [|split; [reflexivity|constructor]].
    apply (repr_nil QL).
  Qed.

  Lemma push_rel hq aq e : QRel hq aq ->
    QRel (q_push ev_time hq e) (AbsSim.push Ev ev_time aq e).
  Proof.
    intros (HR & Hn & HF).
    set (x := mk_entry (ev_time e) (AbsSim.q_next aq) e).
    assert (Hx : consistent x) by reflexivity.
    assert (HFc : Forall consistent (AbsSim.q_items aq)).
    { eapply Forall_impl; [|exact HF]. intros a [A _]. exact A. }
    split; [|split].
    - unfold q_push, AbsSim.push. cbn [Engine.q_heap AbsSim.q_items]. rewrite Hn.
      change (e, AbsSim.q_next aq) with (to_qev x).
      change (mk_entry (ev_time e) (AbsSim.q_next aq) e) with x.
      rewrite (map_insert x _ Hx HFc).
      apply (repr_push QL (qless_asym ev_time) (qhle_trans ev_time) (qless_trans ev_time)); [exact HR|].
      (* the new entry is comparable with every queued one: its seq is larger *)
      intros y Hy. apply in_map_iff in Hy. destruct Hy as [a [<- Ha]].
      rewrite Forall_forall in HF. destruct (HF a Ha) as [Ca Sa].
      unfold qless, qtime, qseq, to_qev. cbn [fst snd e_ev e_seq x].
      destruct (ev_time e =? ev_time (e_ev a)) eqn:E1;
        destruct (ev_time (e_ev a) =? ev_time e) eqn:E2; cbn [negb]; lia.
    - unfold q_push, AbsSim.push. cbn [Engine.q_next AbsSim.q_next]. rewrite Hn. reflexivity.
    - unfold AbsSim.push. cbn [AbsSim.q_items AbsSim.q_next].
      change (mk_entry (ev_time e) (AbsSim.q_next aq) e) with x.
      apply insert_Forall.
      + split; [exact Hx|cbn [e_seq x]; lia].
      + eapply Forall_impl; [|exact HF]. cbn. intros a [A B]. split; [exact A|lia].
  Qed.

  Lemma pop_rel hq aq x r : QRel hq aq -> AbsSim.q_items aq = x :: r ->
    exists hq', q_pop ev_time hq = Some (to_qev x, hq') /\
                q_peek hq = Some (to_qev x) /\
                QRel hq' (mk_queue r (AbsSim.q_next aq)).
  Proof.
    intros (HR & Hn & HF) Hi. rewrite Hi in HR, HF. cbn [map] in HR.
    destruct (repr_pop QL (qless_asym ev_time) (qhle_trans ev_time) _ _ _ HR) as [h' (Hp & Hk & HR')].
    exists (mkq h' (Engine.q_next hq)). split; [|split].
    - unfold q_pop. rewrite Hp. reflexivity.
    - exact Hk.
    - split; [exact HR'|split; [exact Hn|]]. cbn [AbsSim.q_items AbsSim.q_next].
      inversion HF; assumption.
  Qed.

  Lemma empty_rel hq aq : QRel hq aq -> AbsSim.q_items aq = [] -> q_pop ev_time hq = None.
  Proof.
    intros (HR & _ & _) Hi. rewrite Hi in HR. cbn [map] in HR.
    destruct HR as (_ & Hperm & _). apply Permutation_sym, Permutation_nil in Hperm.
    unfold q_pop, hpop. rewrite Hperm. reflexivity.
  Qed.

  (** queue programs: the same sequence of operations on both queues *)
  Inductive qop := QPush (e : Ev) | QPop.

  Fixpoint run_heap (ops : list qop) (q : hqueue) : list (option Ev) :=
    match ops with
    | [] => []
    | QPush e :: r => run_heap r (q_push ev_time q e)
    | QPop :: r => match q_pop ev_time q with
                   | None => None :: run_heap r q
                   | Some (x, q') => Some (fst x) :: run_heap r q'
                   end
    end.

  Fixpoint run_abs (ops : list qop) (q : aqueue) : list (option Ev) :=
    match ops with
    | [] => []
    | QPush e :: r => run_abs r (AbsSim.push Ev ev_time q e)
    | QPop :: r => match AbsSim.q_items q with
                   | [] => None :: run_abs r q
                   | x :: t => Some (e_ev x) :: run_abs r (mk_queue t (AbsSim.q_next q))
                   end
    end.

  Theorem heap_refines_canonical ops : forall hq aq, QRel hq aq ->
    run_heap ops hq = run_abs ops aq.
  Proof.
    induction ops as [|[e|] r IH]; intros hq aq HR; cbn [run_heap run_abs].
    - reflexivity.
    - apply IH. apply push_rel. exact HR.
    - destruct (AbsSim.q_items aq) as [|x t] eqn:Hi.
      + rewrite (empty_rel hq aq HR Hi). f_equal. apply IH. exact HR.
      + destruct (pop_rel hq aq x t HR Hi) as [hq' (Hp & _ & HR')].
        rewrite Hp. cbn [fst to_qev]. f_equal. apply IH. exact HR'.
  Qed.

  (** restoring a snapshot (pop order) into a fresh heap queue *)
  Corollary heap_restore_pop_order ops :
    run_heap ops q_empty = run_abs ops empty_queue.
  Proof. apply heap_refines_canonical. exact QRel_empty. Qed.
End Bridge.
