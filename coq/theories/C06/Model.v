(** C06 — checkpoint/restore at any RunUntil boundary.

    Framework level: [Lib.AbsSim] (serial engine with both queues, Schedule,
    Run, RunUntil, engine checkpoint = time + queues in pop order) instantiated
    with a concrete scripted world, identical to the Go harness
    (harness/internal/c06): handlers are table driven, the world holds one
    counter per handler and the sequential ID counter, every spawned event
    consumes one ID (timing.MakeEventBase). *)
From Akita Require Import Lib.Base Lib.AbsSim.
Local Open Scope N_scope.

(** a scripted event: (time, handler, secondary, budget, tag, id) *)
Record sev := mk_sev { s_time : N; s_handler : N; s_sec : bool; s_budget : N; s_tag : N; s_id : N }.

(** one spawn rule: (delta-t, target handler, secondary, tag) *)
Record rule := mk_rule { r_dt : N; r_target : N; r_sec : bool; r_tag : N }.

(** script: for each handler a list of rows; row (cnt mod #rows) is used *)
Definition script := list (list (list rule)).

Record sworld := mk_sworld { w_cnt : list N; w_nextid : N }.

Fixpoint nth_default {A} (d : A) (l : list A) (n : N) : A :=
  match l with
  | [] => d
  | x :: r => if n =? 0 then x else nth_default d r (n - 1)
  end.

Fixpoint bump (l : list N) (n : N) : list N :=
  match l with
  | [] => []
  | x :: r => if n =? 0 then (x + 1) :: r else x :: bump r (n - 1)
  end.

Fixpoint spawn (t budget id : N) (rs : list rule) : list sev * N :=
  match rs with
  | [] => ([], id)
  | r :: rest =>
      let '(evs, id') := spawn t budget (id + 1) rest in
      (mk_sev (t + r_dt r) (r_target r) (r_sec r) budget (r_tag r) (id + 1) :: evs, id')
  end.

(** the handler program interpreted identically by the Go harness *)
Definition handler (sc : script) (w : sworld) (e : sev) : sworld * list sev :=
  let h := s_handler e in
  let rows := nth_default [] sc h in
  let c := nth_default 0 (w_cnt w) h in
  let w1 := mk_sworld (bump (w_cnt w) h) (w_nextid w) in
  if s_budget e =? 0 then (w1, [])
  else
    let nrows := N.of_nat (length rows) in
    if nrows =? 0 then (w1, [])
    else
      let row := nth_default [] rows (c mod nrows) in
      let '(evs, id') := spawn (s_time e) (s_budget e - 1) (w_nextid w) row in
      (mk_sworld (w_cnt w1) id', evs).

Definition ssim := @sim sworld sev.

Definition s_run (sc : script) := run sworld sev s_time s_sec (handler sc).
Definition s_run_until (sc : script) := run_until sworld sev s_time s_sec (handler sc).
Definition s_schedule_all := schedule_all sworld sev s_time s_sec.
Definition s_save := save sworld sev sworld (fun w => w).
Definition s_load := load sworld sev s_time sworld (fun w => Some w).

(** initial simulation: empty engine at time 0, counters zero, ids start at 0;
    the initial events are created (consuming ids 1..n) and scheduled in order. *)
Fixpoint init_events (id : N) (l : list (N * N * bool * N * N)) : list sev * N :=
  match l with
  | [] => ([], id)
  | (t, h, sec, b, tag) :: r =>
      let '(evs, id') := init_events (id + 1) r in
      (mk_sev t h sec b tag (id + 1) :: evs, id')
  end.

Definition init_sim (nh : nat) (inits : list (N * N * bool * N * N)) : option ssim :=
  let '(evs, id') := init_events 0 inits in
  s_schedule_all (mk_sim 0 empty_queue empty_queue (mk_sworld (repeat 0 nh) id')) evs.
