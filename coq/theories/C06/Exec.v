(** C06 — case evaluators. *)
From Akita Require Import Lib.Base Lib.AbsSim C06.Model.
Local Open Scope N_scope.

Definition sev_eqb (a b : sev) : bool :=
  (s_time a =? s_time b) && (s_handler a =? s_handler b) && Bool.eqb (s_sec a) (s_sec b) &&
  (s_budget a =? s_budget b) && (s_tag a =? s_tag b) && (s_id a =? s_id b).

Definition tr_eqb := list_eqb sev_eqb.

(** final state projection: engine time, handler counters, next ID *)
Definition final := (N * list N * N)%type.
Definition final_eqb (a b : final) : bool :=
  let '(t, c, i) := a in let '(t', c', i') := b in (t =? t') && listN_eqb c c' && (i =? i').

Definition final_of (s : ssim) : final := (now s, w_cnt (world s), w_nextid (world s)).

Inductive case :=
| ScriptCase (nh : nat) (sc : script) (inits : list (N * N * bool * N * N)) (b : N) (fuel : nat)
    (obs_ref obs_pre obs_suf : list sev) (fin_ref fin_res : final)
| LibCase (ref pre suf : list N) (fin_ref fin_res : list N).

Definition is_done (o : outcome) : bool := match o with Done => true | _ => false end.

(** model output = implementation output (scripted simulations only) *)
Definition check_case (c : case) : bool :=
  match c with
  | ScriptCase nh sc inits b fuel obs_ref obs_pre obs_suf fin_ref fin_res =>
      match init_sim nh inits with
      | None => false
      | Some s0 =>
          let '(tr_ref, f_ref, o_ref) := s_run sc fuel s0 in
          let '(tr_pre, s1, o_pre) := s_run_until sc b fuel s0 in
          match s_load (s_save s1) with
          | None => false
          | Some s1' =>
              let '(tr_suf, f_res, o_suf) := s_run sc fuel s1' in
              is_done o_ref && is_done o_pre && is_done o_suf &&
              tr_eqb tr_ref obs_ref && tr_eqb tr_pre obs_pre && tr_eqb tr_suf obs_suf &&
              final_eqb (final_of f_ref) fin_ref && final_eqb (final_of f_res) fin_res
          end
      end
  | LibCase _ _ _ _ _ => true
  end.

(** the property on the implementation's observed behaviour: the handled trace
    before the cut followed by the trace after save/rebuild/load equals the
    uninterrupted trace, and the final states are equal. *)
Definition holds_on (c : case) : bool :=
  match c with
  | ScriptCase _ _ _ _ _ obs_ref obs_pre obs_suf fin_ref fin_res =>
      tr_eqb (obs_pre ++ obs_suf) obs_ref && final_eqb fin_ref fin_res
  | LibCase ref pre suf fin_ref fin_res =>
      listN_eqb (pre ++ suf) ref && listN_eqb fin_ref fin_res
  end.
