(** C06 — bridge at the level of whole runs.

    [Lib/Engine] (C01/C02) is the model of timing/serialengine.go + eventqueue.go
    with the real heap; [Lib/AbsSim] is the canonical-queue simulation over which
    the C06/C33/C03 framework theorems are stated.  This file proves that a run of
    the heap-backed engine and a run of the abstract simulation, started from
    related states with the same handler program, handle the same events in the
    same order, end the same way and stay related — so the checkpoint theorems
    transfer to the engine model that C01 ties exactly to the Go code. *)
From Coq Require Import Permutation Sorting.Sorted.
From Akita Require Import Lib.Base Lib.AbsSim Lib.AbsSimProofs Lib.Engine Lib.EngineProofs C06.HeapBridge.
Local Open Scope N_scope.

Section EngineBridge.
  Variables (W Ev : Type).
  Variable ev_time : Ev -> N.
  Variable ev_sec : Ev -> bool.
  Variable H : W -> Ev -> W * list Ev.

  Notation asim := (@AbsSim.sim W Ev).
  Notation heng := (@Engine.engine Ev).
  Notation QR := (QRel Ev ev_time).

  (** engine state [en] (with handler state [w]) represents abstract state [s] *)
  Definition ERel (w : W) (en : heng) (s : asim) : Prop :=
    e_now en = AbsSim.now s /\ w = AbsSim.world s /\
    QR (e_p en) (AbsSim.pq s) /\ QR (e_s en) (AbsSim.sq s).

  Lemma qrel_len hq aq : QR hq aq ->
    Nat.eqb (q_len hq) 0 = match AbsSim.q_items aq with [] => true | _ => false end.
  Proof.
    intros (HR & _ & _). destruct HR as (_ & Hperm & _). unfold q_len.
    apply Permutation_length in Hperm. rewrite Hperm, map_length.
    destruct (AbsSim.q_items aq); reflexivity.
  Qed.

  (** outcomes correspond *)
  Definition out_rel (o : Engine.outcome) (o' : AbsSim.outcome) : Prop :=
    match o, o' with
    | Engine.Done, AbsSim.Done => True
    | Engine.OutOfFuel, AbsSim.OutOfFuel => True
    | Engine.Panicked, AbsSim.Panic => True
    | _, _ => False
    end.

  Lemma schedule_rel w en s e : ERel w en s ->
    match Engine.schedule ev_time ev_sec en e, AbsSim.schedule W Ev ev_time ev_sec s e with
    | None, None => True
    | Some (en', _), Some s' => ERel w en' s'
    | _, _ => False
    end.
  Proof.
    intros (Hn & Hw & Hp & Hs). unfold Engine.schedule, AbsSim.schedule. rewrite Hn.
    destruct (ev_time e <? AbsSim.now s); [exact I|].
    destruct (ev_sec e); (split; [reflexivity|split; [exact Hw|]]); cbn [e_p e_s AbsSim.pq AbsSim.sq].
    - split; [exact Hp|apply push_rel; exact Hs].
    - split; [apply push_rel; exact Hp|exact Hs].
  Qed.

  Lemma schedule_all_rel es : forall w en s, ERel w en s ->
    match Engine.schedule_all ev_time ev_sec en es, AbsSim.schedule_all W Ev ev_time ev_sec s es with
    | (en', _, true), Some s' => ERel w en' s'
    | (_, _, false), None => True
    | _, _ => False
    end.
  Proof.
    induction es as [|e r IH]; intros w en s HR; cbn [Engine.schedule_all AbsSim.schedule_all].
    - exact HR.
    - pose proof (schedule_rel w en s e HR) as Hs.
      destruct (Engine.schedule ev_time ev_sec en e) as [[en1 x]|],
               (AbsSim.schedule W Ev ev_time ev_sec s e) as [s1|]; try contradiction; [|exact I].
      specialize (IH w en1 s1 Hs).
      destruct (Engine.schedule_all ev_time ev_sec en1 r) as [[en2 xs] ok].
      destruct ok, (AbsSim.schedule_all W Ev ev_time ev_sec s1 r); try contradiction; exact IH.
  Qed.

  (** nextEvent picks the same event and leaves related states *)
  Lemma next_event_rel w en s : ERel w en s ->
    match Engine.next_event ev_time en, AbsSim.next_event W Ev s with
    | Some (x, en'), Some (e, s') => fst x = e /\ qtime ev_time x = ev_time e /\ ERel w en' s'
    | None, None => True
    | _, _ => False
    end.
  Proof.
    intros (Hn & Hw & Hp & Hs).
    unfold Engine.next_event, AbsSim.next_event.
    rewrite (qrel_len _ _ Hp), (qrel_len _ _ Hs).
    destruct (AbsSim.q_items (AbsSim.pq s)) as [|x r] eqn:Ep;
      destruct (AbsSim.q_items (AbsSim.sq s)) as [|y u] eqn:Es.
    - rewrite (empty_rel Ev ev_time _ _ Hs Es). exact I.
    - destruct (pop_rel Ev ev_time _ _ y u Hs Es) as [hq' (Hpop & _ & HR')].
      rewrite Hpop. cbn [fst to_qev]. split; [reflexivity|].
      split; [unfold qtime; cbn [fst to_qev]; reflexivity|].
      split; [exact Hn|split; [exact Hw|split; [exact Hp|exact HR']]].
    - destruct (pop_rel Ev ev_time _ _ x r Hp Ep) as [hq' (Hpop & _ & HR')].
      rewrite Hpop. cbn [fst to_qev]. split; [reflexivity|].
      split; [unfold qtime; cbn [fst to_qev]; reflexivity|].
      split; [exact Hn|split; [exact Hw|split; [exact HR'|exact Hs]]].
    - destruct (pop_rel Ev ev_time _ _ x r Hp Ep) as [hp' (Hpopp & Hpeekp & HRp')].
      destruct (pop_rel Ev ev_time _ _ y u Hs Es) as [hs' (Hpops & Hpeeks & HRs')].
      rewrite Hpeekp, Hpeeks.
      assert (Cx : e_time x = ev_time (e_ev x)).
      { destruct Hp as (_ & _ & HF). rewrite Ep in HF. inversion HF as [|? ? [C _] _]; exact C. }
      assert (Cy : e_time y = ev_time (e_ev y)).
      { destruct Hs as (_ & _ & HF). rewrite Es in HF. inversion HF as [|? ? [C _] _]; exact C. }
      unfold qtime. cbn [fst to_qev]. rewrite Cx, Cy.
      destruct (ev_time (e_ev x) <=? ev_time (e_ev y)).
      + rewrite Hpopp. cbn [fst to_qev]. split; [reflexivity|]. split; [reflexivity|].
        split; [exact Hn|split; [exact Hw|split; [exact HRp'|exact Hs]]].
      + rewrite Hpops. cbn [fst to_qev]. split; [reflexivity|]. split; [reflexivity|].
        split; [exact Hn|split; [exact Hw|split; [exact Hp|exact HRs']]].
  Qed.

  Lemma no_more_rel w en s : ERel w en s ->
    no_more_event en = match AbsSim.next_event W Ev s with None => true | Some _ => false end.
  Proof.
    intros (_ & _ & Hp & Hs). unfold no_more_event, AbsSim.next_event.
    rewrite (qrel_len _ _ Hp), (qrel_len _ _ Hs).
    destruct (AbsSim.q_items (AbsSim.pq s)), (AbsSim.q_items (AbsSim.sq s)); try reflexivity.
    destruct (e_time e <=? e_time e0); reflexivity.
  Qed.

  (** dispatchNext corresponds *)
  Lemma dispatch_rel w en s : ERel w en s ->
    match dispatch_next ev_time ev_sec H w en, AbsSim.dispatch W Ev ev_time ev_sec H s with
    | DNone, None => True
    | DPast _ _, Some (_, None) => True
    | DStep st w' en', Some (e, Some s') => st_ok st = true /\ fst (st_ev st) = e /\ ERel w' en' s'
    | DStep st _ _, Some (_, None) => st_ok st = false
    | _, _ => False
    end.
  Proof.
    intro HR. pose proof (next_event_rel w en s HR) as Hne.
    unfold AbsSim.dispatch, dispatch_next.
    destruct (AbsSim.next_event W Ev s) as [[e s1]|];
      destruct (Engine.next_event ev_time en) as [[x en1]|]; try contradiction; [|exact I].
    destruct Hne as (Hfst & Hqt & HR1).
    pose proof HR1 as (Hn1 & Hw1 & Hp1 & Hs1).
    rewrite Hqt, Hn1.
    destruct (ev_time e <? AbsSim.now s1); [exact I|].
    cbn [AbsSim.now AbsSim.pq AbsSim.sq AbsSim.world]. rewrite <- Hw1, Hfst.
    destruct (H w e) as [w' spawned].
    assert (HR2 : ERel w' (mke (ev_time e) (e_p en1) (e_s en1))
                       (mk_sim (ev_time e) (AbsSim.pq s1) (AbsSim.sq s1) w')).
    { split; [reflexivity|split; [reflexivity|split; assumption]]. }
    pose proof (schedule_all_rel spawned w' _ _ HR2) as Hsa.
    destruct (Engine.schedule_all ev_time ev_sec (mke (ev_time e) (e_p en1) (e_s en1)) spawned)
      as [[en3 xs] ok].
    destruct ok, (AbsSim.schedule_all W Ev ev_time ev_sec
                    (mk_sim (ev_time e) (AbsSim.pq s1) (AbsSim.sq s1) w') spawned) as [s3|];
      try contradiction; cbn [st_ok st_ev].
    - split; [reflexivity|split; [exact Hfst|exact Hsa]].
    - reflexivity.
  Qed.

  Lemma next_time_rel w en s : ERel w en s ->
    next_event_time ev_time en = AbsSim.next_time W Ev s.
  Proof.
    intros (_ & _ & Hp & Hs). unfold next_event_time, AbsSim.next_time.
    rewrite (qrel_len _ _ Hp), (qrel_len _ _ Hs).
    assert (C : forall hq aq x r, QR hq aq -> AbsSim.q_items aq = x :: r ->
                q_peek hq = Some (to_qev Ev x) /\ qtime ev_time (to_qev Ev x) = e_time x).
    { intros hq aq x r Hq Hi. destruct (pop_rel Ev ev_time _ _ x r Hq Hi) as [hq' (_ & Hk & _)].
      split; [exact Hk|]. destruct Hq as (_ & _ & HF). rewrite Hi in HF.
      inversion HF as [|? ? [Cx _] _]. unfold qtime. cbn [fst to_qev]. symmetry. exact Cx. }
    destruct (AbsSim.q_items (AbsSim.pq s)) as [|x r] eqn:Ep;
      destruct (AbsSim.q_items (AbsSim.sq s)) as [|y u] eqn:Es.
    - destruct Hs as (HRs & _ & _). rewrite Es in HRs. cbn [map] in HRs.
      destruct HRs as (_ & Hperm & _). apply Permutation_sym, Permutation_nil in Hperm.
      unfold q_peek, hpeek. rewrite Hperm. reflexivity.
    - destruct (C _ _ y u Hs Es) as [-> <-]. reflexivity.
    - destruct (C _ _ x r Hp Ep) as [-> <-]. reflexivity.
    - destruct (C _ _ x r Hp Ep) as [-> <-]. destruct (C _ _ y u Hs Es) as [-> <-]. reflexivity.
  Qed.

  Definition log_events (l : list step) : list Ev := map (fun st => fst (st_ev st)) l.

  (** whole runs: same handled events, corresponding outcome, related final states.
      The engine's log records the step that panicked in Schedule and nothing for a
      "cannot run event in the past" panic, the abstract trace records the event in
      both cases; the traces are compared for runs that do not panic. *)
  Theorem run_rel n : forall w en s, ERel w en s ->
    let r := Engine.run ev_time ev_sec H n w en in
    let '(tr, f, o) := AbsSim.run W Ev ev_time ev_sec H n s in
    out_rel (r_out r) o /\
    (r_out r <> Engine.Panicked -> log_events (r_log r) = tr /\ ERel (r_hs r) (r_en r) f).
  Proof.
    induction n as [|n IH]; intros w en s HR; cbn [Engine.run AbsSim.run].
    - rewrite (no_more_rel w en s HR).
      destruct (AbsSim.next_event W Ev s); cbn [r_out r_log r_hs r_en out_rel log_events map];
        (split; [exact I|intros _; split; [reflexivity|exact HR]]).
    - rewrite (no_more_rel w en s HR).
      pose proof (dispatch_rel w en s HR) as Hd.
      assert (Hnone : AbsSim.next_event W Ev s = None -> AbsSim.dispatch W Ev ev_time ev_sec H s = None).
      { intro E. unfold AbsSim.dispatch. rewrite E. reflexivity. }
      destruct (AbsSim.next_event W Ev s) as [[e0 s0]|] eqn:Ene.
      + destruct (dispatch_next ev_time ev_sec H w en) as [|x en1|st w' en'],
                 (AbsSim.dispatch W Ev ev_time ev_sec H s) as [[e [s'|]]|] eqn:Ed; try contradiction.
        * unfold AbsSim.dispatch in Ed. rewrite Ene in Ed.
          destruct (ev_time e0 <? now s0); [discriminate|].
          match type of Ed with context [H ?a ?b] => destruct (H a b) end; discriminate.
        * cbn [r_out out_rel]. split; [exact I|intro C; exfalso; apply C; reflexivity].
        * destruct Hd as (Hok & Hfst & HR'). rewrite Hok.
          specialize (IH w' en' s' HR'). cbv zeta in IH.
          destruct (AbsSim.run W Ev ev_time ev_sec H n s') as [[tr f] o].
          destruct IH as [Ho Hrest]. unfold cons_log. cbn [r_out r_log r_hs r_en].
          split; [exact Ho|]. intro Hnp. destruct (Hrest Hnp) as [Htr Hf]. split; [|exact Hf].
          cbn [log_events map]. fold (log_events (r_log (Engine.run ev_time ev_sec H n w' en'))).
          rewrite Htr, Hfst. reflexivity.
        * rewrite Hd. cbn [r_out out_rel]. split; [exact I|intro C; exfalso; apply C; reflexivity].
      + rewrite (Hnone eq_refl). cbn [r_out r_log r_hs r_en out_rel log_events map].
        split; [exact I|intros _; split; [reflexivity|exact HR]].
  Qed.

  Lemma beyond_rel w en s b : ERel w en s ->
    beyond ev_time b en = match AbsSim.next_time W Ev s with Some nt => b <? nt | None => false end.
  Proof. intro HR. unfold beyond. rewrite (next_time_rel w en s HR). reflexivity. Qed.

  Lemma next_time_next_event s :
    AbsSim.next_time W Ev s = None <-> AbsSim.next_event W Ev s = None.
  Proof.
    unfold AbsSim.next_time, AbsSim.next_event.
    destruct (AbsSim.q_items (AbsSim.pq s)), (AbsSim.q_items (AbsSim.sq s)); split; intro E;
      try reflexivity; try discriminate.
    destruct (e_time e <=? e_time e0); discriminate.
  Qed.

  Theorem run_until_rel b n : forall w en s, ERel w en s ->
    let r := Engine.run_until ev_time ev_sec H b n w en in
    let '(tr, f, o) := AbsSim.run_until W Ev ev_time ev_sec H b n s in
    out_rel (r_out r) o /\
    (r_out r <> Engine.Panicked -> log_events (r_log r) = tr /\ ERel (r_hs r) (r_en r) f).
  Proof.
    induction n as [|n IH]; intros w en s HR; cbn [Engine.run_until AbsSim.run_until].
    - rewrite (no_more_rel w en s HR), (beyond_rel w en s b HR).
      pose proof (next_time_next_event s) as Hnn.
      destruct (AbsSim.next_time W Ev s) as [nt|].
      + destruct (AbsSim.next_event W Ev s); [|destruct Hnn as [_ Hnn]; discriminate (Hnn eq_refl)].
        cbn [orb]. destruct (b <? nt); cbn [r_out r_log r_hs r_en out_rel log_events map];
          (split; [exact I|intros _; split; [reflexivity|exact HR]]).
      + destruct Hnn as [Hnn _]. rewrite (Hnn eq_refl).
        cbn [orb r_out r_log r_hs r_en out_rel log_events map].
        split; [exact I|intros _; split; [reflexivity|exact HR]].
    - rewrite (no_more_rel w en s HR), (beyond_rel w en s b HR).
      pose proof (next_time_next_event s) as Hnn.
      destruct (AbsSim.next_time W Ev s) as [nt|].
      + destruct (AbsSim.next_event W Ev s) as [[e0 s0]|] eqn:Ene;
          [|destruct Hnn as [_ Hnn]; discriminate (Hnn eq_refl)].
        destruct (b <? nt).
        * cbn [r_out r_log r_hs r_en out_rel log_events map].
          split; [exact I|intros _; split; [reflexivity|exact HR]].
        * pose proof (dispatch_rel w en s HR) as Hd.
          destruct (dispatch_next ev_time ev_sec H w en) as [|x en1|st w' en'],
                   (AbsSim.dispatch W Ev ev_time ev_sec H s) as [[e [s'|]]|] eqn:Ed; try contradiction.
          -- unfold AbsSim.dispatch in Ed. rewrite Ene in Ed.
             destruct (ev_time e0 <? now s0); [discriminate|].
             match type of Ed with context [H ?a ?b] => destruct (H a b) end; discriminate.
          -- cbn [r_out out_rel]. split; [exact I|intro C; exfalso; apply C; reflexivity].
          -- destruct Hd as (Hok & Hfst & HR'). rewrite Hok.
             specialize (IH w' en' s' HR'). cbv zeta in IH.
             destruct (AbsSim.run_until W Ev ev_time ev_sec H b n s') as [[tr f] o].
             destruct IH as [Ho Hrest]. unfold cons_log. cbn [r_out r_log r_hs r_en].
             split; [exact Ho|]. intro Hnp. destruct (Hrest Hnp) as [Htr Hf]. split; [|exact Hf].
             cbn [log_events map].
             fold (log_events (r_log (Engine.run_until ev_time ev_sec H b n w' en'))).
             rewrite Htr, Hfst. reflexivity.
          -- rewrite Hd. cbn [r_out out_rel]. split; [exact I|intro C; exfalso; apply C; reflexivity].
      + destruct Hnn as [Hnn _]. rewrite (Hnn eq_refl).
        cbn [r_out r_log r_hs r_en out_rel log_events map].
        split; [exact I|intros _; split; [reflexivity|exact HR]].
  Qed.

  (** ------------------------------------------------------------------ *)
  (** checkpoint of the heap engine: time and both queues drained in pop order;
      restore pushes them into fresh queues (serialengine_checkpoint.go) *)
  Fixpoint q_drain (fuel : nat) (q : @Engine.queue Ev) : list Ev :=
    match fuel with
    | O => []
    | S f => match q_pop ev_time q with
             | None => []
             | Some (x, q') => fst x :: q_drain f q'
             end
    end.

  Definition he_save (en : heng) : N * list Ev * list Ev :=
    (e_now en, q_drain (q_len (e_p en)) (e_p en), q_drain (q_len (e_s en)) (e_s en)).

  Definition he_load (c : N * list Ev * list Ev) : heng :=
    let '(t, ps, ss) := c in
    mke t (fold_left (q_push ev_time) ps q_empty) (fold_left (q_push ev_time) ss q_empty).

  Lemma qrel_length hq aq : QR hq aq -> q_len hq = length (AbsSim.q_items aq).
  Proof.
    intros (HR & _ & _). destruct HR as (_ & Hperm & _). unfold q_len.
    apply Permutation_length in Hperm. rewrite Hperm, map_length. reflexivity.
  Qed.

  Lemma drain_rel l : forall hq n, QR hq (mk_queue l n) -> q_drain (length l) hq = map e_ev l.
  Proof.
    induction l as [|x r IH]; intros hq n Hq; [reflexivity|].
    destruct (pop_rel Ev ev_time hq (mk_queue (x :: r) n) x r Hq eq_refl) as [hq' (Hpop & _ & HR')].
    cbn [length q_drain map]. rewrite Hpop. cbn [fst to_qev]. f_equal.
    cbn [AbsSim.q_next] in HR'. exact (IH hq' n HR').
  Qed.

  Lemma drain_snapshot hq aq : QR hq aq -> q_drain (q_len hq) hq = AbsSim.snapshot Ev aq.
  Proof.
    intro Hq. rewrite (qrel_length hq aq Hq). unfold AbsSim.snapshot.
    apply (drain_rel (AbsSim.q_items aq) hq (AbsSim.q_next aq)).
    destruct aq; exact Hq.
  Qed.

  (** unsafeEventQueue.snapshot copies the heap slice and sorts it with eventHeap.less
      (sort.Slice); whatever algorithm sorts, the result is a strictly sorted permutation
      of the heap content, and there is only one: the pop order [q_drain] computes. *)
  Lemma strict_sorted_perm_unique (T : Type) (less : T -> T -> bool) :
    (forall a b, less a b = true -> less b a = false) ->
    forall l1 l2, StronglySorted (slt less) l1 -> StronglySorted (slt less) l2 ->
                  Permutation l1 l2 -> l1 = l2.
  Proof.
    intros Hasym. induction l1 as [|x r IH]; intros l2 H1 H2 Hp.
    - apply Permutation_nil in Hp. subst. reflexivity.
    - destruct l2 as [|y r']; [apply Permutation_sym, Permutation_nil in Hp; discriminate|].
      inversion H1 as [|? ? H1r H1x]; subst. inversion H2 as [|? ? H2r H2y]; subst.
      assert (Hxy : x = y).
      { assert (Hinx : In x (y :: r')) by (eapply Permutation_in; [exact Hp|left; reflexivity]).
        assert (Hiny : In y (x :: r)) by (eapply Permutation_in; [apply Permutation_sym; exact Hp|left; reflexivity]).
        destruct Hinx as [->|Hinx]; [reflexivity|].
        destruct Hiny as [->|Hiny]; [reflexivity|].
        rewrite Forall_forall in H1x, H2y.
        pose proof (H1x _ Hiny) as A. pose proof (H2y _ Hinx) as B.
        unfold slt in A, B. rewrite (Hasym _ _ A) in B. discriminate. }
      subst y. f_equal. apply IH; try assumption.
      eapply Permutation_cons_inv. exact Hp.
  Qed.

  Theorem sorted_snapshot_is_pop_order hq aq (l : list (@qev Ev)) : QR hq aq ->
    Permutation (Engine.q_heap hq) l -> StronglySorted (slt (qless ev_time)) l ->
    map fst l = q_drain (q_len hq) hq.
  Proof.
    intros Hq Hp Hs. rewrite (drain_snapshot hq aq Hq). unfold AbsSim.snapshot.
    destruct Hq as ((_ & Hperm & Hsorted) & _ & _).
    assert (E : l = map (to_qev Ev) (AbsSim.q_items aq)).
    { apply (strict_sorted_perm_unique _ (qless ev_time) (qless_asym ev_time)); try assumption.
      etransitivity; [apply Permutation_sym; exact Hp|exact Hperm]. }
    rewrite E, map_map. reflexivity.
  Qed.

  Lemma restore_rel es : forall hq aq, QR hq aq ->
    QR (fold_left (q_push ev_time) es hq) (fold_left (AbsSim.push Ev ev_time) es aq).
  Proof.
    induction es as [|e r IH]; intros hq aq Hq; cbn [fold_left]; [exact Hq|].
    apply IH. apply push_rel. exact Hq.
  Qed.

  Lemma erel_save w en s : ERel w en s ->
    he_save en = (AbsSim.now s, AbsSim.snapshot Ev (AbsSim.pq s), AbsSim.snapshot Ev (AbsSim.sq s)).
  Proof.
    intros (Hn & _ & Hp & Hs). unfold he_save.
    rewrite Hn, (drain_snapshot _ _ Hp), (drain_snapshot _ _ Hs). reflexivity.
  Qed.

  Notation asave := (AbsSim.save W Ev W (fun w => w)).
  Notation aload := (AbsSim.load W Ev ev_time W (@Some W)).

  Lemma save_load_rel w en s : ERel w en s ->
    exists s', aload (asave s) = Some s' /\ ERel w (he_load (he_save en)) s'.
  Proof.
    intro HR. pose proof HR as (Hn & Hw & Hp & Hs).
    unfold AbsSim.load, AbsSim.save. cbn [c_world c_time c_primary c_secondary].
    eexists. split; [reflexivity|].
    rewrite (erel_save w en s HR). unfold he_load.
    split; [reflexivity|split; [exact Hw|]]. cbn [e_p e_s AbsSim.pq AbsSim.sq].
    split; apply restore_rel; apply QRel_empty.
  Qed.

  Lemma slt_sorted_t (l : list (AbsSim.entry Ev)) :
    Forall (fun x => consistent Ev ev_time x) l ->
    StronglySorted (slt (qless ev_time)) (map (to_qev Ev) l) ->
    sorted_t Ev ev_time (map e_ev l).
  Proof.
    induction l as [|x r IH]; intros HF HS; [exact I|].
    inversion HF as [|? ? Cx Cr]; subst. cbn [map] in HS.
    inversion HS as [|? ? HSr Hall]; subst. cbn [map sorted_t]. split; [|exact (IH Cr HSr)].
    intros y Hy. apply in_map_iff in Hy. destruct Hy as [a [<- Ha]].
    rewrite Forall_forall in Hall. specialize (Hall (to_qev Ev a) (in_map _ _ _ Ha)).
    unfold slt, qless, qtime, qseq, to_qev in Hall. cbn [fst snd] in Hall.
    destruct (ev_time (e_ev x) =? ev_time (e_ev a)) eqn:E; cbn [negb] in Hall; lia.
  Qed.

  Lemma qrel_wfq hq aq : QR hq aq -> wfq Ev ev_time aq.
  Proof.
    intros (HR & _ & HF). split.
    - eapply Forall_impl; [|exact HF]. intros a [A B]. split; [exact A|exact B].
    - destruct HR as (_ & _ & HS). apply slt_sorted_t; [|exact HS].
      eapply Forall_impl; [|exact HF]. intros a [A _]. exact A.
  Qed.

  Lemma erel_wfs w en s : ERel w en s -> wfs W Ev ev_time s.
  Proof. intros (_ & _ & Hp & Hs). split; eapply qrel_wfq; eassumption. Qed.

  Lemma out_rel_fun a b o : out_rel a o -> out_rel b o -> a = b.
  Proof. destruct a, b, o; cbn; intros; try contradiction; reflexivity. Qed.

  Lemma erel_new w : ERel w new_engine (mk_sim 0 empty_queue empty_queue w).
  Proof. split; [reflexivity|split; [reflexivity|split; apply QRel_empty]]. Qed.

  (** what is observable of an engine state: handler state, time, queue contents in pop order *)
  Definition he_obs (r : @Engine.result Ev W) : W * (N * list Ev * list Ev) := (r_hs r, he_save (r_en r)).

  (** C06 for the heap engine (the model C01 ties to serialengine.go / eventqueue.go):
      cut at ANY boundary, save, load into fresh queues, run on: the handled
      events, the way the run ends and the final observable state are those of the
      uninterrupted continuation, and the uninterrupted Run from the start is the
      concatenation.  Transferred from [checkpoint_invisible] through [run_rel]. *)
  Theorem engine_checkpoint_invisible w en s b n1 : ERel w en s ->
    let r1 := Engine.run_until ev_time ev_sec H b n1 w en in
    r_out r1 = Engine.Done ->
    forall n2,
      let ra := Engine.run ev_time ev_sec H n2 (r_hs r1) (r_en r1) in
      let rb := Engine.run ev_time ev_sec H n2 (r_hs r1) (he_load (he_save (r_en r1))) in
      r_out rb = r_out ra /\
      (r_out ra <> Engine.Panicked ->
         log_events (r_log rb) = log_events (r_log ra) /\ he_obs rb = he_obs ra /\
         exists k, let rw := Engine.run ev_time ev_sec H (k + n2) w en in
                   r_out rw = r_out ra /\
                   log_events (r_log rw) = log_events (r_log r1) ++ log_events (r_log ra) /\
                   he_obs rw = he_obs ra).
  Proof.
    intros HR r1 Hdone n2.
    pose proof (run_until_rel b n1 w en s HR) as H1. cbv zeta in H1. fold r1 in H1.
    destruct (AbsSim.run_until W Ev ev_time ev_sec H b n1 s) as [[tr1 s1] o1] eqn:E1.
    destruct H1 as [Ho1 H1]. rewrite Hdone in Ho1.
    destruct o1; try contradiction.
    destruct H1 as [Htr1 HR1]; [rewrite Hdone; discriminate|].
    destruct (checkpoint_invisible W Ev ev_time ev_sec H W (fun x => x) (@Some W) (fun x => eq_refl)
                s b n1 tr1 s1 (erel_wfs w en s HR) E1) as [s1' [Hl Hall]].
    destruct (save_load_rel _ _ _ HR1) as [s1'' [Hl' HR1']].
    rewrite Hl in Hl'. injection Hl' as <-.
    specialize (Hall n2).
    pose proof (run_rel n2 _ _ _ HR1) as Ha. pose proof (run_rel n2 _ _ _ HR1') as Hb.
    cbv zeta in Ha, Hb.
    destruct (AbsSim.run W Ev ev_time ev_sec H n2 s1) as [[tr2 f] o].
    destruct (AbsSim.run W Ev ev_time ev_sec H n2 s1') as [[tr2' f'] o'].
    destruct Hall as (Htr & Ho & HRf & [k Hk]).
    destruct Ha as [Hoa Ha], Hb as [Hob Hb]. subst o'.
    pose proof (out_rel_fun _ _ _ Hob Hoa) as Hout.
    split; [exact Hout|]. intro Hnp.
    destruct (Ha Hnp) as [Hta HRa].
    destruct Hb as [Htb HRb]; [rewrite Hout; exact Hnp|].
    split; [rewrite Hta, Htb; exact Htr|].
    assert (Hobs : forall r f0 f1, ERel (r_hs r) (r_en r) f0 -> R W Ev ev_time f1 f0 \/ f1 = f0 ->
                   he_obs r = (AbsSim.world f1, (AbsSim.now f1, AbsSim.snapshot Ev (AbsSim.pq f1),
                                                 AbsSim.snapshot Ev (AbsSim.sq f1)))).
    { intros r f0 f1 HRr Hrel. unfold he_obs. rewrite (erel_save _ _ _ HRr).
      destruct HRr as (_ & Hw0 & _). rewrite Hw0.
      destruct Hrel as [(A & B & C & D & _)| ->]; [|reflexivity].
      rewrite A, B, C, D. reflexivity. }
    split.
    - rewrite (Hobs _ f' f HRb (or_introl HRf)), (Hobs _ f f HRa (or_intror eq_refl)). reflexivity.
    - exists k. pose proof (run_rel (k + n2) _ _ _ HR) as Hw. cbv zeta in Hw. rewrite Hk in Hw.
      destruct Hw as [How Hw].
      pose proof (out_rel_fun _ _ _ How Hoa) as Houtw.
      split; [exact Houtw|].
      destruct Hw as [Htw HRw]; [rewrite Houtw; exact Hnp|].
      split; [rewrite Htw, Htr1, Hta; reflexivity|].
      rewrite (Hobs _ f f HRw (or_intror eq_refl)), (Hobs _ f f HRa (or_intror eq_refl)). reflexivity.
  Qed.

  (** every engine built from NewSerialEngine by Schedule calls is covered *)
  Corollary engine_from_new_related w inits :
    let '(en, _, ok) := Engine.schedule_all ev_time ev_sec new_engine inits in
    ok = true -> exists s, ERel w en s.
  Proof.
    pose proof (schedule_all_rel inits w _ _ (erel_new w)) as Hs.
    destruct (Engine.schedule_all ev_time ev_sec new_engine inits) as [[en xs] ok].
    intro Hok. subst ok.
    destruct (AbsSim.schedule_all W Ev ev_time ev_sec (mk_sim 0 empty_queue empty_queue w) inits) as [s|];
      [|contradiction].
    exists s. exact Hs.
  Qed.
End EngineBridge.
