From Akita Require Import Lib.Base Lib.AbsSim Lib.AbsSimProofs C06.Model C06.Exec.
Local Open Scope N_scope.

Lemma sev_eqb_eq a b : sev_eqb a b = true <-> a = b.
Proof.
  unfold sev_eqb. destruct a as [t h s bu tg i], b as [t' h' s' bu' tg' i']. cbn.
  split.
  - intro Hb. repeat (apply andb_true_iff in Hb; destruct Hb as [Hb ?]).
    repeat match goal with H : (_ =? _) = true |- _ => apply N.eqb_eq in H end.
    match goal with H : Bool.eqb _ _ = true |- _ => apply Bool.eqb_prop in H end.
    subst. reflexivity.
  - intro Heq. inversion Heq; subst.
    rewrite !N.eqb_refl, Bool.eqb_reflx. reflexivity.
Qed.

Lemma tr_eqb_eq a b : tr_eqb a b = true <-> a = b.
Proof. apply list_eqb_eq. exact sev_eqb_eq. Qed.

Lemma final_eqb_eq a b : final_eqb a b = true <-> a = b.
Proof.
  destruct a as [[t c] i], b as [[t' c'] i']. cbn. split.
  - intro Hb. repeat (apply andb_true_iff in Hb; destruct Hb as [Hb ?]).
    apply N.eqb_eq in Hb. apply listN_eqb_eq in H0. apply N.eqb_eq in H. subst. reflexivity.
  - intro Heq. inversion Heq; subst. rewrite !N.eqb_refl.
    assert (listN_eqb c' c' = true) by (apply listN_eqb_eq; reflexivity).
    rewrite H. reflexivity.
Qed.

(** the scripted instance of the framework theorem *)
Definition s_wfs := wfs sworld sev s_time.
Definition s_R := R sworld sev s_time.

Lemma s_schedule_all_wfs es : forall s, s_wfs s ->
  match s_schedule_all s es with Some t => s_wfs t | None => True end.
Proof.
  intros s Hw.
  pose proof (schedule_all_R sworld sev s_time s_sec (fun w _ => (w, [])) es s s (R_refl _ _ _ s Hw)) as Hs.
  unfold s_schedule_all. destruct (schedule_all sworld sev s_time s_sec s es); [apply Hs|exact I].
Qed.

Lemma init_sim_wfs nh inits s0 : init_sim nh inits = Some s0 -> s_wfs s0.
Proof.
  unfold init_sim. destruct (init_events 0 inits) as [evs id']. intro Hi.
  pose proof (s_schedule_all_wfs evs
    (mk_sim 0 empty_queue empty_queue (mk_sworld (repeat 0 nh) id'))) as Hs.
  rewrite Hi in Hs. apply Hs. split; apply empty_wfq.
Qed.

Lemma script_invisible sc (s : ssim) b n1 tr1 s1 :
  s_wfs s -> s_run_until sc b n1 s = (tr1, s1, Done) ->
  exists s1', s_load (s_save s1) = Some s1' /\
  forall n2,
    let '(tr2, f, o) := s_run sc n2 s1 in
    let '(tr2', f', o') := s_run sc n2 s1' in
    tr2' = tr2 /\ o' = o /\ final_of f' = final_of f /\
    exists k, s_run sc (k + n2) s = (tr1 ++ tr2, f, o).
Proof.
  intros Hw Hr.
  destruct (checkpoint_invisible sworld sev s_time s_sec (handler sc) sworld
              (fun w => w) (fun w => Some w) (fun w => eq_refl) s b n1 tr1 s1 Hw Hr)
    as [s1' [Hl Hall]].
  exists s1'. split; [exact Hl|]. intro n2. specialize (Hall n2).
  unfold s_run.
  destruct (run sworld sev s_time s_sec (handler sc) n2 s1) as [[tr2 f] o].
  destruct (run sworld sev s_time s_sec (handler sc) n2 s1') as [[tr2' f'] o'].
  destruct Hall as (A & B & C & D).
  repeat split; try assumption.
  destruct C as (Hn & Hwd & _). unfold final_of. rewrite Hn, Hwd. reflexivity.
Qed.

(** agreement with the model implies the property predicate *)
Lemma check_implies_holds c : check_case c = true -> holds_on c = true \/ (exists a b c' d e, c = LibCase a b c' d e).
Proof.
  destruct c as [nh sc inits b fuel obs_ref obs_pre obs_suf fin_ref fin_res|ref pre suf fr fs];
    [|intros _; right; eauto 6].
  intro Hc. left. cbn [check_case] in Hc.
  destruct (init_sim nh inits) as [s0|] eqn:Ei; [|discriminate].
  pose proof (init_sim_wfs nh inits s0 Ei) as Hw.
  destruct (s_run sc fuel s0) as [[tr_ref f_ref] o_ref] eqn:Eref.
  destruct (s_run_until sc b fuel s0) as [[tr_pre s1] o_pre] eqn:Epre.
  destruct (s_load (s_save s1)) as [s1'|] eqn:El; [|discriminate].
  destruct (s_run sc fuel s1') as [[tr_suf f_res] o_suf] eqn:Esuf.
  repeat (apply andb_true_iff in Hc; destruct Hc as [Hc ?]).
  destruct o_ref; try discriminate. destruct o_pre; try discriminate. destruct o_suf; try discriminate.
  repeat match goal with H : tr_eqb _ _ = true |- _ => apply tr_eqb_eq in H end.
  repeat match goal with H : final_eqb _ _ = true |- _ => apply final_eqb_eq in H end.
  subst.
  destruct (script_invisible sc s0 b fuel _ s1 Hw Epre) as [s1'' [Hl2 Hall]].
  rewrite El in Hl2. injection Hl2 as <-.
  specialize (Hall fuel). rewrite Esuf in Hall.
  destruct (s_run sc fuel s1) as [[tr2 f] o] eqn:E1.
  destruct Hall as (A & B & C & [k Hk]). subst.
  unfold s_run in *.
  pose proof (run_done_more sworld sev s_time s_sec (handler sc) fuel s0 _ _ Eref k) as Hm.
  rewrite Nat.add_comm in Hm. rewrite Hm in Hk. inversion Hk; subst.
  cbn [holds_on]. apply andb_true_iff. split.
  - apply tr_eqb_eq. reflexivity.
  - apply final_eqb_eq. symmetry. exact C.
Qed.
