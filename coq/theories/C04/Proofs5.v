(** C04 — towards schedule-independence of the round composition: the engine's
    choice of the next round is the choice made by the deterministic [rounds]
    function (used by the tie) on the multiset of pending events. *)
From Coq Require Import Permutation Sorted.
From Akita Require Import Lib.Base Lib.Lts C04.Model C04.Proofs1 C04.Proofs2 C04.Proofs2b C04.Proofs3.
Local Open Scope N_scope.

(** the pieces of one iteration of [rounds] *)
Definition choice (P : list ev) : N * bool :=
  let pt := min_time (filter (fun e => negb (ev_sec e)) P) in
  let st := min_time (filter ev_sec P) in
  if pt <=? st then (pt, false) else (st, true).

Definition members (P : list ev) : list ev := filter (in_round (fst (choice P)) (snd (choice P))) P.
Definition rest (P : list ev) : list ev := filter (fun e => negb (in_round (fst (choice P)) (snd (choice P)) e)) P.
Definition next_pending (prog : program) (P : list ev) : list ev := rest P ++ flat_map (kids prog) (members P).

Lemma rounds_unfold f prog P : P <> [] ->
  rounds (S f) prog P = (fst (choice P), snd (choice P), map ev_id (members P)) :: rounds f prog (next_pending prog P).
Proof.
  intro H. destruct P as [|x r]; [congruence|]. unfold next_pending, members, rest, choice.
  cbn [rounds]. destruct (min_time _ <=? min_time _); reflexivity.
Qed.

Lemma min_time_le l : min_time l <= max_time.
Proof. unfold min_time. induction l as [|x r IH]; cbn [fold_right]; lia. Qed.

Lemma min_time_app a b : min_time (a ++ b) = N.min (min_time a) (min_time b).
Proof.
  unfold min_time. induction a as [|x r IH]; cbn [app fold_right].
  - pose proof (min_time_le b). unfold min_time in H. lia.
  - rewrite IH. lia.
Qed.

Lemma min_time_sorted x q : tsorted (x :: q) -> min_time (x :: q) = N.min (ev_time x) max_time.
Proof.
  intro H. apply tsorted_head_le in H. inversion H as [|? ? _ Hq]; subst. clear H.
  unfold min_time. cbn [fold_right]. induction q as [|y r IH]; cbn [fold_right]; [reflexivity|].
  inversion Hq; subst. specialize (IH H2). lia.
Qed.

Lemma earliest_min_time qs : Forall tsorted qs -> earliest qs = min_time (concat qs).
Proof.
  induction qs as [|q r IH]; intro H; cbn [earliest concat]; [reflexivity|].
  inversion H; subst. rewrite min_time_app, <- (IH H3).
  destruct q as [|x q']; [unfold min_time; cbn; pose proof (earliest_max r); lia|].
  rewrite (min_time_sorted _ _ H2). pose proof (earliest_max r).
  destruct (ev_time x <? earliest r) eqn:E; lia.
Qed.

Lemma filter_all {A} (f : A -> bool) l : Forall (fun x => f x = true) l -> filter f l = l.
Proof. induction 1; cbn; [reflexivity|]. rewrite H, IHForall. reflexivity. Qed.

Lemma filter_none {A} (f : A -> bool) l : Forall (fun x => f x = false) l -> filter f l = [].
Proof. induction 1; cbn; [reflexivity|]. rewrite H, IHForall. reflexivity. Qed.

(** determineWhatToRun = the choice of [rounds] on the pending multiset, in every
    reachable state and for every interleaving (and any well-formed controller) *)
Theorem determine_matches_rounds prog nq init script o s' :
  (1 <= nq)%nat -> cwf false script = true ->
  let s := e_run prog o (e_init_ctl nq init script) in
  e_pc s = EDetermine -> step prog false TE s = Some s' ->
  (e_now s', e_sec s') = choice (queued s) /\ queued s' = queued s /\ e_ws s' = [].
Proof.
  intros Hn Hc s Hpc Hstep. destruct (reach_inv prog nq init script Hn Hc o) as [[HI _] _]. fold s in HI.
  unfold step in Hstep. rewrite (i_panic _ _ _ HI) in Hstep. unfold step_engine in Hstep. rewrite Hpc in Hstep.
  pose proof (i_idle _ _ _ HI) as Hidle. rewrite Hpc in Hidle. specialize (Hidle eq_refl).
  pose proof (i_kindp _ _ _ HI) as Hkp. pose proof (i_kinds _ _ _ HI) as Hks.
  assert (Hfp : filter (fun e => negb (ev_sec e)) (queued s) = concat (e_pqs s)).
  { unfold queued. rewrite filter_app, filter_all, filter_none, app_nil_r; auto.
    - eapply Forall_impl; [|exact Hks]. cbn. intros a ->. reflexivity.
    - eapply Forall_impl; [|exact Hkp]. cbn. intros a ->. reflexivity. }
  assert (Hfs : filter ev_sec (queued s) = concat (e_sqs s)).
  { unfold queued. rewrite filter_app, filter_none, filter_all; auto. }
  unfold choice. rewrite Hfp, Hfs, <- (earliest_min_time _ (i_sortp _ _ _ HI)), <- (earliest_min_time _ (i_sorts _ _ _ HI)).
  destruct (earliest (e_pqs s) <=? earliest (e_sqs s)); inversion Hstep; subst s'; cbn; auto.
Qed.
