(** C04 — the phase guarantee with an external Pause / Schedule / Continue
    controller, for the code's ordering (pauseLock.Lock before determineWhatToRun),
    and its failure for the reordered variant. *)
From Coq Require Import Permutation Sorted.
From Akita Require Import Lib.Base Lib.Lts C04.Model C04.Proofs1 C04.Proofs2 C04.Proofs2b C04.Proofs3.
Local Open Scope N_scope.

Definition in_round (pc : epc) : bool := match pc with EEmpty _ | EScan _ | EWait => true | _ => false end.

(** both acceptors maintain the same live list *)
Lemma live_coincide tr : forall a b a' b',
  fst a = fst b -> arun t_astep tr a = Some a' -> arun ph2_astep tr b = Some b' -> fst a' = fst b'.
Proof.
  induction tr as [|l r IH]; intros [la oa] [lb cb] a' b' E Ha Hb; cbn [arun] in *.
  - inversion Ha; inversion Hb; subst. exact E.
  - cbn [fst] in E. subst lb.
    destruct (t_astep (la, oa) l) as [[la1 oa1]|] eqn:E1; [|discriminate].
    destruct (ph2_astep (la, cb) l) as [[lb1 cb1]|] eqn:E2; [|discriminate].
    eapply IH; [|exact Ha|exact Hb]. cbn [fst].
    destruct l; cbn [t_astep ph2_astep] in E1, E2.
    + destruct (mem_ev e la && _ && _); [|discriminate].
      destruct (ev_sec e && _); [discriminate|]. inversion E1; inversion E2; subst; reflexivity.
    + destruct (mem_ev e oa); [|discriminate]. inversion E1; inversion E2; subst; reflexivity.
    + inversion E1; inversion E2; subst; reflexivity.
    + inversion E1; inversion E2; subst; reflexivity.
Qed.

Lemma remove_ev_keeps x e l : In x l -> x <> e -> In x (remove_ev e l).
Proof.
  induction l as [|y r IH]; intros Hin Hne; [destruct Hin|]. cbn [remove_ev].
  destruct (ev_eqb y e) eqn:E.
  - apply ev_eqb_eq in E. subst y. destruct Hin as [H|H]; [congruence|exact H].
  - destruct Hin as [H|H]; [left; exact H|right; apply IH; auto].
Qed.

Section Phase.
  Variable prog : program.
  Variable init : list ev.

  Definition corner_clause (s : est) (corner : list ev) : Prop :=
    e_sec s = true -> in_round (e_pc s) = true ->
    forall x, In x (concat (e_pqs s)) -> ev_time x = e_now s -> In x corner.

  Definition PInv (s : est) : Prop :=
    FInv prog init s /\
    exists live corner, arun ph2_astep (rev (e_trace s)) (init, []) = Some (live, corner) /\ corner_clause s corner.

  Ltac efields := cbn [e_pc e_nq e_now e_sec e_pqs e_sqs e_pch e_sch e_ws e_panic e_sched e_handled e_trace e_rounds e_ext set_pc set_panic set_ext x_plock x_script x_cheld x_late] in *.

  Lemma in_concat_upd_insert c q (qs : list (list ev)) x :
    In x (concat (upd_nth q (q_insert c) qs)) -> x = c \/ In x (concat qs).
  Proof.
    revert q. induction qs as [|y r IH]; intros [|q] H; cbn in *; auto.
    - apply in_app_or in H. destruct H as [H|H].
      + apply (Permutation_in _ (q_insert_perm c y)) in H. destruct H as [H|H]; [left; auto|right; apply in_or_app; auto].
      + right. apply in_or_app. auto.
    - apply in_app_or in H. destruct H as [H|H]; [right; apply in_or_app; auto|].
      destruct (IH _ H) as [A|A]; [left; exact A|right; apply in_or_app; auto].
  Qed.

  Lemma PInv_step : inductive (step prog false) PInv.
  Proof.
    intros t s s' [HF [live [corner [Hacc Hcl]]]] Hstep.
    pose proof (FInv_step prog init t s s' HF Hstep) as HF'. split; [exact HF'|].
    destruct HF as [HI HL]. destruct HF' as [HI' HL']. pose proof (i_panic _ _ _ HI') as Hnp.
    (* the live list of this acceptor is the one of the time-order acceptor *)
    destruct (i_acc _ _ _ HI) as [live0 [open0 [Hacc0 [Hlive0 _]]]].
    assert (Hlv : live0 = live) by (apply (live_coincide _ (init, []) (init, []) _ _ eq_refl Hacc0 Hacc)). subst live0.
    pose proof (i_ws _ _ _ HI) as Hws. pose proof (i_idle _ _ _ HI) as Hidle. pose proof (i_kindp _ _ _ HI) as Hkp.
    pose proof (i_kinds _ _ _ HI) as Hks. pose proof (i_sortp _ _ _ HI) as Hsp.
    unfold step in Hstep. rewrite (i_panic _ _ _ HI) in Hstep.
    unfold corner_clause in *.
    destruct s as [pc nq now sec pqs sqs pch sch ws panic schd handled trace rounds [plock script cheld late]].
    unfold live_of, queued in Hlive0. efields.
    destruct t as [|i|].
    - (* engine: no label *)
      unfold step_engine in Hstep. efields. exists live, corner.
      destruct pc; efields.
      + destruct (all_empty pqs && all_empty sqs); inversion Hstep; subst; efields; split; auto; intros; discriminate.
      + destruct plock; inversion Hstep; subst; efields; split; auto; intros; discriminate.
      + (* EDetermine *)
        pose proof (earliest_le pqs Hsp) as Hep.
        destruct (earliest pqs <=? earliest sqs) eqn:Ec; inversion Hstep; subst; efields; (split; [exact Hacc|]).
        * intros; discriminate.
        * intros _ _ x Hx Ht. rewrite Forall_forall in Hep. specialize (Hep _ Hx). cbn in Hep. lia.
      + destruct (j <? nq)%nat; [destruct sec; [destruct sch|destruct pch]|]; inversion Hstep; subst; efields; split; auto.
      + destruct (i <? nq)%nat; [|inversion Hstep; subst; efields; split; auto].
        unfold round_qs in Hstep. efields. destruct sec.
        * destruct (nth i sqs []) as [|x r]; [inversion Hstep; subst; efields; split; auto|].
          destruct (ev_time x =? now); [inversion Hstep; subst; efields; split; auto|].
          destruct (ev_time x <? now); inversion Hstep; subst; efields; [cbn in Hnp; discriminate|split; auto].
        * destruct (nth i pqs []) as [|x r]; [inversion Hstep; subst; efields; split; auto; intros; discriminate|].
          destruct (ev_time x =? now); [inversion Hstep; subst; efields; split; auto; intros; discriminate|].
          destruct (ev_time x <? now); inversion Hstep; subst; efields; [cbn in Hnp; discriminate|split; auto; intros; discriminate].
      + destruct (all_finished ws); inversion Hstep; subst; efields; split; auto; intros; discriminate.
      + inversion Hstep; subst; efields; split; auto; intros; discriminate.
      + discriminate.
    - (* worker *)
      unfold step_worker in Hstep. efields.
      destruct (nth_error ws i) as [[e st]|] eqn:En; [|discriminate].
      assert (Hpc : idle_pc pc = false).
      { destruct (idle_pc pc) eqn:E; [|reflexivity]. rewrite (Hidle eq_refl) in En. destruct i; discriminate. }
      assert (Hround : in_round pc = true) by (destruct pc; try discriminate; reflexivity).
      assert (Hwe : w_ok prog now sec nq (e, st)).
      { rewrite Forall_forall in Hws. apply Hws. eapply nth_error_In; eauto. }
      destruct Hwe as [Ht [Hs Hrest]]. cbn [fst snd] in *.
      destruct st as [|todo held|]; [| |discriminate].
      + (* start *)
        inversion Hstep; subst s'; clear Hstep. efields. cbn [rev]. rewrite arun_snoc, Hacc. cbn [ph2_astep].
        assert (Hno : ev_sec e && existsb (fun x => negb (ev_sec x) && (ev_time x =? ev_time e) && negb (mem_ev x corner)) live = false).
        { destruct (ev_sec e) eqn:Ese; [|reflexivity]. cbn [andb].
          apply not_true_is_false. intro Hex. apply existsb_exists in Hex. destruct Hex as [x [Hx Hc]].
          apply andb_true_iff in Hc. destruct Hc as [Hc Hnm]. apply andb_true_iff in Hc. destruct Hc as [Hprim Htm].
          apply negb_true_iff in Hprim. apply N.eqb_eq in Htm. apply negb_true_iff in Hnm.
          apply (Permutation_in _ Hlive0) in Hx. apply in_app_or in Hx. destruct Hx as [Hx|Hx].
          - (* a spawned / executing handler: secondary like e *)
            unfold pending_ws in Hx. apply in_map_iff in Hx. destruct Hx as [[x' st'] [E1 E2]]. cbn in E1. subst x'.
            apply filter_In in E2. destruct E2 as [E2 _]. rewrite Forall_forall in Hws. destruct (Hws _ E2) as [_ [B _]].
            cbn [fst] in B. congruence.
          - apply in_app_or in Hx. destruct Hx as [Hx|Hx].
            + assert (Hin : In x corner) by (apply Hcl; auto; congruence).
              apply mem_ev_in in Hin. congruence.
            + rewrite Forall_forall in Hks. specialize (Hks _ Hx). congruence. }
        rewrite Hno. exists live, corner. split; [reflexivity|exact Hcl].
      + destruct todo as [|c r].
        * (* end *)
          inversion Hstep; subst s'; clear Hstep. efields. cbn [rev]. rewrite arun_snoc, Hacc. cbn [ph2_astep].
          eexists _, _. split; [reflexivity|]. intros Hsec _ x Hx Hxt. apply remove_ev_keeps; [apply Hcl; auto|].
          intro Exe. subst x. rewrite Forall_forall in Hkp. specialize (Hkp _ Hx). congruence.
        * destruct held as [q|].
          -- (* push *)
             destruct (ev_sec c) eqn:Esc; inversion Hstep; subst s'; clear Hstep; efields;
               cbn [rev]; rewrite arun_snoc, Hacc; cbn [ph2_astep]; rewrite Esc; cbn [negb andb].
             ++ rewrite andb_false_r. cbn [andb]. eexists _, _. split; [reflexivity|]. exact Hcl.
             ++ rewrite andb_true_r. eexists _, _. split; [reflexivity|].
                intros Hsec _ x Hx Hxt. apply in_concat_upd_insert in Hx. destruct Hx as [Hx|Hx].
                ** subst x. rewrite Hs, Hsec, Hxt, Ht, N.eqb_refl. left. reflexivity.
                ** destruct (ev_sec e && (ev_time c =? ev_time e)); [right|]; apply Hcl; auto.
          -- destruct (ev_time c <? now); [inversion Hstep; subst; cbn in Hnp; discriminate|].
             destruct (ev_sec c); [destruct sch|destruct pch]; inversion Hstep; subst; efields; try discriminate;
               exists live, corner; split; auto.
    - (* controller: it holds the pause lock whenever it pushes, so no round is in progress *)
      destruct HL as [Hl Hc Hh]. unfold hold in *. efields.
      unfold step_ctl in Hstep. efields.
      destruct cheld as [[q c]|].
      + destruct (Hh _ _ eq_refl) as [_ [_ [Hhold _]]].
        assert (Hnr : in_round pc = false).
        { destruct plock as [[|]|]; try discriminate. destruct (in_round pc) eqn:E; [|reflexivity].
          assert (X : Some true = Some false) by (apply Hl; destruct pc; try discriminate; reflexivity). discriminate. }
        destruct script as [|[|id d sc|] r]; try discriminate.
        destruct (ev_sec c); inversion Hstep; subst s'; clear Hstep; efields;
          cbn [rev]; rewrite arun_snoc, Hacc; cbn [ph2_astep]; eexists _, _; (split; [reflexivity|]);
          intros _ Hr; rewrite Hnr in Hr; discriminate.
      + destruct script as [|[|id d sc|] r]; [discriminate| | |].
        * destruct plock; inversion Hstep; subst; efields. exists live, corner. split; auto.
        * destruct sc; [destruct sch|destruct pch]; inversion Hstep; subst; efields; exists live, corner; split; auto.
        * destruct plock; inversion Hstep; subst; efields; [|cbn in Hnp; discriminate]. exists live, corner. split; auto.
  Qed.

  Theorem phase_guaranteed nq script o :
    (1 <= nq)%nat -> cwf false script = true ->
    phase_guaranteed_ok init (rev (e_trace (run (step prog false) o (e_init_ctl nq init script)))) = true.
  Proof.
    intros Hn Hc.
    assert (H0 : PInv (e_init_ctl nq init script)).
    { split; [apply FInv_init; assumption|].
      destruct (PreInv_fold init _ (PreInv_empty nq Hn)) as [H _]. fold (e_init nq init) in H.
      exists init, []. unfold e_init_ctl. cbn [set_ext e_trace]. rewrite (p_tr _ H). split; [reflexivity|].
      intros _ Hr. cbn [set_ext e_pc] in Hr. rewrite (p_pc _ H) in Hr. discriminate. }
    destruct (run_invariant (step prog false) PInv PInv_step o _ H0) as [_ [live [corner [Hacc _]]]].
    unfold phase_guaranteed_ok, accepts. rewrite Hacc. reflexivity.
  Qed.
End Phase.

(** ** The reordered variant (determineWhatToRun before pauseLock.Lock) is refuted:
    the engine commits to the secondary round of instant 10, the controller pauses,
    schedules a primary at CurrentTime() = 10, continues, and the secondary starts
    while that primary has not run. *)
Definition reo_prog : program := fun _ => [].
Definition reo_init : list ev := [mk_ev 1 10 false; mk_ev 2 10 true].
Definition reo_script : list cop := [CPause; CSched 9 0 false; CContinue].
Definition reo_oracle : list tid :=
  repeat TE 8 ++ [TW 0%nat; TW 0%nat] ++ repeat TE 4 ++ repeat TC 4 ++ repeat TE 4 ++ [TW 0%nat].

Lemma reordered_refuted :
  let s := run (step reo_prog true) reo_oracle (e_init_ctl 1 reo_init reo_script) in
  rev (e_trace s) = [LStart (mk_ev 1 10 false); LEnd (mk_ev 1 10 false); LInject (mk_ev 9 10 false); LStart (mk_ev 2 10 true)] /\
  phase_guaranteed_ok reo_init (rev (e_trace s)) = false /\
  phase_literal_ok reo_init (rev (e_trace s)) = false /\
  cwf false reo_script = true.
Proof. vm_compute. repeat split; reflexivity. Qed.

(** the same schedule on the code's ordering: the injected primary runs first *)
Lemma code_order_example :
  let s := run (step reo_prog false) (repeat TE 8 ++ [TW 0%nat; TW 0%nat] ++ repeat TE 3 ++ repeat TC 4 ++ repeat TE 12 ++ [TW 0%nat; TW 0%nat] ++ repeat TE 12 ++ [TW 0%nat; TW 0%nat] ++ repeat TE 6)
               (e_init_ctl 1 reo_init reo_script) in
  e_pc s = EDone /\ phase_literal_ok reo_init (rev (e_trace s)) = true /\
  map (fun l => match l with LStart e => ev_id e | _ => 0 end) (filter (fun l => match l with LStart _ => true | _ => false end) (rev (e_trace s))) = [1; 9; 2].
Proof. vm_compute. repeat split; reflexivity. Qed.
