(** C04 — interleaving model of timing/parallelengine.go (+ the queue order of
    timing/eventqueue.go as a time-ordered FIFO list).

    Threads: the engine goroutine (Run / determineWhatToRun / runRound /
    emptyQueueChan / runEventsUntilConflict / waitGroup.Wait) and one temporary
    worker goroutine per popped event (tempWorkerRun: handler start, one
    Schedule call per child = receive a queue from the channel, then push and
    send it back, handler end).  Definitions only. *)
From Akita Require Import Lib.Base Lib.Lts.
Local Open Scope N_scope.

Record ev := mk_ev { ev_id : N; ev_time : N; ev_sec : bool }.

Definition ev_eqb (a b : ev) : bool :=
  (ev_id a =? ev_id b) && (ev_time a =? ev_time b) && Bool.eqb (ev_sec a) (ev_sec b).

(** A program maps an event id to the Schedule calls of its handler: (child id,
    delay, secondary?).  The child's time is the parent's time + delay, so no
    handler schedules into the past (the engine would panic). *)
Definition program := N -> list (N * N * bool).

Definition kids (prog : program) (e : ev) : list ev :=
  map (fun c => mk_ev (fst (fst c)) (ev_time e + snd (fst c)) (snd c)) (prog (ev_id e)).

Fixpoint prog_lookup (al : list (N * list (N * N * bool))) (id : N) : list (N * N * bool) :=
  match al with
  | [] => []
  | (k, v) :: r => if k =? id then v else prog_lookup r id
  end.

(** EventQueueImpl as the (time, seq)-ordered list: insertion after every element
    whose time is <= the new one. *)
Fixpoint q_insert (e : ev) (q : list ev) : list ev :=
  match q with
  | [] => [e]
  | x :: r => if ev_time e <? ev_time x then e :: q else x :: q_insert e r
  end.

Fixpoint upd_nth {A} (i : nat) (f : A -> A) (l : list A) : list A :=
  match l, i with
  | [], _ => []
  | x :: r, O => f x :: r
  | x :: r, S j => x :: upd_nth j f r
  end.

Definition max_time : N := 18446744073709551615.

(** earliestTimeInQueueGroup *)
Fixpoint earliest (qs : list (list ev)) : N :=
  match qs with
  | [] => max_time
  | q :: r => let m := earliest r in
              match q with
              | [] => m
              | x :: _ => if ev_time x <? m then ev_time x else m
              end
  end.

Definition all_empty (qs : list (list ev)) : bool := forallb (fun q => match q with [] => true | _ => false end) qs.

Inductive lbl :=
| LStart (e : ev)
| LEnd (e : ev)
| LSched (parent child : ev)
| LInject (child : ev).      (* scheduled by the external controller goroutine (while it holds the pause) *)

Inductive epc :=
| ECheck                (* hasMoreEvents *)
| ELock                 (* pauseLock.Lock() *)
| EDetermine            (* determineWhatToRun *)
| EEmpty (j : nat)      (* emptyQueueChan: j queues received so far *)
| EScan (i : nat)       (* runEventsUntilConflict: scanning queue i *)
| EWait                 (* waitGroup.Wait *)
| EUnlock               (* pauseLock.Unlock() *)
| EDone.

Inductive wstate :=
| WSpawned
| WRun (todo : list ev) (held : option nat)   (* remaining Schedule calls; queue checked out by the current call *)
| WFinished.

Inductive tid := TE | TW (i : nat) | TC.

(** the external controller goroutine (a monitor / debugger front end): Pause,
    Schedule an event at CurrentTime() + delay, Continue *)
Inductive cop := CPause | CSched (id delay : N) (sec : bool) | CContinue.

Record ext := mk_x {
  x_plock : option bool;          (* pauseLock: None free, Some false held by Run, Some true held by the controller *)
  x_script : list cop;            (* controller calls still to make *)
  x_cheld : option (nat * ev);    (* controller inside Schedule: queue checked out, event to push *)
  x_late : bool                   (* ghost: the controller scheduled after Run had returned *)
}.

Record est := mk_e {
  e_pc : epc; e_nq : nat; e_now : N; e_sec : bool;
  e_pqs : list (list ev); e_sqs : list (list ev);
  e_pch : list nat; e_sch : list nat;
  e_ws : list (ev * wstate);
  e_panic : bool;
  e_sched : list ev;            (* ghost: every event ever scheduled *)
  e_handled : list ev;          (* ghost: finished handlers, newest first *)
  e_trace : list lbl;           (* ghost: labels, newest first *)
  e_rounds : list (N * bool);   (* ghost: (time, secondary?) of every round, newest first *)
  e_ext : ext                   (* pause lock and controller *)
}.

Definition set_pc (s : est) pc := mk_e pc (e_nq s) (e_now s) (e_sec s) (e_pqs s) (e_sqs s) (e_pch s) (e_sch s) (e_ws s) (e_panic s) (e_sched s) (e_handled s) (e_trace s) (e_rounds s) (e_ext s).
Definition set_panic (s : est) := mk_e EDone (e_nq s) (e_now s) (e_sec s) (e_pqs s) (e_sqs s) (e_pch s) (e_sch s) (e_ws s) true (e_sched s) (e_handled s) (e_trace s) (e_rounds s) (e_ext s).

Definition set_ext (s : est) (x : ext) : est :=
  mk_e (e_pc s) (e_nq s) (e_now s) (e_sec s) (e_pqs s) (e_sqs s) (e_pch s) (e_sch s) (e_ws s) (e_panic s) (e_sched s) (e_handled s) (e_trace s) (e_rounds s) x.

(** initial state: the events are scheduled before Run, each through Schedule
    (queue taken from the head of the channel, returned to its tail). *)
Definition push_init (e : ev) (s : est) : est :=
  if ev_sec e then
    match e_sch s with
    | [] => s
    | q :: r => mk_e (e_pc s) (e_nq s) (e_now s) (e_sec s) (e_pqs s) (upd_nth q (q_insert e) (e_sqs s)) (e_pch s) (r ++ [q]) (e_ws s) (e_panic s) (e :: e_sched s) (e_handled s) (e_trace s) (e_rounds s) (e_ext s)
    end
  else
    match e_pch s with
    | [] => s
    | q :: r => mk_e (e_pc s) (e_nq s) (e_now s) (e_sec s) (upd_nth q (q_insert e) (e_pqs s)) (e_sqs s) (r ++ [q]) (e_sch s) (e_ws s) (e_panic s) (e :: e_sched s) (e_handled s) (e_trace s) (e_rounds s) (e_ext s)
    end.

Definition e_empty (nq : nat) : est :=
  mk_e ECheck nq 0 false (repeat [] nq) (repeat [] nq) (seq 0 nq) (seq 0 nq) [] false [] [] [] [] (mk_x None [] None false).

Definition e_init (nq : nat) (init : list ev) : est := fold_left (fun s e => push_init e s) init (e_empty nq).

(** the same with a controller script *)
Definition e_init_ctl (nq : nat) (init : list ev) (script : list cop) : est :=
  set_ext (e_init nq init) (mk_x None script None false).

Fixpoint all_finished (ws : list (ev * wstate)) : bool :=
  match ws with
  | [] => true
  | (_, WFinished) :: r => all_finished r
  | _ => false
  end.

Section Engine.
  Variable prog : program.
  (** [det_first = false] is the code: pauseLock.Lock(); determineWhatToRun(); runRound(); Unlock().
      [det_first = true] is the reordering "determineWhatToRun(); pauseLock.Lock(); runRound()" (regression variant). *)
  Variable det_first : bool.

  Definition round_qs (s : est) := if e_sec s then e_sqs s else e_pqs s.

  Definition step_engine (s : est) : option est :=
    match e_pc s with
    | ECheck =>
        if all_empty (e_pqs s) && all_empty (e_sqs s) then Some (set_pc s EDone)
        else Some (set_pc s (if det_first then EDetermine else ELock))
    | ELock =>
        match x_plock (e_ext s) with
        | None => Some (set_ext (set_pc s (if det_first then EEmpty 0 else EDetermine))
                                (mk_x (Some false) (x_script (e_ext s)) (x_cheld (e_ext s)) (x_late (e_ext s))))
        | Some _ => None
        end
    | EDetermine =>
        let pt := earliest (e_pqs s) in
        let st := earliest (e_sqs s) in
        if pt <=? st
        then Some (mk_e (if det_first then ELock else EEmpty 0) (e_nq s) pt false (e_pqs s) (e_sqs s) (e_pch s) (e_sch s) (e_ws s) (e_panic s) (e_sched s) (e_handled s) (e_trace s) ((pt, false) :: e_rounds s) (e_ext s))
        else Some (mk_e (if det_first then ELock else EEmpty 0) (e_nq s) st true (e_pqs s) (e_sqs s) (e_pch s) (e_sch s) (e_ws s) (e_panic s) (e_sched s) (e_handled s) (e_trace s) ((st, true) :: e_rounds s) (e_ext s))
    | EEmpty j =>
        if (j <? e_nq s)%nat then
          if e_sec s then
            match e_sch s with
            | [] => None
            | _ :: r => Some (mk_e (EEmpty (S j)) (e_nq s) (e_now s) (e_sec s) (e_pqs s) (e_sqs s) (e_pch s) r (e_ws s) (e_panic s) (e_sched s) (e_handled s) (e_trace s) (e_rounds s) (e_ext s))
            end
          else
            match e_pch s with
            | [] => None
            | _ :: r => Some (mk_e (EEmpty (S j)) (e_nq s) (e_now s) (e_sec s) (e_pqs s) (e_sqs s) r (e_sch s) (e_ws s) (e_panic s) (e_sched s) (e_handled s) (e_trace s) (e_rounds s) (e_ext s))
            end
        else Some (set_pc s (EScan 0))
    | EScan i =>
        if (i <? e_nq s)%nat then
          match nth i (round_qs s) [] with
          | x :: r =>
              if ev_time x =? e_now s then
                (* pop and go tempWorkerRun *)
                if e_sec s
                then Some (mk_e (EScan i) (e_nq s) (e_now s) (e_sec s) (e_pqs s) (upd_nth i (fun _ => r) (e_sqs s)) (e_pch s) (e_sch s) (e_ws s ++ [(x, WSpawned)]) (e_panic s) (e_sched s) (e_handled s) (e_trace s) (e_rounds s) (e_ext s))
                else Some (mk_e (EScan i) (e_nq s) (e_now s) (e_sec s) (upd_nth i (fun _ => r) (e_pqs s)) (e_sqs s) (e_pch s) (e_sch s) (e_ws s ++ [(x, WSpawned)]) (e_panic s) (e_sched s) (e_handled s) (e_trace s) (e_rounds s) (e_ext s))
              else if ev_time x <? e_now s then Some (set_panic s)
              else (* later event: give the queue back *)
                if e_sec s
                then Some (mk_e (EScan (S i)) (e_nq s) (e_now s) (e_sec s) (e_pqs s) (e_sqs s) (e_pch s) (e_sch s ++ [i]) (e_ws s) (e_panic s) (e_sched s) (e_handled s) (e_trace s) (e_rounds s) (e_ext s))
                else Some (mk_e (EScan (S i)) (e_nq s) (e_now s) (e_sec s) (e_pqs s) (e_sqs s) (e_pch s ++ [i]) (e_sch s) (e_ws s) (e_panic s) (e_sched s) (e_handled s) (e_trace s) (e_rounds s) (e_ext s))
          | [] =>
              if e_sec s
              then Some (mk_e (EScan (S i)) (e_nq s) (e_now s) (e_sec s) (e_pqs s) (e_sqs s) (e_pch s) (e_sch s ++ [i]) (e_ws s) (e_panic s) (e_sched s) (e_handled s) (e_trace s) (e_rounds s) (e_ext s))
              else Some (mk_e (EScan (S i)) (e_nq s) (e_now s) (e_sec s) (e_pqs s) (e_sqs s) (e_pch s ++ [i]) (e_sch s) (e_ws s) (e_panic s) (e_sched s) (e_handled s) (e_trace s) (e_rounds s) (e_ext s))
          end
        else Some (set_pc s EWait)
    | EWait =>
        if all_finished (e_ws s)
        then Some (mk_e EUnlock (e_nq s) (e_now s) (e_sec s) (e_pqs s) (e_sqs s) (e_pch s) (e_sch s) [] (e_panic s) (e_sched s) (e_handled s) (e_trace s) (e_rounds s) (e_ext s))
        else None
    | EUnlock =>
        Some (set_ext (set_pc s ECheck) (mk_x None (x_script (e_ext s)) (x_cheld (e_ext s)) (x_late (e_ext s))))
    | EDone => None
    end.

  Definition set_w (s : est) (i : nat) (w : ev * wstate) : est :=
    mk_e (e_pc s) (e_nq s) (e_now s) (e_sec s) (e_pqs s) (e_sqs s) (e_pch s) (e_sch s) (upd_nth i (fun _ => w) (e_ws s)) (e_panic s) (e_sched s) (e_handled s) (e_trace s) (e_rounds s) (e_ext s).

  Definition step_worker (i : nat) (s : est) : option est :=
    match nth_error (e_ws s) i with
    | Some (e, WSpawned) =>
        (* tempWorkerRun: evt.Time() < now -> panic (never: popped events have time = now) *)
        Some (mk_e (e_pc s) (e_nq s) (e_now s) (e_sec s) (e_pqs s) (e_sqs s) (e_pch s) (e_sch s)
                   (upd_nth i (fun _ => (e, WRun (kids prog e) None)) (e_ws s))
                   (e_panic s) (e_sched s) (e_handled s) (LStart e :: e_trace s) (e_rounds s) (e_ext s))
    | Some (e, WRun (c :: r) None) =>
        (* Schedule(c): past check, then receive a queue from the channel of c's kind *)
        if ev_time c <? e_now s then Some (set_panic s)
        else if ev_sec c then
          match e_sch s with
          | [] => None
          | q :: ch => Some (mk_e (e_pc s) (e_nq s) (e_now s) (e_sec s) (e_pqs s) (e_sqs s) (e_pch s) ch
                                  (upd_nth i (fun _ => (e, WRun (c :: r) (Some q))) (e_ws s))
                                  (e_panic s) (e_sched s) (e_handled s) (e_trace s) (e_rounds s) (e_ext s))
          end
        else
          match e_pch s with
          | [] => None
          | q :: ch => Some (mk_e (e_pc s) (e_nq s) (e_now s) (e_sec s) (e_pqs s) (e_sqs s) ch (e_sch s)
                                  (upd_nth i (fun _ => (e, WRun (c :: r) (Some q))) (e_ws s))
                                  (e_panic s) (e_sched s) (e_handled s) (e_trace s) (e_rounds s) (e_ext s))
          end
    | Some (e, WRun (c :: r) (Some q)) =>
        (* queue.Push(c); chan <- queue *)
        if ev_sec c
        then Some (mk_e (e_pc s) (e_nq s) (e_now s) (e_sec s) (e_pqs s) (upd_nth q (q_insert c) (e_sqs s)) (e_pch s) (e_sch s ++ [q])
                        (upd_nth i (fun _ => (e, WRun r None)) (e_ws s))
                        (e_panic s) (c :: e_sched s) (e_handled s) (LSched e c :: e_trace s) (e_rounds s) (e_ext s))
        else Some (mk_e (e_pc s) (e_nq s) (e_now s) (e_sec s) (upd_nth q (q_insert c) (e_pqs s)) (e_sqs s) (e_pch s ++ [q]) (e_sch s)
                        (upd_nth i (fun _ => (e, WRun r None)) (e_ws s))
                        (e_panic s) (c :: e_sched s) (e_handled s) (LSched e c :: e_trace s) (e_rounds s) (e_ext s))
    | Some (e, WRun [] _) =>
        Some (mk_e (e_pc s) (e_nq s) (e_now s) (e_sec s) (e_pqs s) (e_sqs s) (e_pch s) (e_sch s)
                   (upd_nth i (fun _ => (e, WFinished)) (e_ws s))
                   (e_panic s) (e_sched s) (e :: e_handled s) (LEnd e :: e_trace s) (e_rounds s) (e_ext s))
    | _ => None
    end.

  (** the controller goroutine.  Schedule(evt) = read now (past check), receive a queue
      from the channel of the event's kind, push, send the queue back. *)
  Definition is_done (pc : epc) : bool := match pc with EDone => true | _ => false end.

  Definition step_ctl (s : est) : option est :=
    let x := e_ext s in
    match x_cheld x with
    | Some (q, c) =>
        match x_script x with
        | CSched _ _ _ :: r =>
            let x' := mk_x (x_plock x) r None (x_late x || is_done (e_pc s)) in
            if ev_sec c
            then Some (mk_e (e_pc s) (e_nq s) (e_now s) (e_sec s) (e_pqs s) (upd_nth q (q_insert c) (e_sqs s)) (e_pch s) (e_sch s ++ [q])
                            (e_ws s) (e_panic s) (c :: e_sched s) (e_handled s) (LInject c :: e_trace s) (e_rounds s) x')
            else Some (mk_e (e_pc s) (e_nq s) (e_now s) (e_sec s) (upd_nth q (q_insert c) (e_pqs s)) (e_sqs s) (e_pch s ++ [q]) (e_sch s)
                            (e_ws s) (e_panic s) (c :: e_sched s) (e_handled s) (LInject c :: e_trace s) (e_rounds s) x')
        | _ => None
        end
    | None =>
        match x_script x with
        | [] => None
        | CPause :: r =>
            match x_plock x with
            | None => Some (set_ext s (mk_x (Some true) r None (x_late x)))
            | Some _ => None
            end
        | CContinue :: r =>
            match x_plock x with
            | Some _ => Some (set_ext s (mk_x None r None (x_late x)))   (* Go lets any goroutine unlock *)
            | None => Some (set_panic s)                                  (* unlock of unlocked mutex: fatal *)
            end
        | CSched id d sec :: _ =>
            let c := mk_ev id (e_now s + d) sec in
            if sec then
              match e_sch s with
              | [] => None
              | q :: ch => Some (mk_e (e_pc s) (e_nq s) (e_now s) (e_sec s) (e_pqs s) (e_sqs s) (e_pch s) ch (e_ws s) (e_panic s)
                                      (e_sched s) (e_handled s) (e_trace s) (e_rounds s) (mk_x (x_plock x) (x_script x) (Some (q, c)) (x_late x)))
              end
            else
              match e_pch s with
              | [] => None
              | q :: ch => Some (mk_e (e_pc s) (e_nq s) (e_now s) (e_sec s) (e_pqs s) (e_sqs s) ch (e_sch s) (e_ws s) (e_panic s)
                                      (e_sched s) (e_handled s) (e_trace s) (e_rounds s) (mk_x (x_plock x) (x_script x) (Some (q, c)) (x_late x)))
              end
        end
    end.

  Definition step (t : tid) (s : est) : option est :=
    if e_panic s then None else
    match t with
    | TE => step_engine s
    | TW i => step_worker i s
    | TC => step_ctl s
    end.

  Definition e_run := run step.
End Engine.

(** ** The deterministic round structure (what every interleaving must produce):
    pending events as one multiset; a round takes every pending event of the
    earliest time, primaries first. *)
Definition min_time (l : list ev) : N := fold_right (fun e m => N.min (ev_time e) m) max_time l.

Definition in_round (t : N) (sec : bool) (e : ev) : bool := (ev_time e =? t) && Bool.eqb (ev_sec e) sec.

Fixpoint rounds (fuel : nat) (prog : program) (pending : list ev) : list (N * bool * list N) :=
  match fuel with
  | O => []
  | S f =>
      match pending with
      | [] => []
      | _ =>
          let pt := min_time (filter (fun e => negb (ev_sec e)) pending) in
          let st := min_time (filter ev_sec pending) in
          let '(t, sec) := if pt <=? st then (pt, false) else (st, true) in
          let now_evs := filter (in_round t sec) pending in
          let rest := filter (fun e => negb (in_round t sec e)) pending in
          (t, sec, map ev_id now_evs) :: rounds f prog (rest ++ flat_map (kids prog) now_evs)
      end
  end.

(** ** Trace acceptors *)

Fixpoint remove_ev (e : ev) (l : list ev) : list ev :=
  match l with
  | [] => []
  | x :: r => if ev_eqb x e then r else x :: remove_ev e r
  end.

Definition mem_ev (e : ev) (l : list ev) : bool := existsb (ev_eqb e) l.

(** acceptor state: live = scheduled and unfinished (queued or executing); open = executing *)
Definition pacc := (list ev * list ev)%type.

(** time order + round discipline: an event starts only if no live event is
    earlier, and every executing handler has the same time and the same phase. *)
Definition t_astep (a : pacc) (l : lbl) : option pacc :=
  let '(live, open) := a in
  match l with
  | LSched _ c => Some (c :: live, open)
  | LInject c => Some (c :: live, open)
  | LStart e =>
      if mem_ev e live &&
         forallb (fun x => ev_time e <=? ev_time x) live &&
         forallb (fun x => (ev_time x =? ev_time e) && Bool.eqb (ev_sec x) (ev_sec e)) open
      then Some (live, e :: open) else None
  | LEnd e =>
      if mem_ev e open then Some (remove_ev e live, remove_ev e open) else None
  end.

(** the literal phase clause: a secondary starts only if no primary of its instant is live *)
Definition ph_astep (a : pacc) (l : lbl) : option pacc :=
  let '(live, open) := a in
  match l with
  | LSched _ c => Some (c :: live, open)
  | LInject c => Some (c :: live, open)
  | LStart e =>
      if ev_sec e && existsb (fun x => negb (ev_sec x) && (ev_time x =? ev_time e)) live
      then None else Some (live, e :: open)
  | LEnd e => Some (remove_ev e live, remove_ev e open)
  end.

Fixpoint arun {A} (f : A -> lbl -> option A) (tr : list lbl) (a : A) : option A :=
  match tr with
  | [] => Some a
  | l :: r => match f a l with Some a' => arun f r a' | None => None end
  end.

Definition accepts {A} (f : A -> lbl -> option A) (a0 : A) (tr : list lbl) : bool :=
  match arun f tr a0 with Some _ => true | None => false end.

(** what the engine guarantees about phases: when a secondary starts, every live
    primary of its instant was scheduled by a secondary handler of that instant
    (the sibling corner) — never by the controller, never before the round.
    State: live events, and the "corner" primaries. *)
Definition ph2_astep (a : pacc) (l : lbl) : option pacc :=
  let '(live, corner) := a in
  match l with
  | LSched p c =>
      Some (c :: live, if ev_sec p && negb (ev_sec c) && (ev_time c =? ev_time p) then c :: corner else corner)
  | LInject c => Some (c :: live, corner)
  | LStart e =>
      if ev_sec e && existsb (fun x => negb (ev_sec x) && (ev_time x =? ev_time e) && negb (mem_ev x corner)) live
      then None else Some (live, corner)
  | LEnd e => Some (remove_ev e live, remove_ev e corner)
  end.

Definition par_trace_ok (init : list ev) (tr : list lbl) : bool := accepts t_astep (init, []) tr.
Definition phase_literal_ok (init : list ev) (tr : list lbl) : bool := accepts ph_astep (init, []) tr.
Definition phase_guaranteed_ok (init : list ev) (tr : list lbl) : bool := accepts ph2_astep (init, []) tr.

(** well-formed use of the pause protocol by the controller: Pause, Schedule*, Continue *)
Fixpoint cwf (held : bool) (sc : list cop) : bool :=
  match sc with
  | [] => true
  | CPause :: r => negb held && cwf true r
  | CSched _ _ _ :: r => held && cwf held r
  | CContinue :: r => held && cwf false r
  end.

(** programs that never schedule into the past *)
Definition causal (prog : program) : Prop :=
  forall e c, In c (kids prog e) -> ev_time e <= ev_time c.
