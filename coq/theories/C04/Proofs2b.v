(** C04 — the pause-lock discipline and the controller goroutine. *)
From Coq Require Import Permutation Sorted.
From Akita Require Import Lib.Base Lib.Lts C04.Model C04.Proofs1 C04.Proofs2.
Local Open Scope N_scope.

Lemma kids_causal_local prog : causal prog.
Proof.
  intros e c Hc. unfold kids in Hc. apply in_map_iff in Hc. destruct Hc as [x [<- _]]. cbn. lia.
Qed.

Definition in_cs (pc : epc) : bool :=
  match pc with EDetermine | EEmpty _ | EScan _ | EWait | EUnlock => true | _ => false end.

Definition hold (s : est) : bool := match x_plock (e_ext s) with Some true => true | _ => false end.

Record LInv (s : est) : Prop := {
  l_lock : x_plock (e_ext s) = Some false <-> in_cs (e_pc s) = true;
  l_cwf : cwf (hold s) (x_script (e_ext s)) = true;
  l_cheld : forall q c, x_cheld (e_ext s) = Some (q, c) ->
            (q < e_nq s)%nat /\ e_now s <= ev_time c /\ hold s = true /\
            exists id d sec r, x_script (e_ext s) = CSched id d sec :: r
}.

Ltac efields := cbn [e_pc e_nq e_now e_sec e_pqs e_sqs e_pch e_sch e_ws e_panic e_sched e_handled e_trace e_rounds e_ext set_pc set_panic set_ext x_plock x_script x_cheld x_late] in *.

Ltac inv_some :=
  repeat match goal with
  | H : Some _ = Some ?x |- _ => is_var x; inversion H; subst x; clear H
  | H : None = Some _ |- _ => discriminate H
  end.

Ltac lclose Hl Hh :=
  unfold hold; efields; auto;
  try solve [ split; (let X := fresh "X" in intro X; first [ discriminate X | reflexivity | apply Hl in X; discriminate X | auto ]) ];
  try solve [ let q0 := fresh "q" in let c0 := fresh "c" in let H0 := fresh "H" in
              intros q0 c0 H0; first [ discriminate H0
                                     | (let A0 := fresh "A" in destruct (Hh _ _ H0) as [_ [_ [A0 _]]]; discriminate A0)
                                     | eapply Hh; eauto ] ].

Lemma LInv_engine s s' : e_panic s' = false -> LInv s -> step_engine false s = Some s' -> LInv s'.
Proof.
  intros Hnp [Hl Hc Hh] Hstep.
  destruct s as [pc nq now sec pqs sqs pch sch ws panic schd handled trace rounds [plock script cheld late]].
  unfold step_engine in Hstep. unfold hold in *. efields.
  destruct pc; efields.
  - destruct (all_empty pqs && all_empty sqs); inv_some; constructor; lclose Hl Hh.
  - destruct plock as [b|]; inv_some. constructor; lclose Hl Hh.
  - (* EDetermine: now changes; the controller cannot be inside Schedule *)
    assert (Hp : plock = Some false) by (apply Hl; reflexivity). subst plock.
    destruct (earliest pqs <=? earliest sqs); inv_some; constructor; lclose Hl Hh.
  - assert (Hp : plock = Some false) by (apply Hl; reflexivity). subst plock.
    destruct (j <? nq)%nat; [destruct sec; [destruct sch|destruct pch]|]; inv_some; constructor; lclose Hl Hh.
  - assert (Hp : plock = Some false) by (apply Hl; reflexivity). subst plock.
    destruct (i <? nq)%nat; [|inv_some; constructor; lclose Hl Hh].
    unfold round_qs in Hstep. efields.
    destruct sec.
    + destruct (nth i sqs []) as [|x r]; [inv_some; constructor; lclose Hl Hh|].
      destruct (ev_time x =? now); [inv_some; constructor; lclose Hl Hh|].
      destruct (ev_time x <? now); inv_some; [efields; discriminate|]; constructor; lclose Hl Hh.
    + destruct (nth i pqs []) as [|x r]; [inv_some; constructor; lclose Hl Hh|].
      destruct (ev_time x =? now); [inv_some; constructor; lclose Hl Hh|].
      destruct (ev_time x <? now); inv_some; [efields; discriminate|]; constructor; lclose Hl Hh.
  - assert (Hp : plock = Some false) by (apply Hl; reflexivity). subst plock.
    destruct (all_finished ws); inv_some. constructor; lclose Hl Hh.
  - assert (Hp : plock = Some false) by (apply Hl; reflexivity). subst plock.
    inv_some. constructor; lclose Hl Hh.
  - discriminate.
Qed.

Lemma LInv_worker prog i s s' : e_panic s' = false -> LInv s -> step_worker prog i s = Some s' -> LInv s'.
Proof.
  intros Hnp [Hl Hc Hh] Hstep.
  destruct s as [pc nq now sec pqs sqs pch sch ws panic schd handled trace rounds ext].
  unfold step_worker in Hstep. unfold hold in *. efields.
  destruct (nth_error ws i) as [[e st]|]; [|discriminate].
  destruct st as [|todo held|]; [| |discriminate].
  - inv_some. constructor; unfold hold; efields; auto.
  - destruct todo as [|c r]; [inv_some; constructor; unfold hold; efields; auto|].
    destruct held.
    + destruct (ev_sec c); inv_some; constructor; unfold hold; efields; auto.
    + destruct (ev_time c <? now); [inv_some; efields; discriminate|].
      destruct (ev_sec c); [destruct sch|destruct pch]; inv_some; constructor; unfold hold; efields; auto.
Qed.

Lemma LInv_ctl prog init s s' : Inv prog init s -> LInv s -> step_ctl s = Some s' -> LInv s' /\ e_panic s' = false.
Proof.
  intros HI [Hl Hc Hh] Hstep.
  pose proof (i_pch _ _ _ HI) as Hpch. pose proof (i_sch _ _ _ HI) as Hsch. pose proof (i_panic _ _ _ HI) as Hpan.
  destruct s as [pc nq now sec pqs sqs pch sch ws panic schd handled trace rounds [plock script cheld late]].
  unfold step_ctl in Hstep. unfold hold in *. efields. subst panic.
  destruct cheld as [[q c]|].
  - destruct (Hh _ _ eq_refl) as [A [B [C [id [d [sc [r E]]]]]]]. subst script.
    cbn [cwf] in Hc. apply andb_true_iff in Hc. destruct Hc as [_ Hc].
    destruct (ev_sec c); inv_some; (split; [|reflexivity]); constructor; lclose Hl Hh.
  - destruct script as [|[|id d sc|] r]; [discriminate| | |].
    + destruct plock as [b|]; inv_some. split; [|reflexivity]. cbn [cwf] in Hc.
      constructor; lclose Hl Hh.
    + cbn [cwf] in Hc. apply andb_true_iff in Hc. destruct Hc as [Hhd Hc].
      destruct plock as [[|]|]; try discriminate.
      destruct sc.
      * destruct sch as [|q ch]; inv_some. split; [|reflexivity]. inversion Hsch; subst.
        constructor; lclose Hl Hh; try (cbn [cwf]; rewrite Hc; reflexivity).
        intros q' c' H. inversion H; subst. cbn. repeat split; auto; try lia. eauto.
      * destruct pch as [|q ch]; inv_some. split; [|reflexivity]. inversion Hpch; subst.
        constructor; lclose Hl Hh; try (cbn [cwf]; rewrite Hc; reflexivity).
        intros q' c' H. inversion H; subst. cbn. repeat split; auto; try lia. eauto.
    + cbn [cwf] in Hc. apply andb_true_iff in Hc. destruct Hc as [Hhd Hc].
      destruct plock as [[|]|]; try discriminate. inv_some. split; [|reflexivity].
      constructor; lclose Hl Hh.
Qed.

Section Ctl.
  Variable prog : program.
  Variable init : list ev.

  Lemma Inv_ctl s s' : Inv prog init s -> LInv s -> step_ctl s = Some s' -> Inv prog init s'.
  Proof.
    intros HI HL Hstep. destruct (LInv_ctl prog init s s' HI HL Hstep) as [_ Hnp].
    destruct HL as [Hl Hc Hh].
    destruct HI as [Hpan Hlp Hls Hpch Hsch Hsp Hss Hkp Hks Hge Hws Hidle [live [open [Hacc [Hlive Hopen]]]] Hcons Hmono Hmax].
    destruct s as [pc nq now sec pqs sqs pch sch ws panic schd handled trace rounds [plock script cheld late]].
    unfold step_ctl in Hstep. unfold hold in *. efields. unfold live_of, queued in *. efields.
    destruct cheld as [[q c]|].
    - destruct (Hh _ _ eq_refl) as [A [B [C [id [d [sc [r E]]]]]]]. subst script.
      destruct (ev_sec c) eqn:Esc; inv_some.
      + pose proof (queued_insert_s c q pqs sqs ltac:(lia)) as Hq.
        constructor; efields; unfold live_of, queued; efields; auto.
        * rewrite upd_nth_length. auto.
        * apply Forall_app. split; auto.
        * apply Forall_upd_nth; [exact Hss|]. intros x Hx. apply q_insert_sorted. exact Hx.
        * eapply Forall_perm; [apply Permutation_sym, (concat_upd_insert c q sqs ltac:(lia))|]. constructor; auto.
        * eapply Forall_perm; [apply Permutation_sym, Hq|]. constructor; auto.
        * cbn [rev]. rewrite arun_snoc, Hacc. cbn [t_astep]. eexists _, _. split; [reflexivity|]. split; [|exact Hopen].
          eapply perm_trans; [apply perm_skip, Hlive|].
          eapply perm_trans; [apply Permutation_middle|]. apply Permutation_app_head. apply Permutation_sym, Hq.
        * eapply perm_trans; [apply perm_skip, Hcons|].
          eapply perm_trans; [apply Permutation_middle|]. apply Permutation_app_head.
          eapply perm_trans; [apply Permutation_middle|]. apply Permutation_app_head. apply Permutation_sym, Hq.
      + pose proof (queued_insert_p c q pqs sqs ltac:(lia)) as Hq.
        constructor; efields; unfold live_of, queued; efields; auto.
        * rewrite upd_nth_length. auto.
        * apply Forall_app. split; auto.
        * apply Forall_upd_nth; [exact Hsp|]. intros x Hx. apply q_insert_sorted. exact Hx.
        * eapply Forall_perm; [apply Permutation_sym, (concat_upd_insert c q pqs ltac:(lia))|]. constructor; auto.
        * eapply Forall_perm; [apply Permutation_sym, Hq|]. constructor; auto.
        * cbn [rev]. rewrite arun_snoc, Hacc. cbn [t_astep]. eexists _, _. split; [reflexivity|]. split; [|exact Hopen].
          eapply perm_trans; [apply perm_skip, Hlive|].
          eapply perm_trans; [apply Permutation_middle|]. apply Permutation_app_head. apply Permutation_sym, Hq.
        * eapply perm_trans; [apply perm_skip, Hcons|].
          eapply perm_trans; [apply Permutation_middle|]. apply Permutation_app_head.
          eapply perm_trans; [apply Permutation_middle|]. apply Permutation_app_head. apply Permutation_sym, Hq.
    - destruct script as [|[|id d sc|] r]; [discriminate| | |].
      + destruct plock as [b|]; inv_some. constructor; efields; unfold live_of, queued; efields; auto. exists live, open; auto.
      + destruct sc.
        * destruct sch as [|q ch]; inv_some. inversion Hsch; subst.
          constructor; efields; unfold live_of, queued; efields; auto. exists live, open; auto.
        * destruct pch as [|q ch]; inv_some. inversion Hpch; subst.
          constructor; efields; unfold live_of, queued; efields; auto. exists live, open; auto.
      + destruct plock as [b|]; inv_some; efields; [|discriminate].
        constructor; efields; unfold live_of, queued; efields; auto. exists live, open; auto.
  Qed.

  Definition FInv (s : est) : Prop := Inv prog init s /\ LInv s.

  Lemma FInv_step : inductive (step prog false) FInv.
  Proof.
    intros t s s' [HI HL] Hstep. unfold step in Hstep. rewrite (i_panic _ _ _ HI) in Hstep.
    destruct t as [|i|].
    - assert (HI' : Inv prog init s') by (eapply Inv_engine; eauto; apply kids_causal_local).
      split; [exact HI'|]. eapply LInv_engine; eauto. apply (i_panic _ _ _ HI').
    - assert (HI' : Inv prog init s') by (eapply Inv_worker; eauto; apply kids_causal_local).
      split; [exact HI'|]. eapply LInv_worker; eauto. apply (i_panic _ _ _ HI').
    - split; [eapply Inv_ctl|eapply LInv_ctl]; eauto.
  Qed.
End Ctl.
