(** C04 — the invariant of the parallel-engine LTS and its consequences. *)
From Coq Require Import Permutation Sorted.
From Akita Require Import Lib.Base Lib.Lts C04.Model C04.Proofs1.
Local Open Scope N_scope.

Definition queued (s : est) : list ev := concat (e_pqs s) ++ concat (e_sqs s).
Definition live_of (s : est) : list ev := pending_ws (e_ws s) ++ queued s.

Definition idle_pc (pc : epc) : bool :=
  match pc with ECheck | ELock | EDetermine | EEmpty _ | EUnlock | EDone => true | _ => false end.

Lemma mono_from_weaken hi hi' l : hi <= hi' -> mono_from hi l = true -> mono_from hi' l = true.
Proof.
  destruct l as [|[t b] r]; cbn; auto. intros H1 H2. apply andb_true_iff in H2. destruct H2 as [H2 H3].
  apply andb_true_iff. split; [lia|exact H3].
Qed.

Lemma queued_insert_p c q pqs sqs : (q < length pqs)%nat ->
  Permutation (concat (upd_nth q (q_insert c) pqs) ++ concat sqs) (c :: concat pqs ++ concat sqs).
Proof. intro H. apply (Permutation_app_tail (concat sqs) (concat_upd_insert c q pqs H)). Qed.

Lemma queued_insert_s c q pqs sqs : (q < length sqs)%nat ->
  Permutation (concat pqs ++ concat (upd_nth q (q_insert c) sqs)) (c :: concat pqs ++ concat sqs).
Proof.
  intro H. eapply perm_trans; [apply Permutation_app_head, (concat_upd_insert c q sqs H)|].
  apply Permutation_sym, Permutation_middle.
Qed.

Lemma queued_pop_p i (pqs sqs : list (list ev)) x r : nth i pqs [] = x :: r ->
  Permutation (concat pqs ++ concat sqs) (x :: concat (upd_nth i (fun _ => r) pqs) ++ concat sqs).
Proof. intro H. apply (Permutation_app_tail (concat sqs) (concat_upd_pop i pqs x r H)). Qed.

Lemma queued_pop_s i (pqs sqs : list (list ev)) x r : nth i sqs [] = x :: r ->
  Permutation (concat pqs ++ concat sqs) (x :: concat pqs ++ concat (upd_nth i (fun _ => r) sqs)).
Proof.
  intro H. eapply perm_trans; [apply Permutation_app_head, (concat_upd_pop i sqs x r H)|].
  apply Permutation_sym, Permutation_middle.
Qed.

Section Inv.
  Variable prog : program.
  Hypothesis Hcausal : causal prog.
  Variable init : list ev.

  Definition w_ok (now : N) (sec : bool) (nq : nat) (w : ev * wstate) : Prop :=
    ev_time (fst w) = now /\ ev_sec (fst w) = sec /\
    match snd w with
    | WRun todo held =>
        (forall c, In c todo -> In c (kids prog (fst w))) /\
        match held with Some q => (q < nq)%nat | None => True end
    | _ => True
    end.

  Record Inv (s : est) : Prop := {
    i_panic : e_panic s = false;
    i_lenp : length (e_pqs s) = e_nq s;
    i_lens : length (e_sqs s) = e_nq s;
    i_pch : Forall (fun q => (q < e_nq s)%nat) (e_pch s);
    i_sch : Forall (fun q => (q < e_nq s)%nat) (e_sch s);
    i_sortp : Forall tsorted (e_pqs s);
    i_sorts : Forall tsorted (e_sqs s);
    i_kindp : Forall (fun x => ev_sec x = false) (concat (e_pqs s));
    i_kinds : Forall (fun x => ev_sec x = true) (concat (e_sqs s));
    i_ge : Forall (fun x => e_now s <= ev_time x) (queued s);
    i_ws : Forall (w_ok (e_now s) (e_sec s) (e_nq s)) (e_ws s);
    i_idle : idle_pc (e_pc s) = true -> e_ws s = [];
    i_acc : exists live open, arun t_astep (rev (e_trace s)) (init, []) = Some (live, open) /\
            Permutation live (live_of s) /\ Permutation open (open_ws (e_ws s));
    i_cons : Permutation (e_sched s) (e_handled s ++ live_of s);
    i_mono : mono_from (e_now s) (e_rounds s) = true;
    i_max : e_now s <= max_time
  }.

  Ltac efields := cbn [e_pc e_nq e_now e_sec e_pqs e_sqs e_pch e_sch e_ws e_panic e_sched e_handled e_trace e_rounds e_ext set_pc set_panic set_ext x_plock x_script x_cheld x_late] in *.

  Ltac inv_some :=
    repeat match goal with
    | H : Some _ = Some ?x |- _ => is_var x; inversion H; subst x; clear H
    | H : None = Some _ |- _ => discriminate H
    end.

  Lemma Forall_in {A} (P : A -> Prop) l x : Forall P l -> In x l -> P x.
  Proof. intros H Hin. rewrite Forall_forall in H. auto. Qed.

  (** engine steps *)
  Lemma Inv_engine s s' : Inv s -> step_engine false s = Some s' -> Inv s'.
  Proof.
    intros [Hpan Hlp Hls Hpch Hsch Hsp Hss Hkp Hks Hge Hws Hidle [live [open [Hacc [Hlive Hopen]]]] Hcons Hmono Hmax] Hstep.
    destruct s as [pc nq now sec pqs sqs pch sch ws panic schd handled trace rounds ext].
    unfold step_engine in Hstep. efields. unfold queued, live_of in *. efields.
    destruct pc.
    - (* ECheck *)
      destruct (all_empty pqs && all_empty sqs); inv_some; constructor; efields; unfold queued, live_of; efields; auto;
        exists live, open; auto.
    - (* ELock *)
      destruct (x_plock ext); inv_some; constructor; efields; unfold queued, live_of; efields; auto;
        exists live, open; auto.
    - (* EDetermine *)
      specialize (Hidle eq_refl). subst ws.
      pose proof (earliest_le pqs Hsp) as Hep. pose proof (earliest_le sqs Hss) as Hes.
      assert (Hlo : now <= earliest pqs /\ now <= earliest sqs).
      { apply Forall_app in Hge. destruct Hge as [Hg1 Hg2]. split; apply earliest_ge; auto. }
      destruct Hlo as [Hlo1 Hlo2].
      destruct (earliest pqs <=? earliest sqs) eqn:Ec; inv_some; constructor; efields; unfold queued, live_of; efields; auto;
        try (exists live, open; auto); try discriminate; try apply earliest_max.
      + apply Forall_app. split; [exact Hep|]. eapply Forall_impl; [|exact Hes]. cbn. intros a Ha. lia.
      + cbn [mono_from]. rewrite N.leb_refl. cbn [andb]. eapply mono_from_weaken; [|exact Hmono]. exact Hlo1.
      + apply Forall_app. split; [|exact Hes]. eapply Forall_impl; [|exact Hep]. cbn. intros a Ha. lia.
      + cbn [mono_from]. rewrite N.leb_refl. cbn [andb]. eapply mono_from_weaken; [|exact Hmono]. exact Hlo2.
    - (* EEmpty *)
      destruct (j <? nq)%nat.
      + destruct sec.
        * destruct sch as [|q r]; inv_some. inversion Hsch; subst.
          constructor; efields; unfold queued, live_of; efields; auto. exists live, open; auto.
        * destruct pch as [|q r]; inv_some. inversion Hpch; subst.
          constructor; efields; unfold queued, live_of; efields; auto. exists live, open; auto.
      + inv_some. constructor; efields; unfold queued, live_of; efields; auto; try discriminate. exists live, open; auto.
    - (* EScan *)
      destruct (i <? nq)%nat eqn:Ei.
      2:{ inv_some. constructor; efields; unfold queued, live_of; efields; auto; try discriminate. exists live, open; auto. }
      apply Nat.ltb_lt in Ei. unfold round_qs in Hstep. efields.
      destruct sec.
      + (* secondary round *)
        destruct (nth i sqs []) as [|x r] eqn:En.
        * inv_some. constructor; efields; unfold queued, live_of; efields; auto; try discriminate.
          -- apply Forall_app. split; auto.
          -- exists live, open; auto.
        * assert (Hx : now <= ev_time x /\ ev_sec x = true /\ tsorted (x :: r)).
          { pose proof (queued_pop_s i pqs sqs x r En) as Hp.
            pose proof (Forall_perm _ _ _ Hp Hge) as Hge'. inversion Hge'; subst.
            pose proof (Forall_perm _ _ _ (concat_upd_pop i sqs x r En) Hks) as Hk'. inversion Hk'; subst.
            split; [auto|split; [auto|]]. rewrite <- En. apply nth_Forall; [exact Hss|constructor]. }
          destruct Hx as [Hx1 [Hx2 Hx3]].
          destruct (ev_time x =? now) eqn:Et.
          -- apply N.eqb_eq in Et. inv_some.
             pose proof (queued_pop_s i pqs sqs x r En) as Hp.
             constructor; efields; unfold queued, live_of; efields; auto; try discriminate.
             ++ rewrite upd_nth_length. first [exact Hls | reflexivity | auto].
             ++ apply Forall_upd_nth_const; [exact Hss|eapply tsorted_tail; eauto].
             ++ pose proof (Forall_perm _ _ _ (concat_upd_pop i sqs x r En) Hks) as Hk'. inversion Hk'; auto.
             ++ pose proof (Forall_perm _ _ _ Hp Hge) as Hge'. inversion Hge'; auto.
             ++ apply Forall_app. split; [exact Hws|]. constructor; [|constructor]. unfold w_ok. cbn. auto.
             ++ exists live, open. split; [exact Hacc|]. split.
                ** eapply perm_trans; [exact Hlive|]. rewrite pending_ws_app. cbn [pending_ws filter map snd is_fin negb fst].
                   rewrite <- app_assoc. apply Permutation_app_head. cbn [app]. exact Hp.
                ** rewrite open_ws_app. cbn. rewrite app_nil_r. exact Hopen.
             ++ eapply perm_trans; [exact Hcons|]. apply Permutation_app_head.
                rewrite pending_ws_app. cbn [pending_ws filter map snd is_fin negb fst].
                rewrite <- app_assoc. apply Permutation_app_head. cbn [app]. exact Hp.
          -- destruct (ev_time x <? now) eqn:Elt; [lia|]. inv_some.
             constructor; efields; unfold queued, live_of; efields; auto; try discriminate.
             ++ apply Forall_app. split; auto.
             ++ exists live, open; auto.
      + (* primary round *)
        destruct (nth i pqs []) as [|x r] eqn:En.
        * inv_some. constructor; efields; unfold queued, live_of; efields; auto; try discriminate.
          -- apply Forall_app. split; auto.
          -- exists live, open; auto.
        * assert (Hx : now <= ev_time x /\ ev_sec x = false /\ tsorted (x :: r)).
          { pose proof (queued_pop_p i pqs sqs x r En) as Hp.
            pose proof (Forall_perm _ _ _ Hp Hge) as Hge'. inversion Hge'; subst.
            pose proof (Forall_perm _ _ _ (concat_upd_pop i pqs x r En) Hkp) as Hk'. inversion Hk'; subst.
            split; [auto|split; [auto|]]. rewrite <- En. apply nth_Forall; [exact Hsp|constructor]. }
          destruct Hx as [Hx1 [Hx2 Hx3]].
          destruct (ev_time x =? now) eqn:Et.
          -- apply N.eqb_eq in Et. inv_some.
             pose proof (queued_pop_p i pqs sqs x r En) as Hp.
             constructor; efields; unfold queued, live_of; efields; auto; try discriminate.
             ++ rewrite upd_nth_length. first [exact Hlp | reflexivity | auto].
             ++ apply Forall_upd_nth_const; [exact Hsp|eapply tsorted_tail; eauto].
             ++ pose proof (Forall_perm _ _ _ (concat_upd_pop i pqs x r En) Hkp) as Hk'. inversion Hk'; auto.
             ++ pose proof (Forall_perm _ _ _ Hp Hge) as Hge'. inversion Hge'; auto.
             ++ apply Forall_app. split; [exact Hws|]. constructor; [|constructor]. unfold w_ok. cbn. auto.
             ++ exists live, open. split; [exact Hacc|]. split.
                ** eapply perm_trans; [exact Hlive|]. rewrite pending_ws_app. cbn [pending_ws filter map snd is_fin negb fst].
                   rewrite <- app_assoc. apply Permutation_app_head. cbn [app]. exact Hp.
                ** rewrite open_ws_app. cbn. rewrite app_nil_r. exact Hopen.
             ++ eapply perm_trans; [exact Hcons|]. apply Permutation_app_head.
                rewrite pending_ws_app. cbn [pending_ws filter map snd is_fin negb fst].
                rewrite <- app_assoc. apply Permutation_app_head. cbn [app]. exact Hp.
          -- destruct (ev_time x <? now) eqn:Elt; [lia|]. inv_some.
             constructor; efields; unfold queued, live_of; efields; auto; try discriminate.
             ++ apply Forall_app. split; auto.
             ++ exists live, open; auto.
    - (* EWait *)
      destruct (all_finished ws) eqn:Ef; inv_some.
      destruct (all_finished_pending ws Ef) as [Hp Ho]. rewrite Hp in *. rewrite Ho in *.
      constructor; efields; unfold queued, live_of; efields; auto. exists live, open; auto.
    - (* EUnlock *)
      inv_some; constructor; efields; unfold queued, live_of; efields; auto; exists live, open; auto.
    - discriminate.
  Qed.

  Lemma w_ok_others now sec nq (a b : list (ev * wstate)) w :
    Forall (w_ok now sec nq) (a ++ w :: b) -> forall w', w_ok now sec nq w' -> Forall (w_ok now sec nq) (a ++ w' :: b).
  Proof.
    intros H w' Hw'. apply Forall_app in H. destruct H as [Ha Hb]. inversion Hb; subst.
    apply Forall_app. split; auto.
  Qed.

  Lemma pending_mid a e st b : is_fin st = false -> pending_ws (a ++ (e, st) :: b) = pending_ws a ++ e :: pending_ws b.
  Proof. intro H. rewrite pending_ws_app. unfold pending_ws at 2. cbn [filter snd fst]. rewrite H. reflexivity. Qed.

  Lemma pending_mid_fin a e b : pending_ws (a ++ (e, WFinished) :: b) = pending_ws a ++ pending_ws b.
  Proof. rewrite pending_ws_app. reflexivity. Qed.

  Lemma open_mid a e st b : is_run st = true -> open_ws (a ++ (e, st) :: b) = open_ws a ++ e :: open_ws b.
  Proof. intro H. rewrite open_ws_app. unfold open_ws at 2. cbn [filter snd fst]. rewrite H. reflexivity. Qed.

  Lemma open_mid_not a e st b : is_run st = false -> open_ws (a ++ (e, st) :: b) = open_ws a ++ open_ws b.
  Proof. intro H. rewrite open_ws_app. unfold open_ws at 2. cbn [filter snd fst]. rewrite H. reflexivity. Qed.

  (** worker steps *)
  Lemma Inv_worker i s s' : Inv s -> step_worker prog i s = Some s' -> Inv s'.
  Proof.
    intros [Hpan Hlp Hls Hpch Hsch Hsp Hss Hkp Hks Hge Hws Hidle [live [open [Hacc [Hlive Hopen]]]] Hcons Hmono Hmax] Hstep.
    destruct s as [pc nq now sec pqs sqs pch sch ws panic schd handled trace rounds ext].
    unfold step_worker in Hstep. efields. unfold live_of, queued in *. efields.
    destruct (nth_error ws i) as [[e st]|] eqn:En; [|discriminate].
    assert (Hpc : idle_pc pc = false).
    { destruct (idle_pc pc) eqn:E; [|reflexivity]. rewrite (Hidle eq_refl) in En. destruct i; discriminate. }
    assert (Hwe : w_ok now sec nq (e, st)).
    { eapply Forall_in; [exact Hws|]. eapply nth_error_In; eauto. }
    destruct st as [|todo held|].
    - (* start *)
      inv_some. destruct (upd_ws_split i ws (e, WSpawned) (e, WRun (kids prog e) None) En) as [a [b [E1 [E2 _]]]].
      rewrite E2. subst ws. destruct Hwe as [Ht [Hs _]]. cbn [fst] in Ht, Hs.
      rewrite pending_mid in * by reflexivity. rewrite open_mid_not in Hopen by reflexivity.
      assert (Hpe : pending_ws (a ++ (e, WRun (kids prog e) None) :: b) = pending_ws a ++ e :: pending_ws b) by (apply pending_mid; reflexivity).
      assert (Hoe : open_ws (a ++ (e, WRun (kids prog e) None) :: b) = open_ws a ++ e :: open_ws b) by (apply open_mid; reflexivity).
      constructor; efields; unfold live_of, queued; efields; rewrite ?Hpe, ?Hoe; auto.
      + eapply w_ok_others; [exact Hws|]. unfold w_ok. cbn. auto.
      + intro Hi. congruence.
      + cbn [rev]. rewrite arun_snoc, Hacc. cbn [t_astep].
        assert (C1 : mem_ev e live = true).
        { apply mem_ev_in. eapply Permutation_in; [apply Permutation_sym, Hlive|]. apply in_or_app. left. apply in_or_app. right. left. reflexivity. }
        assert (C2 : forallb (fun x => ev_time e <=? ev_time x) live = true).
        { rewrite (forallb_perm _ _ _ Hlive). apply forallb_Forall. apply Forall_app. split.
          - assert (Hp : Forall (fun x => ev_time x = now) (pending_ws a ++ e :: pending_ws b)).
            { clear - Hws. rewrite <- (pending_mid a e WSpawned b eq_refl). unfold pending_ws.
              apply Forall_forall. intros x Hx. apply in_map_iff in Hx. destruct Hx as [[x' st'] [Hx1 Hx2]]. cbn in Hx1. subst x'.
              apply filter_In in Hx2. destruct Hx2 as [Hx2 _]. eapply Forall_in in Hx2; [|exact Hws]. destruct Hx2 as [Hx2 _]. exact Hx2. }
            eapply Forall_impl; [|exact Hp]. cbn. intros x Hx. lia.
          - eapply Forall_impl; [|exact Hge]. cbn. intros x Hx. lia. }
        assert (C3 : forallb (fun x => (ev_time x =? ev_time e) && Bool.eqb (ev_sec x) (ev_sec e)) open = true).
        { rewrite (forallb_perm _ _ _ Hopen). apply forallb_Forall.
          rewrite <- (open_mid_not a e WSpawned b eq_refl). unfold open_ws.
          apply Forall_forall. intros x Hx. apply in_map_iff in Hx. destruct Hx as [[x' st'] [Hx1 Hx2]]. cbn in Hx1. subst x'.
          apply filter_In in Hx2. destruct Hx2 as [Hx2 _]. eapply Forall_in in Hx2; [|exact Hws]. destruct Hx2 as [Hx2 [Hx3 _]]. cbn [fst] in *.
          rewrite Hx2, Ht, Hx3, Hs, N.eqb_refl, Bool.eqb_reflx. reflexivity. }
        rewrite C1, C2, C3. cbn [andb].
        exists live, (e :: open). split; [reflexivity|]. split; [rewrite ?Hpe; exact Hlive|].
        rewrite ?Hoe. eapply perm_trans; [apply perm_skip, Hopen|]. apply Permutation_middle.
    - (* running *)
      destruct Hwe as [Ht [Hs [Htodo Hheld]]]. cbn [fst snd] in *.
      destruct todo as [|c r].
      + (* handler ends *)
        inv_some. destruct (upd_ws_split i ws (e, WRun [] held) (e, WFinished) En) as [a [b [E1 [E2 _]]]].
        rewrite E2. subst ws.
        rewrite pending_mid in * by reflexivity. rewrite open_mid in Hopen by reflexivity.
        assert (Hpe : pending_ws (a ++ (e, WFinished) :: b) = pending_ws a ++ pending_ws b) by apply pending_mid_fin.
        assert (Hoe : open_ws (a ++ (e, WFinished) :: b) = open_ws a ++ open_ws b) by (apply open_mid_not; reflexivity).
        assert (Hl' : Permutation live (e :: (pending_ws a ++ pending_ws b) ++ concat pqs ++ concat sqs)).
        { eapply perm_trans; [exact Hlive|]. rewrite <- !app_assoc. cbn [app]. apply Permutation_sym, Permutation_middle. }
        assert (Ho' : Permutation open (e :: open_ws a ++ open_ws b)).
        { eapply perm_trans; [exact Hopen|]. apply Permutation_sym, Permutation_middle. }
        constructor; efields; unfold live_of, queued; efields; rewrite ?Hpe, ?Hoe; auto.
        * eapply w_ok_others; [exact Hws|]. unfold w_ok. cbn. auto.
        * intro Hi. congruence.
        * cbn [rev]. rewrite arun_snoc, Hacc. cbn [t_astep].
          assert (C1 : mem_ev e open = true).
          { apply mem_ev_in. eapply Permutation_in; [apply Permutation_sym, Ho'|]. left. reflexivity. }
          rewrite C1. eexists _, _. split; [reflexivity|]. split.
          -- rewrite ?Hpe. apply remove_ev_perm. exact Hl'.
          -- rewrite ?Hoe. apply remove_ev_perm. exact Ho'.
        * eapply perm_trans; [exact Hcons|]. cbn [app]. apply Permutation_sym.
          replace (handled ++ (pending_ws a ++ e :: pending_ws b) ++ concat pqs ++ concat sqs)
            with ((handled ++ pending_ws a) ++ e :: (pending_ws b ++ concat pqs ++ concat sqs))
            by (rewrite <- !app_assoc; reflexivity).
          apply Permutation_cons_app. rewrite <- !app_assoc. apply Permutation_refl.
      + assert (Hc : now <= ev_time c).
        { specialize (Htodo c (or_introl eq_refl)). apply Hcausal in Htodo. lia. }
        destruct held as [q|].
        * (* push and give the queue back *)
          destruct (upd_ws_split i ws (e, WRun (c :: r) (Some q)) (e, WRun r None) En) as [a [b [E1 [E2 _]]]].
          assert (Hws' : Forall (w_ok now sec nq) (a ++ (e, WRun r None) :: b)).
          { subst ws. eapply w_ok_others; [exact Hws|]. unfold w_ok. cbn. repeat split; auto. intros c' Hc'. apply Htodo. right. exact Hc'. }
          assert (Hpe : pending_ws (a ++ (e, WRun r None) :: b) = pending_ws ws).
          { subst ws. rewrite !pending_mid by reflexivity. reflexivity. }
          assert (Hoe : open_ws (a ++ (e, WRun r None) :: b) = open_ws ws).
          { subst ws. rewrite !open_mid by reflexivity. reflexivity. }
          destruct (ev_sec c) eqn:Esc; inv_some; rewrite E2.
          -- pose proof (queued_insert_s c q pqs sqs ltac:(lia)) as Hq.
             constructor; efields; unfold live_of, queued; efields; rewrite ?Hpe, ?Hoe; auto.
             ++ rewrite upd_nth_length. auto.
             ++ apply Forall_app. split; auto.
             ++ apply Forall_upd_nth; [exact Hss|]. intros x Hx. apply q_insert_sorted. exact Hx.
             ++ eapply Forall_perm; [apply Permutation_sym, (concat_upd_insert c q sqs ltac:(lia))|]. constructor; auto.
             ++ eapply Forall_perm; [apply Permutation_sym, Hq|]. constructor; auto.
             ++ intro Hi. congruence.
             ++ cbn [rev]. rewrite arun_snoc, Hacc. cbn [t_astep]. eexists _, _. split; [reflexivity|]. split.
                ** eapply perm_trans; [apply perm_skip, Hlive|].
                   eapply perm_trans; [apply Permutation_middle|]. apply Permutation_app_head. apply Permutation_sym, Hq.
                ** exact Hopen.
             ++ eapply perm_trans; [apply perm_skip, Hcons|].
                eapply perm_trans; [apply Permutation_middle|]. apply Permutation_app_head.
                eapply perm_trans; [apply Permutation_middle|]. apply Permutation_app_head. apply Permutation_sym, Hq.
          -- pose proof (queued_insert_p c q pqs sqs ltac:(lia)) as Hq.
             constructor; efields; unfold live_of, queued; efields; rewrite ?Hpe, ?Hoe; auto.
             ++ rewrite upd_nth_length. auto.
             ++ apply Forall_app. split; auto.
             ++ apply Forall_upd_nth; [exact Hsp|]. intros x Hx. apply q_insert_sorted. exact Hx.
             ++ eapply Forall_perm; [apply Permutation_sym, (concat_upd_insert c q pqs ltac:(lia))|]. constructor; auto.
             ++ eapply Forall_perm; [apply Permutation_sym, Hq|]. constructor; auto.
             ++ intro Hi. congruence.
             ++ cbn [rev]. rewrite arun_snoc, Hacc. cbn [t_astep]. eexists _, _. split; [reflexivity|]. split.
                ** eapply perm_trans; [apply perm_skip, Hlive|].
                   eapply perm_trans; [apply Permutation_middle|]. apply Permutation_app_head. apply Permutation_sym, Hq.
                ** exact Hopen.
             ++ eapply perm_trans; [apply perm_skip, Hcons|].
                eapply perm_trans; [apply Permutation_middle|]. apply Permutation_app_head.
                eapply perm_trans; [apply Permutation_middle|]. apply Permutation_app_head. apply Permutation_sym, Hq.
        * (* Schedule: past check, then receive a queue *)
          destruct (ev_time c <? now) eqn:Elt; [lia|].
          destruct (ev_sec c) eqn:Esc.
          -- destruct sch as [|q ch]; inv_some. inversion Hsch; subst.
             destruct (upd_ws_split i ws (e, WRun (c :: r) None) (e, WRun (c :: r) (Some q)) En) as [a [b [E1 [E2 _]]]].
             rewrite E2.
             assert (Hpe : pending_ws (a ++ (e, WRun (c :: r) (Some q)) :: b) = pending_ws ws).
             { subst ws. rewrite !pending_mid by reflexivity. reflexivity. }
             assert (Hoe : open_ws (a ++ (e, WRun (c :: r) (Some q)) :: b) = open_ws ws).
             { subst ws. rewrite !open_mid by reflexivity. reflexivity. }
             constructor; efields; unfold live_of, queued; efields; rewrite ?Hpe, ?Hoe; auto.
             ++ subst ws. eapply w_ok_others; [exact Hws|]. unfold w_ok. cbn. auto.
             ++ intro Hi. congruence.
             ++ exists live, open. rewrite ?Hpe, ?Hoe. auto.
          -- destruct pch as [|q ch]; inv_some. inversion Hpch; subst.
             destruct (upd_ws_split i ws (e, WRun (c :: r) None) (e, WRun (c :: r) (Some q)) En) as [a [b [E1 [E2 _]]]].
             rewrite E2.
             assert (Hpe : pending_ws (a ++ (e, WRun (c :: r) (Some q)) :: b) = pending_ws ws).
             { subst ws. rewrite !pending_mid by reflexivity. reflexivity. }
             assert (Hoe : open_ws (a ++ (e, WRun (c :: r) (Some q)) :: b) = open_ws ws).
             { subst ws. rewrite !open_mid by reflexivity. reflexivity. }
             constructor; efields; unfold live_of, queued; efields; rewrite ?Hpe, ?Hoe; auto.
             ++ subst ws. eapply w_ok_others; [exact Hws|]. unfold w_ok. cbn. auto.
             ++ intro Hi. congruence.
             ++ exists live, open. rewrite ?Hpe, ?Hoe. auto.
    - discriminate.
  Qed.

End Inv.
