(** C04 — list / queue lemmas used by the invariant proof. *)
From Coq Require Import Permutation Sorted.
From Akita Require Import Lib.Base Lib.Lts C04.Model.
Local Open Scope N_scope.

Lemma ev_eqb_eq a b : ev_eqb a b = true <-> a = b.
Proof.
  unfold ev_eqb. destruct a as [i t s], b as [i' t' s']; cbn. split.
  - intro H. apply andb_true_iff in H. destruct H as [H H3]. apply andb_true_iff in H. destruct H as [H1 H2].
    apply N.eqb_eq in H1. apply N.eqb_eq in H2. apply Bool.eqb_prop in H3. subst. reflexivity.
  - intro H. inversion H; subst. rewrite !N.eqb_refl, Bool.eqb_reflx. reflexivity.
Qed.

Lemma ev_eqb_refl a : ev_eqb a a = true.
Proof. apply ev_eqb_eq. reflexivity. Qed.

Lemma arun_app {A} (f : A -> lbl -> option A) tr1 tr2 a :
  arun f (tr1 ++ tr2) a = match arun f tr1 a with Some a' => arun f tr2 a' | None => None end.
Proof.
  revert a. induction tr1 as [|l r IH]; intro a; cbn [arun app]; [reflexivity|].
  destruct (f a l); [apply IH|reflexivity].
Qed.

Lemma arun_snoc {A} (f : A -> lbl -> option A) tr l a :
  arun f (tr ++ [l]) a = match arun f tr a with Some a' => f a' l | None => None end.
Proof.
  rewrite arun_app. destruct (arun f tr a) as [a'|]; [|reflexivity].
  cbn [arun]. destruct (f a' l); reflexivity.
Qed.

(** ** queues *)
Definition tsorted (q : list ev) : Prop := StronglySorted (fun a b => ev_time a <= ev_time b) q.

Lemma q_insert_perm e q : Permutation (q_insert e q) (e :: q).
Proof.
  induction q as [|x r IH]; cbn [q_insert]; [apply Permutation_refl|].
  destruct (ev_time e <? ev_time x); [apply Permutation_refl|].
  eapply perm_trans; [apply perm_skip, IH|apply perm_swap].
Qed.

Lemma q_insert_sorted e q : tsorted q -> tsorted (q_insert e q).
Proof.
  unfold tsorted. induction q as [|x r IH]; intro Hs; cbn [q_insert].
  - constructor; constructor.
  - destruct (ev_time e <? ev_time x) eqn:E.
    + constructor; [exact Hs|]. constructor; [lia|].
      inversion Hs as [|? ? _ Hall]; subst.
      eapply Forall_impl; [|exact Hall]. cbn. intros a Ha. lia.
    + inversion Hs as [|? ? Hr Hall]; subst. constructor; [apply IH, Hr|].
      eapply Permutation_Forall; [apply Permutation_sym, q_insert_perm|].
      constructor; [lia|exact Hall].
Qed.

Lemma tsorted_tail x r : tsorted (x :: r) -> tsorted r.
Proof. intro H. inversion H; assumption. Qed.

Lemma tsorted_head_le x r : tsorted (x :: r) -> Forall (fun y => ev_time x <= ev_time y) (x :: r).
Proof. intro H. inversion H; subst. constructor; [lia|assumption]. Qed.

Lemma upd_nth_length {A} i (f : A -> A) l : length (upd_nth i f l) = length l.
Proof. revert i. induction l as [|x r IH]; intros [|i]; cbn; auto. Qed.

Lemma concat_upd_insert c : forall q (qs : list (list ev)), (q < length qs)%nat ->
  Permutation (concat (upd_nth q (q_insert c) qs)) (c :: concat qs).
Proof.
  intros q qs. revert q. induction qs as [|x r IH]; intros [|q] Hq; cbn in *; try lia.
  - apply (Permutation_app_tail (concat r) (q_insert_perm c x)).
  - eapply perm_trans; [apply Permutation_app_head, IH; lia|].
    apply Permutation_sym, Permutation_middle.
Qed.

Lemma concat_upd_pop : forall i (qs : list (list ev)) x r, nth i qs [] = x :: r ->
  Permutation (concat qs) (x :: concat (upd_nth i (fun _ => r) qs)).
Proof.
  intros i qs. revert i. induction qs as [|q qs IH]; intros [|i] x r Hn; cbn in *; try discriminate.
  - subst q. apply Permutation_refl.
  - eapply perm_trans; [apply Permutation_app_head, (IH _ _ _ Hn)|].
    apply Permutation_sym, Permutation_middle.
Qed.

Lemma Forall_upd_nth {A} (P : A -> Prop) i f l :
  Forall P l -> (forall x, P x -> P (f x)) -> Forall P (upd_nth i f l).
Proof.
  revert i. induction l as [|x r IH]; intros [|i] H Hf; cbn; auto; inversion H; subst; constructor; auto.
Qed.

Lemma Forall_upd_nth_const {A} (P : A -> Prop) i y l :
  Forall P l -> P y -> Forall P (upd_nth i (fun _ => y) l).
Proof. intros H Hy. apply Forall_upd_nth; auto. Qed.

Lemma nth_Forall {A} (P : A -> Prop) i l d : Forall P l -> P d -> P (nth i l d).
Proof.
  revert i. induction l as [|x r IH]; intros [|i] H Hd; cbn; auto; inversion H; subst; auto.
Qed.

(** earliestTimeInQueueGroup is a lower bound of every queued time (sorted queues) *)
Lemma earliest_le qs : Forall tsorted qs -> Forall (fun x => earliest qs <= ev_time x) (concat qs).
Proof.
  induction qs as [|q r IH]; intro H; cbn [concat earliest]; [constructor|].
  inversion H as [|? ? Hq Hr]; subst. specialize (IH Hr).
  apply Forall_app. split.
  - destruct q as [|x q']; [constructor|].
    pose proof (tsorted_head_le _ _ Hq) as Hh.
    eapply Forall_impl; [|exact Hh]. cbn. intros a Ha.
    destruct (ev_time x <? earliest r) eqn:E; lia.
  - eapply Forall_impl; [|exact IH]. cbn. intros a Ha.
    destruct q as [|x q']; [exact Ha|]. destruct (ev_time x <? earliest r) eqn:E; lia.
Qed.

Lemma earliest_max qs : earliest qs <= max_time.
Proof.
  induction qs as [|q r IH]; cbn [earliest]; [lia|].
  destruct q as [|x q']; [exact IH|]. destruct (ev_time x <? earliest r) eqn:E; lia.
Qed.

Lemma earliest_ge lo qs : lo <= max_time -> Forall (fun x => lo <= ev_time x) (concat qs) -> lo <= earliest qs.
Proof.
  intros Hlo. induction qs as [|q r IH]; intro H; cbn [concat earliest] in *; [exact Hlo|].
  apply Forall_app in H. destruct H as [Hq Hr]. specialize (IH Hr).
  destruct q as [|x q']; [exact IH|]. inversion Hq; subst.
  destruct (ev_time x <? earliest r) eqn:E; lia.
Qed.

Lemma all_empty_concat qs : all_empty qs = true -> concat qs = [].
Proof.
  induction qs as [|q r IH]; cbn; auto. destruct q; [|discriminate]. cbn. exact IH.
Qed.

(** ** workers *)
Definition is_fin (w : wstate) : bool := match w with WFinished => true | _ => false end.
Definition is_run (w : wstate) : bool := match w with WRun _ _ => true | _ => false end.

Definition pending_ws (ws : list (ev * wstate)) : list ev := map fst (filter (fun w => negb (is_fin (snd w))) ws).
Definition open_ws (ws : list (ev * wstate)) : list ev := map fst (filter (fun w => is_run (snd w)) ws).

Lemma pending_ws_app a b : pending_ws (a ++ b) = pending_ws a ++ pending_ws b.
Proof. unfold pending_ws. rewrite filter_app, map_app. reflexivity. Qed.

Lemma open_ws_app a b : open_ws (a ++ b) = open_ws a ++ open_ws b.
Proof. unfold open_ws. rewrite filter_app, map_app. reflexivity. Qed.

Lemma all_finished_pending ws : all_finished ws = true -> pending_ws ws = [] /\ open_ws ws = [].
Proof.
  induction ws as [|[e st] r IH]; cbn; auto. destruct st; try discriminate. exact IH.
Qed.

(** effect of replacing worker i *)
Lemma upd_ws_split {A} i (ws : list A) w w' :
  nth_error ws i = Some w -> exists a b, ws = a ++ w :: b /\ upd_nth i (fun _ => w') ws = a ++ w' :: b /\ length a = i.
Proof.
  revert i. induction ws as [|x r IH]; intros [|i] H; cbn in *; try discriminate.
  - inversion H; subst. exists [], r. auto.
  - destruct (IH i H) as [a [b [E1 [E2 E3]]]]. exists (x :: a), b. cbn. rewrite <- E1, E2, E3. auto.
Qed.

Lemma forallb_perm {A} (f : A -> bool) l l' : Permutation l l' -> forallb f l = forallb f l'.
Proof.
  induction 1; cbn; auto.
  - rewrite IHPermutation. reflexivity.
  - destruct (f x), (f y); reflexivity.
  - congruence.
Qed.

Lemma existsb_perm {A} (f : A -> bool) l l' : Permutation l l' -> existsb f l = existsb f l'.
Proof.
  induction 1; cbn; auto.
  - rewrite IHPermutation. reflexivity.
  - destruct (f x), (f y); reflexivity.
  - congruence.
Qed.

Lemma mem_ev_in e l : mem_ev e l = true <-> In e l.
Proof.
  unfold mem_ev. rewrite existsb_exists. split.
  - intros [x [Hin Hx]]. apply ev_eqb_eq in Hx. subst. exact Hin.
  - intro H. exists e. split; [exact H|apply ev_eqb_refl].
Qed.

Lemma remove_ev_perm e l l' : Permutation l (e :: l') -> Permutation (remove_ev e l) l'.
Proof.
  revert l'. induction l as [|x r IH]; intros l' H.
  - apply Permutation_nil in H. discriminate.
  - cbn [remove_ev]. destruct (ev_eqb x e) eqn:E.
    + apply ev_eqb_eq in E. subst. apply Permutation_cons_inv in H. exact H.
    + assert (Hin : In x l').
      { assert (In x (e :: l')) by (eapply Permutation_in; [exact H|left; reflexivity]).
        destruct H0 as [H0|H0]; [subst; rewrite ev_eqb_refl in E; discriminate|exact H0]. }
      apply in_split in Hin. destruct Hin as [l1 [l2 ->]].
      eapply perm_trans; [|apply Permutation_middle].
      apply perm_skip. apply IH.
      apply Permutation_cons_inv with (a := x).
      eapply perm_trans; [exact H|].
      eapply perm_trans; [|apply perm_swap].
      apply perm_skip. apply Permutation_sym, Permutation_middle.
Qed.

Lemma Forall_perm {A} (P : A -> Prop) l l' : Permutation l l' -> Forall P l -> Forall P l'.
Proof. intros Hp H. eapply Permutation_Forall; eauto. Qed.

Lemma forallb_Forall {A} (f : A -> bool) l : Forall (fun x => f x = true) l -> forallb f l = true.
Proof. intro H. apply forallb_forall. apply Forall_forall. exact H. Qed.

Fixpoint mono_from (hi : N) (l : list (N * bool)) : bool :=
  match l with
  | [] => true
  | (t, _) :: r => (t <=? hi) && mono_from t r
  end.
