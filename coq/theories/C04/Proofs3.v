(** C04 — initial states, and the theorems that follow from the invariant. *)
From Coq Require Import Permutation Sorted.
From Akita Require Import Lib.Base Lib.Lts C04.Model C04.Proofs1 C04.Proofs2 C04.Proofs2b.
Local Open Scope N_scope.

Lemma kids_causal prog : causal prog.
Proof.
  intros e c Hc. unfold kids in Hc. apply in_map_iff in Hc. destruct Hc as [x [<- _]]. cbn. lia.
Qed.

Record PreInv (s : est) : Prop := {
  p_pc : e_pc s = ECheck; p_ws : e_ws s = []; p_tr : e_trace s = []; p_now : e_now s = 0;
  p_h : e_handled s = []; p_r : e_rounds s = []; p_pan : e_panic s = false;
  p_lenp : length (e_pqs s) = e_nq s; p_lens : length (e_sqs s) = e_nq s;
  p_pch : Forall (fun q => (q < e_nq s)%nat) (e_pch s); p_sch : Forall (fun q => (q < e_nq s)%nat) (e_sch s);
  p_pne : e_pch s <> []; p_sne : e_sch s <> [];
  p_sortp : Forall tsorted (e_pqs s); p_sorts : Forall tsorted (e_sqs s);
  p_kindp : Forall (fun x => ev_sec x = false) (concat (e_pqs s));
  p_kinds : Forall (fun x => ev_sec x = true) (concat (e_sqs s));
  p_cons : Permutation (e_sched s) (queued s)
}.

Lemma concat_repeat_nil {A} n : concat (repeat (@nil A) n) = [].
Proof. induction n; cbn; auto. Qed.

Lemma PreInv_empty nq : (1 <= nq)%nat -> PreInv (e_empty nq).
Proof.
  intro H. constructor; cbn; auto.
  - apply repeat_length.
  - apply repeat_length.
  - apply Forall_forall. intros x Hx. apply in_seq in Hx. lia.
  - apply Forall_forall. intros x Hx. apply in_seq in Hx. lia.
  - destruct nq; [lia|discriminate].
  - destruct nq; [lia|discriminate].
  - apply Forall_forall. intros x Hx. apply repeat_spec in Hx. subst. constructor.
  - apply Forall_forall. intros x Hx. apply repeat_spec in Hx. subst. constructor.
  - rewrite concat_repeat_nil. constructor.
  - rewrite concat_repeat_nil. constructor.
  - unfold queued. cbn. rewrite !concat_repeat_nil. constructor.
Qed.

Lemma PreInv_push e s : PreInv s -> PreInv (push_init e s) /\ e_sched (push_init e s) = e :: e_sched s.
Proof.
  intros [H1 H2 H3 H4 H5 H6 H7 H8 H9 H10 H11 H12 H13 H14 H15 H16 H17 H18].
  destruct s as [pc nq now sec pqs sqs pch sch ws panic schd handled trace rounds ext].
  unfold push_init, queued in *. cbn [e_pc e_nq e_now e_sec e_pqs e_sqs e_pch e_sch e_ws e_panic e_sched e_handled e_trace e_rounds] in *.
  destruct (ev_sec e) eqn:Es.
  - destruct sch as [|q r]; [congruence|]. inversion H11; subst. split; [|reflexivity].
    constructor; cbn [e_pc e_nq e_now e_sec e_pqs e_sqs e_pch e_sch e_ws e_panic e_sched e_handled e_trace e_rounds]; unfold queued; cbn [e_pqs e_sqs]; auto.
    + rewrite upd_nth_length. auto.
    + apply Forall_app. split; auto.
    + intro E. apply app_eq_nil in E. destruct E; discriminate.
    + apply Forall_upd_nth; auto. intros x Hx. apply q_insert_sorted, Hx.
    + eapply Forall_perm; [apply Permutation_sym, (concat_upd_insert e q sqs ltac:(lia))|]. constructor; auto.
    + eapply perm_trans; [apply perm_skip, H18|]. apply Permutation_sym, queued_insert_s. lia.
  - destruct pch as [|q r]; [congruence|]. inversion H10; subst. split; [|reflexivity].
    constructor; cbn [e_pc e_nq e_now e_sec e_pqs e_sqs e_pch e_sch e_ws e_panic e_sched e_handled e_trace e_rounds]; unfold queued; cbn [e_pqs e_sqs]; auto.
    + rewrite upd_nth_length. auto.
    + apply Forall_app. split; auto.
    + intro E. apply app_eq_nil in E. destruct E; discriminate.
    + apply Forall_upd_nth; auto. intros x Hx. apply q_insert_sorted, Hx.
    + eapply Forall_perm; [apply Permutation_sym, (concat_upd_insert e q pqs ltac:(lia))|]. constructor; auto.
    + eapply perm_trans; [apply perm_skip, H18|]. apply Permutation_sym, queued_insert_p. lia.
Qed.

Lemma PreInv_fold l : forall s, PreInv s ->
  PreInv (fold_left (fun s e => push_init e s) l s) /\
  e_sched (fold_left (fun s e => push_init e s) l s) = rev l ++ e_sched s.
Proof.
  induction l as [|e r IH]; intros s H; cbn [fold_left rev app]; [auto|].
  destruct (PreInv_push e s H) as [H' E]. destruct (IH _ H') as [H'' E'].
  split; [exact H''|]. rewrite E', E, <- app_assoc. reflexivity.
Qed.

Lemma Inv_init prog nq init : (1 <= nq)%nat -> Inv prog init (e_init nq init).
Proof.
  intro Hn. destruct (PreInv_fold init _ (PreInv_empty nq Hn)) as [H E].
  fold (e_init nq init) in H, E. cbn [e_empty e_sched] in E. rewrite app_nil_r in E.
  destruct H as [H1 H2 H3 H4 H5 H6 H7 H8 H9 H10 H11 H12 H13 H14 H15 H16 H17 H18].
  assert (Hq : Permutation init (queued (e_init nq init))).
  { eapply perm_trans; [apply Permutation_rev|]. rewrite <- E. exact H18. }
  constructor; auto.
  - rewrite H4. apply Forall_forall. intros x _. lia.
  - rewrite H2. constructor.
  - exists init, []. rewrite H3. split; [reflexivity|]. unfold live_of. rewrite H2. cbn. split; [exact Hq|constructor].
  - rewrite H5. unfold live_of. rewrite H2. cbn. exact H18.
  - rewrite H6. reflexivity.
  - rewrite H4. unfold max_time. lia.
Qed.

(** Inv does not mention the pause lock / controller part of the state *)
Lemma Inv_set_ext prog init s x : Inv prog init s -> Inv prog init (set_ext s x).
Proof. intros [? ? ? ? ? ? ? ? ? ? ? ? ? ? ? ?]. constructor; auto. Qed.

Lemma FInv_init prog nq init script : (1 <= nq)%nat -> cwf false script = true ->
  FInv prog init (e_init_ctl nq init script).
Proof.
  intros Hn Hc. split; [apply Inv_set_ext, Inv_init, Hn|].
  destruct (PreInv_fold init _ (PreInv_empty nq Hn)) as [H _]. fold (e_init nq init) in H.
  unfold e_init_ctl. constructor; unfold hold; cbn [set_ext e_ext e_pc x_plock x_script x_cheld].
  - rewrite (p_pc _ H). split; discriminate.
  - exact Hc.
  - intros q c E. discriminate.
Qed.

(** Run returns only with empty queues (unless the controller scheduled after that) *)
Definition Inv2 prog init (s : est) : Prop :=
  FInv prog init s /\ (e_pc s = EDone -> x_late (e_ext s) = false -> queued s = []).

Lemma Inv2_step prog init : inductive (step prog false) (Inv2 prog init).
Proof.
  intros t s s' [HF Hd] Hstep. pose proof (FInv_step prog init t s s' HF Hstep) as HF'. split; [exact HF'|].
  destruct HF as [HI HL]. destruct HF' as [HI' _]. pose proof (i_panic _ _ _ HI') as Hnp.
  unfold step in Hstep. rewrite (i_panic _ _ _ HI) in Hstep.
  destruct s as [pc nq now sec pqs sqs pch sch ws panic schd handled trace rounds [plock script cheld late]].
  destruct t as [|i|].
  - unfold step_engine in Hstep. cbn [e_pc e_nq e_now e_sec e_pqs e_sqs e_pch e_sch e_ws e_panic e_sched e_handled e_trace e_rounds e_ext x_plock x_script x_cheld x_late] in Hstep.
    unfold queued in *.
    destruct pc.
    + destruct (all_empty pqs && all_empty sqs) eqn:Ea; inversion Hstep; subst; cbn; try discriminate.
      intros _ _. apply andb_true_iff in Ea. destruct Ea as [Ea1 Ea2].
      rewrite (all_empty_concat _ Ea1), (all_empty_concat _ Ea2). reflexivity.
    + destruct plock; inversion Hstep; subst; cbn; discriminate.
    + destruct (earliest pqs <=? earliest sqs); inversion Hstep; subst; cbn; discriminate.
    + destruct (j <? nq)%nat; [destruct sec; [destruct sch|destruct pch]|]; inversion Hstep; subst; cbn; discriminate.
    + destruct (i <? nq)%nat; [|inversion Hstep; subst; cbn; discriminate].
      unfold round_qs in Hstep. cbn [e_sec e_sqs e_pqs] in Hstep.
      destruct sec.
      * destruct (nth i sqs []) as [|x r] eqn:En; [inversion Hstep; subst; cbn; discriminate|].
        destruct (ev_time x =? now); [inversion Hstep; subst; cbn; discriminate|].
        destruct (ev_time x <? now) eqn:Elt; inversion Hstep; subst; cbn in *; discriminate.
      * destruct (nth i pqs []) as [|x r] eqn:En; [inversion Hstep; subst; cbn; discriminate|].
        destruct (ev_time x =? now); [inversion Hstep; subst; cbn; discriminate|].
        destruct (ev_time x <? now) eqn:Elt; inversion Hstep; subst; cbn in *; discriminate.
    + destruct (all_finished ws); inversion Hstep; subst; cbn; discriminate.
    + inversion Hstep; subst; cbn; discriminate.
    + discriminate.
  - (* a worker step never happens in EDone (no workers there) and keeps the pc *)
    intros Hpc' _.
    assert (Hpc : pc = EDone).
    { unfold step_worker in Hstep. cbn [e_pc e_nq e_now e_sec e_pqs e_sqs e_pch e_sch e_ws e_panic e_sched e_handled e_trace e_rounds e_ext] in Hstep.
      destruct (nth_error ws i) as [[e st]|] eqn:En; [|discriminate].
      destruct st as [|todo held|]; [| |discriminate].
      - inversion Hstep; subst. exact Hpc'.
      - destruct todo as [|c r].
        + inversion Hstep; subst. exact Hpc'.
        + destruct held.
          * destruct (ev_sec c); inversion Hstep; subst; exact Hpc'.
          * destruct (ev_time c <? now) eqn:Elt; [inversion Hstep; subst; cbn in Hnp; discriminate|].
            destruct (ev_sec c); [destruct sch|destruct pch]; inversion Hstep; subst; try exact Hpc'. }
    subst pc. pose proof (i_idle _ _ _ HI eq_refl) as Hws. cbn [e_ws] in Hws. subst ws.
    unfold step_worker in Hstep. cbn [e_ws] in Hstep. destruct i; discriminate.
  - (* the controller never changes the pc; a push after Run returned is recorded as late *)
    unfold step_ctl in Hstep. cbn [e_pc e_nq e_now e_sec e_pqs e_sqs e_pch e_sch e_ws e_panic e_sched e_handled e_trace e_rounds e_ext x_plock x_script x_cheld x_late set_ext set_panic] in Hstep.
    cbn [e_pc e_ext x_late] in Hd. unfold queued in *. cbn [e_pqs e_sqs] in Hd.
    destruct cheld as [[q c]|].
    + destruct script as [|[|id d sc|] r]; try discriminate.
      destruct (ev_sec c); inversion Hstep; subst; cbn; intros Hp Hl; subst pc; cbn in Hl; rewrite orb_true_r in Hl; discriminate.
    + destruct script as [|[|id d sc|] r]; [discriminate| | |].
      * destruct plock; inversion Hstep; subst; cbn; auto.
      * destruct sc; [destruct sch|destruct pch]; inversion Hstep; subst; cbn; auto.
      * destruct plock; inversion Hstep; subst; cbn in *; auto; discriminate.
Qed.

Section Theorems.
  Variable prog : program.
  Variables (nq : nat) (init : list ev) (script : list cop).
  Hypothesis Hnq : (1 <= nq)%nat.
  Hypothesis Hscript : cwf false script = true.

  Definition e_run := run (step prog false).

  Lemma reach_inv o : Inv2 prog init (e_run o (e_init_ctl nq init script)).
  Proof.
    apply (run_invariant (step prog false) (Inv2 prog init) (Inv2_step prog init)).
    split; [apply FInv_init; assumption|].
    destruct (PreInv_fold init _ (PreInv_empty nq Hnq)) as [H _]. fold (e_init nq init) in H.
    unfold e_init_ctl. cbn [set_ext e_pc]. rewrite (p_pc _ H). discriminate.
  Qed.

  (** time order and round discipline, for every interleaving *)
  Theorem par_time_order o :
    let s := e_run o (e_init_ctl nq init script) in
    par_trace_ok init (rev (e_trace s)) = true /\ e_panic s = false /\ mono_from (e_now s) (e_rounds s) = true.
  Proof.
    intro s. destruct (reach_inv o) as [[HI _] _]. fold s in HI.
    destruct (i_acc _ _ _ HI) as [live [open [Hacc _]]].
    split; [|split].
    - unfold par_trace_ok, accepts. rewrite Hacc. reflexivity.
    - apply (i_panic _ _ _ HI).
    - apply (i_mono _ _ _ HI).
  Qed.

  (** exactly once, for every interleaving: at every moment scheduled = handled +
      live; when Run returns (and the controller did not schedule after that)
      every scheduled event has been handled *)
  Theorem par_exactly_once o :
    let s := e_run o (e_init_ctl nq init script) in
    Permutation (e_sched s) (e_handled s ++ pending_ws (e_ws s) ++ queued s) /\
    (e_pc s = EDone -> x_late (e_ext s) = false -> Permutation (e_handled s) (e_sched s)).
  Proof.
    intro s. destruct (reach_inv o) as [[HI _] Hd]. fold s in HI, Hd.
    split; [apply (i_cons _ _ _ HI)|].
    intros Hpc Hl. pose proof (i_cons _ _ _ HI) as Hc. unfold live_of in Hc.
    rewrite (Hd Hpc Hl), (i_idle _ _ _ HI) in Hc by (rewrite Hpc; reflexivity).
    cbn in Hc. rewrite app_nil_r in Hc. apply Permutation_sym, Hc.
  Qed.

  (** state form of the barrier: every executing or spawned handler has the
      round's time and phase; every queued event is not earlier. *)
  Theorem par_state_order o :
    let s := e_run o (e_init_ctl nq init script) in
    Forall (fun w => ev_time (fst w) = e_now s /\ ev_sec (fst w) = e_sec s) (e_ws s) /\
    Forall (fun x => e_now s <= ev_time x) (queued s).
  Proof.
    intro s. destruct (reach_inv o) as [[HI _] _]. fold s in HI. split; [|apply (i_ge _ _ _ HI)].
    eapply Forall_impl; [|apply (i_ws _ _ _ HI)]. intros w [A [B _]]. auto.
  Qed.

  (** a secondary round at t begins (determineWhatToRun, under the pause lock) only
      when no handler is live and every queued primary is strictly later than t *)
  Theorem par_secondary_round_clean o s' :
    let s := e_run o (e_init_ctl nq init script) in
    e_pc s = EDetermine -> step prog false TE s = Some s' -> e_sec s' = true ->
    e_ws s' = [] /\ Forall (fun x => e_now s' < ev_time x) (concat (e_pqs s')) /\ x_plock (e_ext s') = Some false.
  Proof.
    intros s Hpc Hstep Hsec. destruct (reach_inv o) as [[HI HL] _]. fold s in HI, HL.
    unfold step in Hstep. rewrite (i_panic _ _ _ HI) in Hstep. unfold step_engine in Hstep. rewrite Hpc in Hstep.
    pose proof (i_idle _ _ _ HI) as Hidle. rewrite Hpc in Hidle. specialize (Hidle eq_refl).
    pose proof (earliest_le _ (i_sortp _ _ _ HI)) as Hep.
    assert (Hp : x_plock (e_ext s) = Some false) by (apply (l_lock _ HL); rewrite Hpc; reflexivity).
    destruct (earliest (e_pqs s) <=? earliest (e_sqs s)) eqn:Ec; inversion Hstep; subst s'; cbn in *; [discriminate|].
    split; [exact Hidle|]. split; [|exact Hp]. eapply Forall_impl; [|exact Hep]. cbn. intros a Ha. lia.
  Qed.
End Theorems.

(** ** The literal phase clause is false: sibling secondaries of one round.
    Two secondaries s1, s2 at t = 10 on one queue pair; s1 schedules the primary p
    at 10.  Schedule: the round pops s1 and s2; worker 0 starts s1 and schedules p;
    worker 1 then starts s2 while p (a primary of the same instant) is live. *)
Definition corner_prog : program := fun id => if id =? 1 then [(3, 0, false)] else [].
Definition corner_init : list ev := [mk_ev 1 10 true; mk_ev 2 10 true].
Definition corner_oracle : list tid :=
  [TE; TE; TE; TE; TE; TE; TE; TW 0%nat; TW 0%nat; TW 0%nat; TW 1%nat].

Lemma corner_refuted :
  let s := e_run corner_prog corner_oracle (e_init_ctl 1 corner_init []) in
  rev (e_trace s) = [LStart (mk_ev 1 10 true); LSched (mk_ev 1 10 true) (mk_ev 3 10 false); LStart (mk_ev 2 10 true)] /\
  phase_literal_ok corner_init (rev (e_trace s)) = false /\
  par_trace_ok corner_init (rev (e_trace s)) = true.
Proof. vm_compute. repeat split; reflexivity. Qed.
