(** C04 — case evaluators: a scripted program run on the real ParallelEngine with
    the label log (handler start / end / Schedule calls in one atomic logical order). *)
From Akita Require Import Lib.Base Lib.Lts C04.Model.
Local Open Scope N_scope.

Record case := mk_case {
  c_nq : nat;                                  (* GOMAXPROCS when the engine was created (queues per group) *)
  c_init : list ev;
  c_prog : list (N * list (N * N * bool));
  c_fuel : nat;                                (* > number of events *)
  c_pre : list ev;                             (* scheduled by a controller goroutine while the engine is paused, before Run starts *)
  c_mid : bool;                                (* a controller paused / injected at CurrentTime() / continued during the run *)
  o_trace : list lbl;
  o_done : bool;                               (* Run returned *)
  o_panic : bool                               (* Run or a handler panicked *)
}.

Definition memN (x : N) (l : list N) : bool := existsb (N.eqb x) l.
Fixpoint removeN (x : N) (l : list N) : list N :=
  match l with [] => [] | y :: r => if x =? y then r else y :: removeN x r end.

(** consume one round's segment of the log: exactly the ids of the round start
    (with the round's time and phase) and end; Schedule labels pass. *)
Fixpoint seg (t : N) (sec : bool) (tostart open : list N) (tr : list lbl) : option (list lbl) :=
  match tostart, open with
  | [], [] => Some tr
  | _, _ =>
      match tr with
      | [] => None
      | LStart e :: r =>
          if memN (ev_id e) tostart && (ev_time e =? t) && Bool.eqb (ev_sec e) sec
          then seg t sec (removeN (ev_id e) tostart) (ev_id e :: open) r else None
      | LEnd e :: r =>
          if memN (ev_id e) open then seg t sec tostart (removeN (ev_id e) open) r else None
      | LSched _ _ :: r => seg t sec tostart open r
      | LInject _ :: r => seg t sec tostart open r
      end
  end.

Fixpoint segments_ok (rs : list (N * bool * list N)) (tr : list lbl) : bool :=
  match rs with
  | [] => match tr with [] => true | _ => false end
  | (t, sec, ids) :: rest =>
      match seg t sec ids [] tr with
      | Some tr' => segments_ok rest tr'
      | None => false
      end
  end.

(** model prediction = observation: the deterministic round structure is found
    in the log, the log is accepted by the verified acceptor, the run ends. *)
Fixpoint injected (tr : list lbl) : list ev :=
  match tr with [] => [] | LInject c :: r => c :: injected r | _ :: r => injected r end.

Fixpoint drop_injects (tr : list lbl) : list lbl :=
  match tr with [] => [] | LInject _ :: r => drop_injects r | l :: r => l :: drop_injects r end.

Definition check_case (c : case) : bool :=
  let prog := prog_lookup (c_prog c) in
  (* the round structure is schedule-independent unless a controller injects at unknown moments *)
  (if c_mid c then true
   else segments_ok (rounds (c_fuel c) prog (c_init c ++ c_pre c)) (drop_injects (o_trace c)) &&
        list_eqb ev_eqb (injected (o_trace c)) (c_pre c)) &&
  (* c04_no_overlap_across_times, c04_phase_guaranteed: every model trace is accepted *)
  par_trace_ok (c_init c) (o_trace c) &&
  phase_guaranteed_ok (c_init c) (o_trace c) &&
  o_done c && negb (o_panic c).

(** ** the property on the observed log *)
Fixpoint ended (tr : list lbl) : list N :=
  match tr with [] => [] | LEnd e :: r => ev_id e :: ended r | _ :: r => ended r end.

Fixpoint ins (x : N) (l : list N) : list N :=
  match l with [] => [x] | y :: r => if x <=? y then x :: l else y :: ins x r end.
Definition sortN (l : list N) : list N := fold_right ins [] l.

Fixpoint closure (fuel : nat) (prog : program) (work : list ev) : list N :=
  match fuel with
  | O => []
  | S f => match work with
           | [] => []
           | e :: r => ev_id e :: closure f prog (r ++ kids prog e)
           end
  end.

Fixpoint brackets_ok (open : list N) (tr : list lbl) : bool :=
  match tr with
  | [] => match open with [] => true | _ => false end
  | LStart e :: r => negb (memN (ev_id e) open) && brackets_ok (ev_id e :: open) r
  | LEnd e :: r => memN (ev_id e) open && brackets_ok (removeN (ev_id e) open) r
  | _ :: r => brackets_ok open r
  end.

Definition holds_on (c : case) : bool :=
  let prog := prog_lookup (c_prog c) in
  o_done c && negb (o_panic c) &&
  (* every scheduled event handled exactly once *)
  brackets_ok [] (o_trace c) &&
  listN_eqb (sortN (ended (o_trace c))) (sortN (closure (c_fuel c) prog (c_init c ++ injected (o_trace c)))) &&
  (* no event starts while an earlier one is unfinished; rounds do not mix times / phases *)
  par_trace_ok (c_init c) (o_trace c) &&
  (* no secondary starts while a primary of its instant is scheduled and unfinished *)
  phase_literal_ok (c_init c) (o_trace c).
