(** C04 — schedule-independence of the round composition (no controller): the
    pending multiset at every round boundary, and hence the members of every round,
    are those of the deterministic [rounds] iteration, for every interleaving. *)
From Coq Require Import Permutation Sorted.
From Akita Require Import Lib.Base Lib.Lts C04.Model C04.Proofs1 C04.Proofs2 C04.Proofs2b C04.Proofs3 C04.Proofs5.
Local Open Scope N_scope.

(** ** permutation-invariance of the abstract round *)
Lemma min_time_perm a b : Permutation a b -> min_time a = min_time b.
Proof. unfold min_time. induction 1; cbn [fold_right]; lia. Qed.

Lemma filter_perm {A} (f : A -> bool) a b : Permutation a b -> Permutation (filter f a) (filter f b).
Proof.
  induction 1; cbn [filter].
  - constructor.
  - destruct (f x); auto.
  - destruct (f x), (f y); auto. apply perm_swap.
  - eapply perm_trans; eauto.
Qed.

Lemma choice_perm a b : Permutation a b -> choice a = choice b.
Proof.
  intro H. unfold choice. rewrite (min_time_perm _ _ (filter_perm (fun e => negb (ev_sec e)) _ _ H)),
    (min_time_perm _ _ (filter_perm ev_sec _ _ H)). reflexivity.
Qed.

Lemma flat_map_perm {A B} (f : A -> list B) a b : Permutation a b -> Permutation (flat_map f a) (flat_map f b).
Proof.
  induction 1; cbn [flat_map].
  - constructor.
  - apply Permutation_app_head. assumption.
  - rewrite !app_assoc. apply Permutation_app_tail. apply Permutation_app_comm.
  - eapply perm_trans; eauto.
Qed.

Lemma members_perm a b : Permutation a b -> Permutation (members a) (members b).
Proof. intro H. unfold members. rewrite (choice_perm _ _ H). apply filter_perm, H. Qed.

Lemma rest_perm a b : Permutation a b -> Permutation (rest a) (rest b).
Proof. intro H. unfold rest. rewrite (choice_perm _ _ H). apply filter_perm, H. Qed.

Lemma next_perm prog a b : Permutation a b -> Permutation (next_pending prog a) (next_pending prog b).
Proof.
  intro H. unfold next_pending. apply Permutation_app; [apply rest_perm, H|apply flat_map_perm, members_perm, H].
Qed.

Lemma members_rest P : Permutation P (members P ++ rest P).
Proof.
  unfold members, rest. generalize (in_round (fst (choice P)) (snd (choice P))). intro f.
  induction P as [|x r IH]; cbn [filter]; [constructor|].
  destruct (f x); cbn [negb app].
  - apply perm_skip, IH.
  - eapply perm_trans; [apply perm_skip, IH|]. apply Permutation_middle.
Qed.

(** ** the leading run of events at the round's time in a sorted queue *)
Fixpoint prefix_now (now : N) (q : list ev) : list ev :=
  match q with
  | x :: r => if ev_time x =? now then x :: prefix_now now r else []
  | [] => []
  end.

Lemma prefix_now_filter now sec q :
  tsorted q -> Forall (fun x => ev_sec x = sec /\ now <= ev_time x) q ->
  filter (in_round now sec) q = prefix_now now q.
Proof.
  induction q as [|x r IH]; intros Hs Hf; cbn [filter prefix_now]; [reflexivity|].
  inversion Hf as [|? ? [Hx1 Hx2] Hr]; subst. unfold in_round at 1. rewrite Bool.eqb_reflx, andb_true_r.
  destruct (ev_time x =? ev_time x) eqn:Et; [|rewrite N.eqb_refl in Et; discriminate]. clear Et.
  destruct (ev_time x =? now) eqn:E.
  - f_equal. apply IH; [eapply tsorted_tail; eauto|exact Hr].
  - (* everything after x is later than now *)
    apply filter_none. apply tsorted_head_le in Hs. inversion Hs as [|? ? _ Hle]; subst.
    rewrite Forall_forall in *. intros y Hy. specialize (Hle _ Hy). specialize (Hr _ Hy). cbn in Hle.
    unfold in_round. destruct (ev_time y =? now) eqn:E2; [|reflexivity]. apply N.eqb_eq in E2. lia.
Qed.

(** ** worker bookkeeping *)
Section Sim.
  Variable prog : program.

  Definition wtodo (w : ev * wstate) : list ev :=
    match snd w with WSpawned => kids prog (fst w) | WRun todo _ => todo | WFinished => [] end.

  Definition wheld (k : bool) (w : ev * wstate) : list nat :=
    match snd w with
    | WRun (c :: _) (Some q) => if Bool.eqb (ev_sec c) k then [q] else []
    | _ => []
    end.

  Definition held (k : bool) (ws : list (ev * wstate)) : list nat := flat_map (wheld k) ws.
  Definition chan (k : bool) (s : est) : list nat := if k then e_sch s else e_pch s.

  Definition taken (k : bool) (s : est) : nat :=
    if Bool.eqb (e_sec s) k then
      match e_pc s with EEmpty j => j | EScan i => e_nq s - i | _ => 0 end
    else 0%nat.

  (** no controller *)
  Definition noctl (s : est) : Prop := x_script (e_ext s) = [] /\ x_cheld (e_ext s) = None.

  (** every queue is in its channel, checked out by a Schedule call, or taken by the round *)
  Definition G1 (s : est) : Prop :=
    forall k, (length (chan k s) + length (held k (e_ws s)) + taken k s = e_nq s)%nat.
End Sim.
