(** C04 — schedule-independence of the round composition (no controller): the
    pending multiset at every round boundary, and hence the members of every round,
    are those of the deterministic [rounds] iteration, for every interleaving. *)
From Coq Require Import Permutation Sorted.
From Akita Require Import Lib.Base Lib.Lts C04.Model C04.Proofs1 C04.Proofs2 C04.Proofs2b C04.Proofs3 C04.Proofs5.
Local Open Scope N_scope.

(** ** permutation-invariance of the abstract round *)
Lemma min_time_perm a b : Permutation a b -> min_time a = min_time b.
Proof. unfold min_time. induction 1; cbn [fold_right]; lia. Qed.

Lemma filter_perm {A} (f : A -> bool) a b : Permutation a b -> Permutation (filter f a) (filter f b).
Proof.
  induction 1; cbn [filter].
  - constructor.
  - destruct (f x); auto.
  - destruct (f x), (f y); auto. apply perm_swap.
  - eapply perm_trans; eauto.
Qed.

Lemma choice_perm a b : Permutation a b -> choice a = choice b.
Proof.
  intro H. unfold choice. rewrite (min_time_perm _ _ (filter_perm (fun e => negb (ev_sec e)) _ _ H)),
    (min_time_perm _ _ (filter_perm ev_sec _ _ H)). reflexivity.
Qed.

Lemma flat_map_perm {A B} (f : A -> list B) a b : Permutation a b -> Permutation (flat_map f a) (flat_map f b).
Proof.
  induction 1; cbn [flat_map].
  - constructor.
  - apply Permutation_app_head. assumption.
  - rewrite !app_assoc. apply Permutation_app_tail. apply Permutation_app_comm.
  - eapply perm_trans; eauto.
Qed.

Lemma members_perm a b : Permutation a b -> Permutation (members a) (members b).
Proof. intro H. unfold members. rewrite (choice_perm _ _ H). apply filter_perm, H. Qed.

Lemma rest_perm a b : Permutation a b -> Permutation (rest a) (rest b).
Proof. intro H. unfold rest. rewrite (choice_perm _ _ H). apply filter_perm, H. Qed.

Lemma next_perm prog a b : Permutation a b -> Permutation (next_pending prog a) (next_pending prog b).
Proof.
  intro H. unfold next_pending. apply Permutation_app; [apply rest_perm, H|apply flat_map_perm, members_perm, H].
Qed.

Lemma members_rest P : Permutation P (members P ++ rest P).
Proof.
  unfold members, rest. generalize (in_round (fst (choice P)) (snd (choice P))). intro f.
  induction P as [|x r IH]; cbn [filter]; [constructor|].
  destruct (f x); cbn [negb app].
  - apply perm_skip, IH.
  - eapply perm_trans; [apply perm_skip, IH|]. apply Permutation_middle.
Qed.

(** ** the leading run of events at the round's time in a sorted queue *)
Fixpoint prefix_now (now : N) (q : list ev) : list ev :=
  match q with
  | x :: r => if ev_time x =? now then x :: prefix_now now r else []
  | [] => []
  end.

Lemma prefix_now_filter now sec q :
  tsorted q -> Forall (fun x => ev_sec x = sec /\ now <= ev_time x) q ->
  filter (in_round now sec) q = prefix_now now q.
Proof.
  induction q as [|x r IH]; intros Hs Hf; cbn [filter prefix_now]; [reflexivity|].
  inversion Hf as [|? ? [Hx1 Hx2] Hr]; subst. unfold in_round at 1. rewrite Bool.eqb_reflx, andb_true_r.
  destruct (ev_time x =? ev_time x) eqn:Et; [|rewrite N.eqb_refl in Et; discriminate]. clear Et.
  destruct (ev_time x =? now) eqn:E.
  - f_equal. apply IH; [eapply tsorted_tail; eauto|exact Hr].
  - (* everything after x is later than now *)
    apply filter_none. apply tsorted_head_le in Hs. inversion Hs as [|? ? _ Hle]; subst.
    rewrite Forall_forall in *. intros y Hy. specialize (Hle _ Hy). specialize (Hr _ Hy). cbn in Hle.
    unfold in_round. destruct (ev_time y =? now) eqn:E2; [|reflexivity]. apply N.eqb_eq in E2. lia.
Qed.

(** ** worker bookkeeping *)
Section Sim.
  Variable prog : program.

  Definition wtodo (w : ev * wstate) : list ev :=
    match snd w with WSpawned => kids prog (fst w) | WRun todo _ => todo | WFinished => [] end.

  Definition wheld (k : bool) (w : ev * wstate) : list nat :=
    match snd w with
    | WRun (c :: _) (Some q) => if Bool.eqb (ev_sec c) k then [q] else []
    | _ => []
    end.

  Definition held (k : bool) (ws : list (ev * wstate)) : list nat := flat_map (wheld k) ws.
  Definition chan (k : bool) (s : est) : list nat := if k then e_sch s else e_pch s.

  Definition taken (k : bool) (s : est) : nat :=
    if Bool.eqb (e_sec s) k then
      match e_pc s with EEmpty j => j | EScan i => e_nq s - i | _ => 0 end
    else 0%nat.

  (** no controller *)
  Definition noctl (s : est) : Prop := x_script (e_ext s) = [] /\ x_cheld (e_ext s) = None.

  (** every queue is in its channel, checked out by a Schedule call, or taken by the round *)
  Definition G1 (s : est) : Prop :=
    forall k, (length (chan k s) + length (held k (e_ws s)) + taken k s = e_nq s)%nat.
End Sim.

(** ** the queue accounting is an invariant (no controller) *)
Lemma held_app k a b : held k (a ++ b) = held k a ++ held k b.
Proof. unfold held. apply flat_map_app. Qed.

Lemma held_finished k ws : all_finished ws = true -> held k ws = [].
Proof.
  induction ws as [|[e st] r IH]; cbn; auto. destruct st; try discriminate. intro H. cbn. apply IH, H.
Qed.

Ltac efields := cbn [e_pc e_nq e_now e_sec e_pqs e_sqs e_pch e_sch e_ws e_panic e_sched e_handled e_trace e_rounds e_ext set_pc set_panic set_ext x_plock x_script x_cheld x_late] in *.

Lemma wheld_none k e l : wheld k (e, WRun l None) = [].
Proof. unfold wheld. cbn. destruct l; reflexivity. Qed.

Lemma G1_step prog t s s' :
  e_panic s = false -> noctl s -> G1 s -> step prog false t s = Some s' -> e_panic s' = false -> noctl s' /\ G1 s'.
Proof.
  intros Hnp [Hsc Hch] HG Hstep Hnp'. unfold step in Hstep. rewrite Hnp in Hstep.
  destruct s as [pc nq now sec pqs sqs pch sch ws panic schd handled trace rounds [plock script cheld late]].
  unfold noctl, G1, chan, taken in *. efields. subst script cheld panic.
  destruct t as [|i|].
  - (* engine *)
    unfold step_engine in Hstep. efields.
    destruct pc; efields.
    + destruct (all_empty pqs && all_empty sqs); inversion Hstep; subst; efields; repeat split; auto;
        intro k; specialize (HG k); destruct (Bool.eqb sec k); lia.
    + destruct plock; inversion Hstep; subst; efields; repeat split; auto;
        intro k; specialize (HG k); destruct (Bool.eqb sec k); lia.
    + destruct (earliest pqs <=? earliest sqs); inversion Hstep; subst; efields; repeat split; auto;
        intro k; specialize (HG k); destruct (Bool.eqb sec k), k; cbn; lia.
    + destruct (j <? nq)%nat eqn:Ej.
      * apply Nat.ltb_lt in Ej. destruct sec.
        -- destruct sch as [|q r]; inversion Hstep; subst; efields; repeat split; auto;
           try (intro k; specialize (HG k); destruct k; cbn in *; lia).
        -- destruct pch as [|q r]; inversion Hstep; subst; efields; repeat split; auto;
           try (intro k; specialize (HG k); destruct k; cbn in *; lia).
      * apply Nat.ltb_ge in Ej. inversion Hstep; subst; efields; repeat split; auto;
        try (intro k; pose proof (HG sec) as Hs; specialize (HG k); rewrite Bool.eqb_reflx in Hs).
        destruct (Bool.eqb sec k) eqn:E; [|lia]. apply Bool.eqb_prop in E. subst k. lia.
    + destruct (i <? nq)%nat eqn:Ei.
      * apply Nat.ltb_lt in Ei. unfold round_qs in Hstep. efields.
        destruct sec.
        -- destruct (nth i sqs []) as [|x r].
           ++ inversion Hstep; subst; efields; repeat split; auto;
              try (intro k; specialize (HG k); destruct k; cbn in *; rewrite ?app_length; cbn; lia).
           ++ destruct (ev_time x =? now).
              ** inversion Hstep; subst; efields; repeat split; auto;
                 try (intro k; specialize (HG k); rewrite held_app; cbn; rewrite app_nil_r; exact HG).
              ** destruct (ev_time x <? now); inversion Hstep; subst; efields; [discriminate|]; repeat split; auto;
                   intro k; specialize (HG k); destruct k; cbn in *; rewrite ?app_length; cbn; lia.
        -- destruct (nth i pqs []) as [|x r].
           ++ inversion Hstep; subst; efields; repeat split; auto;
              try (intro k; specialize (HG k); destruct k; cbn in *; rewrite ?app_length; cbn; lia).
           ++ destruct (ev_time x =? now).
              ** inversion Hstep; subst; efields; repeat split; auto;
                 try (intro k; specialize (HG k); rewrite held_app; cbn; rewrite app_nil_r; exact HG).
              ** destruct (ev_time x <? now); inversion Hstep; subst; efields; [discriminate|]; repeat split; auto;
                   intro k; specialize (HG k); destruct k; cbn in *; rewrite ?app_length; cbn; lia.
      * apply Nat.ltb_ge in Ei. inversion Hstep; subst; efields; repeat split; auto;
        try (intro k; specialize (HG k); destruct (Bool.eqb sec k); lia).
    + destruct (all_finished ws) eqn:Ef; inversion Hstep; subst; efields; repeat split; auto;
      try (intro k; specialize (HG k); rewrite (held_finished k ws Ef) in HG; destruct (Bool.eqb sec k); cbn in *; lia).
    + inversion Hstep; subst; efields; repeat split; auto;
      try (intro k; specialize (HG k); destruct (Bool.eqb sec k); lia).
    + discriminate.
  - (* worker *)
    unfold step_worker in Hstep. efields.
    destruct (nth_error ws i) as [[e st]|] eqn:En; [|discriminate].
    assert (Hsplit : forall w', exists a b, ws = a ++ (e, st) :: b /\ upd_nth i (fun _ => w') ws = a ++ w' :: b).
    { intro w'. destruct (upd_ws_split i ws (e, st) w' En) as [a [b [E1 [E2 _]]]]. eauto. }
    assert (Hh : forall k a b w, held k (a ++ w :: b) = held k a ++ wheld k w ++ held k b).
    { intros k a b w. rewrite held_app. cbn. reflexivity. }
    destruct st as [|todo hq|]; [| |discriminate].
    + inversion Hstep; subst s'; efields. destruct (Hsplit (e, WRun (kids prog e) None)) as [a [b [E1 E2]]]. rewrite E2.
      repeat split; auto. intro k. specialize (HG k). rewrite E1, Hh in HG. rewrite Hh, wheld_none. cbn [wheld snd] in *. exact HG.
    + destruct todo as [|c r].
      * inversion Hstep; subst s'; efields. destruct (Hsplit (e, WFinished)) as [a [b [E1 E2]]]. rewrite E2.
        repeat split; auto. intro k. specialize (HG k). rewrite E1, Hh in HG. rewrite Hh. cbn [wheld snd] in *. exact HG.
      * destruct hq as [q|].
        -- destruct (Hsplit (e, WRun r None)) as [a [b [E1 E2]]].
           destruct (ev_sec c) eqn:Esc; inversion Hstep; subst s'; efields; rewrite E2; repeat split; auto;
             intro k; specialize (HG k); rewrite E1, Hh in HG; rewrite Hh, wheld_none; cbn [wheld snd] in *; rewrite Esc in HG;
             destruct k; cbn in *; rewrite ?app_length in *; cbn in *; lia.
        -- destruct (ev_time c <? now); [inversion Hstep; subst; efields; discriminate|].
           destruct (ev_sec c) eqn:Esc.
           ++ destruct sch as [|q ch]; [discriminate|]. destruct (Hsplit (e, WRun (c :: r) (Some q))) as [a [b [E1 E2]]].
              inversion Hstep; subst s'; efields. rewrite E2. repeat split; auto.
              intro k; specialize (HG k); rewrite E1, Hh, wheld_none in HG; rewrite Hh; cbn [wheld snd] in *; rewrite Esc;
                destruct k; cbn in *; rewrite ?app_length in *; cbn in *; lia.
           ++ destruct pch as [|q ch]; [discriminate|]. destruct (Hsplit (e, WRun (c :: r) (Some q))) as [a [b [E1 E2]]].
              inversion Hstep; subst s'; efields. rewrite E2. repeat split; auto.
              intro k; specialize (HG k); rewrite E1, Hh, wheld_none in HG; rewrite Hh; cbn [wheld snd] in *; rewrite Esc;
                destruct k; cbn in *; rewrite ?app_length in *; cbn in *; lia.
  - (* the controller has nothing to do *)
    unfold step_ctl in Hstep. efields. discriminate.
Qed.

Theorem queue_accounting prog nq init o :
  (1 <= nq)%nat ->
  let s := e_run prog o (e_init_ctl nq init []) in
  G1 s /\
  (* when the scan of a round starts the engine holds every queue of the round's kind:
     none is in the channel, none is checked out by a Schedule call *)
  (e_pc s = EScan 0 -> chan (e_sec s) s = [] /\ held (e_sec s) (e_ws s) = []).
Proof.
  intros Hn s.
  assert (H : Inv2 prog init s /\ noctl s /\ G1 s).
  { unfold s, e_run.
    apply (run_invariant (step prog false) (fun s => Inv2 prog init s /\ noctl s /\ G1 s)).
    - intros t s0 s1 [HI2 [Hnc HG]] Hstep.
      pose proof (Inv2_step prog init t s0 s1 HI2 Hstep) as HI2'. split; [exact HI2'|].
      destruct HI2 as [[HI _] _]. destruct HI2' as [[HI' _] _].
      apply (G1_step prog t s0 s1 (i_panic _ _ _ HI) Hnc HG Hstep (i_panic _ _ _ HI')).
    - split; [|split].
      + split; [apply FInv_init; auto|].
        destruct (PreInv_fold init _ (PreInv_empty nq Hn)) as [H _]. fold (e_init nq init) in H.
        unfold e_init_ctl. cbn [set_ext e_pc]. rewrite (p_pc _ H). discriminate.
      + split; reflexivity.
      + destruct (PreInv_fold init _ (PreInv_empty nq Hn)) as [H _]. fold (e_init nq init) in H.
        intro k. unfold chan, taken, e_init_ctl. cbn [set_ext e_sch e_pch e_ws e_pc e_sec e_nq].
        rewrite (p_ws _ H), (p_pc _ H). cbn [held flat_map length].
        (* the channels of the initial state hold every queue *)
        assert (Hlen : length (e_pch (e_init nq init)) = e_nq (e_init nq init) /\ length (e_sch (e_init nq init)) = e_nq (e_init nq init)).
        { unfold e_init. generalize init. clear. intro l.
          assert (G : forall s, length (e_pch s) = e_nq s /\ length (e_sch s) = e_nq s ->
                      length (e_pch (fold_left (fun s e => push_init e s) l s)) = e_nq (fold_left (fun s e => push_init e s) l s) /\
                      length (e_sch (fold_left (fun s e => push_init e s) l s)) = e_nq (fold_left (fun s e => push_init e s) l s)).
          { induction l as [|e r IH]; intros s [A B]; cbn [fold_left]; [auto|]. apply IH.
            unfold push_init. destruct (ev_sec e).
            - destruct (e_sch s) as [|q ch] eqn:E; [rewrite E; auto|]. cbn [e_pch e_sch e_nq]. rewrite ?app_length. cbn [length] in *. split; [exact A|lia].
            - destruct (e_pch s) as [|q ch] eqn:E; [rewrite E; auto|]. cbn [e_pch e_sch e_nq]. rewrite ?app_length. cbn [length] in *. split; [lia|exact B]. }
          apply G. cbn. rewrite !seq_length. auto. }
        destruct Hlen as [A B]. destruct (Bool.eqb _ k), k; lia. }
  destruct H as [_ [_ HG]]. split; [exact HG|].
  intro Hpc. specialize (HG (e_sec s)). unfold taken in HG. rewrite Bool.eqb_reflx, Hpc in HG.
  assert (L1 : length (chan (e_sec s) s) = 0%nat) by lia.
  assert (L2 : length (held (e_sec s) (e_ws s)) = 0%nat) by lia.
  split; [destruct (chan (e_sec s) s)|destruct (held (e_sec s) (e_ws s))]; auto; discriminate.
Qed.
