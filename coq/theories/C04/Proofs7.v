(** C04 — schedule-independence of the round composition, no controller: the
    per-queue snapshot invariant, the child-conservation invariant and the
    simulation of the deterministic [rounds] iteration by every interleaving. *)
From Coq Require Import Permutation Sorted.
From Akita Require Import Lib.Base Lib.Lts C04.Model C04.Proofs1 C04.Proofs2 C04.Proofs2b C04.Proofs3 C04.Proofs5 C04.Proofs6.
Local Open Scope N_scope.

(** ** a multiset solver: Permutation goals as linear arithmetic over occurrence counts *)
Definition ev_dec : forall a b : ev, {a = b} + {a <> b}.
Proof. decide equality; [apply Bool.bool_dec|apply N.eq_dec|apply N.eq_dec]. Defined.

Ltac perm_lia :=
  let z := fresh "z" in
  apply (Permutation_count_occ ev_dec); intro z;
  repeat match goal with
         | H : Permutation _ _ |- _ =>
             let H' := fresh "Hc" in pose proof (proj1 (Permutation_count_occ ev_dec _ _) H z) as H'; clear H
         end;
  rewrite ?count_occ_app in *; cbn [count_occ] in *; rewrite ?count_occ_app in *;
  repeat match goal with
         | |- context [ev_dec ?a z] => destruct (ev_dec a z)
         | H : context [ev_dec ?a z] |- _ => destruct (ev_dec a z)
         end; lia.

(** ** list helpers *)
Lemma nth_upd_same {A} i (f : A -> A) l d : (i < length l)%nat -> nth i (upd_nth i f l) d = f (nth i l d).
Proof. revert i. induction l as [|x r IH]; intros [|i] H; cbn in *; try lia; auto. apply IH. lia. Qed.

Lemma nth_upd_other {A} i j (f : A -> A) l d : i <> j -> nth j (upd_nth i f l) d = nth j l d.
Proof.
  revert i j. induction l as [|x r IH]; intros [|i] [|j] H; cbn; auto; try congruence.
Qed.

Definition scanned (now : N) (i : nat) (Q0 : list (list ev)) : list ev := concat (map (prefix_now now) (firstn i Q0)).

Lemma scanned_S now i Q0 : scanned now (S i) Q0 = scanned now i Q0 ++ prefix_now now (nth i Q0 []).
Proof.
  unfold scanned. revert i. induction Q0 as [|x r IH]; intro i.
  - rewrite !firstn_nil. destruct i; reflexivity.
  - destruct i as [|i].
    + cbn. rewrite app_nil_r. reflexivity.
    + rewrite !firstn_cons. cbn [map concat nth]. rewrite IH, app_assoc. reflexivity.
Qed.

Lemma scanned_all now i Q0 : (length Q0 <= i)%nat -> scanned now i Q0 = concat (map (prefix_now now) Q0).
Proof. intro H. unfold scanned. rewrite firstn_all2; auto. Qed.

Lemma filter_concat {A} (f : A -> bool) l : filter f (concat l) = concat (map (filter f) l).
Proof. induction l as [|x r IH]; cbn; [reflexivity|]. rewrite filter_app, IH. reflexivity. Qed.

Lemma Forall_concat {A} (P : A -> Prop) l : Forall P (concat l) -> Forall (Forall P) l.
Proof.
  induction l as [|x r IH]; cbn; intro H; constructor; apply Forall_app in H; destruct H; auto.
Qed.

Lemma all_empty_false_queued pqs sqs : all_empty pqs && all_empty sqs = false -> concat pqs ++ concat sqs <> [].
Proof.
  intros H E. apply app_eq_nil in E. destruct E as [E1 E2].
  assert (G : forall qs : list (list ev), concat qs = [] -> all_empty qs = true).
  { induction qs as [|q r IH]; cbn; auto. intro E. apply app_eq_nil in E. destruct E as [-> E]. cbn. apply IH, E. }
  rewrite (G _ E1), (G _ E2) in H. discriminate.
Qed.

(** the members of the round, read off the queue snapshot *)
Lemma members_snapshot now sec (Q O : list (list ev)) :
  Forall tsorted Q -> Forall (fun x => ev_sec x = sec) (concat Q) -> Forall (fun x => now <= ev_time x) (concat Q) ->
  Forall (fun x => ev_sec x = negb sec) (concat O) ->
  filter (in_round now sec) (concat Q) = concat (map (prefix_now now) Q) /\ filter (in_round now sec) (concat O) = [].
Proof.
  intros Hs Hk Hg Ho. split.
  - rewrite filter_concat. f_equal. apply Forall_concat in Hk. apply Forall_concat in Hg.
    induction Q as [|q r IH]; cbn [map]; [reflexivity|].
    inversion Hs; inversion Hk; inversion Hg; subst. f_equal; [|apply IH; auto].
    apply prefix_now_filter; auto. rewrite Forall_forall in *. intros x Hx. split; auto.
  - apply filter_none. eapply Forall_impl; [|exact Ho]. cbn. intros x Hx. unfold in_round. rewrite Hx.
    destruct sec; cbn; apply andb_false_r.
Qed.

Section Sim.
  Variable prog : program.
  Variable init : list ev.

  Fixpoint iter (n : nat) (P : list ev) : list ev :=
    match n with O => P | S k => next_pending prog (iter k P) end.

  Lemma iter_shift n P : iter n (next_pending prog P) = next_pending prog (iter n P).
  Proof. induction n as [|n IH]; cbn [iter]; [reflexivity|]. rewrite IH. reflexivity. Qed.

  Definition rpc (pc : epc) : bool := match pc with EEmpty _ | EScan _ | EWait => true | _ => false end.

  Definition dyn (Q0 : list (list ev)) (s : est) : Prop :=
    match e_pc s with
    | EEmpty j => round_qs s = Q0 /\ e_ws s = []
    | EScan i =>
        (i <= e_nq s)%nat /\ (forall q, (i < q)%nat -> nth q (round_qs s) [] = nth q Q0 []) /\
        map fst (e_ws s) ++ prefix_now (e_now s) (nth i (round_qs s) []) = scanned (e_now s) (S i) Q0 /\
        Forall (fun q => (q < i)%nat) (chan (e_sec s) s) /\ Forall (fun q => (q < i)%nat) (held (e_sec s) (e_ws s))
    | EWait => map fst (e_ws s) = scanned (e_now s) (e_nq s) Q0
    | _ => True
    end.

  Definition Mid (P : list ev) (s : est) : Prop :=
    (e_now s, e_sec s) = choice P /\
    Permutation (queued s ++ map fst (e_ws s) ++ flat_map (wtodo prog) (e_ws s)) (P ++ flat_map (kids prog) (map fst (e_ws s))) /\
    exists Q0, length Q0 = e_nq s /\ Permutation (members P) (scanned (e_now s) (e_nq s) Q0) /\ dyn Q0 s.
End Sim.

Ltac efields := cbn [e_pc e_nq e_now e_sec e_pqs e_sqs e_pch e_sch e_ws e_panic e_sched e_handled e_trace e_rounds e_ext set_pc set_panic set_ext x_plock x_script x_cheld x_late] in *.

Ltac inv_step :=
  match goal with
  | H : None = Some _ |- _ => discriminate H
  | H : Some _ = Some ?x |- _ => is_var x; inversion H; subst x; clear H
  end.

Lemma wtodo_finished prog ws : all_finished ws = true -> flat_map (wtodo prog) ws = [].
Proof.
  induction ws as [|[e st] r IH]; cbn; auto. destruct st; try discriminate. intro H. cbn. apply IH, H.
Qed.

Lemma prefix_now_head_ne now x r : (ev_time x =? now) = false -> prefix_now now (x :: r) = [].
Proof. intro H. cbn. rewrite H. reflexivity. Qed.

Ltac open_goal := cbn [rpc]; unfold Mid, dyn, queued, round_qs, chan; efields; cbv iota.

Section Steps.
  Variable prog : program.
  Variable init : list ev.

  (** entering a round: determineWhatToRun *)
  Lemma Mid_enter P s s' :
    Inv prog init s -> Inv prog init s' -> e_pc s = EDetermine -> step_engine false s = Some s' ->
    Permutation (queued s) P ->
    Mid prog P s' /\ e_pc s' = EEmpty 0 /\ e_rounds s' = choice P :: e_rounds s /\ queued s' = queued s.
  Proof.
    intros HI HI' Hpc Hstep HP.
    pose proof (i_idle _ _ _ HI) as Hidle. rewrite Hpc in Hidle. specialize (Hidle eq_refl).
    pose proof (i_kindp _ _ _ HI) as Hkp. pose proof (i_kinds _ _ _ HI) as Hks.
    assert (Hfp : filter (fun e => negb (ev_sec e)) (queued s) = concat (e_pqs s)).
    { unfold queued. rewrite filter_app, filter_all, filter_none, app_nil_r; auto.
      - eapply Forall_impl; [|exact Hks]. cbn. intros a ->. reflexivity.
      - eapply Forall_impl; [|exact Hkp]. cbn. intros a ->. reflexivity. }
    assert (Hfs : filter ev_sec (queued s) = concat (e_sqs s)).
    { unfold queued. rewrite filter_app, filter_none, filter_all; auto. }
    assert (Hch : choice P = choice (queued s)) by (apply choice_perm, Permutation_sym, HP).
    assert (Hchoice : choice (queued s) = (if earliest (e_pqs s) <=? earliest (e_sqs s) then (earliest (e_pqs s), false) else (earliest (e_sqs s), true))).
    { unfold choice. rewrite Hfp, Hfs, <- (earliest_min_time _ (i_sortp _ _ _ HI)), <- (earliest_min_time _ (i_sorts _ _ _ HI)). reflexivity. }
    pose proof (i_ge _ _ _ HI') as Hge'. pose proof (i_sortp _ _ _ HI') as Hsp'. pose proof (i_sorts _ _ _ HI') as Hss'.
    pose proof (i_kindp _ _ _ HI') as Hkp'. pose proof (i_kinds _ _ _ HI') as Hks'.
    pose proof (i_lenp _ _ _ HI') as Hlp'. pose proof (i_lens _ _ _ HI') as Hls'.
    destruct s as [pc nq now sec pqs sqs pch sch ws panic schd handled trace rounds ext]. efields. subst pc ws.
    unfold step_engine in Hstep. efields. unfold queued in *. efields.
    destruct (earliest pqs <=? earliest sqs) eqn:Ec; inversion Hstep; subst s'; clear Hstep; efields;
      (split; [|repeat split; auto; congruence]); unfold Mid, queued; efields; rewrite Hch, Hchoice.
    - split; [reflexivity|]. split; [cbn; rewrite !app_nil_r; exact HP|].
      exists pqs. split; [exact Hlp'|]. split; [|unfold dyn, round_qs; efields; auto].
      apply Forall_app in Hge'. destruct Hge' as [Hg1 Hg2].
      destruct (members_snapshot (earliest pqs) false pqs sqs Hsp' Hkp' Hg1 Hks') as [A B].
      unfold members. rewrite Hch, Hchoice. cbn [fst snd].
      eapply perm_trans; [apply filter_perm, Permutation_sym, HP|].
      rewrite filter_app, A, B, app_nil_r, scanned_all by lia. apply Permutation_refl.
    - split; [reflexivity|]. split; [cbn; rewrite !app_nil_r; exact HP|].
      exists sqs. split; [exact Hls'|]. split; [|unfold dyn, round_qs; efields; auto].
      apply Forall_app in Hge'. destruct Hge' as [Hg1 Hg2].
      destruct (members_snapshot (earliest sqs) true sqs pqs Hss' Hks' Hg2 Hkp') as [A B].
      unfold members. rewrite Hch, Hchoice. cbn [fst snd].
      eapply perm_trans; [apply filter_perm, Permutation_sym, HP|].
      rewrite filter_app, A, B, scanned_all by lia. apply Permutation_refl.
  Qed.

  (** engine steps inside a round *)
  Lemma Mid_engine P s s' :
    Inv prog init s -> Inv prog init s' -> G1 s -> rpc (e_pc s) = true -> Mid prog P s ->
    step_engine false s = Some s' ->
    e_rounds s' = e_rounds s /\
    (if rpc (e_pc s') then Mid prog P s'
     else e_pc s' = EUnlock /\ e_ws s' = [] /\ Permutation (queued s') (next_pending prog P)).
  Proof.
    intros HI HI' HG Hr [HM1 [HM2 [Q0 [HQl [HQm Hdyn]]]]] Hstep.
    pose proof (i_panic _ _ _ HI') as Hnp'. pose proof (i_lenp _ _ _ HI) as Hlp. pose proof (i_lens _ _ _ HI) as Hls.
    destruct s as [pc nq now sec pqs sqs pch sch ws panic schd handled trace rounds ext].
    unfold dyn, queued, round_qs, chan in HM2, Hdyn. efields.
    unfold step_engine in Hstep. unfold round_qs in Hstep. efields.
    destruct pc; try discriminate Hr; efields.
    - (* EEmpty j *)
      destruct Hdyn as [HQ Hws]. subst ws.
      destruct (j <? nq)%nat eqn:Ej.
      + destruct sec.
        * destruct sch as [|q r]; inv_step; efields. split; [reflexivity|]. open_goal.
          repeat split; auto. exists Q0. repeat split; auto.
        * destruct pch as [|q r]; inv_step; efields. split; [reflexivity|]. open_goal.
          repeat split; auto. exists Q0. repeat split; auto.
      + apply Nat.ltb_ge in Ej. inv_step; efields. split; [reflexivity|]. open_goal.
        split; [exact HM1|]. split; [exact HM2|]. exists Q0. split; [exact HQl|]. split; [exact HQm|].
        specialize (HG sec). unfold chan, taken in HG. efields. rewrite Bool.eqb_reflx in HG. cbn in HG.
        assert (Hc0 : (if sec then sch else pch) = []) by (destruct (if sec then sch else pch); [reflexivity|cbn in HG; lia]).
        split; [lia|]. split; [intros q _; rewrite HQ; reflexivity|]. split.
        * cbn [map app]. rewrite scanned_S. unfold scanned at 1. cbn. rewrite HQ. reflexivity.
        * rewrite Hc0. split; constructor.
    - (* EScan i *)
      destruct Hdyn as [Hi [Ha [Hc [Hch Hh]]]].
      destruct (i <? nq)%nat eqn:Ei.
      + apply Nat.ltb_lt in Ei.
        (* the two "give the queue back" outcomes *)
        assert (Hback : forall s1, e_pc s1 = EScan (S i) -> e_nq s1 = nq -> e_now s1 = now -> e_sec s1 = sec ->
                  e_pqs s1 = pqs -> e_sqs s1 = sqs -> e_ws s1 = ws ->
                  (if sec then e_sch s1 else e_pch s1) = (if sec then sch else pch) ++ [i] ->
                  prefix_now now (nth i (if sec then sqs else pqs) []) = [] ->
                  Mid prog P s1).
        { intros s1 E1 E2 E3 E4 E5 E6 E7 E8 Hpre. unfold Mid, dyn, queued, round_qs, chan. rewrite E1, E2, E3, E4, E5, E6, E7. cbv iota.
          split; [exact HM1|]. split; [exact HM2|]. exists Q0. split; [exact HQl|]. split; [exact HQm|].
          split; [lia|]. split; [intros q Hq; apply Ha; lia|]. split.
          - rewrite Hpre, app_nil_r in Hc. rewrite scanned_S, <- Hc. f_equal. f_equal. apply Ha. lia.
          - rewrite E8. split.
            + apply Forall_app. split; [eapply Forall_impl; [|exact Hch]; cbn; intros; lia|constructor; [lia|constructor]].
            + eapply Forall_impl; [|exact Hh]. cbn. intros. lia. }
        destruct sec; cbv iota in *.
        * destruct (nth i sqs []) as [|x r] eqn:En.
          -- inv_step; efields. split; [reflexivity|]. cbn [rpc]. apply Hback; auto.
          -- destruct (ev_time x =? now) eqn:Et.
             ++ (* pop *)
                inv_step; efields. split; [reflexivity|]. open_goal.
                pose proof (queued_pop_s i pqs sqs x r En) as Hp.
                split; [exact HM1|]. split.
                { rewrite map_app, !flat_map_app. cbn [map flat_map fst wtodo snd]. rewrite !app_nil_r. clear HQm. perm_lia. }
                exists Q0. split; [exact HQl|]. split; [exact HQm|].
                split; [exact Hi|]. split; [intros q Hq; rewrite nth_upd_other by lia; apply Ha; exact Hq|]. split.
                { rewrite nth_upd_same by lia. cbn [prefix_now] in Hc. rewrite Et in Hc.
                  rewrite map_app. cbn [map fst]. rewrite <- app_assoc. exact Hc. }
                rewrite held_app. cbn. rewrite app_nil_r. split; assumption.
             ++ destruct (ev_time x <? now); inv_step; efields; [discriminate|].
                split; [reflexivity|]. cbn [rpc]. apply Hback; auto; try (rewrite ?En; apply prefix_now_head_ne, Et).
        * destruct (nth i pqs []) as [|x r] eqn:En.
          -- inv_step; efields. split; [reflexivity|]. cbn [rpc]. apply Hback; auto.
          -- destruct (ev_time x =? now) eqn:Et.
             ++ inv_step; efields. split; [reflexivity|]. open_goal.
                pose proof (queued_pop_p i pqs sqs x r En) as Hp.
                split; [exact HM1|]. split.
                { rewrite map_app, !flat_map_app. cbn [map flat_map fst wtodo snd]. rewrite !app_nil_r. clear HQm. perm_lia. }
                exists Q0. split; [exact HQl|]. split; [exact HQm|].
                split; [exact Hi|]. split; [intros q Hq; rewrite nth_upd_other by lia; apply Ha; exact Hq|]. split.
                { rewrite nth_upd_same by lia. cbn [prefix_now] in Hc. rewrite Et in Hc.
                  rewrite map_app. cbn [map fst]. rewrite <- app_assoc. exact Hc. }
                rewrite held_app. cbn. rewrite app_nil_r. split; assumption.
             ++ destruct (ev_time x <? now); inv_step; efields; [discriminate|].
                split; [reflexivity|]. cbn [rpc]. apply Hback; auto; try (rewrite ?En; apply prefix_now_head_ne, Et).
      + (* the scan is over *)
        apply Nat.ltb_ge in Ei. assert (i = nq) by lia. subst i.
        inv_step; efields. split; [reflexivity|]. open_goal.
        split; [exact HM1|]. split; [exact HM2|]. exists Q0. split; [exact HQl|]. split; [exact HQm|].
        rewrite nth_overflow in Hc by (destruct sec; lia). cbn [prefix_now] in Hc. rewrite app_nil_r in Hc.
        rewrite Hc, !scanned_all by lia. reflexivity.
    - (* EWait: the barrier *)
      destruct (all_finished ws) eqn:Ef; inv_step; efields. split; [reflexivity|]. cbn [rpc]. unfold queued; efields.
      split; [reflexivity|]. split; [reflexivity|].
      rewrite (wtodo_finished prog ws Ef), app_nil_r in HM2. rewrite Hdyn in HM2.
      set (W := scanned now nq Q0) in *.
      assert (HK : Permutation (flat_map (kids prog) W) (flat_map (kids prog) (members P))) by (apply flat_map_perm, Permutation_sym, HQm).
      pose proof (members_rest P) as HMR. unfold next_pending. perm_lia.
  Qed.

  Lemma map_fst_mid (a b : list (ev * wstate)) e st : map fst (a ++ (e, st) :: b) = map fst a ++ e :: map fst b.
  Proof. rewrite map_app. reflexivity. Qed.

  Lemma wtodo_mid (a b : list (ev * wstate)) w :
    flat_map (wtodo prog) (a ++ w :: b) = flat_map (wtodo prog) a ++ wtodo prog w ++ flat_map (wtodo prog) b.
  Proof. rewrite flat_map_app. reflexivity. Qed.

  Lemma held_mid k (a b : list (ev * wstate)) w : held k (a ++ w :: b) = held k a ++ wheld k w ++ held k b.
  Proof. rewrite held_app. reflexivity. Qed.

  (** worker steps inside a round *)
  Lemma Mid_worker P i s s' :
    Inv prog init s -> Inv prog init s' -> rpc (e_pc s) = true -> Mid prog P s ->
    step_worker prog i s = Some s' ->
    e_rounds s' = e_rounds s /\ e_pc s' = e_pc s /\ Mid prog P s'.
  Proof.
    intros HI HI' Hr [HM1 [HM2 [Q0 [HQl [HQm Hdyn]]]]] Hstep.
    pose proof (i_panic _ _ _ HI') as Hnp'. pose proof (i_lenp _ _ _ HI) as Hlp. pose proof (i_lens _ _ _ HI) as Hls.
    pose proof (i_ws _ _ _ HI) as Hwok.
    destruct s as [pc nq now sec pqs sqs pch sch ws panic schd handled trace rounds ext].
    unfold dyn, queued, round_qs, chan in HM2, Hdyn. efields.
    unfold step_worker in Hstep. efields.
    destruct (nth_error ws i) as [[e st]|] eqn:En; [|discriminate].
    assert (Hsplit : forall w', exists a b, ws = a ++ (e, st) :: b /\ upd_nth i (fun _ => w') ws = a ++ w' :: b).
    { intro w'. destruct (upd_ws_split i ws (e, st) w' En) as [a [b [E1 [E2 _]]]]. eauto. }
    assert (Hnot : match pc with EEmpty _ => False | _ => True end).
    { destruct pc as [| | |j|k| | |]; auto; try (exfalso; exact Hnot). destruct Hdyn as [_ Hw]. subst ws. destruct i; discriminate. }
    assert (Hwe : w_ok prog now sec nq (e, st)).
    { rewrite Forall_forall in Hwok. apply Hwok. eapply nth_error_In; eauto. }
    destruct st as [|todo hq|]; [| |discriminate].
    - (* start *)
      inv_step. efields. destruct (Hsplit (e, WRun (kids prog e) None)) as [a [b [E1 E2]]]. rewrite E2. subst ws.
      split; [reflexivity|]. split; [reflexivity|]. unfold Mid, dyn, queued, round_qs, chan; efields.
      rewrite map_fst_mid, wtodo_mid, held_mid, wheld_none in *. cbn [wtodo snd fst wheld] in *.
      split; [exact HM1|]. split; [exact HM2|]. exists Q0. split; [exact HQl|]. split; [exact HQm|].
      destruct pc as [| | |j|k| | |]; auto; try (exfalso; exact Hnot).
    - destruct todo as [|c r].
      + (* end *)
        inv_step. efields. destruct (Hsplit (e, WFinished)) as [a [b [E1 E2]]]. rewrite E2. subst ws.
        split; [reflexivity|]. split; [reflexivity|]. unfold Mid, dyn, queued, round_qs, chan; efields.
        rewrite map_fst_mid, wtodo_mid, held_mid in *. cbn [wtodo snd fst wheld] in *.
        split; [exact HM1|]. split; [exact HM2|]. exists Q0. split; [exact HQl|]. split; [exact HQm|].
        destruct pc as [| | |j|k| | |]; auto; try (exfalso; exact Hnot).
      + destruct Hwe as [_ [_ [_ Hq]]]. cbn [snd] in Hq.
        destruct hq as [q|].
        * (* push c into queue q of its kind, give the queue back *)
          destruct (Hsplit (e, WRun r None)) as [a [b [E1 E2]]].
          destruct (ev_sec c) eqn:Esc; inv_step; efields; rewrite E2; subst ws;
            (split; [reflexivity|]); (split; [reflexivity|]); unfold Mid, dyn, queued, round_qs, chan; efields;
            rewrite map_fst_mid, wtodo_mid, held_mid, ?wheld_none in *; cbn [wtodo snd fst wheld] in *; rewrite Esc in *;
            (split; [exact HM1|]).
          -- pose proof (queued_insert_s c q pqs sqs ltac:(lia)) as Hins.
             split; [clear HQm; perm_lia|]. exists Q0. split; [exact HQl|]. split; [exact HQm|].
             destruct pc as [| | |j|k| | |]; auto; try (exfalso; exact Hnot). destruct sec; cbn [Bool.eqb] in *; cbv iota in *.
             ++ destruct Hdyn as [Hi [Ha [Hc [Hch Hh]]]].
                assert (Hqi : (q < k)%nat).
                { apply Forall_app in Hh. destruct Hh as [_ Hh]. inversion Hh; auto. }
                split; [exact Hi|]. split; [intros q' Hq'; rewrite nth_upd_other by lia; apply Ha; exact Hq'|].
                split; [rewrite nth_upd_other by lia; exact Hc|]. split.
                ** apply Forall_app. split; [exact Hch|constructor; [exact Hqi|constructor]].
                ** apply Forall_app in Hh. destruct Hh as [Hh1 Hh2]. inversion Hh2; subst. apply Forall_app. split; auto.
             ++ exact Hdyn.
          -- pose proof (queued_insert_p c q pqs sqs ltac:(lia)) as Hins.
             split; [clear HQm; perm_lia|]. exists Q0. split; [exact HQl|]. split; [exact HQm|].
             destruct pc as [| | |j|k| | |]; auto; try (exfalso; exact Hnot). destruct sec; cbn [Bool.eqb] in *; cbv iota in *.
             ++ exact Hdyn.
             ++ destruct Hdyn as [Hi [Ha [Hc [Hch Hh]]]].
                assert (Hqi : (q < k)%nat).
                { apply Forall_app in Hh. destruct Hh as [_ Hh]. inversion Hh; auto. }
                split; [exact Hi|]. split; [intros q' Hq'; rewrite nth_upd_other by lia; apply Ha; exact Hq'|].
                split; [rewrite nth_upd_other by lia; exact Hc|]. split.
                ** apply Forall_app. split; [exact Hch|constructor; [exact Hqi|constructor]].
                ** apply Forall_app in Hh. destruct Hh as [Hh1 Hh2]. inversion Hh2; subst. apply Forall_app. split; auto.
        * (* Schedule: receive a queue from the channel of c's kind *)
          destruct (ev_time c <? now); [inv_step; efields; discriminate|].
          destruct (ev_sec c) eqn:Esc.
          -- destruct sch as [|q ch]; [discriminate|]. destruct (Hsplit (e, WRun (c :: r) (Some q))) as [a [b [E1 E2]]].
             inv_step. efields. rewrite E2. subst ws.
             split; [reflexivity|]. split; [reflexivity|]. unfold Mid, dyn, queued, round_qs, chan; efields.
             rewrite map_fst_mid, wtodo_mid, held_mid, ?wheld_none in *. cbn [wtodo snd fst wheld] in *. rewrite Esc.
             split; [exact HM1|]. split; [exact HM2|]. exists Q0. split; [exact HQl|]. split; [exact HQm|].
             destruct pc as [| | |j|k| | |]; auto; try (exfalso; exact Hnot). destruct sec; cbn [Bool.eqb] in *; cbv iota in *.
             ++ destruct Hdyn as [Hi [Ha [Hc [Hch Hh]]]]. inversion Hch; subst.
                repeat split; auto. apply Forall_app in Hh. destruct Hh as [Hh1 Hh2]. apply Forall_app. split; [exact Hh1|]. cbn [app] in *. constructor; auto.
             ++ exact Hdyn.
          -- destruct pch as [|q ch]; [discriminate|]. destruct (Hsplit (e, WRun (c :: r) (Some q))) as [a [b [E1 E2]]].
             inv_step. efields. rewrite E2. subst ws.
             split; [reflexivity|]. split; [reflexivity|]. unfold Mid, dyn, queued, round_qs, chan; efields.
             rewrite map_fst_mid, wtodo_mid, held_mid, ?wheld_none in *. cbn [wtodo snd fst wheld] in *. rewrite Esc.
             split; [exact HM1|]. split; [exact HM2|]. exists Q0. split; [exact HQl|]. split; [exact HQm|].
             destruct pc as [| | |j|k| | |]; auto; try (exfalso; exact Hnot). destruct sec; cbn [Bool.eqb] in *; cbv iota in *.
             ++ exact Hdyn.
             ++ destruct Hdyn as [Hi [Ha [Hc [Hch Hh]]]]. inversion Hch; subst.
                repeat split; auto. apply Forall_app in Hh. destruct Hh as [Hh1 Hh2]. apply Forall_app. split; [exact Hh1|]. cbn [app] in *. constructor; auto.
  Qed.
End Steps.

(** ** the simulation: every interleaving follows the deterministic iteration *)
Section Main.
  Variable prog : program.
  Variable init : list ev.

  Definition round_of (P : list ev) : N * bool * list N := (fst (choice P), snd (choice P), map ev_id (members P)).

  Definition its (n : nat) : list (N * bool) := map (fun k => choice (iter prog k init)) (seq 0 n).

  Lemma its_S n : its (S n) = its n ++ [choice (iter prog n init)].
  Proof. unfold its. rewrite seq_S, map_app. reflexivity. Qed.

  Definition RI (s : est) : Prop :=
    rev (e_rounds s) = its (length (e_rounds s)) /\
    (forall k, (k < length (e_rounds s))%nat -> iter prog k init <> []) /\
    if rpc (e_pc s)
    then exists m, length (e_rounds s) = S m /\ Mid prog (iter prog m init) s
    else Permutation (queued s) (iter prog (length (e_rounds s)) init) /\ e_ws s = [] /\
         match e_pc s with ELock | EDetermine => queued s <> [] | _ => True end.

  Definition WI (s : est) : Prop := Inv2 prog init s /\ noctl s /\ G1 s /\ RI s.

  Lemma WI_step : inductive (step prog false) WI.
  Proof.
    intros t s s' [HI2 [Hnc [HG [Hlog [Hne HR]]]]] Hstep.
    pose proof (Inv2_step prog init t s s' HI2 Hstep) as HI2'.
    destruct HI2 as [[HI HL] Hd]. pose proof HI2' as [[HI' HL'] Hd'].
    destruct (G1_step prog t s s' (i_panic _ _ _ HI) Hnc HG Hstep (i_panic _ _ _ HI')) as [Hnc' HG'].
    split; [exact HI2'|]. split; [exact Hnc'|]. split; [exact HG'|].
    unfold step in Hstep. rewrite (i_panic _ _ _ HI) in Hstep.
    destruct (rpc (e_pc s)) eqn:Er.
    - (* inside a round *)
      destruct HR as [m [Hm HM]].
      destruct t as [|i|].
      + destruct (Mid_engine prog init _ s s' HI HI' HG Er HM Hstep) as [Hr Hcase].
        unfold RI. rewrite Hr. split; [exact Hlog|]. split; [exact Hne|].
        destruct (rpc (e_pc s')).
        * exists m. auto.
        * destruct Hcase as [Hpc [Hws Hq]]. rewrite Hm. cbn [iter]. rewrite Hpc. auto.
      + destruct (Mid_worker prog init _ i s s' HI HI' Er HM Hstep) as [Hr [Hpc HM']].
        unfold RI. rewrite Hr, Hpc, Er. split; [exact Hlog|]. split; [exact Hne|]. exists m. auto.
      + destruct Hnc as [A B]. unfold step_ctl in Hstep. rewrite A, B in Hstep. discriminate.
    - (* at a round boundary *)
      destruct HR as [Hq [Hws Hnonempty]].
      destruct t as [|i|].
      + destruct (e_pc s) eqn:Epc; try discriminate Er.
        * (* ECheck *)
          unfold step_engine in Hstep. rewrite Epc in Hstep.
          destruct (all_empty (e_pqs s) && all_empty (e_sqs s)) eqn:Ea; inversion Hstep; subst s'; unfold RI; cbn; repeat split; auto.
          apply all_empty_false_queued in Ea. exact Ea.
        * (* ELock *)
          unfold step_engine in Hstep. rewrite Epc in Hstep.
          destruct (x_plock (e_ext s)); inversion Hstep; subst s'; unfold RI; cbn; repeat split; auto.
        * (* EDetermine *)
          destruct (Mid_enter prog init _ s s' HI HI' Epc Hstep Hq) as [HM [Hpc [Hr Hqq]]].
          unfold RI. rewrite Hr, Hpc. cbn [length rev rpc]. split; [rewrite Hlog, its_S; reflexivity|]. split.
          -- intros k Hk. destruct (Nat.eq_dec k (length (e_rounds s))) as [->|Hne'].
             ++ intro E. rewrite E in Hq. apply Permutation_sym, Permutation_nil in Hq. auto.
             ++ apply Hne. lia.
          -- exists (length (e_rounds s)). auto.
        * (* EUnlock *)
          unfold step_engine in Hstep. rewrite Epc in Hstep. inversion Hstep; subst s'; unfold RI; cbn; repeat split; auto.
        * (* EDone *)
          unfold step_engine in Hstep. rewrite Epc in Hstep. discriminate.
      + unfold step_worker in Hstep. rewrite Hws in Hstep. destruct i; discriminate.
      + destruct Hnc as [A B]. unfold step_ctl in Hstep. rewrite A, B in Hstep. discriminate.
  Qed.
End Main.

Lemma rounds_iter prog : forall n f P, (n <= f)%nat ->
  (forall k, (k < n)%nat -> iter prog k P <> []) -> iter prog n P = [] ->
  rounds f prog P = map (fun k => round_of (iter prog k P)) (seq 0 n).
Proof.
  induction n as [|n IH]; intros f P Hf Hne Hend.
  - cbn [iter] in Hend. subst P. destruct f; reflexivity.
  - destruct f as [|f]; [lia|].
    assert (HP : P <> []) by (apply (Hne 0%nat); lia).
    rewrite (rounds_unfold f prog P HP). cbn [seq map iter]. unfold round_of at 1. f_equal.
    rewrite (IH f (next_pending prog P)).
    + rewrite <- seq_shift, map_map. apply map_ext. intro k. rewrite iter_shift. reflexivity.
    + lia.
    + intros k Hk. rewrite iter_shift. apply (Hne (S k)). lia.
    + rewrite iter_shift. exact Hend.
Qed.

Lemma init_queued nq init : (1 <= nq)%nat -> Permutation (queued (e_init nq init)) init.
Proof.
  intro Hn. destruct (PreInv_fold init _ (PreInv_empty nq Hn)) as [H E]. fold (e_init nq init) in H, E.
  cbn [e_empty e_sched] in E. rewrite app_nil_r in E.
  eapply perm_trans; [apply Permutation_sym, (p_cons _ H)|]. rewrite E. apply Permutation_sym, Permutation_rev.
Qed.

Section Final.
  Variable prog : program.
  Variables (nq : nat) (init : list ev).
  Hypothesis Hnq : (1 <= nq)%nat.

  Lemma WI_reach o : WI prog init (e_run prog o (e_init_ctl nq init [])).
  Proof.
    apply (run_invariant (step prog false) (WI prog init) (WI_step prog init)).
    pose proof (queue_accounting prog nq init [] Hnq) as [HG _]. cbn [e_run run fold_left] in HG.
    destruct (PreInv_fold init _ (PreInv_empty nq Hnq)) as [H _]. fold (e_init nq init) in H.
    split; [|split; [|split]].
    - split; [apply FInv_init; auto|]. unfold e_init_ctl. cbn [set_ext e_pc]. rewrite (p_pc _ H). discriminate.
    - split; reflexivity.
    - exact HG.
    - unfold RI, e_init_ctl. cbn [set_ext e_rounds e_pc e_ws]. rewrite (p_r _ H), (p_pc _ H), (p_ws _ H). cbn.
      repeat split; auto; try lia. apply (init_queued nq init Hnq).
  Qed.

  (** Schedule-independence of the rounds: for EVERY interleaving, in every reachable
      state with n rounds started,
      - the (time, phase) of the rounds so far are those of the deterministic iteration;
      - at a round boundary the pending multiset is the n-th iterate of [next_pending];
      - inside a round the events popped so far are members of the n-th abstract round and,
        once the scan is over, are exactly its members (as a multiset);
      - when Run has returned the whole history is [rounds] on the initial events. *)
  Theorem rounds_schedule_independent o :
    let s := e_run prog o (e_init_ctl nq init []) in
    let n := length (e_rounds s) in
    rev (e_rounds s) = map (fun k => choice (iter prog k init)) (seq 0 n) /\
    (rpc (e_pc s) = false -> Permutation (queued s) (iter prog n init)) /\
    (e_pc s = EWait -> Permutation (map fst (e_ws s)) (members (iter prog (n - 1) init))) /\
    (e_pc s = EDone -> iter prog n init = [] /\
       forall f, (n <= f)%nat -> rounds f prog init = map (fun k => round_of (iter prog k init)) (seq 0 n)).
  Proof.
    intros s n. destruct (WI_reach o) as [HI2 [_ [_ [Hlog [Hne HR]]]]]. fold s in HI2, Hlog, Hne, HR. fold n in Hlog, Hne, HR.
    split; [exact Hlog|]. split; [|split].
    - intro Hr. rewrite Hr in HR. apply HR.
    - intro Hpc. rewrite Hpc in HR. cbn [rpc] in HR. destruct HR as [m [Hm [_ [_ [Q0 [_ [HQm Hdyn]]]]]]].
      unfold dyn in Hdyn. rewrite Hpc in Hdyn. rewrite Hdyn, Hm. replace (S m - 1)%nat with m by lia.
      apply Permutation_sym, HQm.
    - intro Hpc. rewrite Hpc in HR. cbn [rpc] in HR. destruct HR as [Hq _].
      destruct HI2 as [_ Hd]. assert (Hl : x_late (e_ext s) = false).
      { (* no controller: nothing was scheduled after Run returned *)
        destruct (WI_reach o) as [_ [_ _]]. 
        assert (G : forall o', x_late (e_ext (e_run prog o' (e_init_ctl nq init []))) = false).
        { intro o'. unfold e_run.
          apply (run_invariant (step prog false) (fun st => noctl st /\ x_late (e_ext st) = false)).
          - intros t st st' [[A B] C] Hst. unfold step in Hst. destruct (e_panic st); [discriminate|].
            destruct st as [pc0 nq0 now0 sec0 pqs0 sqs0 pch0 sch0 ws0 panic0 schd0 handled0 trace0 rounds0 [plock0 script0 cheld0 late0]].
            unfold noctl in *. efields. subst script0 cheld0 late0.
            destruct t as [|i|].
            + unfold step_engine in Hst. efields.
              destruct pc0; efields;
                repeat match type of Hst with
                       | (if ?b then _ else _) = _ => destruct b
                       | match ?l with _ => _ end = _ => destruct l
                       end; inversion Hst; subst st'; efields; auto.
            + unfold step_worker in Hst. efields.
              repeat match type of Hst with
                     | (if ?b then _ else _) = _ => destruct b
                     | match ?l with _ => _ end = _ => destruct l
                     end; inversion Hst; subst st'; efields; auto.
            + unfold step_ctl in Hst. efields. discriminate.
          - split; [split|]; reflexivity. }
        apply G. }
      specialize (Hd Hpc Hl). rewrite Hd in Hq. apply Permutation_nil in Hq.
      split; [exact Hq|]. intros f Hf. apply rounds_iter; auto.
  Qed.
End Final.
