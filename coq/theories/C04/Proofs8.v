(** C04 — the queue accounting WITH a controller goroutine: every queue is in its
    channel, checked out by a handler's or the controller's Schedule call, or taken by
    the round. *)
From Coq Require Import Permutation Sorted.
From Akita Require Import Lib.Base Lib.Lts C04.Model C04.Proofs1 C04.Proofs2 C04.Proofs2b C04.Proofs3 C04.Proofs5 C04.Proofs6.
Local Open Scope N_scope.

Definition cterm (k : bool) (s : est) : nat :=
  match x_cheld (e_ext s) with
  | Some (_, c) => if Bool.eqb (ev_sec c) k then 1%nat else 0%nat
  | None => 0%nat
  end.

Definition G1c (s : est) : Prop :=
  forall k, (length (chan k s) + length (held k (e_ws s)) + cterm k s + taken k s = e_nq s)%nat.

Ltac efields := cbn [e_pc e_nq e_now e_sec e_pqs e_sqs e_pch e_sch e_ws e_panic e_sched e_handled e_trace e_rounds e_ext set_pc set_panic set_ext x_plock x_script x_cheld x_late] in *.

Lemma G1c_step prog t s s' :
  e_panic s = false -> G1c s -> step prog false t s = Some s' -> e_panic s' = false -> G1c s'.
Proof.
  intros Hnp HG Hstep Hnp'. unfold step in Hstep. rewrite Hnp in Hstep.
  destruct s as [pc nq now sec pqs sqs pch sch ws panic schd handled trace rounds [plock script cheld late]].
  unfold G1c, chan, taken, cterm in *. efields. subst panic.
  destruct t as [|i|].
  - (* engine *)
    unfold step_engine in Hstep. efields.
    destruct pc; efields.
    + destruct (all_empty pqs && all_empty sqs); inversion Hstep; subst; efields; repeat split; auto;
        intro k; specialize (HG k); destruct (Bool.eqb sec k); lia.
    + destruct plock; inversion Hstep; subst; efields; repeat split; auto;
        intro k; specialize (HG k); destruct (Bool.eqb sec k); lia.
    + destruct (earliest pqs <=? earliest sqs); inversion Hstep; subst; efields; repeat split; auto;
        intro k; specialize (HG k); destruct (Bool.eqb sec k), k; cbn; lia.
    + destruct (j <? nq)%nat eqn:Ej.
      * apply Nat.ltb_lt in Ej. destruct sec.
        -- destruct sch as [|q r]; inversion Hstep; subst; efields; repeat split; auto;
           try (intro k; specialize (HG k); destruct k; cbn in *; lia).
        -- destruct pch as [|q r]; inversion Hstep; subst; efields; repeat split; auto;
           try (intro k; specialize (HG k); destruct k; cbn in *; lia).
      * apply Nat.ltb_ge in Ej. inversion Hstep; subst; efields; repeat split; auto;
        try (intro k; pose proof (HG sec) as Hs; specialize (HG k); rewrite Bool.eqb_reflx in Hs).
        destruct (Bool.eqb sec k) eqn:E; [|lia]. apply Bool.eqb_prop in E. subst k. lia.
    + destruct (i <? nq)%nat eqn:Ei.
      * apply Nat.ltb_lt in Ei. unfold round_qs in Hstep. efields.
        destruct sec.
        -- destruct (nth i sqs []) as [|x r].
           ++ inversion Hstep; subst; efields; repeat split; auto;
              try (intro k; specialize (HG k); destruct k; cbn in *; rewrite ?app_length; cbn; lia).
           ++ destruct (ev_time x =? now).
              ** inversion Hstep; subst; efields; repeat split; auto;
                 try (intro k; specialize (HG k); rewrite held_app; cbn; rewrite app_nil_r; exact HG).
              ** destruct (ev_time x <? now); inversion Hstep; subst; efields; [discriminate|]; repeat split; auto;
                   intro k; specialize (HG k); destruct k; cbn in *; rewrite ?app_length; cbn; lia.
        -- destruct (nth i pqs []) as [|x r].
           ++ inversion Hstep; subst; efields; repeat split; auto;
              try (intro k; specialize (HG k); destruct k; cbn in *; rewrite ?app_length; cbn; lia).
           ++ destruct (ev_time x =? now).
              ** inversion Hstep; subst; efields; repeat split; auto;
                 try (intro k; specialize (HG k); rewrite held_app; cbn; rewrite app_nil_r; exact HG).
              ** destruct (ev_time x <? now); inversion Hstep; subst; efields; [discriminate|]; repeat split; auto;
                   intro k; specialize (HG k); destruct k; cbn in *; rewrite ?app_length; cbn; lia.
      * apply Nat.ltb_ge in Ei. inversion Hstep; subst; efields; repeat split; auto;
        try (intro k; specialize (HG k); destruct (Bool.eqb sec k); lia).
    + destruct (all_finished ws) eqn:Ef; inversion Hstep; subst; efields; repeat split; auto;
      try (intro k; specialize (HG k); rewrite (held_finished k ws Ef) in HG; destruct (Bool.eqb sec k); cbn in *; lia).
    + inversion Hstep; subst; efields; repeat split; auto;
      try (intro k; specialize (HG k); destruct (Bool.eqb sec k); lia).
    + discriminate.
  - (* worker *)
    unfold step_worker in Hstep. efields.
    destruct (nth_error ws i) as [[e st]|] eqn:En; [|discriminate].
    assert (Hsplit : forall w', exists a b, ws = a ++ (e, st) :: b /\ upd_nth i (fun _ => w') ws = a ++ w' :: b).
    { intro w'. destruct (upd_ws_split i ws (e, st) w' En) as [a [b [E1 [E2 _]]]]. eauto. }
    assert (Hh : forall k a b w, held k (a ++ w :: b) = held k a ++ wheld k w ++ held k b).
    { intros k a b w. rewrite held_app. cbn. reflexivity. }
    destruct st as [|todo hq|]; [| |discriminate].
    + inversion Hstep; subst s'; efields. destruct (Hsplit (e, WRun (kids prog e) None)) as [a [b [E1 E2]]]. rewrite E2.
      repeat split; auto. intro k. specialize (HG k). rewrite E1, Hh in HG. rewrite Hh, wheld_none. cbn [wheld snd] in *. exact HG.
    + destruct todo as [|c r].
      * inversion Hstep; subst s'; efields. destruct (Hsplit (e, WFinished)) as [a [b [E1 E2]]]. rewrite E2.
        repeat split; auto. intro k. specialize (HG k). rewrite E1, Hh in HG. rewrite Hh. cbn [wheld snd] in *. exact HG.
      * destruct hq as [q|].
        -- destruct (Hsplit (e, WRun r None)) as [a [b [E1 E2]]].
           destruct (ev_sec c) eqn:Esc; inversion Hstep; subst s'; efields; rewrite E2; repeat split; auto;
             intro k; specialize (HG k); rewrite E1, Hh in HG; rewrite Hh, wheld_none; cbn [wheld snd] in *; rewrite Esc in HG;
             destruct k; cbn in *; rewrite ?app_length in *; cbn in *; lia.
        -- destruct (ev_time c <? now); [inversion Hstep; subst; efields; discriminate|].
           destruct (ev_sec c) eqn:Esc.
           ++ destruct sch as [|q ch]; [discriminate|]. destruct (Hsplit (e, WRun (c :: r) (Some q))) as [a [b [E1 E2]]].
              inversion Hstep; subst s'; efields. rewrite E2. repeat split; auto.
              intro k; specialize (HG k); rewrite E1, Hh, wheld_none in HG; rewrite Hh; cbn [wheld snd] in *; rewrite Esc;
                destruct k; cbn in *; rewrite ?app_length in *; cbn in *; lia.
           ++ destruct pch as [|q ch]; [discriminate|]. destruct (Hsplit (e, WRun (c :: r) (Some q))) as [a [b [E1 E2]]].
              inversion Hstep; subst s'; efields. rewrite E2. repeat split; auto.
              intro k; specialize (HG k); rewrite E1, Hh, wheld_none in HG; rewrite Hh; cbn [wheld snd] in *; rewrite Esc;
                destruct k; cbn in *; rewrite ?app_length in *; cbn in *; lia.
  - (* the controller: Schedule = receive a queue, push, send it back *)
    unfold step_ctl in Hstep. efields.
    destruct cheld as [[q c]|].
    + destruct script as [|[|id d sc|] r]; try discriminate.
      destruct (ev_sec c) eqn:Esc; inversion Hstep; subst s'; efields;
        intro k; specialize (HG k); destruct k; cbn in *; rewrite ?app_length in *; cbn in *; lia.
    + destruct script as [|[|id d sc|] r]; [discriminate| | |].
      * destruct plock; inversion Hstep; subst s'; efields; exact HG.
      * destruct sc; [destruct sch as [|q ch]|destruct pch as [|q ch]]; inversion Hstep; subst s'; efields;
          intro k; specialize (HG k); destruct k; cbn in *; lia.
      * destruct plock; inversion Hstep; subst s'; efields; [exact HG|discriminate].
Qed.


Theorem queue_accounting_ctl prog nq init script o :
  (1 <= nq)%nat -> cwf false script = true ->
  let s := e_run prog o (e_init_ctl nq init script) in
  G1c s /\
  (* when the scan of a round starts the engine holds every queue of the round's kind: none is in
     the channel, none is checked out by a handler's or the controller's Schedule call *)
  (e_pc s = EScan 0 -> chan (e_sec s) s = [] /\ held (e_sec s) (e_ws s) = [] /\ cterm (e_sec s) s = 0%nat).
Proof.
  intros Hn Hc s.
  assert (H : Inv2 prog init s /\ G1c s).
  { unfold s, e_run.
    apply (run_invariant (step prog false) (fun s => Inv2 prog init s /\ G1c s)).
    - intros t s0 s1 [HI2 HG] Hstep.
      pose proof (Inv2_step prog init t s0 s1 HI2 Hstep) as HI2'. split; [exact HI2'|].
      destruct HI2 as [[HI _] _]. destruct HI2' as [[HI' _] _].
      apply (G1c_step prog t s0 s1 (i_panic _ _ _ HI) HG Hstep (i_panic _ _ _ HI')).
    - split.
      + split; [apply FInv_init; auto|].
        destruct (PreInv_fold init _ (PreInv_empty nq Hn)) as [H _]. fold (e_init nq init) in H.
        unfold e_init_ctl. cbn [set_ext e_pc]. rewrite (p_pc _ H). discriminate.
      + pose proof (queue_accounting prog nq init [] Hn) as [HG _]. cbn [e_run run fold_left] in HG.
        intro k. specialize (HG k). unfold cterm, chan, taken, e_init_ctl in *. cbn [set_ext e_ext x_cheld e_sch e_pch e_ws e_pc e_sec e_nq] in *. lia. }
  destruct H as [_ HG]. split; [exact HG|].
  intro Hpc. specialize (HG (e_sec s)). unfold taken in HG. rewrite Bool.eqb_reflx, Hpc in HG.
  assert (L1 : length (chan (e_sec s) s) = 0%nat) by lia.
  assert (L2 : length (held (e_sec s) (e_ws s)) = 0%nat) by lia.
  split; [destruct (chan (e_sec s) s); auto; discriminate|]. split; [destruct (held (e_sec s) (e_ws s)); auto; discriminate|lia].
Qed.
