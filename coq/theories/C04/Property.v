(** C04 — the parallel engine preserves time order and phase order.  Theorems only.
    Every statement quantifies over every handler program, every number of queues
    >= 1, every initial event list, every well-formed script of an external
    controller goroutine (Pause, Schedule at CurrentTime()+d ..., Continue — what a
    monitor does) and EVERY scheduler oracle (goroutine interleaving). *)
From Coq Require Import Permutation.
From Akita Require Import Lib.Base Lib.Lts C04.Model C04.Proofs1 C04.Proofs2 C04.Proofs2b C04.Proofs3 C04.Proofs4 C04.Proofs5 C04.Proofs6 C04.Proofs7 C04.Proofs8.
Local Open Scope N_scope.

(** Exactly once: at every moment scheduled = handled + live (spawned or executing
    or queued), as multisets; when Run returns, handled = scheduled (unless the
    controller scheduled something after Run had returned). *)
Theorem c04_exactly_once : forall prog nq init script o, (1 <= nq)%nat -> cwf false script = true ->
  let s := e_run prog o (e_init_ctl nq init script) in
  Permutation (e_sched s) (e_handled s ++ pending_ws (e_ws s) ++ queued s) /\
  (e_pc s = EDone -> x_late (e_ext s) = false -> Permutation (e_handled s) (e_sched s)).
Proof. intros prog nq init script o H Hc. exact (par_exactly_once prog nq init script H Hc o). Qed.
Print Assumptions c04_exactly_once.

(** Round times never decrease. *)
Theorem c04_round_times_monotone : forall prog nq init script o, (1 <= nq)%nat -> cwf false script = true ->
  let s := e_run prog o (e_init_ctl nq init script) in
  mono_from (e_now s) (e_rounds s) = true.
Proof. intros prog nq init script o H Hc. exact (proj2 (proj2 (par_time_order prog nq init script H Hc o))). Qed.
Print Assumptions c04_round_times_monotone.

(** No event starts while an event with an earlier time is unfinished, and the
    handlers executing together all have the same time and phase: the acceptor
    [par_trace_ok] accepts the label sequence of every execution.  The engine's
    "event in the past" panics and the mutex-misuse fault are unreachable. *)
Theorem c04_no_overlap_across_times : forall prog nq init script o, (1 <= nq)%nat -> cwf false script = true ->
  let s := e_run prog o (e_init_ctl nq init script) in
  par_trace_ok init (rev (e_trace s)) = true /\ e_panic s = false.
Proof.
  intros prog nq init script o H Hc s. destruct (par_time_order prog nq init script H Hc o) as [A [B _]]. auto.
Qed.
Print Assumptions c04_no_overlap_across_times.

(** State form: every spawned/executing handler has the round's time and phase and
    no queued event is earlier than the round. *)
Theorem c04_barrier_state : forall prog nq init script o, (1 <= nq)%nat -> cwf false script = true ->
  let s := e_run prog o (e_init_ctl nq init script) in
  Forall (fun w => ev_time (fst w) = e_now s /\ ev_sec (fst w) = e_sec s) (e_ws s) /\
  Forall (fun x => e_now s <= ev_time x) (queued s).
Proof. intros prog nq init script o H Hc. exact (par_state_order prog nq init script H Hc o). Qed.
Print Assumptions c04_barrier_state.

(** A secondary round at t is chosen (determineWhatToRun, with the pause lock held)
    only when no handler is spawned or executing and every queued primary is
    strictly later than t — including primaries spawned by primaries at t and
    primaries injected by the controller while the engine was paused. *)
Theorem c04_secondary_round_clean : forall prog nq init script o s', (1 <= nq)%nat -> cwf false script = true ->
  let s := e_run prog o (e_init_ctl nq init script) in
  e_pc s = EDetermine -> step prog false TE s = Some s' -> e_sec s' = true ->
  e_ws s' = [] /\ Forall (fun x => e_now s' < ev_time x) (concat (e_pqs s')) /\ x_plock (e_ext s') = Some false.
Proof. intros prog nq init script o s' H Hc. exact (par_secondary_round_clean prog nq init script H Hc o s'). Qed.
Print Assumptions c04_secondary_round_clean.

(** Link to the deterministic [rounds] function used by the tie.
    The FULL STATEMENT is now proved without a controller: c04_rounds_schedule_independent
    below.  This theorem remains as the part that also holds WITH a controller.
    Full statement: for every interleaving without a controller, the
    sequence of rounds of the LTS — (time, phase, set of members) — equals
    [rounds fuel prog init], i.e. the pending multiset at the n-th round boundary is
    the n-th iterate of [next_pending] on [init].
    PROVED (partial): every round the engine chooses — in every reachable state, under
    every interleaving and any well-formed controller — is the round [rounds] chooses
    on the multiset of events pending at that moment (same time, same phase; hence
    the members it will pop are [members (queued s)], the events of that time and
    phase); [rounds] unfolds to exactly that choice followed by [next_pending]; and
    [choice], [members], [rest], [next_pending] depend only on the multiset.
    MISSING: that the pending multiset at the end of a round is
    [next_pending (pending at its start)], which needs the channel discipline
    "a queue of the round's kind is handed to Schedule only after it was scanned"
    (so events scheduled during a round are never popped in it); its first half,
    the queue accounting, is c04_queue_accounting below. *)
Theorem c04_rounds_schedule_independent_partial : forall prog nq init script o s', (1 <= nq)%nat -> cwf false script = true ->
  let s := e_run prog o (e_init_ctl nq init script) in
  e_pc s = EDetermine -> step prog false TE s = Some s' ->
  ((e_now s', e_sec s') = choice (queued s) /\ queued s' = queued s /\ e_ws s' = []) /\
  (forall f, queued s <> [] ->
     rounds (S f) prog (queued s) =
     (fst (choice (queued s)), snd (choice (queued s)), map ev_id (members (queued s))) :: rounds f prog (next_pending prog (queued s))) /\
  (forall P, Permutation (queued s) P ->
     choice P = choice (queued s) /\ Permutation (members P) (members (queued s)) /\
     Permutation (next_pending prog P) (next_pending prog (queued s))).
Proof.
  intros prog nq init script o s' Hn Hc s Hpc Hstep. split; [|split].
  - exact (determine_matches_rounds prog nq init script o s' Hn Hc Hpc Hstep).
  - intros f Hne. apply rounds_unfold. exact Hne.
  - intros P HP. split; [symmetry; apply choice_perm, HP|]. split; [apply members_perm|apply next_perm]; apply Permutation_sym, HP.
Qed.
Print Assumptions c04_rounds_schedule_independent_partial.

(** First half of the missing piece (no controller): the queue accounting.  In every
    reachable state every queue of each kind is in its channel, checked out by a
    Schedule call, or taken by the round (emptyQueueChan: j taken; scanning queue i:
    nq - i still taken); in particular when the scan of a round starts, no queue of the
    round's kind is in the channel or in a Schedule call, so an event scheduled during
    the scan can only land in an already scanned queue. *)
Theorem c04_queue_accounting : forall prog nq init o, (1 <= nq)%nat ->
  let s := e_run prog o (e_init_ctl nq init []) in
  G1 s /\ (e_pc s = EScan 0 -> chan (e_sec s) s = [] /\ held (e_sec s) (e_ws s) = []).
Proof. intros prog nq init o H. exact (queue_accounting prog nq init o H). Qed.
Print Assumptions c04_queue_accounting.

(** The queue accounting WITH a well-formed controller (its Schedule calls count as
    check-outs): the same conclusion holds, so also a paused controller's Schedule can
    never reach a queue the round has not yet scanned. *)
Theorem c04_queue_accounting_ctl : forall prog nq init script o, (1 <= nq)%nat -> cwf false script = true ->
  let s := e_run prog o (e_init_ctl nq init script) in
  G1c s /\
  (e_pc s = EScan 0 -> chan (e_sec s) s = [] /\ held (e_sec s) (e_ws s) = [] /\ cterm (e_sec s) s = 0%nat).
Proof. intros prog nq init script o H Hc. exact (queue_accounting_ctl prog nq init script o H Hc). Qed.
Print Assumptions c04_queue_accounting_ctl.

(** Schedule-independence of the round composition (no controller), for EVERY
    interleaving and every number of queues: in every reachable state with n rounds
    started,
    - the (time, phase) sequence of the rounds is that of the deterministic iteration
      P_0 = init, P_(k+1) = next_pending P_k  (= the iteration inside [rounds]);
    - at a round boundary the pending multiset is exactly P_n;
    - once the scan of round n is over, the popped events (the handlers the round runs)
      are exactly [members P_(n-1)] as a multiset;
    - when Run has returned, P_n = [] and the whole history is [rounds f prog init]
      (the function the tie compares the observed round segments with), for any f >= n.
    Proof: simulation invariant WI = per-queue snapshot (unscanned queues of the round's
    kind are untouched since determineWhatToRun; popped = leading time-now runs of the
    scanned snapshot queues) + queue accounting / channel discipline (a queue of the
    round's kind reaches Schedule only after it was scanned, so an event scheduled during
    a round is never popped in it) + child conservation (queued + popped + still-to-
    schedule = P + children of popped).

    HYPOTHESIS BUILT INTO THE MODEL: the events a handler schedules are a function of
    the handled event alone ([kids prog e]); a handler neither reads nor writes state
    shared with handlers running in the same round.  The statement concerns exactly
    such handlers.  Real akita handlers of one component share that component's state,
    and handlers of different components communicate through ports: if two events of
    one round touch common state, WHAT they schedule may depend on the order in which
    the goroutines run, and then the round composition is schedule-dependent — the
    engine offers no ordering inside a round.  This is the same root as the known
    finding F-C04-1 (sibling_secondary_corner): inside one round there is no order
    between siblings, so a same-instant primary scheduled by one secondary is not
    ordered before its sibling secondaries; schedule-independence of the rounds holds
    for handlers that are functions of their event, and F-C04-1 is the phase-order
    symptom that remains even for those. *)
Theorem c04_rounds_schedule_independent : forall prog nq init o, (1 <= nq)%nat ->
  let s := e_run prog o (e_init_ctl nq init []) in
  let n := length (e_rounds s) in
  rev (e_rounds s) = map (fun k => choice (iter prog k init)) (seq 0 n) /\
  (rpc (e_pc s) = false -> Permutation (queued s) (iter prog n init)) /\
  (e_pc s = EWait -> Permutation (map fst (e_ws s)) (members (iter prog (n - 1) init))) /\
  (e_pc s = EDone -> iter prog n init = [] /\
     forall f, (n <= f)%nat -> rounds f prog init = map (fun k => round_of (iter prog k init)) (seq 0 n)).
Proof. intros prog nq init o H. exact (rounds_schedule_independent prog nq init H o). Qed.
Print Assumptions c04_rounds_schedule_independent.

(** Consequence: two arbitrary schedules that both run to completion have performed
    the same rounds, and both equal [rounds] on the initial events. *)
Theorem c04_two_schedules_same_rounds : forall prog nq init o1 o2, (1 <= nq)%nat ->
  let s1 := e_run prog o1 (e_init_ctl nq init []) in
  let s2 := e_run prog o2 (e_init_ctl nq init []) in
  e_pc s1 = EDone -> e_pc s2 = EDone ->
  e_rounds s1 = e_rounds s2 /\
  rounds (length (e_rounds s1)) prog init = map (fun k => round_of (iter prog k init)) (seq 0 (length (e_rounds s1))).
Proof.
  intros prog nq init o1 o2 H s1 s2 H1 H2.
  destruct (rounds_schedule_independent prog nq init H o1) as [A1 [_ [_ D1]]].
  destruct (rounds_schedule_independent prog nq init H o2) as [A2 [_ [_ D2]]].
  fold s1 in A1, D1. fold s2 in A2, D2. destruct (D1 H1) as [E1 R1]. destruct (D2 H2) as [E2 R2].
  assert (Hlen : length (e_rounds s1) = length (e_rounds s2)).
  { pose proof (R1 (max (length (e_rounds s1)) (length (e_rounds s2))) ltac:(lia)) as X1.
    pose proof (R2 (max (length (e_rounds s1)) (length (e_rounds s2))) ltac:(lia)) as X2.
    rewrite X1 in X2. apply (f_equal (@length _)) in X2. rewrite !map_length, !seq_length in X2. exact X2. }
  split; [|apply R1; lia].
  rewrite <- (rev_involutive (e_rounds s1)), <- (rev_involutive (e_rounds s2)), A1, A2, Hlen. reflexivity.
Qed.
Print Assumptions c04_two_schedules_same_rounds.

(** The phase guarantee over whole executions: whenever a secondary starts, every
    scheduled-and-unfinished primary of its instant was scheduled by a secondary
    handler of that very instant (the sibling corner below) — never by the
    controller, never by a primary, never before the round.  Acceptor
    [phase_guaranteed_ok] accepts every execution. *)
Theorem c04_phase_guaranteed : forall prog nq init script o, (1 <= nq)%nat -> cwf false script = true ->
  phase_guaranteed_ok init (rev (e_trace (e_run prog o (e_init_ctl nq init script)))) = true.
Proof. intros prog nq init script o H Hc. exact (phase_guaranteed prog init nq script o H Hc). Qed.
Print Assumptions c04_phase_guaranteed.

(** With determineWhatToRun BEFORE pauseLock.Lock (the reordering) the guarantee is
    lost: witness with a controller that pauses between the primary and the
    secondary round of instant 10 and schedules a primary at CurrentTime(). *)
Theorem c04_reordered_pause_refuted :
  exists o, let s := run (step reo_prog true) o (e_init_ctl 1 reo_init reo_script) in
  cwf false reo_script = true /\
  rev (e_trace s) = [LStart (mk_ev 1 10 false); LEnd (mk_ev 1 10 false); LInject (mk_ev 9 10 false); LStart (mk_ev 2 10 true)] /\
  phase_guaranteed_ok reo_init (rev (e_trace s)) = false.
Proof. exists reo_oracle. destruct reordered_refuted as [A [B [_ D]]]. auto. Qed.
Print Assumptions c04_reordered_pause_refuted.

(** The literal phase clause ("no secondary starts before every primary of the
    instant, including primaries scheduled during the instant, has finished") is
    FALSE of the code: sibling secondaries of one round.  Witness on one queue pair. *)
Theorem c04_sibling_secondary_corner_refuted :
  exists o, let s := e_run corner_prog o (e_init_ctl 1 corner_init []) in
  rev (e_trace s) = [LStart (mk_ev 1 10 true); LSched (mk_ev 1 10 true) (mk_ev 3 10 false); LStart (mk_ev 2 10 true)] /\
  phase_literal_ok corner_init (rev (e_trace s)) = false.
Proof. exists corner_oracle. destruct corner_refuted as [A [B _]]. auto. Qed.
Print Assumptions c04_sibling_secondary_corner_refuted.

(** Non-vacuity: a same-instant chain primary -> (primary, secondary) -> ... with a
    controller that pauses, injects a primary and a secondary, and continues, runs to
    completion under a round-robin oracle on 2 queue pairs; all acceptors accept. *)
Definition nv_prog : program :=
  fun id => if id =? 1 then [(4, 0, false); (5, 0, true)] else if id =? 4 then [(6, 0, false); (7, 10, false)] else [].
Definition nv_init : list ev := [mk_ev 1 5 false; mk_ev 2 5 true; mk_ev 3 5 false].
Definition nv_script : list cop := [CPause; CSched 20 0 false; CSched 21 0 true; CContinue].
Definition nv_oracle : list tid :=
  concat (repeat ([TE; TE; TE; TC] ++ flat_map (fun i => [TW i; TW i; TW i; TW i; TW i; TW i]) (seq 0 4)) 60).

Example c04_nonvacuous :
  let s := e_run nv_prog nv_oracle (e_init_ctl 2 nv_init nv_script) in
  cwf false nv_script = true /\
  e_pc s = EDone /\ length (e_handled s) = 9%nat /\ x_script (e_ext s) = [] /\
  par_trace_ok nv_init (rev (e_trace s)) = true /\ phase_literal_ok nv_init (rev (e_trace s)) = true /\
  phase_guaranteed_ok nv_init (rev (e_trace s)) = true.
Proof. vm_compute. repeat split; reflexivity. Qed.
