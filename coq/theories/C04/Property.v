(** C04 — the parallel engine preserves time order and phase order.  Theorems only.
    Every statement quantifies over every program, every number of queues >= 1,
    every initial event list and EVERY scheduler oracle (goroutine interleaving). *)
From Coq Require Import Permutation.
From Akita Require Import Lib.Base Lib.Lts C04.Model C04.Proofs1 C04.Proofs2 C04.Proofs3.
Local Open Scope N_scope.

(** Exactly once: at every moment scheduled = handled + live (spawned or executing
    or queued), as multisets; when Run returns, handled = scheduled. *)
Theorem c04_exactly_once : forall prog nq init o, (1 <= nq)%nat ->
  let s := e_run prog o (e_init nq init) in
  Permutation (e_sched s) (e_handled s ++ pending_ws (e_ws s) ++ queued s) /\
  (e_pc s = EDone -> Permutation (e_handled s) (e_sched s)).
Proof. intros prog nq init o H. exact (par_exactly_once prog nq init H o). Qed.
Print Assumptions c04_exactly_once.

(** Round times never decrease. *)
Theorem c04_round_times_monotone : forall prog nq init o, (1 <= nq)%nat ->
  let s := e_run prog o (e_init nq init) in
  mono_from (e_now s) (e_rounds s) = true.
Proof. intros prog nq init o H. exact (proj2 (proj2 (par_time_order prog nq init H o))). Qed.
Print Assumptions c04_round_times_monotone.

(** No event starts while an event with an earlier time is unfinished, and the
    handlers executing together all have the same time and phase: the acceptor
    [par_trace_ok] accepts the label sequence of every execution.  The engine's
    "event in the past" panics are unreachable. *)
Theorem c04_no_overlap_across_times : forall prog nq init o, (1 <= nq)%nat ->
  let s := e_run prog o (e_init nq init) in
  par_trace_ok init (rev (e_trace s)) = true /\ e_panic s = false.
Proof.
  intros prog nq init o H s. destruct (par_time_order prog nq init H o) as [A [B _]]. auto.
Qed.
Print Assumptions c04_no_overlap_across_times.

(** State form: every spawned/executing handler has the round's time and phase and
    no queued event is earlier than the round. *)
Theorem c04_barrier_state : forall prog nq init o, (1 <= nq)%nat ->
  let s := e_run prog o (e_init nq init) in
  Forall (fun w => ev_time (fst w) = e_now s /\ ev_sec (fst w) = e_sec s) (e_ws s) /\
  Forall (fun x => e_now s <= ev_time x) (queued s).
Proof. intros prog nq init o H. exact (par_state_order prog nq init H o). Qed.
Print Assumptions c04_barrier_state.

(** A secondary round at t starts only when no handler is spawned or executing and
    every queued primary is strictly later than t — including primaries that were
    spawned by primaries at t (they ran in earlier primary rounds at t). *)
Theorem c04_secondary_round_clean : forall prog nq init o s', (1 <= nq)%nat ->
  let s := e_run prog o (e_init nq init) in
  e_pc s = EDetermine -> step prog TE s = Some s' -> e_sec s' = true ->
  e_ws s' = [] /\ Forall (fun x => e_now s' < ev_time x) (concat (e_pqs s')).
Proof. intros prog nq init o s' H. exact (par_secondary_round_clean prog nq init H o s'). Qed.
Print Assumptions c04_secondary_round_clean.

(** The literal phase clause ("no secondary starts before every primary of the
    instant, including primaries scheduled during the instant, has finished") is
    FALSE: sibling secondaries of one round.  Witness interleaving on one queue pair. *)
Theorem c04_sibling_secondary_corner_refuted :
  exists o, let s := e_run corner_prog o (e_init 1 corner_init) in
  rev (e_trace s) = [LStart (mk_ev 1 10 true); LSched (mk_ev 1 10 true) (mk_ev 3 10 false); LStart (mk_ev 2 10 true)] /\
  phase_literal_ok corner_init (rev (e_trace s)) = false.
Proof. exists corner_oracle. destruct corner_refuted as [A [B _]]. auto. Qed.
Print Assumptions c04_sibling_secondary_corner_refuted.

(** Non-vacuity: a same-instant chain primary -> (primary, secondary) -> ... runs to
    completion under a round-robin oracle on 2 queue pairs; the acceptor accepts. *)
Definition nv_prog : program :=
  fun id => if id =? 1 then [(4, 0, false); (5, 0, true)] else if id =? 4 then [(6, 0, false); (7, 10, false)] else [].
Definition nv_init : list ev := [mk_ev 1 5 false; mk_ev 2 5 true; mk_ev 3 5 false].
Definition nv_oracle : list tid :=
  concat (repeat ([TE; TE; TE] ++ flat_map (fun i => [TW i; TW i; TW i; TW i; TW i; TW i]) (seq 0 4)) 40).

Example c04_nonvacuous :
  let s := e_run nv_prog nv_oracle (e_init 2 nv_init) in
  e_pc s = EDone /\ length (e_handled s) = 7%nat /\
  par_trace_ok nv_init (rev (e_trace s)) = true /\ phase_literal_ok nv_init (rev (e_trace s)) = true /\
  rev (e_rounds s) = [(5, false); (5, false); (5, false); (5, true); (15, false)].
Proof. vm_compute. repeat split; reflexivity. Qed.
