(** C43 — case evaluators for the correspondence check. *)
From Akita Require Import Lib.Base Lib.Json C43.Model.
Local Open Scope N_scope.

(** one case: a type, which validator was called, the verdict of the real validator, and
    for a few values of the type the result of the real checkpoint round trip
    (json.Marshal then json.Unmarshal into a fresh value; None = an error) *)
Record case := mk_case {
  c_state : bool;
  c_ty : ty;
  o_accept : bool;
  o_panic : bool;
  c_vals : list (value * option value) }.

Definition ov_eqb := opt_eqb value_eqb.

(** model = implementation: same verdict and, for an admitted type, the same round-trip
    result for every value *)
Definition check_case (c : case) : bool :=
  negb (o_panic c) && Bool.eqb (validate (c_state c) (c_ty c)) (o_accept c) &&
  (* the codec model is claimed on the types the validator admits *)
  (if validate (c_state c) (c_ty c)
   then forallb (fun vo => ov_eqb (roundtrip (c_ty c) (fst vo)) (snd vo)) (c_vals c)
   else true).

(** the property on the observed behaviour: an accepted type returns every well-formed
    value unchanged, and a type that contains (anywhere in its checkpointed part) a struct
    whose state is invisible to the encoder is rejected *)
Definition holds_on (c : case) : bool :=
  (if o_accept c
   then forallb (fun vo => negb (wf (c_ty c) (fst vo)) || ov_eqb (snd vo) (Some (fst vo))) (c_vals c)
   else true) &&
  (negb (contains_hidden (c_ty c)) || negb (o_accept c)) && negb (o_panic c).
