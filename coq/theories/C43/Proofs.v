(** C43 — lemmas about the validator model. *)
From Akita Require Import Lib.Base Lib.Json Lib.JsonProofs C43.Model.
Local Open Scope N_scope.

(* ------------------------------------------------------------------ named field loops *)

Fixpoint vfields (nested : bool) (fs : list (finfo * ty)) : bool :=
  match fs with
  | [] => true
  | (fi, ft) :: fs' => (f_skip fi || vwalk false nested ft) && vfields nested fs'
  end.

Lemma vwalk_struct top nested fs :
  vwalk top nested (TStruct fs) =
  (top || nested) && negb (serializes_to_empty (TStruct fs)) && vfields nested fs.
Proof.
  cbn [vwalk].
  f_equal; try (induction fs as [|[fi ft] fs IH]; [reflexivity|cbn [vfields]; rewrite <- IH; reflexivity]).
Qed.

Fixpoint plain_fields (fs : list (finfo * ty)) : bool :=
  match fs with
  | [] => true
  | (fi, ft) :: fs' =>
      (if f_skip fi then true
       else if expands fi ft then plain_at true ft
       else f_exported fi && negb (f_quoted fi)
            && (negb (f_omitempty fi) || omit_safe ft)
            && plain_at false ft)
      && plain_fields fs'
  end.

Lemma plain_struct emb fs :
  plain_at emb (TStruct fs) =
  (emb || nodup_bytes (map fl_name (flat_ty 0 [] (TStruct fs)))) && plain_fields fs.
Proof.
  cbn [plain_at].
  f_equal; try (induction fs as [|[fi ft] fs IH]; [reflexivity|cbn [plain_fields]; rewrite <- IH; reflexivity]).
Qed.

(* ------------------------------------------------------------------ accepted + plain => lossless *)

Lemma accepted_plain_lossless t :
  forall top nested emb,
    vwalk top nested t = true -> plain_at emb t = true -> lossless_at emb t = true.
Proof.
  induction t using ty_ind2; intros top nested emb Hv Hp; try reflexivity.
  - (* slice *) cbn [vwalk] in Hv. apply andb_true_iff in Hv. destruct Hv as [_ Hv].
    cbn [plain_at] in Hp. cbn [lossless_at]. eapply IHt; eassumption.
  - (* array *) cbn [vwalk] in Hv. apply andb_true_iff in Hv. destruct Hv as [_ Hv].
    cbn [plain_at] in Hp. cbn [lossless_at]. eapply IHt; eassumption.
  - (* map *) cbn [vwalk] in Hv. apply andb_true_iff in Hv. destruct Hv as [Hv1 Hv].
    apply andb_true_iff in Hv1. destruct Hv1 as [_ Hk].
    cbn [plain_at] in Hp. cbn [lossless_at]. apply andb_true_iff. split.
    + destruct k; [reflexivity|reflexivity|discriminate].
    + eapply IHt; eassumption.
  - (* struct *)
    rewrite vwalk_struct in Hv. apply andb_true_iff in Hv. destruct Hv as [_ Hv].
    rewrite plain_struct in Hp. apply andb_true_iff in Hp. destruct Hp as [Hn Hp].
    rewrite lossless_struct. apply andb_true_iff. split; [exact Hn|].
    clear Hn. induction fs as [|[fi ft] fs IH]; [reflexivity|].
    inversion H as [|? ? Hft Hrest]; subst. cbn [snd] in Hft.
    cbn [vfields] in Hv. apply andb_true_iff in Hv. destruct Hv as [Hv1 Hv2].
    cbn [plain_fields] in Hp. apply andb_true_iff in Hp. destruct Hp as [Hp1 Hp2].
    cbn [lossless_fields]. apply andb_true_iff. split; [|apply IH; assumption].
    destruct (f_skip fi) eqn:Esk; [reflexivity|]. cbn [orb] in Hv1.
    destruct (expands fi ft) eqn:Ex.
    + eapply Hft; eassumption.
    + apply andb_true_iff in Hp1. destruct Hp1 as [Hp1 Hpt]. rewrite Hp1. cbn [andb].
      eapply Hft; eassumption.
  - (* custom *) cbn [vwalk] in Hv. apply andb_true_iff in Hv. destruct Hv as [_ Hu].
    cbn [plain_at] in Hp. apply andb_true_iff in Hp. destruct Hp as [Hk Hl].
    cbn [lossless_at]. rewrite Hu, Hk. exact Hl.
  - (* opaque *) cbn [plain_at] in Hp. discriminate.
  - (* other *) cbn [vwalk] in Hv. discriminate.
Qed.

Lemma sound_on_plain st t :
  validate st t = true -> plain t = true ->
  forall v, wf t v = true -> roundtrip t v = Some v.
Proof.
  intros Hv Hp v Hwf. apply lossless_roundtrip; [|exact Hwf].
  unfold lossless. eapply accepted_plain_lossless; [exact Hv|exact Hp].
Qed.

(* ------------------------------------------------------------------ hidden-only structs are rejected *)

Lemma enc_fields_hidden fl d cur fs :
  forallb (fun f => negb (f_exported (fst f)) && negb (f_embedded (fst f))) fs = true ->
  forall i vs, enc_fields fl d cur i fs vs = [].
Proof.
  induction fs as [|[fi ft] fs IH]; intros H i vs; [destruct vs; reflexivity|].
  destruct vs as [|x vs]; [reflexivity|].
  cbn [forallb fst] in H. apply andb_true_iff in H. destruct H as [H1 H2].
  apply andb_true_iff in H1. destruct H1 as [He Hm].
  apply negb_true_iff in He. apply negb_true_iff in Hm.
  cbn [enc_fields]. unfold expands, candidate. rewrite He, Hm. cbn [andb app]. apply IH. exact H2.
Qed.

Lemma hidden_serializes_to_empty t : hidden_only t = true -> serializes_to_empty t = true.
Proof.
  destruct t; try discriminate. cbn [hidden_only serializes_to_empty]. intros H.
  apply andb_true_iff in H. destruct H as [Hu Hall]. rewrite Hu. cbn [andb].
  unfold encode. cbn [zero]. rewrite enc_struct. cbn [ctx_of].
  rewrite enc_fields_hidden by exact Hall. reflexivity.
Qed.

Lemma rejects_hidden top nested t : hidden_only t = true -> vwalk top nested t = false.
Proof.
  intros H. pose proof (hidden_serializes_to_empty t H) as E.
  destruct t; try discriminate. rewrite vwalk_struct. rewrite E.
  cbn [negb]. rewrite andb_false_r. reflexivity.
Qed.

Lemma vfields_in nested fs fi ft :
  In (fi, ft) fs -> f_skip fi = false -> vwalk false nested ft = false -> vfields nested fs = false.
Proof.
  induction fs as [|[gi gt] fs IH]; intros Hin Hs Hw; [destruct Hin|].
  cbn [vfields]. destruct Hin as [E|Hin].
  - inversion E; subst. rewrite Hs, Hw. reflexivity.
  - rewrite (IH Hin Hs Hw). apply andb_false_r.
Qed.

Lemma rejects_hidden_nested top nested fs fi h :
  In (fi, h) fs -> f_skip fi = false -> hidden_only h = true ->
  vwalk top nested (TStruct fs) = false.
Proof.
  intros Hin Hs Hh. rewrite vwalk_struct.
  rewrite (vfields_in nested fs fi h Hin Hs (rejects_hidden false nested h Hh)).
  apply andb_false_r.
Qed.

Lemma rejects_hidden_in_slice top nested fs fi h :
  In (fi, TSlice h) fs -> f_skip fi = false -> hidden_only h = true ->
  vwalk top nested (TStruct fs) = false.
Proof.
  intros Hin Hs Hh. rewrite vwalk_struct.
  rewrite (vfields_in nested fs fi (TSlice h) Hin Hs); [apply andb_false_r|].
  cbn [vwalk negb andb]. apply rejects_hidden. exact Hh.
Qed.

(* ------------------------------------------------------------------ invisible state, anywhere *)

Lemma members_keys_nil ms : keys ms = [] -> ms = [].
Proof. destruct ms; [reflexivity|discriminate]. Qed.

Lemma enc_fields_flat_nil fl d cur fs :
  forall i vs, flat_fields d cur i fs = [] -> enc_fields fl d cur i fs vs = [].
Proof.
  induction fs as [|[fi ft] fs IH]; intros i vs H; [destruct vs; reflexivity|].
  destruct vs as [|x vs]; [reflexivity|].
  cbn [flat_fields] in H. apply app_eq_nil in H. destruct H as [H1 H2].
  cbn [enc_fields]. rewrite (IH _ vs H2), app_nil_r.
  destruct (expands fi ft) eqn:Ex.
  - apply members_keys_nil.
    pose proof (keys_in_names_all ft (expands_struct _ _ Ex) fl (S d) (cur ++ [i]) x) as Hk.
    rewrite H1 in Hk. cbn [names map] in Hk.
    destruct (keys (members (enc (Some (fl, S d, cur ++ [i])) ft x))) as [|k r]; [reflexivity|].
    exfalso. exact (Hk k (or_introl eq_refl)).
  - destruct (candidate fi); [discriminate|reflexivity].
Qed.

Lemma hidden_state_serializes_to_empty t : hidden_state t = true -> serializes_to_empty t = true.
Proof.
  destruct t; try discriminate. cbn [hidden_state serializes_to_empty]. intros H.
  apply andb_true_iff in H. destruct H as [Hu Hn]. rewrite Hu. cbn [andb].
  unfold encode. cbn [zero]. rewrite enc_struct. cbn [ctx_of].
  rewrite flat_ty_struct in Hn. destruct (flat_fields 0 [] 0 fs) eqn:E; [|discriminate].
  rewrite flat_ty_struct, E. rewrite enc_fields_flat_nil by exact E. reflexivity.
Qed.

Lemma rejects_hidden_state top nested t : hidden_state t = true -> vwalk top nested t = false.
Proof.
  intros H. pose proof (hidden_state_serializes_to_empty t H) as E.
  destruct t; try discriminate. rewrite vwalk_struct. rewrite E.
  cbn [negb]. rewrite andb_false_r. reflexivity.
Qed.

Lemma flat_fields_all_hidden d cur fs :
  forallb (fun f => negb (f_exported (fst f)) && negb (f_embedded (fst f))) fs = true ->
  forall i, flat_fields d cur i fs = [].
Proof.
  induction fs as [|[fi ft] fs IH]; intros Hall i; [reflexivity|].
  cbn [forallb fst] in Hall. apply andb_true_iff in Hall. destruct Hall as [H1 H2].
  apply andb_true_iff in H1. destruct H1 as [He Hm].
  apply negb_true_iff in He. apply negb_true_iff in Hm.
  cbn [flat_fields]. unfold expands, candidate. rewrite He, Hm. cbn [andb app]. apply IH. exact H2.
Qed.

Lemma hidden_only_hidden_state t : hidden_only t = true -> hidden_state t = true.
Proof.
  destruct t; try discriminate. cbn [hidden_only hidden_state]. intros H.
  apply andb_true_iff in H. destruct H as [Hu Hall]. rewrite Hu. cbn [andb].
  rewrite flat_ty_struct, (flat_fields_all_hidden 0 [] fs Hall 0). reflexivity.
Qed.

Fixpoint hidden_fields (fs : list (finfo * ty)) : bool :=
  match fs with
  | [] => false
  | (fi, ft) :: fs' => (negb (f_skip fi) && contains_hidden ft) || hidden_fields fs'
  end.

Lemma contains_hidden_struct fs :
  contains_hidden (TStruct fs) = hidden_state (TStruct fs) || hidden_fields fs.
Proof.
  cbn [contains_hidden].
  f_equal; try (induction fs as [|[fi ft] fs IH]; [reflexivity|cbn [hidden_fields]; rewrite <- IH; reflexivity]).
Qed.

(** any type that contains, in its checkpointed part, a struct whose state is invisible to
    the encoder is rejected — at the top, nested, in slices, arrays, maps, and behind
    pointer-receiver JSON methods *)
Lemma rejects_contains_hidden t :
  forall top nested, contains_hidden t = true -> vwalk top nested t = false.
Proof.
  induction t using ty_ind2; intros top nested Hc; try discriminate Hc.
  - cbn [contains_hidden] in Hc. cbn [vwalk]. rewrite (IHt false nested Hc). apply andb_false_r.
  - cbn [contains_hidden] in Hc. cbn [vwalk]. rewrite (IHt false nested Hc). apply andb_false_r.
  - cbn [contains_hidden] in Hc. cbn [vwalk]. rewrite (IHt false nested Hc). apply andb_false_r.
  - rewrite contains_hidden_struct in Hc. apply orb_true_iff in Hc. destruct Hc as [Hh|Hf].
    + apply rejects_hidden_state. exact Hh.
    + rewrite vwalk_struct. replace (vfields nested fs) with false; [apply andb_false_r|].
      symmetry. induction fs as [|[fi ft] fs IH]; [discriminate|].
      inversion H as [|? ? Hft Hrest]; subst. cbn [snd] in Hft.
      cbn [hidden_fields] in Hf. cbn [vfields]. apply orb_true_iff in Hf. destruct Hf as [Hf|Hf].
      * apply andb_true_iff in Hf. destruct Hf as [Hs Hcf]. apply negb_true_iff in Hs.
        rewrite Hs, (Hft false nested Hcf). reflexivity.
      * rewrite (IH Hrest Hf). apply andb_false_r.
  - cbn [contains_hidden] in Hc. cbn [vwalk]. apply IHt. exact Hc.
Qed.

(* ------------------------------------------------------------------ disallowed kinds *)

Lemma rejects_other top nested fs fi k :
  In (fi, TOther k) fs -> f_skip fi = false -> vwalk top nested (TStruct fs) = false.
Proof.
  intros Hin Hs. rewrite vwalk_struct.
  rewrite (vfields_in nested fs fi (TOther k) Hin Hs eq_refl). apply andb_false_r.
Qed.

Lemma spec_rejects_nested_struct fs fi gs :
  In (fi, TStruct gs) fs -> f_skip fi = false -> validate_spec (TStruct fs) = false.
Proof.
  intros Hin Hs. unfold validate_spec. rewrite vwalk_struct.
  rewrite (vfields_in false fs fi (TStruct gs) Hin Hs); [apply andb_false_r|].
  rewrite vwalk_struct. reflexivity.
Qed.

(* ------------------------------------------------------------------ the confirmed gaps *)

Definition fA : finfo := mkF (bs "A") true false None false false false false.
Definition fb : finfo := mkF (bs "b") false false None false false false false.
Definition t_mixed : ty := TStruct [(fA, TInt I64); (fb, TInt I64)].
Definition v_mixed : value := VStruct [VInt 99; VInt 7].

Lemma mixed_fields_gap :
  validate_state t_mixed = true /\ validate_spec t_mixed = true /\ wf t_mixed v_mixed = true /\
  roundtrip t_mixed v_mixed = Some (VStruct [VInt 99; VInt 0]).
Proof. vm_compute. repeat split. Qed.

Definition fAn : finfo := mkF (bs "A") true false (Some (bs "n")) false false false false.
Definition fBn : finfo := mkF (bs "B") true false (Some (bs "n")) false false false false.
Definition t_dup : ty := TStruct [(fAn, TInt I64); (fBn, TInt I64)].
Definition v_dup : value := VStruct [VInt 1; VInt 2].

Lemma duplicate_name_gap :
  validate_state t_dup = true /\ validate_spec t_dup = true /\ wf t_dup v_dup = true /\
  encode t_dup v_dup = JObj [] /\
  roundtrip t_dup v_dup = Some (VStruct [VInt 0; VInt 0]).
Proof. vm_compute. repeat split. Qed.

Definition fSo : finfo := mkF (bs "S") true false (Some (bs "s")) false true false false.
Definition t_omit : ty := TStruct [(fSo, TSlice (TInt U8))].
Definition v_omit : value := VStruct [VSlice (Some [])].

Lemma omitempty_gap :
  validate_state t_omit = true /\ validate_spec t_omit = true /\ wf t_omit v_omit = true /\
  roundtrip t_omit v_omit = Some (VStruct [VSlice None]).
Proof. vm_compute. repeat split. Qed.

(** non-vacuity: a plain accepted type with an embedded struct, a map, a byte slice *)
Definition fMeta : finfo := mkF (bs "Meta") true true None false false false false.
Definition fID : finfo := mkF (bs "ID") true false None false false false false.
Definition fData : finfo := mkF (bs "Data") true false (Some (bs "data")) false false false false.
Definition fTab : finfo := mkF (bs "Tab") true false (Some (bs "tab")) false false false false.
Definition fCnt : finfo := mkF (bs "Count") true false (Some (bs "count,")) false true false false.
Definition t_good : ty :=
  TStruct [(fMeta, TStruct [(fID, TInt U64)]); (fData, TSlice (TInt U8));
           (fTab, TMap (MKInt U32) TString); (fCnt, TInt I64)].
Definition v_good : value :=
  VStruct [VStruct [VInt 18446744073709551615]; VSlice (Some [VInt 0; VInt 255]);
           VMap (Some [(KI 10, VStr (bs "x")); (KI 9, VStr [])]); VInt 0].

Lemma good_example :
  validate_state t_good = true /\ plain t_good = true /\ wf t_good v_good = true /\
  roundtrip t_good v_good = Some v_good.
Proof. vm_compute. repeat split. Qed.

Definition t_hidden : ty :=
  TStruct [(mkF (bs "vals") false false None false false false false, TSlice (TInt I64));
           (mkF (bs "idx") false false None false false false false, TMap MKStr (TInt I64))].

(** state hidden behind an exported json:"-" field, behind an embedded struct without
    exported fields, and behind pointer-receiver JSON methods, nested in a map of a State *)
Definition t_dash : ty :=
  TStruct [(mkF (bs "entries") false false None false false false false, TMap MKStr (TInt I64));
           (mkF (bs "Dirty") true false None true false false false, TBool)].
Definition t_embnone : ty :=
  TStruct [(mkF (bs "None") true true None false false false false, TStruct []);
           (mkF (bs "order") false false None false false false false, TSlice (TInt I64))].
Definition t_ptrset : ty :=
  TStruct [(mkF (bs "Count") true false (Some (bs "count")) false false false false, TInt I64);
           (mkF (bs "InFlight") true false (Some (bs "in_flight")) false false false false,
            TMap MKStr (TOpaque (TStruct [(mkF (bs "ids") false false None false false false false, TSlice (TInt I64))])))].

Lemma hidden_state_examples :
  hidden_state t_dash = true /\ validate_state t_dash = false /\
  hidden_state t_embnone = true /\ validate_state t_embnone = false /\
  contains_hidden t_ptrset = true /\ validate_state t_ptrset = false.
Proof. vm_compute. repeat split. Qed.

Lemma hidden_example : hidden_only t_hidden = true /\ validate_state t_hidden = false.
Proof. vm_compute. split; reflexivity. Qed.

(* ------------------------------------------------------------------ link: model agreement => property *)

From Akita Require Import C43.Exec.

Lemma ov_eqb_some_eq a v : ov_eqb (Some v) a = true -> a = Some v.
Proof.
  destruct a as [w|]; cbn; [|discriminate]. intros H. apply value_eqb_eq in H. subst. reflexivity.
Qed.

Lemma model_agreement_implies_property c :
  plain (c_ty c) = true -> check_case c = true -> holds_on c = true.
Proof.
  intros Hp Hc. unfold check_case in Hc.
  apply andb_true_iff in Hc. destruct Hc as [Hc Hvals].
  apply andb_true_iff in Hc. destruct Hc as [Hpanic Hacc].
  apply Bool.eqb_prop in Hacc.
  unfold holds_on. rewrite Hpanic, andb_true_r. apply andb_true_iff. split.
  - destruct (o_accept c) eqn:Ea; [|reflexivity].
    apply forallb_forall. intros [v o] Hin. cbn [fst snd].
    rewrite Hacc in Hvals. rewrite forallb_forall in Hvals. specialize (Hvals _ Hin). cbn [fst snd] in Hvals.
    destruct (wf (c_ty c) v) eqn:Ew; [|reflexivity]. cbn [negb orb].
    rewrite (sound_on_plain (c_state c) (c_ty c) Hacc Hp v Ew) in Hvals.
    apply ov_eqb_some_eq in Hvals. subst. cbn. apply value_eqb_refl.
  - destruct (contains_hidden (c_ty c)) eqn:Eh; [|reflexivity]. cbn [negb orb].
    unfold validate in Hacc. rewrite (rejects_contains_hidden _ true (c_state c) Eh) in Hacc.
    rewrite <- Hacc. reflexivity.
Qed.
