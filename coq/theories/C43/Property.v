(** C43 — Spec/State validation admits only losslessly serializable types: theorems. *)
From Akita Require Import Lib.Base Lib.Json Lib.JsonProofs C43.Model C43.Exec C43.Proofs.
Local Open Scope N_scope.

(** A type that ValidateSpec / ValidateState accepts and that is "plain" (no unexported
    non-skipped field, no omitempty on a slice or map, no two fields sharing a JSON name,
    no ,string option, custom marshalers only the hand-modelled lossless ones) returns every
    well-formed value unchanged from the checkpoint JSON. *)
Theorem c43_sound_on_plain :
  forall (state : bool) (t : ty),
    validate state t = true -> plain t = true ->
    forall v, wf t v = true -> roundtrip t v = Some v.
Proof. exact sound_on_plain. Qed.
Print Assumptions c43_sound_on_plain.

(** ... and such a type is [lossless] (the decidable check used for the library types). *)
Theorem c43_accepted_plain_is_lossless :
  forall (state : bool) (t : ty), validate state t = true -> plain t = true -> lossless t = true.
Proof. intros state t Hv Hp. exact (accepted_plain_lossless t true state false Hv Hp). Qed.
Print Assumptions c43_accepted_plain_is_lossless.

(** A struct whose state is only in unexported fields, without custom JSON, is rejected —
    at the top, as a field, and as a slice element of a State. *)
Theorem c43_rejects_hidden :
  forall (state : bool) (t : ty), hidden_only t = true -> validate state t = false.
Proof. intros state t H. exact (rejects_hidden true state t H). Qed.
Print Assumptions c43_rejects_hidden.

Theorem c43_rejects_hidden_nested :
  forall (state : bool) fs fi h,
    In (fi, h) fs -> f_skip fi = false -> hidden_only h = true ->
    validate state (TStruct fs) = false.
Proof. intros state fs fi h. exact (rejects_hidden_nested true state fs fi h). Qed.
Print Assumptions c43_rejects_hidden_nested.

Theorem c43_rejects_hidden_in_slice :
  forall (state : bool) fs fi h,
    In (fi, TSlice h) fs -> f_skip fi = false -> hidden_only h = true ->
    validate state (TStruct fs) = false.
Proof. intros state fs fi h. exact (rejects_hidden_in_slice true state fs fi h). Qed.
Print Assumptions c43_rejects_hidden_in_slice.

(** The general form: a struct that keeps state in unexported fields and shows no member at
    all to the encoder (exported fields tagged json:"-" and embedded structs without exported
    fields do not count) is rejected wherever it occurs in the checkpointed part of a
    Spec/State: at the top, as a field, as a slice / array / map element, and behind JSON
    methods declared on the pointer receiver (which a State marshalled by value never uses). *)
Theorem c43_rejects_hidden_state :
  forall (state : bool) (t : ty), hidden_state t = true -> validate state t = false.
Proof. intros state t H. exact (rejects_hidden_state true state t H). Qed.
Print Assumptions c43_rejects_hidden_state.

Theorem c43_rejects_contains_hidden :
  forall (state : bool) (t : ty), contains_hidden t = true -> validate state t = false.
Proof. intros state t H. exact (rejects_contains_hidden t true state H). Qed.
Print Assumptions c43_rejects_contains_hidden.

Theorem c43_hidden_only_is_hidden_state :
  forall t, hidden_only t = true -> hidden_state t = true.
Proof. exact hidden_only_hidden_state. Qed.
Print Assumptions c43_hidden_only_is_hidden_state.

(** pointers, interfaces, channels, functions and the other unsupported kinds are rejected
    in any field that is not tagged json:"-"; Specs reject nested structs *)
Theorem c43_rejects_disallowed_kind :
  forall (state : bool) fs fi k,
    In (fi, TOther k) fs -> f_skip fi = false -> validate state (TStruct fs) = false.
Proof. intros state fs fi k. exact (rejects_other true state fs fi k). Qed.
Print Assumptions c43_rejects_disallowed_kind.

Theorem c43_spec_rejects_nested_struct :
  forall fs fi gs, In (fi, TStruct gs) fs -> f_skip fi = false -> validate_spec (TStruct fs) = false.
Proof. exact spec_rejects_nested_struct. Qed.
Print Assumptions c43_spec_rejects_nested_struct.

(** The full statement "every accepted type round-trips every value" is FALSE of the
    faithful model (and of the code): three accepted-yet-lossy shapes. *)
Theorem c43_mixed_fields_refuted :
  exists t v, validate_state t = true /\ validate_spec t = true /\ wf t v = true /\
              roundtrip t v <> Some v.
Proof.
  exists t_mixed, v_mixed. destruct mixed_fields_gap as (A & B & C & D).
  repeat split; try assumption. rewrite D. discriminate.
Qed.
Print Assumptions c43_mixed_fields_refuted.

Theorem c43_duplicate_name_refuted :
  exists t v, validate_state t = true /\ validate_spec t = true /\ wf t v = true /\
              roundtrip t v <> Some v.
Proof.
  exists t_dup, v_dup. destruct duplicate_name_gap as (A & B & C & _ & D).
  repeat split; try assumption. rewrite D. discriminate.
Qed.
Print Assumptions c43_duplicate_name_refuted.

Theorem c43_omitempty_refuted :
  exists t v, validate_state t = true /\ validate_spec t = true /\ wf t v = true /\
              roundtrip t v <> Some v.
Proof.
  exists t_omit, v_omit. destruct omitempty_gap as (A & B & C & D).
  repeat split; try assumption. rewrite D. discriminate.
Qed.
Print Assumptions c43_omitempty_refuted.

(** link between the two evaluators of Exec.v: on a plain type, agreement of the
    implementation with the model implies the property on the observed behaviour *)
Theorem c43_model_agreement_implies_property :
  forall c, plain (c_ty c) = true -> check_case c = true -> holds_on c = true.
Proof. exact model_agreement_implies_property. Qed.
Print Assumptions c43_model_agreement_implies_property.

Example c43_sound_on_plain_nonvacuous :
  validate_state t_good = true /\ plain t_good = true /\ wf t_good v_good = true /\
  roundtrip t_good v_good = Some v_good.
Proof. exact good_example. Qed.

Example c43_rejects_hidden_state_nonvacuous :
  hidden_state t_dash = true /\ validate_state t_dash = false /\
  hidden_state t_embnone = true /\ validate_state t_embnone = false /\
  contains_hidden t_ptrset = true /\ validate_state t_ptrset = false.
Proof. exact hidden_state_examples. Qed.

Example c43_rejects_hidden_nonvacuous : hidden_only t_hidden = true /\ validate_state t_hidden = false.
Proof. exact hidden_example. Qed.
