(** C43 — theorems (glue only). *)
From Akita Require Import Lib.Base Lib.Json C43.Model.
Local Open Scope N_scope.

Theorem c43_skeleton : validate_state TBool = false.
Proof. reflexivity. Qed.
Print Assumptions c43_skeleton.
