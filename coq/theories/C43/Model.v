(** C43 — modeling/validate.go: the reflective walk of ValidateSpec / ValidateState over
    the type descriptors of Lib/Json.  Executable definitions only. *)
From Akita Require Import Lib.Base Lib.Json.
Local Open Scope N_scope.

(** validateFieldType: map keys must be string, (u)int, (u)int32 or (u)int64 *)
Definition key_allowed (k : mapkey) : bool :=
  match k with
  | MKStr | MKInt I32 | MKInt I64 | MKInt U32 | MKInt U64 => true
  | _ => false
  end.

Definition has_unexported (fs : list (finfo * ty)) : bool :=
  existsb (fun f => negb (f_exported (fst f))) fs.

(** serializesToEmpty: unexported fields present and the zero value marshals to "{}" *)
Definition serializes_to_empty (t : ty) : bool :=
  match t with
  | TStruct fs => has_unexported fs && json_eqb (encode t (zero t)) (JObj [])
  | _ => false
  end.

(** validateFieldType / validateStructType.  [top] is true for the value handed to
    ValidateSpec/ValidateState (it must be a struct and is not subject to the
    nested-struct rule); [nested] is allowNestedStructs. *)
Fixpoint vwalk (top nested : bool) (t : ty) {struct t} : bool :=
  match t with
  | TBool | TInt _ | TFloat _ | TString => negb top
  | TSlice e => negb top && vwalk false nested e
  | TArray _ e => negb top && vwalk false nested e
  | TMap k e => negb top && key_allowed k && vwalk false nested e
  | TStruct fs =>
      (top || nested) && negb (serializes_to_empty t) &&
      (fix go (fs : list (finfo * ty)) : bool :=
         match fs with
         | [] => true
         | (fi, ft) :: fs' => (f_skip fi || vwalk false nested ft) && go fs'
         end) fs
  | TCustom c _ => (top || nested) && c_unmarshal c
  | TOpaque under => vwalk top nested under
  | TOther _ => false
  end.

Definition validate_spec (t : ty) : bool := vwalk true false t.
Definition validate_state (t : ty) : bool := vwalk true true t.
Definition validate (state : bool) (t : ty) : bool := vwalk true state t.

(** "plain" types: no state outside the JSON-visible fields and none of the encoder
    features that drop or rewrite data. *)
Fixpoint plain_at (emb : bool) (t : ty) {struct t} : bool :=
  match t with
  | TBool | TInt _ | TFloat _ | TString => true
  | TSlice e => plain_at false e
  | TArray _ e => plain_at false e
  | TMap _ e => plain_at false e
  | TStruct fs =>
      (emb || nodup_bytes (map fl_name (flat_ty 0 [] t))) &&
      (fix go (fs : list (finfo * ty)) : bool :=
         match fs with
         | [] => true
         | (fi, ft) :: fs' =>
             (if f_skip fi then true
              else if expands fi ft then plain_at true ft
              else f_exported fi && negb (f_quoted fi)
                   && (negb (f_omitempty fi) || omit_safe ft)
                   && plain_at false ft)
             && go fs'
         end) fs
  | TCustom c dto => c_known c && lossless dto      (* a hand-modelled, lossless DTO *)
  | TOpaque _ => false
  | TOther _ => true
  end.

Definition plain (t : ty) : bool := plain_at false t.

(** A struct that keeps state in unexported fields and shows NOTHING to the encoder: no
    JSON-visible member at all once json:"-" fields are dropped and embedded structs are
    expanded (an exported field tagged json:"-" or an embedded struct without exported
    fields does not count).  Its checkpoint JSON is {} whatever it holds. *)
Definition hidden_state (t : ty) : bool :=
  match t with
  | TStruct fs => has_unexported fs && is_nil (flat_ty 0 [] t)
  | _ => false
  end.

(** ... reachable from a State/Spec through fields that are checkpointed: struct fields not
    tagged json:"-", slice / array / map elements.  A type whose only JSON customisation
    sits on POINTER receivers ([TOpaque]) is looked through: the State is marshalled by
    value, so those methods are not used for a field or map value.  A value-receiver
    custom marshaler pair ([TCustom]) is trusted and not looked into. *)
Fixpoint contains_hidden (t : ty) {struct t} : bool :=
  match t with
  | TSlice e => contains_hidden e
  | TArray _ e => contains_hidden e
  | TMap _ e => contains_hidden e
  | TStruct fs =>
      hidden_state t ||
      (fix go (fs : list (finfo * ty)) : bool :=
         match fs with
         | [] => false
         | (fi, ft) :: fs' => (negb (f_skip fi) && contains_hidden ft) || go fs'
         end) fs
  | TOpaque u => contains_hidden u
  | _ => false
  end.

(** the special case named in the statement: every field unexported *)
Definition hidden_only (t : ty) : bool :=
  match t with
  | TStruct fs =>
      has_unexported fs &&
      forallb (fun f => negb (f_exported (fst f)) && negb (f_embedded (fst f))) fs
  | _ => false
  end.
