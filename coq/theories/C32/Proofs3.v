(** C32 — proofs, part 3: the request helpers of the tracing API
    (TraceReqReceive / TraceReqComplete / EndReqInOnReset) pair every start with
    exactly one end under one task ID and release the registry key. *)
From Akita Require Import Lib.Base C32.Model C32.Spec C32.Proofs1 C32.Proofs2.
Local Open Scope N_scope.

Lemma key_eqb_eq a b : key_eqb a b = true <-> a = b.
Proof.
  unfold key_eqb. destruct a as [a1 a2], b as [b1 b2]. cbn [fst snd].
  rewrite andb_true_iff, !N.eqb_eq. split; [intros [-> ->]; reflexivity|intro H; injection H; auto].
Qed.

Lemma key_eqb_refl a : key_eqb a a = true.
Proof. apply key_eqb_eq. reflexivity. Qed.

Lemma key_eqb_neq a b : a <> b -> key_eqb a b = false.
Proof. intro H. destruct (key_eqb a b) eqn:E; [apply key_eqb_eq in E; contradiction|reflexivity]. Qed.

Lemma rget_rdel_same k m : rget k (rdel k m) = None.
Proof.
  induction m as [|[k' v] r IH]; cbn [rdel rget]; [reflexivity|].
  destruct (key_eqb k' k) eqn:E; [exact IH|]. cbn [rget]. rewrite E. exact IH.
Qed.

Lemma rget_rdel_other k k' m : k' <> k -> rget k' (rdel k m) = rget k' m.
Proof.
  intro Hne. induction m as [|[k0 v] r IH]; cbn [rdel rget]; [reflexivity|].
  destruct (key_eqb k0 k) eqn:E.
  - apply key_eqb_eq in E. subst k0. rewrite (key_eqb_neq k k') by congruence. exact IH.
  - cbn [rget]. destruct (key_eqb k0 k'); [reflexivity|exact IH].
Qed.

Lemma kmem_kdel_same k l : kmem k (kdel k l) = false.
Proof.
  induction l as [|x r IH]; [reflexivity|]. cbn [kdel].
  destruct (key_eqb x k) eqn:E; [exact IH|]. unfold kmem in *. cbn [existsb].
  rewrite IH, orb_false_r. destruct (key_eqb k x) eqn:E2; [|reflexivity].
  apply key_eqb_eq in E2. subst. rewrite key_eqb_refl in E. discriminate.
Qed.

Lemma kmem_kdel_other k k' l : k' <> k -> kmem k' (kdel k l) = kmem k' l.
Proof.
  intro Hne. induction l as [|x r IH]; [reflexivity|]. cbn [kdel]. unfold kmem in *.
  destruct (key_eqb x k) eqn:E; cbn [existsb].
  - apply key_eqb_eq in E. subst x. rewrite (key_eqb_neq k' k Hne). exact IH.
  - rewrite IH. reflexivity.
Qed.

(** the joint invariant of the API state [s] and the acceptor state [w] *)
Record pinv (s : api) (w : wst) (live : list key) (last : N) : Prop := mk_pinv {
  p_reg : forall k, kmem k live = true <-> exists id, rget k (a_recv s) = Some id;
  p_task : forall k id, rget k (a_recv s) = Some id ->
           exists ts, aget id (w_tasks w) = Some (mk_ti ts None) /\ ts <= last;
  p_inj : forall k1 k2 id, rget k1 (a_recv s) = Some id -> rget k2 (a_recv s) = Some id -> k1 = k2;
  p_lt : forall id ti, aget id (w_tasks w) = Some ti -> id < a_next s;
  p_early : w_early w = [];
  p_locs : forall l k, aget l (w_locs w) = Some k -> k = K_req_in;
  p_open : forall id ti, aget id (w_tasks w) = Some ti -> ti_end ti = None ->
           exists k, rget k (a_recv s) = Some id }.

Lemma pinv_last s w live last last' : last <= last' -> pinv s w live last -> pinv s w live last'.
Proof.
  intros Hle [A B C D E F G]. constructor; auto.
  intros k id H. destruct (B k id H) as [ts [H1 H2]]. exists ts. split; [exact H1|lia].
Qed.

Lemma end_step s w live last d m id t :
  pinv s w live last -> last <= t -> rget (d, m) (a_recv s) = Some id ->
  exists w', wf_step w (TEnd id t) = Some w' /\
    pinv (mk_api (a_next s) (rdel (d, m) (a_recv s)) (a_inb s) (a_outb s) (a_indepth s) (a_outdepth s))
         w' (kdel (d, m) live) t.
Proof.
  intros [A B C D E F G] Hle Hg.
  destruct (B _ _ Hg) as [ts [Ha Hts]].
  cbn [wf_step]. rewrite Ha. cbn [ti_end ti_start].
  assert (ts <=? t = true) as -> by (apply N.leb_le; lia).
  eexists. split; [reflexivity|]. constructor; cbn [a_recv a_next w_tasks w_early w_locs].
  - intro k. destruct (key_eqb k (d, m)) eqn:Ek.
    + apply key_eqb_eq in Ek. subst k. rewrite kmem_kdel_same, rget_rdel_same.
      split; [discriminate|intros [i H]; discriminate].
    + assert (k <> (d, m)) as Hne by (intro; subst; rewrite key_eqb_refl in Ek; discriminate).
      rewrite kmem_kdel_other, rget_rdel_other by exact Hne. apply A.
  - intros k id0 H.
    assert (k <> (d, m)) as Hne by (intro; subst; rewrite rget_rdel_same in H; discriminate).
    rewrite rget_rdel_other in H by exact Hne.
    destruct (B k id0 H) as [ts0 [H1 H2]]. exists ts0. split; [|lia].
    rewrite aget_aset_other; [exact H1|]. intro; subst id0. apply Hne. eapply C; eauto.
  - intros k1 k2 id0 H1 H2.
    assert (k1 <> (d, m)) as N1 by (intro; subst; rewrite rget_rdel_same in H1; discriminate).
    assert (k2 <> (d, m)) as N2 by (intro; subst; rewrite rget_rdel_same in H2; discriminate).
    rewrite rget_rdel_other in H1, H2 by assumption. eapply C; eauto.
  - intros id0 ti H. destruct (N.eq_dec id0 id) as [->|Hd].
    + eapply D. exact Ha.
    + rewrite aget_aset_other in H by exact Hd. eapply D. exact H.
  - exact E.
  - exact F.
  - intros id0 ti H Hend. destruct (N.eq_dec id0 id) as [->|Hd].
    + rewrite aget_aset_same in H. injection H as <-. discriminate.
    + rewrite aget_aset_other in H by exact Hd. destruct (G id0 ti H Hend) as [k Hk]. exists k.
      rewrite rget_rdel_other; [exact Hk|]. intro; subst k. rewrite Hg in Hk. congruence.
Qed.

Lemma api_run_cons s c r :
  api_run s (c :: r) =
  (fst (api_run (fst (api_step s c)) r), snd (api_step s c) ++ snd (api_run (fst (api_step s c)) r)).
Proof. cbn [api_run]. destruct (api_step s c) as [s1 e1]. cbn [fst snd]. destruct (api_run s1 r). reflexivity. Qed.

Theorem pairing_run cs : forall s w live used last tr0,
  pinv s w live last -> wf_run wst0 tr0 = Some w ->
  (forall k, kmem k live = true -> kmem k used = true) ->
  req_discipline live used last cs = true ->
  exists w' last',
    wf_run wst0 (tr0 ++ map project (snd (api_run s cs))) = Some w' /\
    pinv (fst (api_run s cs)) w' (live_after live cs) last' /\
    (forall e, In e (map project (snd (api_run s cs))) -> match e with TTag _ _ | TMile _ _ => False | _ => True end).
Proof.
  induction cs as [|c r IH]; intros s w live used last tr0 Hinv Hrun Hsub Hd.
  - exists w, last. cbn. rewrite app_nil_r. split; [exact Hrun|]. split; [exact Hinv|]. intros e [].
  - cbn [req_discipline] in Hd. apply andb_true_iff in Hd. destruct Hd as [Hle Hd]. apply N.leb_le in Hle.
    rewrite api_run_cons. cbn [fst snd].
    destruct c as [| d m what t | d m t | | d m t | | | | | | | | |]; try discriminate; cbn [call_time] in Hle.
    + (* TraceReqReceive *)
      apply andb_true_iff in Hd. destruct Hd as [Hfresh Hd]. apply negb_true_iff in Hfresh.
      assert (rget (d, m) (a_recv s) = None) as Hg.
      { destruct (rget (d, m) (a_recv s)) eqn:E; [|reflexivity].
        assert (kmem (d, m) live = true) as Hl by (apply (p_reg _ _ _ _ Hinv); eauto).
        apply Hsub in Hl. congruence. }
      cbn [api_step]. unfold lookup_or_create. rewrite Hg. cbn [fst snd].
      set (id := a_next s) in *.
      destruct Hinv as [A B C D E F G].
      assert (aget id (w_tasks w) = None) as Hnone.
      { destruct (aget id (w_tasks w)) eqn:Ea; [|reflexivity]. apply D in Ea. unfold id in Ea. lia. }
      assert (exists w1, wf_step w (TStart id m K_req_in (loc_code (LReqIn d)) t) = Some w1 /\
                pinv (mk_api (id + 1) (((d, m), id) :: a_recv s) (a_inb s) (a_outb s) (a_indepth s) (a_outdepth s))
                     w1 ((d, m) :: live) t) as [w1 [Hs1 Hinv1]].
      { cbn [wf_step]. rewrite Hnone. assert (memb id (w_early w) = false) as -> by (rewrite E; reflexivity).
        assert (exists locs', (match aget (loc_code (LReqIn d)) (w_locs w) with
                  | Some k0 => if k0 =? K_req_in then Some (mk_wst (aset id (mk_ti t None) (w_tasks w)) (w_locs w) (w_early w)) else None
                  | None => Some (mk_wst (aset id (mk_ti t None) (w_tasks w)) (aset (loc_code (LReqIn d)) K_req_in (w_locs w)) (w_early w)) end)
                 = Some (mk_wst (aset id (mk_ti t None) (w_tasks w)) locs' (w_early w)) /\
                 (forall l k, aget l locs' = Some k -> k = K_req_in)) as [locs' [-> Hl]].
        { destruct (aget (loc_code (LReqIn d)) (w_locs w)) as [k0|] eqn:El.
          - rewrite (F _ _ El), N.eqb_refl. exists (w_locs w). auto.
          - eexists. split; [reflexivity|]. intros l k. destruct (N.eq_dec l (loc_code (LReqIn d))) as [->|Hn].
            + rewrite aget_aset_same. congruence.
            + rewrite aget_aset_other by exact Hn. apply F. }
        eexists. split; [reflexivity|]. constructor; cbn [a_recv a_next w_tasks w_early w_locs].
        - intro k. unfold kmem. cbn [existsb rget]. fold (kmem k live).
          destruct (key_eqb k (d, m)) eqn:Ek.
          + apply key_eqb_eq in Ek. subst k. rewrite key_eqb_refl. cbn [orb]. split; eauto.
          + rewrite (key_eqb_neq (d, m) k) by (intro; subst; rewrite key_eqb_refl in Ek; discriminate).
            cbn [orb]. apply A.
        - intros k id0. cbn [rget]. destruct (key_eqb (d, m) k) eqn:Ek.
          + intro H. injection H as <-. exists t. rewrite aget_aset_same. split; [reflexivity|lia].
          + intro H. destruct (B k id0 H) as [ts [H1 H2]]. exists ts. split; [|lia].
            rewrite aget_aset_other; [exact H1|]. intro; subst id0. apply D in H1. unfold id in H1. lia.
        - intros k1 k2 id0. cbn [rget].
          assert (forall k i, rget k (a_recv s) = Some i -> i < id) as Hlt.
          { intros k i H. destruct (B k i H) as [ts [H1 _]]. apply D in H1. exact H1. }
          destruct (key_eqb (d, m) k1) eqn:E1; destruct (key_eqb (d, m) k2) eqn:E2; intros H1 H2.
          + apply key_eqb_eq in E1, E2. congruence.
          + injection H1 as <-. apply Hlt in H2. lia.
          + injection H2 as <-. apply Hlt in H1. lia.
          + eapply C; eauto.
        - intros id0 ti H. destruct (N.eq_dec id0 id) as [->|Hn]; [lia|].
          rewrite aget_aset_other in H by exact Hn. apply D in H. unfold id in H. lia.
        - exact E.
        - exact Hl.
        - intros id0 ti H Hend. destruct (N.eq_dec id0 id) as [->|Hn].
          + exists (d, m). cbn [rget]. rewrite key_eqb_refl. reflexivity.
          + rewrite aget_aset_other in H by exact Hn. destruct (G id0 ti H Hend) as [k Hk].
            exists k. cbn [rget]. destruct (key_eqb (d, m) k) eqn:Ek; [|exact Hk].
            apply key_eqb_eq in Ek. subst k. congruence. }
      specialize (IH _ w1 ((d, m) :: live) ((d, m) :: used) t (tr0 ++ [TStart id m K_req_in (loc_code (LReqIn d)) t]) Hinv1).
      destruct IH as [w' [last' [H1 [H2 H3]]]]; auto.
      * rewrite wf_run_snoc, Hrun. exact Hs1.
      * intros k. unfold kmem. cbn [existsb]. fold (kmem k live) (kmem k used).
        destruct (key_eqb k (d, m)); [reflexivity|]. cbn [orb]. apply Hsub.
      * exists w', last'. cbn [map project app live_after]. rewrite <- app_assoc in H1. cbn [app] in H1.
        split; [exact H1|]. split; [exact H2|]. intros e [<-|He]; [exact I|apply H3; exact He].
    + (* TraceReqComplete on a live key *)
      apply andb_true_iff in Hd. destruct Hd as [Hlive Hd].
      destruct (proj1 (p_reg _ _ _ _ Hinv (d, m)) Hlive) as [id Hg].
      cbn [api_step]. unfold lookup_or_create. rewrite Hg. cbn [fst snd].
      destruct (end_step s w live last d m id t Hinv Hle Hg) as [w1 [Hs1 Hinv1]].
      specialize (IH _ w1 (kdel (d, m) live) used t (tr0 ++ [TEnd id t]) Hinv1).
      destruct IH as [w' [last' [H1 [H2 H3]]]]; auto.
      * rewrite wf_run_snoc, Hrun. exact Hs1.
      * intros k Hk. apply Hsub. destruct (key_eqb k (d, m)) eqn:Ek.
        -- apply key_eqb_eq in Ek. subst. rewrite kmem_kdel_same in Hk. discriminate.
        -- rewrite kmem_kdel_other in Hk; [exact Hk|]. intro; subst. rewrite key_eqb_refl in Ek. discriminate.
      * exists w', last'. cbn [map project app live_after]. rewrite <- app_assoc in H1. cbn [app] in H1.
        split; [exact H1|]. split; [exact H2|]. intros e [<-|He]; [exact I|apply H3; exact He].
    + (* EndReqInOnReset *)
      cbn [api_step]. destruct (rget (d, m) (a_recv s)) as [id|] eqn:Hg; cbn [fst snd].
      * destruct (end_step s w live last d m id t Hinv Hle Hg) as [w1 [Hs1 Hinv1]].
        specialize (IH _ w1 (kdel (d, m) live) used t (tr0 ++ [TEnd id t]) Hinv1).
        destruct IH as [w' [last' [H1 [H2 H3]]]]; auto.
        -- rewrite wf_run_snoc, Hrun. exact Hs1.
        -- intros k Hk. apply Hsub. destruct (key_eqb k (d, m)) eqn:Ek.
           ++ apply key_eqb_eq in Ek. subst. rewrite kmem_kdel_same in Hk. discriminate.
           ++ rewrite kmem_kdel_other in Hk; [exact Hk|]. intro; subst. rewrite key_eqb_refl in Ek. discriminate.
        -- exists w', last'. cbn [map project app live_after]. rewrite <- app_assoc in H1. cbn [app] in H1.
           split; [exact H1|]. split; [exact H2|]. intros e [<-|He]; [exact I|apply H3; exact He].
      * (* no task is registered for the key: nothing is emitted, nothing changes *)
        assert (kmem (d, m) live = false) as Hnl.
        { destruct (kmem (d, m) live) eqn:El; [|reflexivity].
          destruct (proj1 (p_reg _ _ _ _ Hinv (d, m)) El) as [i Hi]. congruence. }
        assert (kdel (d, m) live = live) as Hkd.
        { clear - Hnl. induction live as [|x l IH]; [reflexivity|]. unfold kmem in Hnl. cbn [existsb] in Hnl.
          apply orb_false_iff in Hnl. destruct Hnl as [H1 H2]. cbn [kdel].
          destruct (key_eqb x (d, m)) eqn:E.
          - apply key_eqb_eq in E. subst. rewrite key_eqb_refl in H1. discriminate.
          - rewrite (IH H2). reflexivity. }
        specialize (IH _ w live used t tr0 (pinv_last _ _ _ _ _ Hle Hinv) Hrun Hsub).
        rewrite Hkd in Hd.
        destruct (IH Hd) as [w' [last' [H1 [H2 H3]]]].
        exists w', last'. cbn [map project app live_after]. rewrite Hkd. auto.
Qed.

Lemma pinv0 base : pinv (api0 base) wst0 [] 0.
Proof.
  constructor; cbn; try discriminate; auto.
  - intro k. split; [discriminate|intros [id H]; discriminate].
Qed.

Lemma tags_before_end_no_notes tr :
  (forall e, In e tr -> match e with TTag _ _ | TMile _ _ => False | _ => True end) -> tags_before_end tr = true.
Proof.
  induction tr as [|e r IH]; intro H; [reflexivity|].
  pose proof (H e (or_introl eq_refl)) as He.
  destruct e; cbn [tags_before_end]; try contradiction; apply IH; intros x Hx; apply H; right; exact Hx.
Qed.

(** The pairing theorem. *)
Theorem registry_pairing base cs : req_discipline [] [] 0 cs = true ->
  let s := fst (api_run (api0 base) cs) in
  let tr := map project (snd (api_run (api0 base) cs)) in
  WF_open tr /\
  (forall k, kmem k (live_after [] cs) = true <-> exists id, rget k (a_recv s) = Some id) /\
  (live_after [] cs = [] -> WF tr /\ forall k, rget k (a_recv s) = None).
Proof.
  intro Hd. cbn zeta.
  destruct (pairing_run cs (api0 base) wst0 [] [] 0 [] (pinv0 base) eq_refl) as [w' [last' [Hr [Hinv Hn]]]]; auto.
  cbn [app] in Hr.
  set (tr := map project (snd (api_run (api0 base) cs))) in *.
  set (s := fst (api_run (api0 base) cs)) in *.
  assert (trace_wf_open tr = true) as Hopen.
  { unfold trace_wf_open. rewrite Hr. apply tags_before_end_no_notes. exact Hn. }
  split; [apply trace_wf_open_iff; exact Hopen|]. split; [exact (p_reg _ _ _ _ Hinv)|].
  intro Hlive. rewrite Hlive in Hinv.
  assert (forall k, rget k (a_recv s) = None) as Hnone.
  { intro k. destruct (rget k (a_recv s)) eqn:E; [|reflexivity].
    assert (kmem k [] = true) as Hc by (apply (p_reg _ _ _ _ Hinv); eauto). discriminate. }
  split; [|exact Hnone].
  apply trace_wf_iff_WF. unfold trace_wf. rewrite Hr.
  rewrite (tags_before_end_no_notes tr Hn), andb_true_r.
  unfold all_ended. apply forallb_forall. intros [id ti] Hin. cbn [snd].
  assert (NoDup (map fst (w_tasks w'))) as Hk by (eapply wf_run_keys; [|exact Hr]; constructor).
  pose proof (In_aget _ _ _ Hk Hin) as Ha.
  destruct (ti_end ti) eqn:Ee; [reflexivity|].
  destruct (p_open _ _ _ _ Hinv id ti Ha Ee) as [k Hk']. rewrite Hnone in Hk'. discriminate.
Qed.
