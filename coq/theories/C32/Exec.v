(** C32 — case evaluators for the correspondence check. *)
From Akita Require Import Lib.Base C32.Model C32.Spec.
Local Open Scope N_scope.

Inductive case : Type :=
| AsmCase (quiescent : bool) (tr : list tev) (regs : N * N * N) (go_verdict : bool)
    (* the events recorded by tracers attached to every component of an assembly
       of real library components, in emission order; regs = entries left in the
       three task-ID registries by the run; go_verdict = the verdict of the
       harness's own (Go) implementation of the acceptor on the same trace *)
| ApiCase (base : N) (calls : list call) (obs : list xev) (regs : N * N * N) (closed : bool).
    (* a script of helper calls run against the real tracing API on fake domains
       and real ports; obs = the events the recording tracer saw; regs = sizes of
       the three registries afterwards (minus before); closed = the script ends
       every task it starts *)

Definition locn_eqb (a b : locn) : bool :=
  match a, b with
  | LComp x, LComp y | LReqIn x, LReqIn y | LReqOut x, LReqOut y
  | LWhat x, LWhat y | LPortIn x, LPortIn y | LPortOut x, LPortOut y => x =? y
  | _, _ => false
  end.

Definition xev_eqb (a b : xev) : bool :=
  match a, b with
  | XStart i p k l w t, XStart i' p' k' l' w' t' =>
      (i =? i') && (p =? p') && (k =? k') && locn_eqb l l' && (w =? w') && (t =? t')
  | XEnd i t, XEnd i' t' => (i =? i') && (t =? t')
  | XTag g i t, XTag g' i' t' => (g =? g') && (i =? i') && (t =? t')
  | XMile g i t, XMile g' i' t' => (g =? g') && (i =? i') && (t =? t')
  | _, _ => false
  end.

Definition asm_verdict (q : bool) (tr : list tev) (regs : N * N * N) : bool :=
  match regs with
  | (nr, ni, no) => if q then trace_wf tr && (nr =? 0) && (ni =? 0) && (no =? 0) else trace_wf_open tr
  end.

(** Tie.  API case: the model emits exactly the observed events and leaves
    registries of the observed sizes.  Assembly case (no component model: trace
    inclusion): the Coq acceptor and the harness's independent Go implementation
    of it reach the same verdict on the recorded trace. *)
Definition check_case (c : case) : bool :=
  match c with
  | AsmCase q tr regs gv => Bool.eqb (asm_verdict q tr regs) gv
  | ApiCase base calls obs (nr, ni, no) _ =>
      let (s, evs) := api_run (api0 base) calls in
      list_eqb xev_eqb evs obs &&
      (N.of_nat (length (a_recv s)) =? nr) && (N.of_nat (length (a_inb s)) =? ni) &&
      (N.of_nat (length (a_outb s)) =? no)
  end.

(** The property on the observed behaviour. *)
Definition holds_on (c : case) : bool :=
  match c with
  | AsmCase q tr regs _ => asm_verdict q tr regs
  | ApiCase _ _ obs (nr, ni, no) closed =>
      let tr := map project obs in
      if closed then trace_wf tr && (nr =? 0) && (ni =? 0) && (no =? 0) else trace_wf_open tr
  end.
