(** C32 — proofs, part 1: the acceptor [trace_wf] decides the declarative [WF]. *)
From Akita Require Import Lib.Base C32.Model C32.Spec.
Local Open Scope N_scope.

(** ---------------------------------------------------------------- association lists *)
Lemma aget_aset_same {A} k (v : A) m : aget k (aset k v m) = Some v.
Proof.
  induction m as [|[k' v'] r IH]; cbn [aset aget]; [rewrite N.eqb_refl; reflexivity|].
  destruct (k' =? k) eqn:E; cbn [aget]; rewrite ?E; [rewrite N.eqb_refl; reflexivity|exact IH].
Qed.

Lemma aget_aset_other {A} k k' (v : A) m : k' <> k -> aget k' (aset k v m) = aget k' m.
Proof.
  intro Hne. induction m as [|[k0 v0] r IH]; cbn [aset aget].
  - assert (k =? k' = false) as -> by (apply N.eqb_neq; congruence). reflexivity.
  - destruct (k0 =? k) eqn:E; cbn [aget].
    + apply N.eqb_eq in E. subst k0.
      assert (k =? k' = false) as -> by (apply N.eqb_neq; congruence). reflexivity.
    + destruct (k0 =? k'); [reflexivity|exact IH].
Qed.

Lemma memb_In x l : memb x l = true <-> In x l.
Proof.
  unfold memb. rewrite existsb_exists. split.
  - intros [y [Hy E]]. apply N.eqb_eq in E. subst. exact Hy.
  - intro H. exists x. split; [exact H|apply N.eqb_refl].
Qed.

(** ---------------------------------------------------------------- lists of ids *)
Lemma start_ids_app a b : start_ids (a ++ b) = start_ids a ++ start_ids b.
Proof. unfold start_ids. apply flat_map_app. Qed.
Lemma end_ids_app a b : end_ids (a ++ b) = end_ids a ++ end_ids b.
Proof. unfold end_ids. apply flat_map_app. Qed.

Lemma In_start_ids id par k l t tr : In (TStart id par k l t) tr -> In id (start_ids tr).
Proof. intro H. unfold start_ids. apply in_flat_map. eexists. split; [exact H|left; reflexivity]. Qed.

Lemma start_ids_In id tr : In id (start_ids tr) -> exists par k l t, In (TStart id par k l t) tr.
Proof.
  unfold start_ids. intro H. apply in_flat_map in H. destruct H as [e [He Hin]].
  destruct e; cbn in Hin; try contradiction. destruct Hin as [<-|[]]. eauto.
Qed.

Lemma In_end_ids id t tr : In (TEnd id t) tr -> In id (end_ids tr).
Proof. intro H. unfold end_ids. apply in_flat_map. eexists. split; [exact H|left; reflexivity]. Qed.

Lemma end_ids_In id tr : In id (end_ids tr) -> exists t, In (TEnd id t) tr.
Proof.
  unfold end_ids. intro H. apply in_flat_map in H. destruct H as [e [He Hin]].
  destruct e; cbn in Hin; try contradiction. destruct Hin as [<-|[]]. eauto.
Qed.

(** two starts of one id in a trace with unique starts are the same event *)
Lemma start_unique tr id par k l t par' k' l' t' : NoDup (start_ids tr) ->
  In (TStart id par k l t) tr -> In (TStart id par' k' l' t') tr ->
  TStart id par k l t = TStart id par' k' l' t'.
Proof.
  induction tr as [|e r IH]; intros Hnd H1 H2; [destruct H1|].
  assert (start_ids (e :: r) = match e with TStart i _ _ _ _ => i :: start_ids r | _ => start_ids r end) as Hc
    by (destruct e; reflexivity).
  rewrite Hc in Hnd.
  destruct H1 as [->|H1]; destruct H2 as [H2|H2].
  - exact H2.
  - inversion Hnd as [|? ? Hni Hnd']; subst. exfalso. apply Hni. eapply In_start_ids. exact H2.
  - subst e. inversion Hnd as [|? ? Hni Hnd']; subst. exfalso. apply Hni. eapply In_start_ids. exact H1.
  - apply IH; auto. destruct e; auto. inversion Hnd; auto.
Qed.

Lemma snoc_split {A} (p : list A) e q x rest :
  p ++ [e] = q ++ x :: rest ->
  (q = p /\ x = e /\ rest = []) \/ (exists rest', rest = rest' ++ [e] /\ p = q ++ x :: rest').
Proof.
  revert q. induction p as [|y p IH]; intros q H.
  - destruct q as [|z q]; cbn [app] in H.
    + injection H as <- <-. left. auto.
    + injection H as _ H. destruct q; discriminate.
  - destruct q as [|z q]; cbn [app] in H.
    + injection H as <- <-. right. exists p. auto.
    + injection H as <- H. destruct (IH q H) as [[-> [-> ->]]|[rest' [-> ->]]].
      * left. auto.
      * right. exists rest'. auto.
Qed.

(** ---------------------------------------------------------------- the run, snoc-wise *)
Lemma wf_run_app s a b :
  wf_run s (a ++ b) = match wf_run s a with Some s1 => wf_run s1 b | None => None end.
Proof.
  revert s. induction a as [|e a IH]; intro s; [reflexivity|].
  cbn [app wf_run]. destruct (wf_step s e); [apply IH|reflexivity].
Qed.

Lemma wf_run_snoc s p e :
  wf_run s (p ++ [e]) = match wf_run s p with Some s1 => wf_step s1 e | None => None end.
Proof.
  rewrite wf_run_app. destruct (wf_run s p) as [s1|]; [|reflexivity].
  cbn [wf_run]. destruct (wf_step s1 e); reflexivity.
Qed.

(** the part of WF_open that the run establishes (everything but "a tag is not
    later than the end of its task", which needs the rest of the trace) *)
Definition WFr (tr : list tev) : Prop :=
  NoDup (start_ids tr) /\
  (forall p id te rest, tr = p ++ TEnd id te :: rest -> In id (start_ids tr) ->
     (exists par k l ts, In (TStart id par k l ts) p /\ ts <= te) /\
     ~ In id (end_ids p) /\ ~ In id (end_ids rest)) /\
  (forall p e task t rest, tr = p ++ e :: rest -> is_note e task t ->
     (exists par k l ts, In (TStart task par k l ts) p /\ ts <= t) /\ ~ In task (end_ids p)) /\
  (forall id par k l t id' par' k' t',
     In (TStart id par k l t) tr -> In (TStart id' par' k' l t') tr -> k = k').

Record rinv (p : list tev) (s : wst) : Prop := mk_rinv {
  r_none : forall id, aget id (w_tasks s) = None <-> ~ In id (start_ids p);
  r_some : forall id ti, aget id (w_tasks s) = Some ti ->
           (exists par k l, In (TStart id par k l (ti_start ti)) p) /\
           (ti_end ti = None <-> ~ In id (end_ids p));
  r_early : forall id, In id (w_early s) <-> (In id (end_ids p) /\ ~ In id (start_ids p));
  r_locs : forall l k, aget l (w_locs s) = Some k <-> exists id par t, In (TStart id par k l t) p;
  r_wf : WFr p }.

Lemma rinv0 : rinv [] wst0.
Proof.
  constructor; cbn.
  - intro id. split; auto.
  - intros id ti H. discriminate.
  - intro id. split; [intros []|intros [[] _]].
  - intros l k. split; [discriminate|intros [id [par [t []]]]].
  - split; [constructor|]. split; [|split].
    + intros p id te rest H. destruct p; discriminate.
    + intros p e task t rest H. destruct p; discriminate.
    + intros id par k l t id' par' k' t' [].
Qed.

(** WFr is closed under prefixes *)
Lemma NoDup_app_left {A} (a b : list A) : NoDup (a ++ b) -> NoDup a.
Proof.
  induction a as [|x a IH]; cbn [app]; [constructor|]. intro H. inversion H as [|? ? Hni Hnd]; subst.
  constructor; [|auto]. intro Hin. apply Hni. apply in_or_app. left. exact Hin.
Qed.

Lemma NoDup_snoc_iff {A} (a : list A) x : NoDup (a ++ [x]) <-> NoDup a /\ ~ In x a.
Proof.
  induction a as [|y a IH]; cbn [app].
  - split; [intros _; split; [constructor|intros []]|intros _; constructor; [intros []|constructor]].
  - split.
    + intro H. inversion H as [|? ? Hni Hnd]; subst. apply IH in Hnd. destruct Hnd as [Ha Hx].
      split; [constructor; [|exact Ha]|].
      * intro Hin. apply Hni. apply in_or_app. left. exact Hin.
      * intros [->|Hin]; [apply Hni; apply in_or_app; right; left; reflexivity|auto].
    + intros [H Hx]. inversion H as [|? ? Hni Hnd]; subst. constructor.
      * intro Hin. apply in_app_or in Hin. destruct Hin as [Hin|[->|[]]]; [auto|apply Hx; left; reflexivity].
      * apply IH. split; [exact Hnd|]. intro Hin. apply Hx. right. exact Hin.
Qed.

Lemma WFr_prefix p e : WFr (p ++ [e]) -> WFr p.
Proof.
  intros [W1 [W2 [W3 W4]]]. split; [|split; [|split]].
  - rewrite start_ids_app in W1. apply NoDup_app_left in W1. exact W1.
  - intros q id te rest Heq Hin.
    assert (p ++ [e] = q ++ TEnd id te :: (rest ++ [e])) as Heq' by (rewrite Heq, <- app_assoc; reflexivity).
    assert (In id (start_ids (p ++ [e]))) as Hin' by (rewrite start_ids_app; apply in_or_app; left; exact Hin).
    destruct (W2 q id te (rest ++ [e]) Heq' Hin') as [A [B C]]. split; [exact A|split; [exact B|]].
    intro Hc. apply C. rewrite end_ids_app. apply in_or_app. left. exact Hc.
  - intros q e0 task t rest Heq Hn.
    assert (p ++ [e] = q ++ e0 :: (rest ++ [e])) as Heq' by (rewrite Heq, <- app_assoc; reflexivity).
    exact (W3 q e0 task t (rest ++ [e]) Heq' Hn).
  - intros id par k l t id' par' k' t' H1 H2. eapply W4; apply in_or_app; left; eassumption.
Qed.

(** a step on a well-formed extension is accepted and keeps the invariant *)
Lemma step_complete p s e : rinv p s -> WFr (p ++ [e]) ->
  exists s', wf_step s e = Some s' /\ rinv (p ++ [e]) s'.
Proof.
  intros [Rn Rs Re Rl [W1 [W2 [W3 W4]]]].
  assert (forall id, In id (start_ids p) -> exists ti, aget id (w_tasks s) = Some ti) as Hsome.
  { intros id Hin. destruct (aget id (w_tasks s)) eqn:E; [eauto|]. apply Rn in E. contradiction. }
  assert (start_ids (p ++ [e]) = start_ids p ++ match e with TStart i _ _ _ _ => [i] | _ => [] end) as Hsa
    by (rewrite start_ids_app; destruct e; reflexivity).
  assert (end_ids (p ++ [e]) = end_ids p ++ match e with TEnd i _ => [i] | _ => [] end) as Hea
    by (rewrite end_ids_app; destruct e; reflexivity).
    intros [V1 [V2 [V3 V4]]].
    assert (WFr (p ++ [e])) as HW by (split; [|split; [|split]]; assumption).
    destruct e as [id par k l t|id t|task t|task t].
    + (* start *)
      rewrite Hsa in V1.
      assert (~ In id (start_ids p)) as Hns by (apply NoDup_snoc_iff in V1; tauto).
      assert (~ In id (end_ids p)) as Hne.
      { intro Hin. apply end_ids_In in Hin. destruct Hin as [te Hin]. apply in_split in Hin.
        destruct Hin as [q [rest' ->]].
        destruct (V2 q id te (rest' ++ [TStart id par k l t])) as [[par' [k' [l' [ts [Hs _]]]]] _].
        - rewrite <- app_assoc. reflexivity.
        - rewrite Hsa. apply in_or_app. right. left. reflexivity.
        - apply Hns. rewrite start_ids_app. apply in_or_app. left. eapply In_start_ids. exact Hs. }
      assert (aget id (w_tasks s) = None) as Hg by (apply Rn; exact Hns).
      assert (memb id (w_early s) = false) as Hm.
      { destruct (memb id (w_early s)) eqn:E; [|reflexivity]. apply memb_In, Re in E. tauto. }
      cbn [wf_step]. rewrite Hg, Hm.
      assert (forall k0, aget l (w_locs s) = Some k0 -> k0 = k) as Hk.
      { intros k0 H. apply Rl in H. destruct H as [id' [par' [t' H]]].
        apply (V4 id' par' k0 l t' id par k t); apply in_or_app; [left; exact H|right; left; reflexivity]. }
      assert (exists locs', (match aget l (w_locs s) with
                | Some k0 => if k0 =? k then Some (mk_wst (aset id (mk_ti t None) (w_tasks s)) (w_locs s) (w_early s)) else None
                | None => Some (mk_wst (aset id (mk_ti t None) (w_tasks s)) (aset l k (w_locs s)) (w_early s)) end)
               = Some (mk_wst (aset id (mk_ti t None) (w_tasks s)) locs' (w_early s)) /\
               (forall l0 k0, aget l0 locs' = Some k0 <-> (aget l0 (w_locs s) = Some k0 \/ (l0 = l /\ k0 = k)))) as [locs' [-> Hlocs]].
      { destruct (aget l (w_locs s)) as [k0|] eqn:El.
        - rewrite (Hk k0 eq_refl), N.eqb_refl. exists (w_locs s). split; [reflexivity|].
          intros l0 k1. split; [auto|]. intros [H|[-> ->]]; [exact H|]. rewrite El, (Hk k0 eq_refl). reflexivity.
        - exists (aset l k (w_locs s)). split; [reflexivity|]. intros l0 k1.
          destruct (N.eq_dec l0 l) as [->|Hd].
          + rewrite aget_aset_same, El. split; [intro H; injection H as <-; auto|intros [H|[_ ->]]; [discriminate|reflexivity]].
          + rewrite aget_aset_other by exact Hd. split; [auto|intros [H|[H _]]; [exact H|contradiction]]. }
      eexists. split; [reflexivity|]. constructor; cbn [w_tasks w_locs w_early].
      * intro id0. rewrite Hsa, in_app_iff. destruct (N.eq_dec id0 id) as [->|Hd].
        -- rewrite aget_aset_same. split; [discriminate|]. intro H. exfalso. apply H. right. left. reflexivity.
        -- rewrite aget_aset_other by exact Hd. rewrite Rn. cbn [In]. intuition congruence.
      * intros id0 ti. rewrite Hea, app_nil_r. destruct (N.eq_dec id0 id) as [->|Hd].
        -- rewrite aget_aset_same. intro H. injection H as <-. cbn [ti_start ti_end]. split.
           ++ exists par, k, l. apply in_or_app. right. left. reflexivity.
           ++ split; auto.
        -- rewrite aget_aset_other by exact Hd. intro H. destruct (Rs id0 ti H) as [[par' [k' [l' H1]]] H2].
           split; [exists par', k', l'; apply in_or_app; left; exact H1|exact H2].
      * intro id0. rewrite Hea, app_nil_r, Hsa, in_app_iff, Re. cbn [In]. split.
        -- intros [H1 H2]. split; [exact H1|]. intros [H|[<-|[]]]; [auto|contradiction].
        -- intros [H1 H2]. split; [exact H1|]. intro H. apply H2. left. exact H.
      * intros l0 k0. rewrite Hlocs, Rl. split.
        -- intros [[id' [par' [t' H]]]|[-> ->]].
           ++ exists id', par', t'. apply in_or_app. left. exact H.
           ++ exists id, par, t. apply in_or_app. right. left. reflexivity.
        -- intros [id' [par' [t' H]]]. apply in_app_or in H. destruct H as [H|[H|[]]].
           ++ left. eauto.
           ++ injection H as <- <- <- <- <-. right. auto.
      * exact HW.
    + (* end *)
      cbn [wf_step]. destruct (aget id (w_tasks s)) as [ti|] eqn:Hg.
      * (* the task was started *)
        destruct (Rs id ti Hg) as [[par [k [l Hst]]] Hend].
        assert (In id (start_ids (p ++ [TEnd id t]))) as Hin.
        { rewrite Hsa, app_nil_r. eapply In_start_ids. exact Hst. }
        destruct (V2 p id t [] eq_refl Hin) as [[par' [k' [l' [ts [Hs' Hle]]]]] [Hne _]].
        pose proof (start_unique p id par k l (ti_start ti) par' k' l' ts W1 Hst Hs') as Hu.
        injection Hu as _ _ _ Hts. subst ts.
        assert (ti_end ti = None) as -> by (apply Hend; exact Hne).
        assert (ti_start ti <=? t = true) as -> by (apply N.leb_le; exact Hle).
        eexists. split; [reflexivity|]. constructor; cbn [w_tasks w_locs w_early].
        -- intro id0. rewrite Hsa, app_nil_r. destruct (N.eq_dec id0 id) as [->|Hd].
           ++ rewrite aget_aset_same. split; [discriminate|]. intro H. exfalso. apply H. eapply In_start_ids. exact Hst.
           ++ rewrite aget_aset_other by exact Hd. apply Rn.
        -- intros id0 ti0. rewrite Hea, in_app_iff. destruct (N.eq_dec id0 id) as [->|Hd].
           ++ rewrite aget_aset_same. intro H. injection H as <-. cbn [ti_start ti_end]. split.
              ** exists par, k, l. apply in_or_app. left. exact Hst.
              ** split; [discriminate|]. intro H. exfalso. apply H. right. left. reflexivity.
           ++ rewrite aget_aset_other by exact Hd. intro H. destruct (Rs id0 ti0 H) as [[par0 [k0 [l0 H1]]] H2].
              split; [exists par0, k0, l0; apply in_or_app; left; exact H1|].
              rewrite H2. cbn [In]. intuition congruence.
        -- intro id0. rewrite Hea, Hsa, app_nil_r, in_app_iff, Re. cbn [In]. split; [tauto|].
           intros [[H|[<-|[]]] H2]; [tauto|]. exfalso. apply H2. eapply In_start_ids. exact Hst.
        -- intros l0 k0. rewrite Rl. split; intros [id' [par0 [t' H]]]; exists id', par0, t'.
           ++ apply in_or_app. left. exact H.
           ++ apply in_app_or in H. destruct H as [H|[H|[]]]; [exact H|discriminate].
        -- exact HW.
      * (* an end of a task that was never started *)
        eexists. split; [reflexivity|].
        assert (~ In id (start_ids p)) as Hns by (apply Rn; exact Hg).
        constructor; cbn [w_tasks w_locs w_early].
        -- intro id0. rewrite Hsa, app_nil_r. apply Rn.
        -- intros id0 ti0 H. rewrite Hea, in_app_iff. destruct (Rs id0 ti0 H) as [[par0 [k0 [l0 H1]]] H2].
           split; [exists par0, k0, l0; apply in_or_app; left; exact H1|].
           rewrite H2. cbn [In]. split; [|tauto]. intros Hn [Hc|[<-|[]]]; [auto|].
           apply Hns. eapply In_start_ids. exact H1.
        -- intro id0. rewrite Hea, Hsa, app_nil_r, in_app_iff. cbn [In]. rewrite Re. split.
           ++ intros [<-|[H1 H2]]; [split; [right; left; reflexivity|exact Hns]|tauto].
           ++ intros [[H|[<-|[]]] H2]; [right; tauto|left; reflexivity].
        -- intros l0 k0. rewrite Rl. split; intros [id' [par0 [t' H]]]; exists id', par0, t'.
           ++ apply in_or_app. left. exact H.
           ++ apply in_app_or in H. destruct H as [H|[H|[]]]; [exact H|discriminate].
        -- exact HW.
    + (* tag *)
      destruct (V3 p (TTag task t) task t [] eq_refl (or_introl eq_refl)) as [[par [k [l [ts [Hs Hle]]]]] Hne].
      destruct (Hsome task (In_start_ids _ _ _ _ _ _ Hs)) as [ti Hg].
      destruct (Rs task ti Hg) as [[par' [k' [l' Hst]]] Hend].
      pose proof (start_unique p task par k l ts par' k' l' (ti_start ti) W1 Hs Hst) as Hu.
      injection Hu as _ _ _ Hts. subst ts.
      cbn [wf_step]. rewrite Hg. assert (ti_end ti = None) as -> by (apply Hend; exact Hne).
      assert (ti_start ti <=? t = true) as -> by (apply N.leb_le; exact Hle).
      eexists. split; [reflexivity|]. constructor.
      * intro id0. rewrite Hsa, app_nil_r. apply Rn.
      * intros id0 ti0 H. rewrite Hea, app_nil_r. destruct (Rs id0 ti0 H) as [[par0 [k0 [l0 H1]]] H2].
        split; [exists par0, k0, l0; apply in_or_app; left; exact H1|exact H2].
      * intro id0. rewrite Hea, Hsa, !app_nil_r. apply Re.
      * intros l0 k0. rewrite Rl. split; intros [id' [par0 [t' H]]]; exists id', par0, t'.
        -- apply in_or_app. left. exact H.
        -- apply in_app_or in H. destruct H as [H|[H|[]]]; [exact H|discriminate].
      * exact HW.
    + (* milestone *)
      destruct (V3 p (TMile task t) task t [] eq_refl (or_intror eq_refl)) as [[par [k [l [ts [Hs Hle]]]]] Hne].
      destruct (Hsome task (In_start_ids _ _ _ _ _ _ Hs)) as [ti Hg].
      destruct (Rs task ti Hg) as [[par' [k' [l' Hst]]] Hend].
      pose proof (start_unique p task par k l ts par' k' l' (ti_start ti) W1 Hs Hst) as Hu.
      injection Hu as _ _ _ Hts. subst ts.
      cbn [wf_step]. rewrite Hg. assert (ti_end ti = None) as -> by (apply Hend; exact Hne).
      assert (ti_start ti <=? t = true) as -> by (apply N.leb_le; exact Hle).
      eexists. split; [reflexivity|]. constructor.
      * intro id0. rewrite Hsa, app_nil_r. apply Rn.
      * intros id0 ti0 H. rewrite Hea, app_nil_r. destruct (Rs id0 ti0 H) as [[par0 [k0 [l0 H1]]] H2].
        split; [exists par0, k0, l0; apply in_or_app; left; exact H1|exact H2].
      * intro id0. rewrite Hea, Hsa, !app_nil_r. apply Re.
      * intros l0 k0. rewrite Rl. split; intros [id' [par0 [t' H]]]; exists id', par0, t'.
        -- apply in_or_app. left. exact H.
        -- apply in_app_or in H. destruct H as [H|[H|[]]]; [exact H|discriminate].
      * exact HW.
Qed.
