(** C32 — declarative well-formedness of a trace, and the discipline under which
    the API helper layer is used.  Definitions only. *)
From Akita Require Import Lib.Base C32.Model.
Local Open Scope N_scope.

(** ---------------------------------------------------------------- WF
    Declarative well-formedness of a trace (the list of events in emission order),
    stated over every decomposition [tr = before ++ event :: after]. *)
Definition start_ids (tr : list tev) : list N :=
  flat_map (fun e => match e with TStart id _ _ _ _ => [id] | _ => [] end) tr.
Definition end_ids (tr : list tev) : list N :=
  flat_map (fun e => match e with TEnd id _ => [id] | _ => [] end) tr.

Definition is_note (e : tev) (task t : N) : Prop := e = TTag task t \/ e = TMile task t.

Definition WF_open (tr : list tev) : Prop :=
  (* every task is started at most once *)
  NoDup (start_ids tr) /\
  (* an end of a started task comes after its start, not before its start time,
     and is the only end of that task *)
  (forall p id te rest, tr = p ++ TEnd id te :: rest -> In id (start_ids tr) ->
     (exists par k l ts, In (TStart id par k l ts) p /\ ts <= te) /\
     ~ In id (end_ids p) /\ ~ In id (end_ids rest)) /\
  (* every tag and milestone refers to a task started before it and not yet ended,
     lies at or after the start time, and at or before the end time *)
  (forall p e task t rest, tr = p ++ e :: rest -> is_note e task t ->
     (exists par k l ts, In (TStart task par k l ts) p /\ ts <= t) /\
     ~ In task (end_ids p) /\
     (forall te, In (TEnd task te) rest -> t <= te)) /\
  (* each location hosts tasks of a single kind *)
  (forall id par k l t id' par' k' t',
     In (TStart id par k l t) tr -> In (TStart id' par' k' l t') tr -> k = k').

(** at quiescence, additionally every started task has ended *)
Definition WF (tr : list tev) : Prop :=
  WF_open tr /\ (forall id, In id (start_ids tr) -> In id (end_ids tr)).

(** ---------------------------------------------------------------- projection
    of the API model's events to trace events: locations are numbered
    injectively. *)
Definition loc_code (l : locn) : N :=
  match l with
  | LComp c => 6 * c | LReqIn c => 6 * c + 1 | LReqOut c => 6 * c + 2
  | LWhat w => 6 * w + 3 | LPortIn p => 6 * p + 4 | LPortOut p => 6 * p + 5
  end.

Definition project (e : xev) : tev :=
  match e with
  | XStart id parent kind loc _ t => TStart id parent kind (loc_code loc) t
  | XEnd id t => TEnd id t
  | XTag _ task t => TTag task t
  | XMile _ task t => TMile task t
  end.

(** ---------------------------------------------------------------- discipline of
    the request helpers: a (domain, message) key is received at most once, and
    completed only while its req_in is open; times do not decrease. *)
Definition call_time (c : call) : N :=
  match c with
  | CInitiate _ _ _ _ t | CReceive _ _ _ t | CComplete _ _ t | CFinalize _ _ t | CResetReqIn _ _ t
  | CResetTask _ _ t | CStart _ _ _ _ _ t | CEnd _ _ t | CTag _ _ t | CMile _ _ t
  | CDeliver _ _ _ _ _ t | CRetrieveIn _ _ _ t _ | CSend _ _ _ _ _ t | CRetrieveOut _ _ _ t _ => t
  end.

Definition kmem (k : key) (l : list key) : bool := existsb (key_eqb k) l.
Fixpoint kdel (k : key) (l : list key) : list key :=
  match l with [] => [] | x :: r => if key_eqb x k then kdel k r else x :: kdel k r end.

(** [req_discipline live used last cs]: only request-helper calls
    (Receive / Complete / EndReqInOnReset), used as intended. *)
Fixpoint req_discipline (live used : list key) (last : N) (cs : list call) : bool :=
  match cs with
  | [] => true
  | c :: r =>
      (last <=? call_time c) &&
      match c with
      | CReceive d m _ t => negb (kmem (d, m) used) && req_discipline ((d, m) :: live) ((d, m) :: used) t r
      | CComplete d m t => kmem (d, m) live && req_discipline (kdel (d, m) live) used t r
      | CResetReqIn d m t => req_discipline (kdel (d, m) live) used t r
      | _ => false
      end
  end.

Fixpoint live_after (live : list key) (cs : list call) : list key :=
  match cs with
  | [] => live
  | CReceive d m _ _ :: r => live_after ((d, m) :: live) r
  | CComplete d m _ :: r => live_after (kdel (d, m) live) r
  | CResetReqIn d m _ :: r => live_after (kdel (d, m) live) r
  | _ :: r => live_after live r
  end.
