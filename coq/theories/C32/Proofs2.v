(** C32 — proofs, part 2: soundness of a step, whole runs, and [trace_wf_iff_WF]. *)
From Akita Require Import Lib.Base C32.Model C32.Spec C32.Proofs1.
Local Open Scope N_scope.

(** an accepted step extends a well-formed prefix to a well-formed prefix *)
Lemma step_sound p s e s' : rinv p s -> wf_step s e = Some s' -> WFr (p ++ [e]).
Proof.
  intros [Rn Rs Re Rl [W1 [W2 [W3 W4]]]] Hstep.
  assert (start_ids (p ++ [e]) = start_ids p ++ match e with TStart i _ _ _ _ => [i] | _ => [] end) as Hsa
    by (rewrite start_ids_app; destruct e; reflexivity).
  assert (end_ids (p ++ [e]) = end_ids p ++ match e with TEnd i _ => [i] | _ => [] end) as Hea
    by (rewrite end_ids_app; destruct e; reflexivity).
  (* clauses about events already in p, for any new last event that is not an end *)
  assert (forall x, (forall i t, x <> TEnd i t) ->
            forall q id te rest, p ++ [x] = q ++ TEnd id te :: rest -> In id (start_ids p) ->
            (exists par k l ts, In (TStart id par k l ts) q /\ ts <= te) /\
            ~ In id (end_ids q) /\ ~ In id (end_ids rest)) as W2old.
  { intros x Hx q id te rest Heq Hin. apply snoc_split in Heq.
    destruct Heq as [[_ [Heq _]]|[rest' [-> ->]]]; [exfalso; eapply Hx; symmetry; exact Heq|].
    destruct (W2 q id te rest' eq_refl Hin) as [A [B C]]. split; [exact A|split; [exact B|]].
    rewrite end_ids_app. intro Hc. apply in_app_or in Hc. destruct Hc as [Hc|Hc]; [auto|].
    destruct x; cbn in Hc; try contradiction. destruct Hc as [_|[]]. eapply Hx. reflexivity. }
  assert (forall x q e0 task t rest, p ++ [x] = q ++ e0 :: rest -> is_note e0 task t ->
            (q = p /\ e0 = x) \/
            ((exists par k l ts, In (TStart task par k l ts) q /\ ts <= t) /\ ~ In task (end_ids q))) as W3old.
  { intros x q e0 task t rest Heq Hn. apply snoc_split in Heq.
    destruct Heq as [[-> [-> _]]|[rest' [-> ->]]]; [left; auto|right].
    exact (W3 q e0 task t rest' eq_refl Hn). }
  destruct e as [id par k l t|id t|task t|task t]; cbn [wf_step] in Hstep.
  - (* start *)
    destruct (aget id (w_tasks s)) eqn:Hg; [discriminate|].
    destruct (memb id (w_early s)) eqn:Hm; [discriminate|].
    assert (~ In id (start_ids p)) as Hns by (apply Rn; exact Hg).
    assert (~ In id (end_ids p)) as Hne.
    { intro Hin. assert (In id (w_early s)) as Hc by (apply Re; auto). apply memb_In in Hc. congruence. }
    assert (forall k0, aget l (w_locs s) = Some k0 -> k0 = k) as Hk.
    { intros k0 H. rewrite H in Hstep. destruct (k0 =? k) eqn:E; [apply N.eqb_eq; exact E|discriminate]. }
    split; [|split; [|split]].
    + rewrite Hsa. apply NoDup_snoc_iff. auto.
    + intros q id0 te rest Heq Hin. rewrite Hsa in Hin. apply in_app_or in Hin.
      destruct Hin as [Hin|[<-|[]]].
      * eapply W2old; eauto. intros; discriminate.
      * exfalso. apply snoc_split in Heq. destruct Heq as [[_ [Heq _]]|[rest' [_ ->]]]; [discriminate|].
        apply Hne. rewrite end_ids_app. apply in_or_app. right. left. reflexivity.
    + intros q e0 task t0 rest Heq Hn. destruct (W3old _ _ _ _ _ _ Heq Hn) as [[_ ->]|H]; [|exact H].
      destruct Hn; discriminate.
    + intros id1 par1 k1 l1 t1 id2 par2 k2 t2 H1 H2.
      apply in_app_or in H1. apply in_app_or in H2.
      destruct H1 as [H1|[H1|[]]]; destruct H2 as [H2|[H2|[]]].
      * eapply W4; eauto.
      * injection H2 as <- <- <- <- <-. apply Hk. apply Rl. eauto.
      * injection H1 as <- <- <- <- <-. symmetry. apply Hk. apply Rl. eauto.
      * congruence.
  - (* end *)
    destruct (aget id (w_tasks s)) as [ti|] eqn:Hg.
    + destruct (ti_end ti) eqn:Hend; [discriminate|].
      destruct (ti_start ti <=? t) eqn:Hle; [|discriminate]. apply N.leb_le in Hle.
      destruct (Rs id ti Hg) as [[par [k [l Hst]]] Hen].
      assert (~ In id (end_ids p)) as Hne by (apply Hen; exact Hend).
      split; [|split; [|split]].
      * rewrite Hsa, app_nil_r. exact W1.
      * intros q id0 te rest Heq Hin. rewrite Hsa, app_nil_r in Hin. apply snoc_split in Heq.
        destruct Heq as [[-> [Heq ->]]|[rest' [-> ->]]].
        -- injection Heq as -> ->. split; [exists par, k, l, (ti_start ti); auto|]. split; [exact Hne|intros []].
        -- destruct (W2 q id0 te rest' eq_refl Hin) as [A [B C]]. split; [exact A|split; [exact B|]].
           rewrite end_ids_app. intro Hc. apply in_app_or in Hc. destruct Hc as [Hc|[<-|[]]]; [auto|].
           apply Hne. rewrite end_ids_app. apply in_or_app. right. left. reflexivity.
      * intros q e0 task t0 rest Heq Hn. destruct (W3old _ _ _ _ _ _ Heq Hn) as [[_ ->]|H]; [|exact H].
        destruct Hn; discriminate.
      * intros id1 par1 k1 l1 t1 id2 par2 k2 t2 H1 H2.
        apply in_app_or in H1. apply in_app_or in H2.
        destruct H1 as [H1|[H1|[]]]; destruct H2 as [H2|[H2|[]]]; try discriminate. eapply W4; eauto.
    + assert (~ In id (start_ids p)) as Hns by (apply Rn; exact Hg).
      split; [|split; [|split]].
      * rewrite Hsa, app_nil_r. exact W1.
      * intros q id0 te rest Heq Hin. rewrite Hsa, app_nil_r in Hin. apply snoc_split in Heq.
        destruct Heq as [[-> [Heq ->]]|[rest' [-> ->]]].
        -- injection Heq as -> ->. contradiction.
        -- destruct (W2 q id0 te rest' eq_refl Hin) as [A [B C]]. split; [exact A|split; [exact B|]].
           rewrite end_ids_app. intro Hc. apply in_app_or in Hc. destruct Hc as [Hc|[<-|[]]]; [auto|contradiction].
      * intros q e0 task t0 rest Heq Hn. destruct (W3old _ _ _ _ _ _ Heq Hn) as [[_ ->]|H]; [|exact H].
        destruct Hn; discriminate.
      * intros id1 par1 k1 l1 t1 id2 par2 k2 t2 H1 H2.
        apply in_app_or in H1. apply in_app_or in H2.
        destruct H1 as [H1|[H1|[]]]; destruct H2 as [H2|[H2|[]]]; try discriminate. eapply W4; eauto.
  - (* tag *)
    destruct (aget task (w_tasks s)) as [ti|] eqn:Hg; [|discriminate].
    destruct (ti_end ti) eqn:Hend; [discriminate|].
    destruct (ti_start ti <=? t) eqn:Hle; [|discriminate]. apply N.leb_le in Hle.
    destruct (Rs task ti Hg) as [[par [k [l Hst]]] Hen].
    split; [|split; [|split]].
    + rewrite Hsa, app_nil_r. exact W1.
    + intros q id0 te rest Heq Hin. rewrite Hsa, app_nil_r in Hin. eapply W2old; eauto. intros; discriminate.
    + intros q e0 task0 t0 rest Heq Hn. destruct (W3old _ _ _ _ _ _ Heq Hn) as [[-> ->]|H]; [|exact H].
      destruct Hn as [Hn|Hn]; [|discriminate]. injection Hn as <- <-.
      split; [exists par, k, l, (ti_start ti); auto|apply Hen; exact Hend].
    + intros id1 par1 k1 l1 t1 id2 par2 k2 t2 H1 H2.
      apply in_app_or in H1. apply in_app_or in H2.
      destruct H1 as [H1|[H1|[]]]; destruct H2 as [H2|[H2|[]]]; try discriminate. eapply W4; eauto.
  - (* milestone *)
    destruct (aget task (w_tasks s)) as [ti|] eqn:Hg; [|discriminate].
    destruct (ti_end ti) eqn:Hend; [discriminate|].
    destruct (ti_start ti <=? t) eqn:Hle; [|discriminate]. apply N.leb_le in Hle.
    destruct (Rs task ti Hg) as [[par [k [l Hst]]] Hen].
    split; [|split; [|split]].
    + rewrite Hsa, app_nil_r. exact W1.
    + intros q id0 te rest Heq Hin. rewrite Hsa, app_nil_r in Hin. eapply W2old; eauto. intros; discriminate.
    + intros q e0 task0 t0 rest Heq Hn. destruct (W3old _ _ _ _ _ _ Heq Hn) as [[-> ->]|H]; [|exact H].
      destruct Hn as [Hn|Hn]; [discriminate|]. injection Hn as <- <-.
      split; [exists par, k, l, (ti_start ti); auto|apply Hen; exact Hend].
    + intros id1 par1 k1 l1 t1 id2 par2 k2 t2 H1 H2.
      apply in_app_or in H1. apply in_app_or in H2.
      destruct H1 as [H1|[H1|[]]]; destruct H2 as [H2|[H2|[]]]; try discriminate. eapply W4; eauto.
Qed.

(** the run accepts exactly the traces satisfying WFr, and then the invariant holds *)
Theorem run_spec tr :
  (WFr tr -> exists s, wf_run wst0 tr = Some s /\ rinv tr s) /\
  (forall s, wf_run wst0 tr = Some s -> WFr tr /\ rinv tr s).
Proof.
  induction tr as [|e p IH] using rev_ind.
  - split.
    + intros _. exists wst0. split; [reflexivity|exact rinv0].
    + intros s H. injection H as <-. split; [exact (r_wf _ _ rinv0)|exact rinv0].
  - destruct IH as [IH1 IH2]. split.
    + intro HW. destruct (IH1 (WFr_prefix _ _ HW)) as [s1 [Hr Hinv]].
      destruct (step_complete p s1 e Hinv HW) as [s' [Hs Hinv']].
      exists s'. rewrite wf_run_snoc, Hr. auto.
    + intros s H. rewrite wf_run_snoc in H. destruct (wf_run wst0 p) as [s1|] eqn:Hr; [|discriminate].
      destruct (IH2 s1 eq_refl) as [_ Hinv].
      pose proof (step_sound p s1 e s Hinv H) as HW. split; [exact HW|].
      destruct (step_complete p s1 e Hinv HW) as [s' [Hs Hinv']]. congruence.
Qed.

(** ---------------------------------------------------------------- keys of the task table *)
Lemma aset_keys {A} k (v : A) m : NoDup (map fst m) -> NoDup (map fst (aset k v m)).
Proof.
  induction m as [|[k' v'] r IH]; intro H; cbn [aset map fst]; [constructor; [intros []|constructor]|].
  cbn [map fst] in H. inversion H as [|? ? Hni Hnd]; subst.
  destruct (k' =? k) eqn:E; cbn [map fst].
  - apply N.eqb_eq in E. subst. constructor; assumption.
  - constructor; [|auto]. intro Hin. apply Hni.
    clear - Hin E. induction r as [|[k0 v0] r IH]; cbn [aset map fst] in *.
    + destruct Hin as [Hin|[]]. subst. rewrite N.eqb_refl in E. discriminate.
    + destruct (k0 =? k) eqn:E0; cbn [map fst] in Hin.
      * apply N.eqb_eq in E0. subst k0. exact Hin.
      * destruct Hin as [Hin|Hin]; [left; exact Hin|right; auto].
Qed.

Lemma wf_step_keys s e s' : NoDup (map fst (w_tasks s)) -> wf_step s e = Some s' -> NoDup (map fst (w_tasks s')).
Proof.
  intros H Hs. destruct e as [id par k l t|id t|task t|task t]; cbn [wf_step] in Hs.
  - destruct (aget id (w_tasks s)); [discriminate|]. destruct (memb id (w_early s)); [discriminate|].
    destruct (aget l (w_locs s)) as [k0|]; [destruct (k0 =? k); [|discriminate]|];
      injection Hs as <-; cbn [w_tasks]; apply aset_keys; exact H.
  - destruct (aget id (w_tasks s)) as [ti|]; [|injection Hs as <-; exact H].
    destruct (ti_end ti); [discriminate|]. destruct (ti_start ti <=? t); [|discriminate].
    injection Hs as <-. cbn [w_tasks]. apply aset_keys. exact H.
  - destruct (aget task (w_tasks s)) as [ti|]; [|discriminate]. destruct (ti_end ti); [discriminate|].
    destruct (ti_start ti <=? t); [|discriminate]. injection Hs as <-. exact H.
  - destruct (aget task (w_tasks s)) as [ti|]; [|discriminate]. destruct (ti_end ti); [discriminate|].
    destruct (ti_start ti <=? t); [|discriminate]. injection Hs as <-. exact H.
Qed.

Lemma wf_run_keys tr : forall s s', NoDup (map fst (w_tasks s)) -> wf_run s tr = Some s' ->
  NoDup (map fst (w_tasks s')).
Proof.
  induction tr as [|e r IH]; intros s s' H Hr; [injection Hr as <-; exact H|].
  cbn [wf_run] in Hr. destruct (wf_step s e) as [s1|] eqn:E; [|discriminate].
  eapply IH; [eapply wf_step_keys; eauto|exact Hr].
Qed.

Lemma aget_In {A} k (v : A) m : aget k m = Some v -> In (k, v) m.
Proof.
  induction m as [|[k' v'] r IH]; cbn [aget]; [discriminate|].
  destruct (k' =? k) eqn:E; [|intro H; right; auto].
  apply N.eqb_eq in E. subst. intro H. injection H as ->. left. reflexivity.
Qed.

Lemma In_aget {A} k (v : A) m : NoDup (map fst m) -> In (k, v) m -> aget k m = Some v.
Proof.
  induction m as [|[k' v'] r IH]; intros Hnd Hin; [destruct Hin|].
  cbn [map fst] in Hnd. inversion Hnd as [|? ? Hni Hnd']; subst. cbn [aget].
  destruct Hin as [Hin|Hin].
  - injection Hin as -> ->. rewrite N.eqb_refl. reflexivity.
  - destruct (k' =? k) eqn:E; [|auto]. apply N.eqb_eq in E. subst.
    exfalso. apply Hni. change k with (fst (k, v)). apply in_map. exact Hin.
Qed.

(** ---------------------------------------------------------------- tags before the end *)
Lemma end_time_In id tr te : end_time id tr = Some te -> In (TEnd id te) tr.
Proof.
  induction tr as [|e r IH]; cbn [end_time]; [discriminate|].
  destruct e as [| i t | |]; try (intro H; right; apply IH; exact H).
  destruct (i =? id) eqn:E; [|intro H; right; apply IH; exact H].
  apply N.eqb_eq in E. subst. intro H. injection H as ->. left. reflexivity.
Qed.

Lemma end_time_none id tr : end_time id tr = None -> ~ In id (end_ids tr).
Proof.
  induction tr as [|e r IH]; cbn [end_time]; [intros _ []|].
  assert (end_ids (e :: r) = match e with TEnd i _ => i :: end_ids r | _ => end_ids r end) as Hc
    by (destruct e; reflexivity).
  rewrite Hc. destruct e as [| i t | |]; auto.
  destruct (i =? id) eqn:E; [discriminate|]. apply N.eqb_neq in E.
  intros H [Hc'|Hc']; [congruence|]. apply (IH H Hc').
Qed.

Lemma tags_before_end_spec tr :
  tags_before_end tr = true <->
  (forall p e task t rest, tr = p ++ e :: rest -> is_note e task t ->
     forall te, end_time task rest = Some te -> t <= te).
Proof.
  induction tr as [|x r IH].
  - split; [|reflexivity]. intros _ p e task t rest H. destruct p; discriminate.
  - assert (forall P : Prop, (tags_before_end r = true /\ P) <->
              ((forall p e task t rest, x :: r = (x :: p) ++ e :: rest -> is_note e task t ->
                  forall te, end_time task rest = Some te -> t <= te) /\ P)) as Hrec.
    { intro P. rewrite IH. split; intros [H HP]; (split; [|exact HP]).
      - intros p e task t rest Heq. cbn [app] in Heq. injection Heq as ->. apply (H p). reflexivity.
      - intros p e task t rest ->. apply (H p). reflexivity. }
    assert ((forall p e task t rest, x :: r = p ++ e :: rest -> is_note e task t ->
               forall te, end_time task rest = Some te -> t <= te) <->
            ((forall p e task t rest, x :: r = (x :: p) ++ e :: rest -> is_note e task t ->
                forall te, end_time task rest = Some te -> t <= te) /\
             (forall task t, is_note x task t -> forall te, end_time task r = Some te -> t <= te))) as Hsplit.
    { split.
      - intro H. split; [intros p e task t rest Heq; apply (H (x :: p)); exact Heq|].
        intros task t Hn. apply (H [] x task t r eq_refl Hn).
      - intros [H1 H2] [|y p] e task t rest Heq Hn; cbn [app] in Heq.
        + injection Heq as <- <-. apply H2. exact Hn.
        + injection Heq as <- ->. apply (H1 p e task t rest eq_refl Hn). }
    rewrite Hsplit, <- Hrec. clear Hsplit Hrec IH.
    destruct x as [| |task t|task t]; cbn [tags_before_end].
    + split; [intro H; split; [exact H|intros task0 t0 [Hn|Hn]; discriminate]|tauto].
    + split; [intro H; split; [exact H|intros task0 t0 [Hn|Hn]; discriminate]|tauto].
    + rewrite andb_true_iff, and_comm. apply and_iff_compat_l. split.
      * intros H task0 t0 [Hn|Hn]; [|discriminate]. injection Hn as <- <-. intros te Hte.
        rewrite Hte in H. apply N.leb_le. exact H.
      * intro H. destruct (end_time task r) as [te|] eqn:E; [|reflexivity].
        apply N.leb_le. apply (H task t (or_introl eq_refl) te E).
    + rewrite andb_true_iff, and_comm. apply and_iff_compat_l. split.
      * intros H task0 t0 [Hn|Hn]; [discriminate|]. injection Hn as <- <-. intros te Hte.
        rewrite Hte in H. apply N.leb_le. exact H.
      * intro H. destruct (end_time task r) as [te|] eqn:E; [|reflexivity].
        apply N.leb_le. apply (H task t (or_intror eq_refl) te E).
Qed.

(** under WFr a started task has a single end: the first end found is the end *)
Lemma first_end_is_the_end tr p e task t rest te :
  WFr tr -> tr = p ++ e :: rest -> is_note e task t ->
  In (TEnd task te) rest -> end_time task rest = Some te.
Proof.
  intros [W1 [W2 [W3 W4]]] Heq Hn Hin.
  destruct (W3 p e task t rest Heq Hn) as [[par [k [l [ts [Hs _]]]]] _].
  assert (In task (start_ids tr)) as Hst.
  { rewrite Heq, start_ids_app. apply in_or_app. left. eapply In_start_ids. exact Hs. }
  destruct (end_time task rest) as [te0|] eqn:E.
  - (* two ends would contradict uniqueness *)
    apply in_split in Hin. destruct Hin as [r1 [r2 Hr]].
    destruct (W2 (p ++ e :: r1) task te r2) as [_ [Hb Ha]]; [rewrite Heq, Hr, <- app_assoc; reflexivity|exact Hst|].
    assert (end_time task r1 = None) as E1.
    { destruct (end_time task r1) eqn:E1; [|reflexivity]. exfalso. apply Hb.
      rewrite end_ids_app. apply in_or_app. right.
      change (e :: r1) with ([e] ++ r1). rewrite end_ids_app. apply in_or_app. right.
      eapply In_end_ids. eapply end_time_In. exact E1. }
    rewrite Hr in E. clear - E E1.
    induction r1 as [|x r1 IH]; cbn [app end_time] in *.
    + rewrite N.eqb_refl in E. congruence.
    + destruct x as [| i t0 | |]; auto. destruct (i =? task); [discriminate|auto].
  - exfalso. apply end_time_none in E. apply E. eapply In_end_ids. exact Hin.
Qed.

(** ---------------------------------------------------------------- the theorem *)
Lemma WF_open_split tr :
  WF_open tr <->
  (WFr tr /\ forall p e task t rest, tr = p ++ e :: rest -> is_note e task t ->
             forall te, In (TEnd task te) rest -> t <= te).
Proof.
  unfold WF_open, WFr. split.
  - intros [W1 [W2 [W3 W4]]]. split; [split; [exact W1|split; [exact W2|split; [|exact W4]]]|].
    + intros p e task t rest Heq Hn. destruct (W3 p e task t rest Heq Hn) as [A [B _]]. auto.
    + intros p e task t rest Heq Hn. destruct (W3 p e task t rest Heq Hn) as [_ [_ C]]. exact C.
  - intros [[W1 [W2 [W3 W4]]] W5]. split; [exact W1|split; [exact W2|split; [|exact W4]]].
    intros p e task t rest Heq Hn. destruct (W3 p e task t rest Heq Hn) as [A B].
    split; [exact A|split; [exact B|]]. apply (W5 p e task t rest Heq Hn).
Qed.

Theorem trace_wf_open_iff tr : trace_wf_open tr = true <-> WF_open tr.
Proof.
  rewrite WF_open_split. unfold trace_wf_open. destruct (run_spec tr) as [R1 R2]. split.
  - destruct (wf_run wst0 tr) as [s|] eqn:E; [|discriminate]. intro Ht.
    destruct (R2 s eq_refl) as [HW _]. split; [exact HW|].
    intros p e task t rest Heq Hn te Hin.
    apply (proj1 (tags_before_end_spec tr) Ht p e task t rest Heq Hn).
    eapply first_end_is_the_end; eauto.
  - intros [HW H5]. destruct (R1 HW) as [s [-> _]].
    apply tags_before_end_spec. intros p e task t rest Heq Hn te Hte.
    apply (H5 p e task t rest Heq Hn). apply end_time_In. exact Hte.
Qed.

Lemma all_ended_spec tr s : wf_run wst0 tr = Some s -> rinv tr s ->
  (all_ended s = true <-> forall id, In id (start_ids tr) -> In id (end_ids tr)).
Proof.
  intros Hr [Rn Rs _ _ _].
  assert (NoDup (map fst (w_tasks s))) as Hk by (eapply wf_run_keys; [|exact Hr]; constructor).
  unfold all_ended. rewrite forallb_forall. split.
  - intros H id Hin. destruct (aget id (w_tasks s)) as [ti|] eqn:E; [|apply Rn in E; contradiction].
    specialize (H (id, ti) (aget_In _ _ _ E)). cbn [snd] in H.
    destruct (Rs id ti E) as [_ He]. destruct (ti_end ti) eqn:Ee; [|discriminate].
    destruct (in_dec N.eq_dec id (end_ids tr)) as [Hi|Hi]; [exact Hi|]. apply He in Hi. discriminate.
  - intros H [id ti] Hin. cbn [snd]. pose proof (In_aget _ _ _ Hk Hin) as E.
    destruct (Rs id ti E) as [[par [k [l Hs]]] He].
    destruct (ti_end ti) eqn:Ee; [reflexivity|]. exfalso.
    apply (proj1 He eq_refl). apply H. eapply In_start_ids. exact Hs.
Qed.

Theorem trace_wf_iff_WF tr : trace_wf tr = true <-> WF tr.
Proof.
  unfold WF. rewrite <- trace_wf_open_iff. unfold trace_wf, trace_wf_open.
  destruct (wf_run wst0 tr) as [s|] eqn:E.
  - destruct (run_spec tr) as [_ R2]. destruct (R2 s E) as [_ Hinv].
    rewrite andb_true_iff, (all_ended_spec tr s E Hinv). tauto.
  - split; [discriminate|intros [H _]; discriminate].
Qed.
