(** C32 — traces are well-formed task trees.

    Part 1: trace events (what a recording tracer attached to every component
    sees) and the executable acceptor [trace_wf].
    Part 2: an exact model of the tracing API's helper layer (tracing/api.go,
    registry.go, incomingbuffertracer.go, outgoingbuffertracer.go): the three
    (domain, message-ID) -> task-ID registries, the tracing-local ID counter, the
    request helpers (TraceReqInitiate / Receive / Complete / Finalize,
    EndReqInOnReset, EndTaskOnReset), [singleKindLocation] and the port buffer
    hooks, as a function from helper calls to emitted trace events.

    Strings are numbered; [kind] numbers 1..5 are the kinds the API knows. *)
From Akita Require Import Lib.Base.
Local Open Scope N_scope.

(** ---------------------------------------------------------------- part 1 *)
Inductive tev : Type :=
| TStart (id parent kind loc t : N)
| TEnd (id t : N)
| TTag (task t : N)
| TMile (task t : N).

(** per started task: start time, end time if ended, time of the latest tag/milestone *)
Record tinfo := mk_ti { ti_start : N; ti_end : option N }.

Fixpoint aget {A} (k : N) (m : list (N * A)) : option A :=
  match m with
  | [] => None
  | (k', v) :: r => if k' =? k then Some v else aget k r
  end.

Fixpoint aset {A} (k : N) (v : A) (m : list (N * A)) : list (N * A) :=
  match m with
  | [] => [(k, v)]
  | (k', v') :: r => if k' =? k then (k, v) :: r else (k', v') :: aset k v r
  end.

(** acceptor state: tasks seen so far, the kind of every location, and the IDs
    that were ended without having been started (a later start of such an ID is
    an end-before-start). *)
Record wst := mk_wst { w_tasks : list (N * tinfo); w_locs : list (N * N); w_early : list N }.
Definition wst0 := mk_wst [] [] [].

Definition memb (x : N) (l : list N) : bool := existsb (N.eqb x) l.

(** one step of the acceptor; [None] = rejected *)
Definition wf_step (s : wst) (e : tev) : option wst :=
  match e with
  | TStart id _ kind loc t =>
      match aget id (w_tasks s) with
      | Some _ => None                                      (* started twice *)
      | None =>
          if memb id (w_early s) then None                   (* an end came before this start *)
          else match aget loc (w_locs s) with
               | Some k => if k =? kind
                           then Some (mk_wst (aset id (mk_ti t None) (w_tasks s)) (w_locs s) (w_early s))
                           else None                         (* two kinds at one location *)
               | None => Some (mk_wst (aset id (mk_ti t None) (w_tasks s)) (aset loc kind (w_locs s)) (w_early s))
               end
      end
  | TEnd id t =>
      match aget id (w_tasks s) with
      | None => Some (mk_wst (w_tasks s) (w_locs s) (id :: w_early s))   (* end of a task never started: ignored by consumers *)
      | Some ti =>
          match ti_end ti with
          | Some _ => None                                   (* ended twice *)
          | None => if ti_start ti <=? t
                    then Some (mk_wst (aset id (mk_ti (ti_start ti) (Some t)) (w_tasks s)) (w_locs s) (w_early s))
                    else None                                (* ends before it started *)
          end
      end
  | TTag task t | TMile task t =>
      match aget task (w_tasks s) with
      | None => None                                         (* refers to no started task *)
      | Some ti =>
          match ti_end ti with
          | Some _ => None                                   (* after the task ended *)
          | None => if ti_start ti <=? t then Some s else None
          end
      end
  end.

Fixpoint wf_run (s : wst) (tr : list tev) : option wst :=
  match tr with
  | [] => Some s
  | e :: r => match wf_step s e with Some s' => wf_run s' r | None => None end
  end.

Definition all_ended (s : wst) : bool :=
  forallb (fun kv => match ti_end (snd kv) with Some _ => true | None => false end) (w_tasks s).

(** a task's tags and milestones carry times; since they precede the end in the
    trace, "inside the lifetime" also needs time <= end: checked on the whole
    trace by [tags_before_end]. *)
Fixpoint end_time (id : N) (tr : list tev) : option N :=
  match tr with
  | [] => None
  | TEnd i t :: r => if i =? id then Some t else end_time id r
  | _ :: r => end_time id r
  end.

Fixpoint tags_before_end (tr : list tev) : bool :=
  match tr with
  | [] => true
  | (TTag task t | TMile task t) :: r =>
      (match end_time task r with Some te => t <=? te | None => true end) && tags_before_end r
  | _ :: r => tags_before_end r
  end.

(** The acceptor: the trace of a quiescent run is well formed. *)
Definition trace_wf (tr : list tev) : bool :=
  match wf_run wst0 tr with
  | Some s => all_ended s && tags_before_end tr
  | None => false
  end.

(** The same without the quiescence clause (a run that is still busy). *)
Definition trace_wf_open (tr : list tev) : bool :=
  match wf_run wst0 tr with
  | Some s => tags_before_end tr
  | None => false
  end.

(** ---------------------------------------------------------------- part 2 *)
Definition K_req_in : N := 1.
Definition K_req_out : N := 2.
Definition K_pipeline : N := 3.
Definition K_incoming : N := 4.
Definition K_outgoing : N := 5.

(** Locations are structured here (the strings are built by concatenation):
    component, component.req_in, component.req_out, a pipeline stage name
    (the task's What), port.incoming, port.outgoing. *)
Inductive locn : Type :=
| LComp (c : N) | LReqIn (c : N) | LReqOut (c : N) | LWhat (w : N) | LPortIn (p : N) | LPortOut (p : N).

(** singleKindLocation *)
Definition single_kind_location (comp kind what : N) : locn :=
  if kind =? K_req_in then LReqIn comp
  else if kind =? K_req_out then LReqOut comp
  else if kind =? K_pipeline then LWhat what
  else LComp comp.

(** helper calls, all on one traced domain [d] (NumHooks > 0) at time [t] *)
Inductive call : Type :=
| CInitiate (d msg parent what t : N)        (* TraceReqInitiate *)
| CReceive (d msg what t : N)                (* TraceReqReceive *)
| CComplete (d msg t : N)                    (* TraceReqComplete *)
| CFinalize (d msg t : N)                    (* TraceReqFinalize *)
| CResetReqIn (d msg t : N)                  (* EndReqInOnReset *)
| CResetTask (d task t : N)                  (* EndTaskOnReset *)
| CStart (d id parent kind what t : N)       (* StartTask with an empty Location *)
| CEnd (d id t : N)                          (* EndTask *)
| CTag (d task t : N)                        (* AddTaskTag (tag ID generated) *)
| CMile (d task t : N)                       (* AddMilestone (milestone ID generated) *)
| CDeliver (d port msg parent what t : N)    (* incoming-buffer hook, HookPosPortMsgRecvd *)
| CRetrieveIn (d port msg t : N) (newhead : option N)  (* HookPosPortMsgRetrieveIncoming; PeekIncoming afterwards *)
| CSend (d port msg parent what t : N)       (* outgoing-buffer hook, HookPosPortMsgSend *)
| CRetrieveOut (d port msg t : N) (newhead : option N).

(** emitted events carry structured locations and the generated tag/milestone id *)
Inductive xev : Type :=
| XStart (id parent kind : N) (loc : locn) (what t : N)
| XEnd (id t : N)
| XTag (tid task t : N)
| XMile (mid task t : N).

(** registries keyed by (domain, message ID) *)
Definition key := (N * N)%type.
Definition key_eqb (a b : key) : bool := (fst a =? fst b) && (snd a =? snd b).
Fixpoint rget (k : key) (m : list (key * N)) : option N :=
  match m with
  | [] => None
  | (k', v) :: r => if key_eqb k' k then Some v else rget k r
  end.
Fixpoint rdel (k : key) (m : list (key * N)) : list (key * N) :=
  match m with
  | [] => []
  | (k', v) :: r => if key_eqb k' k then rdel k r else (k', v) :: rdel k r
  end.

Record api := mk_api {
  a_next : N;                         (* next ID of the tracing-local ID space (registry, tag and milestone IDs) *)
  a_recv : list (key * N);            (* receiverTaskIDs *)
  a_inb : list (key * N);             (* incomingBufferTaskIDs *)
  a_outb : list (key * N);            (* outgoingBufferTaskIDs *)
  a_indepth : list (N * N);           (* incomingBufferHook.depth, per port *)
  a_outdepth : list (N * N) }.

Definition depth_of (p : N) (m : list (N * N)) : N := match aget p m with Some d => d | None => 0 end.

(** lookupOrCreate: (id, registry', next') *)
Definition lookup_or_create (k : key) (m : list (key * N)) (next : N) : N * list (key * N) * N :=
  match rget k m with
  | Some id => (id, m, next)
  | None => (next, (k, next) :: m, next + 1)
  end.

Definition api_step (s : api) (c : call) : api * list xev :=
  match c with
  | CInitiate d msg parent what t =>
      (s, [XStart msg parent K_req_out (LReqOut d) what t])
  | CReceive d msg what t =>
      let '(id, reg, nx) := lookup_or_create (d, msg) (a_recv s) (a_next s) in
      (mk_api nx reg (a_inb s) (a_outb s) (a_indepth s) (a_outdepth s),
       [XStart id msg K_req_in (LReqIn d) what t])
  | CComplete d msg t =>
      let '(id, reg, nx) := lookup_or_create (d, msg) (a_recv s) (a_next s) in
      (mk_api nx (rdel (d, msg) reg) (a_inb s) (a_outb s) (a_indepth s) (a_outdepth s), [XEnd id t])
  | CFinalize d msg t => (s, [XEnd msg t])
  | CResetReqIn d msg t =>
      match rget (d, msg) (a_recv s) with
      | None => (s, [])
      | Some id => (mk_api (a_next s) (rdel (d, msg) (a_recv s)) (a_inb s) (a_outb s) (a_indepth s) (a_outdepth s),
                    [XEnd id t])
      end
  | CResetTask d task t => (s, [XEnd task t])
  | CStart d id parent kind what t =>
      (s, [XStart id parent kind (single_kind_location d kind what) what t])
  | CEnd d id t => (s, [XEnd id t])
  | CTag d task t =>
      (mk_api (a_next s + 1) (a_recv s) (a_inb s) (a_outb s) (a_indepth s) (a_outdepth s), [XTag (a_next s) task t])
  | CMile d task t =>
      (mk_api (a_next s + 1) (a_recv s) (a_inb s) (a_outb s) (a_indepth s) (a_outdepth s), [XMile (a_next s) task t])
  | CDeliver d port msg parent what t =>
      let '(id, reg, nx) := lookup_or_create (d, msg) (a_inb s) (a_next s) in
      let depth := depth_of port (a_indepth s) in
      let dm := aset port (depth + 1) (a_indepth s) in
      if depth =? 0
      then (mk_api (nx + 1) (a_recv s) reg (a_outb s) dm (a_outdepth s),
            [XStart id parent K_incoming (LPortIn port) what t; XMile nx id t])
      else (mk_api nx (a_recv s) reg (a_outb s) dm (a_outdepth s),
            [XStart id parent K_incoming (LPortIn port) what t])
  | CRetrieveIn d port msg t newhead =>
      let depth := depth_of port (a_indepth s) in
      let dm := aset port (if depth =? 0 then 0 else depth - 1) (a_indepth s) in
      let '(id, reg, nx) := lookup_or_create (d, msg) (a_inb s) (a_next s) in
      let reg := rdel (d, msg) reg in
      match newhead with
      | None => (mk_api nx (a_recv s) reg (a_outb s) dm (a_outdepth s), [XEnd id t])
      | Some h =>
          let '(hid, reg2, nx2) := lookup_or_create (d, h) reg nx in
          (mk_api (nx2 + 1) (a_recv s) reg2 (a_outb s) dm (a_outdepth s), [XEnd id t; XMile nx2 hid t])
      end
  | CSend d port msg parent what t =>
      let '(id, reg, nx) := lookup_or_create (d, msg) (a_outb s) (a_next s) in
      let depth := depth_of port (a_outdepth s) in
      let dm := aset port (depth + 1) (a_outdepth s) in
      if depth =? 0
      then (mk_api (nx + 1) (a_recv s) (a_inb s) reg (a_indepth s) dm,
            [XStart id parent K_outgoing (LPortOut port) what t; XMile nx id t])
      else (mk_api nx (a_recv s) (a_inb s) reg (a_indepth s) dm,
            [XStart id parent K_outgoing (LPortOut port) what t])
  | CRetrieveOut d port msg t newhead =>
      let depth := depth_of port (a_outdepth s) in
      let dm := aset port (if depth =? 0 then 0 else depth - 1) (a_outdepth s) in
      let '(id, reg, nx) := lookup_or_create (d, msg) (a_outb s) (a_next s) in
      let reg := rdel (d, msg) reg in
      match newhead with
      | None => (mk_api nx (a_recv s) (a_inb s) reg (a_indepth s) dm, [XEnd id t])
      | Some h =>
          let '(hid, reg2, nx2) := lookup_or_create (d, h) reg nx in
          (mk_api (nx2 + 1) (a_recv s) (a_inb s) reg2 (a_indepth s) dm, [XEnd id t; XMile nx2 hid t])
      end
  end.

Fixpoint api_run (s : api) (cs : list call) : api * list xev :=
  match cs with
  | [] => (s, [])
  | c :: r => let (s1, e1) := api_step s c in
              let (s2, e2) := api_run s1 r in (s2, e1 ++ e2)
  end.

Definition api0 (next : N) : api := mk_api next [] [] [] [] [].
