(** C32 — traces are well-formed task trees.  Property theorems only.

    [WF tr] (Spec.v) is the declarative well-formedness of the event list recorded by
    a tracer attached to every component, stated over every decomposition
    [tr = before ++ event :: after]: every task is started at most once; an end of a
    started task comes after its start, not before its start time, and is its only
    end; every tag and milestone refers to a task started before it and not yet
    ended, at a time inside the task's lifetime; each location hosts tasks of a
    single kind; and (at quiescence) every started task has ended.
    PARTIAL: the theorems cover the checker and the API helper layer; the call
    sites in the components are covered by trace inclusion on sampled runs. *)
From Akita Require Import Lib.Base C32.Model C32.Spec C32.Proofs1 C32.Proofs2 C32.Proofs3.
Local Open Scope N_scope.

(** The executable acceptor decides the declarative property. *)
Theorem trace_wf_iff_WF : forall tr, trace_wf tr = true <-> WF tr.
Proof. exact Proofs2.trace_wf_iff_WF. Qed.
Print Assumptions trace_wf_iff_WF.

(** ... and without the quiescence clause (a run that is still busy). *)
Theorem c32_trace_wf_open_iff : forall tr, trace_wf_open tr = true <-> WF_open tr.
Proof. exact trace_wf_open_iff. Qed.
Print Assumptions c32_trace_wf_open_iff.

(** The request helpers of the tracing API, used as intended (a (domain, message)
    key is received at most once; TraceReqComplete only on an open req_in;
    EndReqInOnReset on anything; times do not decrease), emit a well-formed trace:
    each req_in is started once under a fresh task ID, ended exactly once under the
    same ID by the completion or the reset helper — a reset of a key that holds no
    task emits nothing — and the registry holds exactly the keys whose req_in is
    still open, so that it is empty once everything is completed or reset. *)
Theorem c32_registry_pairing : forall base cs, req_discipline [] [] 0 cs = true ->
  let s := fst (api_run (api0 base) cs) in
  let tr := map project (snd (api_run (api0 base) cs)) in
  WF_open tr /\
  (forall k, kmem k (live_after [] cs) = true <-> exists id, rget k (a_recv s) = Some id) /\
  (live_after [] cs = [] -> WF tr /\ forall k, rget k (a_recv s) = None).
Proof. exact registry_pairing. Qed.
Print Assumptions c32_registry_pairing.

(** The acceptor on concrete traces: one accepted, and one rejected for each clause. *)
Example c32_acceptor_nonvacuous :
  trace_wf [TStart 1 0 1 7 10; TMile 1 12; TStart 2 1 2 8 12; TTag 2 13; TEnd 2 15; TEnd 1 20; TEnd 99 20] = true /\
  trace_wf [TStart 1 0 1 7 10; TStart 1 0 1 7 11; TEnd 1 20] = false /\
  trace_wf [TStart 1 0 1 7 10] = false /\
  trace_wf [TStart 1 0 1 7 10; TEnd 1 20; TEnd 1 21] = false /\
  trace_wf [TStart 1 0 1 7 10; TEnd 1 9] = false /\
  trace_wf [TEnd 1 5; TStart 1 0 1 7 10; TEnd 1 20] = false /\
  trace_wf [TStart 1 0 1 7 10; TStart 2 0 2 7 10; TEnd 1 20; TEnd 2 20] = false /\
  trace_wf [TStart 1 0 1 7 10; TEnd 1 20; TMile 1 20] = false /\
  trace_wf [TTag 1 3; TStart 1 0 1 7 10; TEnd 1 20] = false /\
  trace_wf [TStart 1 0 1 7 10; TTag 1 30; TEnd 1 20] = false.
Proof. vm_compute. repeat split. Qed.

(** The pairing theorem on a concrete script with a reset in the middle. *)
Example c32_pairing_nonvacuous :
  let cs := [CReceive 1 10 1 5; CReceive 1 11 2 6; CComplete 1 10 8; CResetReqIn 1 11 9; CResetReqIn 1 12 9;
             CReceive 2 10 1 9; CComplete 2 10 12] in
  req_discipline [] [] 0 cs = true /\ live_after [] cs = [] /\
  map project (snd (api_run (api0 100) cs)) =
    [TStart 100 10 1 7 5; TStart 101 11 1 7 6; TEnd 100 8; TEnd 101 9; TStart 102 10 1 13 9; TEnd 102 12].
Proof. vm_compute. repeat split. Qed.
