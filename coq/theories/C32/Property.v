(** C32 — traces are well-formed task trees.  Property theorems only. *)
From Akita Require Import Lib.Base C32.Model C32.Spec.
Local Open Scope N_scope.

Example c32_acceptor_nonvacuous :
  trace_wf [TStart 1 0 1 7 10; TMile 1 12; TStart 2 1 2 8 12; TTag 2 13; TEnd 2 15; TEnd 1 20; TEnd 99 20] = true /\
  trace_wf [TStart 1 0 1 7 10; TStart 1 0 1 7 11; TEnd 1 20] = false /\
  trace_wf [TStart 1 0 1 7 10] = false /\
  trace_wf [TStart 1 0 1 7 10; TEnd 1 20; TEnd 1 21] = false /\
  trace_wf [TStart 1 0 1 7 10; TStart 2 0 2 7 10; TEnd 1 20; TEnd 2 20] = false /\
  trace_wf [TStart 1 0 1 7 10; TEnd 1 20; TMile 1 20] = false.
Proof. vm_compute. repeat split. Qed.

Theorem c32_placeholder : trace_wf [] = true.
Proof. reflexivity. Qed.
Print Assumptions c32_placeholder.
