(** C34 — executable model of the four aggregate tracers
    (tracing/totaltimetracer.go, averagetimetracer.go, busytimetracer.go,
    tagcounttracer.go), function by function.

    An event stream is what the tracing API delivers to a tracer: task starts
    (with the verdict of the tracer's [TaskFilter], which is evaluated at start),
    task ends, tags, and — for the busy-time tracer only — a call of
    [TerminateAllTasks(now)].  Times are [VTimeInPicoSec] = uint64: every
    subtraction and accumulation is written with explicit wrap-around so that the
    model equals the code on ill-formed (not time-ordered) streams too.
    Go maps keyed by task ID are association lists with at most one entry per key
    (they are only looked up, never ranged over). *)
From Akita Require Import Lib.Base.
Local Open Scope N_scope.

Inductive ev : Type :=
| EStart (id t : N) (pass : bool)      (* StartTask{ID,Time}; pass = filter(task) *)
| EEnd (id t : N)                      (* EndTask{ID,Time} *)
| ETag (task name t : N)               (* AddTaskTag{TaskID,What,Time}; names are numbered *)
| ETerm (t : N).                       (* BusyTimeTracer.TerminateAllTasks(t) *)

Definition ev_time (e : ev) : N :=
  match e with EStart _ t _ => t | EEnd _ t => t | ETag _ _ t => t | ETerm t => t end.

(** uint64 subtraction *)
Definition sub64 (a b : N) : N := (a + two64 - b mod two64) mod two64.

(** ------------------------------------------------------------ Go maps *)
Fixpoint mget {A} (k : N) (m : list (N * A)) : option A :=
  match m with
  | [] => None
  | (k', v) :: r => if k' =? k then Some v else mget k r
  end.

Fixpoint mdel {A} (k : N) (m : list (N * A)) : list (N * A) :=
  match m with
  | [] => []
  | (k', v) :: r => if k' =? k then mdel k r else (k', v) :: mdel k r
  end.

Definition mset {A} (k : N) (v : A) (m : list (N * A)) : list (N * A) := (k, v) :: mdel k m.

(** ------------------------------------------------------------ TotalTimeTracer *)
Record tt := mk_tt { tt_total : N; tt_infl : list (N * N) }.
Definition tt_init := mk_tt 0 [].

Definition tt_step (st : tt) (e : ev) : tt :=
  match e with
  | EStart id t pass =>
      if pass then mk_tt (tt_total st) (mset id t (tt_infl st)) else st
  | EEnd id t =>
      match mget id (tt_infl st) with
      | None => st
      | Some s => mk_tt (w64 (tt_total st + sub64 t s)) (mdel id (tt_infl st))
      end
  | _ => st
  end.

(** ------------------------------------------------------------ AverageTimeTracer
    (as repaired: the exact sum is kept; average = total / count).  The task
    counter is a uint64 that would need 2^64 completed tasks to wrap; it is
    modelled unbounded (a stream is a finite list, far shorter than that). *)
Record at_ := mk_at { at_total : N; at_avg : N; at_count : N; at_infl : list (N * N) }.
Definition at_init := mk_at 0 0 0 [].

Definition at_step (st : at_) (e : ev) : at_ :=
  match e with
  | EStart id t pass =>
      if pass then mk_at (at_total st) (at_avg st) (at_count st) (mset id t (at_infl st)) else st
  | EEnd id t =>
      match mget id (at_infl st) with
      | None => st
      | Some s =>
          let total := w64 (at_total st + sub64 t s) in
          let count := at_count st + 1 in
          mk_at total (total / count) count (mdel id (at_infl st))
      end
  | _ => st
  end.

(** The tracer before the fix: a running integer average. *)
Record ao := mk_ao { ao_avg : N; ao_count : N; ao_infl : list (N * N) }.
Definition ao_init := mk_ao 0 0 [].
Definition ao_step (st : ao) (e : ev) : ao :=
  match e with
  | EStart id t pass =>
      if pass then mk_ao (ao_avg st) (ao_count st) (mset id t (ao_infl st)) else st
  | EEnd id t =>
      match mget id (ao_infl st) with
      | None => st
      | Some s =>
          mk_ao (w64 (w64 (ao_avg st * ao_count st) + sub64 t s) / (ao_count st + 1))
                (ao_count st + 1) (mdel id (ao_infl st))
      end
  | _ => st
  end.

(** ------------------------------------------------------------ BusyTimeTracer
    [taskTimes] is a container/list of *taskTimeStartEnd in start order; the map
    [inflightTasks] points at list elements.  An element is identified here by a
    serial number so that a stale pointer (element already removed from the list)
    is representable. *)
Record cell := mk_cell { c_ser : N; c_start : N; c_end : N; c_done : bool }.
Record bt := mk_bt { bt_busy : N; bt_list : list cell; bt_infl : list (N * N); bt_next : N }.
Definition bt_init := mk_bt 0 [] [] 0.

(** time.end = t; time.completed = true on the element with serial [k] (no effect
    on the list if the element was already removed). *)
Fixpoint mark (k t : N) (l : list cell) : list cell :=
  match l with
  | [] => []
  | c :: r => if c_ser c =? k then mk_cell (c_ser c) (c_start c) t true :: r
              else c :: mark k t r
  end.

(** startTimeOfFirstImcompleteTask *)
Fixpoint first_incomplete (l : list cell) : option N :=
  match l with
  | [] => None
  | c :: r => if c_done c then first_incomplete r else Some (c_start c)
  end.

(** the loop of [collapse]: stops at the first incomplete task; removes the
    completed tasks with end <= now. Returns (finished, remaining list). *)
Fixpoint take_finished (now : N) (l : list cell) : list cell * list cell :=
  match l with
  | [] => ([], [])
  | c :: r =>
      if negb (c_done c) then ([], l)
      else let (f, r') := take_finished now r in
           if c_end c <=? now then (c :: f, r') else (f, c :: r')
  end.

(** taskBusyTime (as repaired): one sweep over the start-ordered tasks keeping the
    interval merged so far ([extendTaskTime] = min of starts, max of ends). *)
Fixpoint sweep (s e : N) (l : list cell) : N :=
  match l with
  | [] => sub64 e s
  | c :: r =>
      if c_start c <=? e then sweep (N.min s (c_start c)) (N.max e (c_end c)) r
      else w64 (sub64 e s + sweep (c_start c) (c_end c) r)
  end.

Definition task_busy_time (l : list cell) : N :=
  match l with
  | [] => 0
  | c :: r => sweep (c_start c) (c_end c) r
  end.

Definition collapse (now : N) (st : bt) : bt :=
  let stop := match first_incomplete (bt_list st) with
              | Some t => t <? now
              | None => false
              end in
  if stop then st
  else let (f, r) := take_finished now (bt_list st) in
       mk_bt (w64 (bt_busy st + task_busy_time f)) r (bt_infl st) (bt_next st).

Definition terminate_all (now : N) (l : list cell) : list cell :=
  map (fun c => if c_done c then c else mk_cell (c_ser c) (c_start c) now true) l.

(** [nilf]: the tracer was built with a nil filter (NewBusyTimeTracer(nil)), which
    lets every task pass. *)
Definition bt_step (nilf : bool) (st : bt) (e : ev) : bt :=
  match e with
  | EStart id t pass =>
      if nilf || pass then
        mk_bt (bt_busy st) (bt_list st ++ [mk_cell (bt_next st) t 0 false])
              (mset id (bt_next st) (bt_infl st)) (bt_next st + 1)
      else st
  | EEnd id t =>
      match mget id (bt_infl st) with
      | None => st
      | Some k =>
          collapse t (mk_bt (bt_busy st) (mark k t (bt_list st)) (mdel id (bt_infl st)) (bt_next st))
      end
  | ETerm t =>
      collapse t (mk_bt (bt_busy st) (terminate_all t (bt_list st)) (bt_infl st) (bt_next st))
  | ETag _ _ _ => st
  end.

(** taskBusyTime before the fix: every task of a group is compared with the
    FIRST task of the group (coveredMask), not with the merged interval. *)
Definition overlap_old (a b : N * N) : bool :=
  ((fst a <=? fst b) && (fst b <=? snd a)) ||
  ((fst a <=? snd b) && (snd b <=? snd a)) ||
  ((fst b <=? fst a) && (snd a <=? snd b)).

Fixpoint absorb_old (t1 ext : N * N) (l : list (N * N)) : (N * N) * list (N * N) :=
  match l with
  | [] => (ext, [])
  | t2 :: r =>
      if overlap_old t1 t2
      then absorb_old t1 (N.min (fst ext) (fst t2), N.max (snd ext) (snd t2)) r
      else let (e', r') := absorb_old t1 ext r in (e', t2 :: r')
  end.

Fixpoint busy_old (fuel : nat) (l : list (N * N)) : N :=
  match fuel, l with
  | S f, t1 :: r => let (ext, r') := absorb_old t1 t1 r in
                    w64 (sub64 (snd ext) (fst ext) + busy_old f r')
  | _, _ => 0
  end.

(** ------------------------------------------------------------ TagCountTracer *)
Record tc := mk_tc {
  tc_names : list N;                 (* tagNames, in order of first appearance *)
  tc_tags : list (N * N);            (* tagCount *)
  tc_tasks : list (N * N);           (* taskWithTagCount *)
  tc_infl : list (N * list N) }.     (* inflightTasks: task ID -> set of seen names *)
Definition tc_init := mk_tc [] [] [] [].

Definition cnt (k : N) (m : list (N * N)) : N :=
  match mget k m with Some v => v | None => 0 end.

Definition memN (x : N) (l : list N) : bool := existsb (N.eqb x) l.

Definition tc_step (st : tc) (e : ev) : tc :=
  match e with
  | EStart id _ pass =>
      if pass then mk_tc (tc_names st) (tc_tags st) (tc_tasks st) (mset id [] (tc_infl st)) else st
  | ETag task name _ =>
      let names := match mget name (tc_tags st) with
                   | None => tc_names st ++ [name]
                   | Some _ => tc_names st
                   end in
      let tags := mset name (w64 (cnt name (tc_tags st) + 1)) (tc_tags st) in
      match mget task (tc_infl st) with
      | None => mk_tc names tags (tc_tasks st) (tc_infl st)
      | Some seen =>
          if memN name seen then mk_tc names tags (tc_tasks st) (tc_infl st)
          else mk_tc names tags
                     (mset name (w64 (cnt name (tc_tasks st) + 1)) (tc_tasks st))
                     (mset task (name :: seen) (tc_infl st))
      end
  | EEnd id _ => mk_tc (tc_names st) (tc_tags st) (tc_tasks st) (mdel id (tc_infl st))
  | ETerm _ => st
  end.

(** ------------------------------------------------------------ runs *)
Definition run {S} (step : S -> ev -> S) (init : S) (evs : list ev) : S :=
  fold_left step evs init.

Definition total_time (evs : list ev) : N := tt_total (run tt_step tt_init evs).
Definition average_time (evs : list ev) : N := at_avg (run at_step at_init evs).
Definition task_count (evs : list ev) : N := at_count (run at_step at_init evs).
Definition average_time_old (evs : list ev) : N := ao_avg (run ao_step ao_init evs).
Definition busy_time (nilf : bool) (evs : list ev) : N := bt_busy (run (bt_step nilf) bt_init evs).
Definition tag_names (evs : list ev) : list N := tc_names (run tc_step tc_init evs).
Definition tag_count (evs : list ev) (name : N) : N := cnt name (tc_tags (run tc_step tc_init evs)).
Definition tag_task_count (evs : list ev) (name : N) : N := cnt name (tc_tasks (run tc_step tc_init evs)).
