(** C34 — proofs, part 4: from histories (newest first) to streams (program
    order), and from the internal enumerations to the declarative task sets. *)
From Akita Require Import Lib.Base C34.Model C34.Spec C34.Proofs1 C34.Proofs2 C34.Proofs3.
From Coq Require Import Permutation.
Local Open Scope N_scope.

(** ---------------------------------------------------------------- quiescence *)
Lemma max_end_le l B : (forall iv, In iv l -> snd iv <= B) -> max_end l <= B.
Proof.
  induction l as [|x r IH]; intro H; [cbn; lia|].
  cbn [max_end fold_right]. fold (max_end r).
  specialize (H x (or_introl eq_refl)) as Hx.
  assert (max_end r <= B) by (apply IH; intros iv Hin; apply H; right; exact Hin). lia.
Qed.

Theorem busy_quiescent_h h : wf_h h = true ->
  (forall id s, find_start id h = Some s -> In id (end_ids h)) ->
  bt_busy (runh (bt_step false) bt_init h) = union_len (civs h).
Proof.
  intros Hwf Hq. destruct (binv_holds h Hwf) as [B Hinv]. destruct Hinv as [b_sorted0 b_le_now0 b_done0 b_B0 b_tasks0 b_cells0 b_busy0 b_some0 b_none0 b_incomplete0 b_nodup0 b_fresh0 b_inj0 b_live0].
  set (st := runh (bt_step false) bt_init h) in *.
  assert (bt_list st = []) as Hnil.
  { destruct b_live0 as [H|[c [Hc Hd]]]; [exact H|exfalso].
    destruct (b_incomplete0 c Hc Hd) as [id Hk].
    destruct (b_some0 id _ Hk) as [Hne [s [Hfs _]]].
    apply memN_false in Hne. apply Hne. eapply Hq. exact Hfs. }
  rewrite b_busy0. apply union_len_horizon. apply max_end_le.
  intros iv Hin. destruct (b_tasks0 iv Hin) as [H|[c [Hc _]]]; [exact H|]. rewrite Hnil in Hc. destruct Hc.
Qed.

(** ---------------------------------------------------------------- terminate *)
Definition run_ivs (now : N) (h : list ev) : list (N * N) :=
  map (fun x => (snd (fst x), now)) (running_h h (end_ids h)).

Lemma running_h_In h ended id s z :
  In (id, s, z) (running_h h ended) <-> In (EStart id s true) h /\ memN id ended = false /\ z = 0.
Proof.
  induction h as [|e r IH]; cbn [running_h].
  - split; [intros []|intros [[] _]].
  - destruct e as [i t [|]|i t|? ? ?|?]; cbn [In]; try (rewrite IH; intuition congruence).
    destruct (memN i ended) eqn:E.
    + rewrite IH. split; [intuition|]. intros [[H|H] [H2 H3]]; [|auto].
      injection H as -> ->. congruence.
    + cbn [In]. rewrite IH. split.
      * intros [H|H]; [injection H as -> -> <-; auto|intuition].
      * intros [[H|H] [H2 ->]]; [left; injection H as -> ->; reflexivity|right; auto].
Qed.

Lemma terminate_all_In now l c :
  In c (terminate_all now l) <->
  exists c0, In c0 l /\ c = (if c_done c0 then c0 else mk_cell (c_ser c0) (c_start c0) now true).
Proof.
  unfold terminate_all. rewrite in_map_iff. split; intros [c0 [H1 H2]]; exists c0; auto.
Qed.

Lemma terminate_all_starts now l : map c_start (terminate_all now l) = map c_start l.
Proof.
  induction l as [|c r IH]; [reflexivity|]. cbn [terminate_all map]. fold (terminate_all now r).
  rewrite IH. destruct (c_done c); reflexivity.
Qed.

Lemma terminate_all_done now l c : In c (terminate_all now l) -> c_done c = true.
Proof.
  intro H. apply terminate_all_In in H. destruct H as [c0 [_ ->]]. destruct (c_done c0) eqn:E; [exact E|reflexivity].
Qed.

Theorem busy_terminate_h h now : wf_h h = true -> now_h h <= now -> now < two64 ->
  bt_busy (runh (bt_step false) bt_init (ETerm now :: h)) = union_len (civs h ++ run_ivs now h).
Proof.
  intros Hwf Hnow Hb. destruct (binv_holds h Hwf) as [B Hinv]. pose proof Hinv as Hinv0. destruct Hinv as [b_sorted0 b_le_now0 b_done0 b_B0 b_tasks0 b_cells0 b_busy0 b_some0 b_none0 b_incomplete0 b_nodup0 b_fresh0 b_inj0 b_live0].
  rewrite runh_cons. set (st := runh (bt_step false) bt_init h) in *. cbn [bt_step].
  set (C := civs h ++ run_ivs now h).
  set (L1 := terminate_all now (bt_list st)).
  pose proof (wf_h_nodup_starts h Hwf) as Hnds.
  assert (forall iv, In iv (run_ivs now h) <->
            exists id s, find_start id h = Some s /\ memN id (end_ids h) = false /\ iv = (s, now)) as Hrun.
  { intro iv. unfold run_ivs. rewrite in_map_iff. split.
    - intros [[[id s] z] [<- Hin]]. apply running_h_In in Hin. destruct Hin as [H1 [H2 _]].
      exists id, s. cbn [fst snd]. repeat split; auto. apply find_start_unique; assumption.
    - intros [id [s [H1 [H2 ->]]]]. exists (id, s, 0). split; [reflexivity|].
      apply running_h_In. repeat split; auto. apply find_start_In. exact H1. }
  destruct (collapse_sound C now (bt_busy st) L1 (bt_infl st) (bt_next st) B)
    as [_ [_ [B' [P [HLP [_ [_ [HB't [_ [HtB' [HbB' HlB']]]]]]]]]]]; auto; try lia.
  - apply (sorted_from_starts B (bt_list st)); [symmetry; apply terminate_all_starts|exact b_sorted0].
  - intros c Hc _. apply terminate_all_In in Hc. destruct Hc as [c0 [Hc0 ->]].
    destruct (c_done c0) eqn:E; [destruct (b_done0 c0 Hc0 E); split; lia|].
    cbn [c_start c_end]. specialize (b_le_now0 c0 Hc0). lia.
  - intros iv Hin. unfold C in Hin. apply in_app_or in Hin. destruct Hin as [Hin|Hin].
    + destruct (civs_ends h Hwf iv Hin). lia.
    + apply Hrun in Hin. destruct Hin as [id [s [_ [_ ->]]]]. cbn. lia.
  - intros iv Hin. unfold C in Hin. apply in_app_or in Hin. destruct Hin as [Hin|Hin].
    + destruct (b_tasks0 iv Hin) as [H|[c [Hc [Hd He]]]]; [left; exact H|right].
      exists c. split; [|auto]. apply terminate_all_In. exists c. rewrite Hd. auto.
    + right. apply Hrun in Hin. destruct Hin as [id [s [Hfs [Hne ->]]]].
      destruct (mget id (bt_infl st)) as [k|] eqn:Hk.
      * destruct (b_some0 id k Hk) as [_ [s' [Hfs' [c [Hc [Hser [Hst Hd]]]]]]].
        assert (s' = s) as -> by congruence.
        exists (mk_cell (c_ser c) (c_start c) now true). split.
        -- apply terminate_all_In. exists c. rewrite Hd. auto.
        -- split; [reflexivity|]. unfold iv_c. cbn [c_start c_end]. rewrite Hst. reflexivity.
      * destruct (b_none0 id Hk); congruence.
  - intros c Hc _. apply terminate_all_In in Hc. destruct Hc as [c0 [Hc0 ->]]. unfold C. apply in_or_app.
    destruct (c_done c0) eqn:E; [left; auto|right].
    destruct (b_incomplete0 c0 Hc0 E) as [id Hk].
    destruct (b_some0 id _ Hk) as [Hne [s [Hfs [c [Hc [Hser [Hst Hd]]]]]]].
    assert (c = c0) as -> by (apply (ser_inj _ _ _ b_nodup0 Hc Hc0); exact Hser).
    apply Hrun. exists id, s. repeat split; auto. unfold iv_c. cbn [c_start c_end]. rewrite Hst. reflexivity.
  - rewrite b_busy0. apply cnt_iv_ext. intros tau Htau. unfold C. rewrite covered_app.
    assert (covered (run_ivs now h) tau = false) as ->; [|rewrite orb_false_r; reflexivity].
    apply covered_false. intros iv Hin Hc. apply Hrun in Hin. destruct Hin as [id [s [Hfs [Hne ->]]]].
    cbn [fst snd] in Hc.
    destruct (mget id (bt_infl st)) as [k|] eqn:Hk; [|destruct (b_none0 id Hk); congruence].
    destruct (b_some0 id k Hk) as [_ [s' [Hfs' [c [Hc' [_ [Hst _]]]]]]].
    assert (s' = s) as -> by congruence.
    pose proof (sorted_from_In _ _ _ b_sorted0 Hc'). lia.
  - (* everything was collapsed *)
    set (st' := collapse now (mk_bt (bt_busy st) L1 (bt_infl st) (bt_next st))) in *.
    assert (bt_list st' = []) as Hnil.
    { destruct HlB' as [H|[c [Hc Hd]]]; [exact H|exfalso].
      assert (In c L1) as HcL by (rewrite HLP; apply in_or_app; right; exact Hc).
      apply terminate_all_done in HcL. congruence. }
    rewrite HbB'. apply union_len_horizon. apply max_end_le.
    intros iv Hin. destruct (HtB' iv Hin) as [H|[c [Hc _]]]; [exact H|]. rewrite Hnil in Hc. destruct Hc.
Qed.

(** nil filter = every task passes *)
Definition force_pass (e : ev) : ev :=
  match e with EStart id t _ => EStart id t true | _ => e end.

Lemma bt_step_nil st e : bt_step true st e = bt_step false st (force_pass e).
Proof. destruct e as [id t [|]| | |]; reflexivity. Qed.

Lemma busy_time_nil evs : busy_time true evs = busy_time false (map force_pass evs).
Proof.
  unfold busy_time, run. generalize bt_init. induction evs as [|e r IH]; intro s; [reflexivity|].
  cbn [fold_left map]. rewrite bt_step_nil. apply IH.
Qed.

(** ---------------------------------------------------------------- WF => wf_h *)
Lemma start_ids_app a b : start_ids (a ++ b) = start_ids a ++ start_ids b.
Proof. unfold start_ids. apply flat_map_app. Qed.
Lemma end_ids_app a b : end_ids (a ++ b) = end_ids a ++ end_ids b.
Proof. unfold end_ids. apply flat_map_app. Qed.

Lemma start_ids_rev_In id l : In id (start_ids (rev l)) <-> In id (start_ids l).
Proof.
  unfold start_ids. rewrite !in_flat_map. split; intros [e [H1 H2]]; exists e; split; auto;
    [apply in_rev; exact H1|apply in_rev in H1; exact H1].
Qed.
Lemma end_ids_rev_In id l : In id (end_ids (rev l)) <-> In id (end_ids l).
Proof.
  unfold end_ids. rewrite !in_flat_map. split; intros [e [H1 H2]]; exists e; split; auto;
    [apply in_rev; exact H1|apply in_rev in H1; exact H1].
Qed.

Lemma NoDup_app_l {A} (l1 l2 : list A) : NoDup (l1 ++ l2) -> NoDup l1.
Proof.
  induction l1 as [|x r IH]; cbn [app]; [constructor|]. intro H. inversion H; subst.
  constructor; [|auto]. intro Hin. apply H2. apply in_or_app. left. exact Hin.
Qed.

Lemma NoDup_snoc_notin {A} (l : list A) x : NoDup (l ++ [x]) -> ~ In x l.
Proof.
  induction l as [|y r IH]; cbn [app]; [intros _ []|].
  intro H. inversion H; subst. intros [->|Hin].
  - apply H2. apply in_or_app. right. left. reflexivity.
  - apply (IH H3 Hin).
Qed.

Lemma WF_snoc p x : WF (p ++ [x]) -> WF p.
Proof.
  intros [H1 [H2 [H3 [H4 [H5 H6]]]]]. repeat split.
  - intros pre a b post ->. apply (H1 pre a b (post ++ [x])). rewrite <- !app_assoc. reflexivity.
  - rewrite start_ids_app in H2. apply NoDup_app_l in H2. exact H2.
  - rewrite end_ids_app in H3. apply NoDup_app_l in H3. exact H3.
  - intros pre id t post -> Hin. apply (H4 pre id t (post ++ [x])).
    + rewrite <- app_assoc. reflexivity.
    + rewrite start_ids_app. apply in_or_app. left. exact Hin.
  - intros e He. apply H5. apply in_or_app. left. exact He.
  - intros e He. apply H6. apply in_or_app. left. exact He.
Qed.

Theorem WF_wf_h evs : WF evs -> wf_h (rev evs) = true.
Proof.
  induction evs as [|x p IH] using rev_ind; intro Hwf; [reflexivity|].
  pose proof (WF_snoc _ _ Hwf) as Hp. specialize (IH Hp).
  destruct Hwf as [H1 [H2 [H3 [H4 [H5 H6]]]]].
  rewrite rev_unit. cbn [wf_h]. rewrite IH. cbn [andb].
  rewrite (H5 x) by (apply in_or_app; right; left; reflexivity). cbn [negb andb].
  assert (ev_time x <? two64 = true) as -> by (apply N.ltb_lt; apply H6; apply in_or_app; right; left; reflexivity).
  cbn [andb].
  assert ((match rev p with [] => true | q :: _ => ev_time q <=? ev_time x end) = true) as ->.
  { destruct (rev p) as [|q r] eqn:E; [reflexivity|]. apply N.leb_le.
    assert (p = rev r ++ [q]) as ->.
    { rewrite <- (rev_involutive p), E. reflexivity. }
    apply (H1 (rev r) q x []). rewrite <- app_assoc. reflexivity. }
  cbn [andb].
  destruct x as [id t pass|id t|? ? ?|?]; auto.
  - rewrite start_ids_app in H2. cbn in H2. apply NoDup_snoc_notin in H2.
    assert (memN id (start_ids (rev p)) = false) as ->.
    { apply memN_false. rewrite start_ids_rev_In. exact H2. }
    assert (memN id (end_ids (rev p)) = false) as ->; [|reflexivity].
    apply memN_false. rewrite end_ids_rev_In. intro Hin.
    apply end_ids_In in Hin. destruct Hin as [te Hin]. apply in_split in Hin.
    destruct Hin as [pre [post ->]].
    apply (H4 pre id te (post ++ [EStart id t pass])).
    + rewrite <- app_assoc. reflexivity.
    + rewrite start_ids_app. apply in_or_app. right. left. reflexivity.
  - rewrite end_ids_app in H3. cbn in H3. apply NoDup_snoc_notin in H3.
    assert (memN id (end_ids (rev p)) = false) as ->; [|reflexivity].
    apply memN_false. rewrite end_ids_rev_In. exact H3.
Qed.

(** ---------------------------------------------------------------- the task set *)
Lemma tasks_h_spec h : wf_h h = true ->
  forall id s e, In (id, s, e) (tasks_h h) <-> In (EStart id s true) h /\ In (EEnd id e) h.
Proof.
  induction h as [|x r IH]; intros Hwf id s e.
  - cbn. intuition.
  - pose proof Hwf as Hwf0. apply wf_h_cons in Hwf. destruct Hwf as [Hwfr [_ [_ [_ Hid]]]].
    specialize (IH Hwfr id s e).
    pose proof (wf_h_nodup_starts r Hwfr) as Hnd.
    destruct x as [i t p|i t|? ? ?|?]; cbn [tasks_h In].
    + destruct Hid as [Hns Hne]. rewrite IH. split.
      * intros [Ha Hb]. auto.
      * intros [[Ha|Ha] [Hb|Hb]]; try discriminate; auto.
        injection Ha as -> -> ->. exfalso. apply Hne. eapply In_end_ids. exact Hb.
    + destruct (find_start i r) as [s0|] eqn:E.
      * cbn [In]. rewrite IH. split.
        -- intros [H|[Ha Hb]]; [injection H as -> -> ->|auto].
           split; [right; apply find_start_In; exact E|left; reflexivity].
        -- intros [[Ha|Ha] [Hb|Hb]]; try discriminate.
           ++ injection Hb as -> ->. left. rewrite (find_start_unique _ _ _ Hnd Ha) in E. congruence.
           ++ right. auto.
      * rewrite IH. split; [intros [Ha Hb]; auto|].
        intros [[Ha|Ha] [Hb|Hb]]; try discriminate; auto.
        injection Hb as -> ->. rewrite (find_start_unique _ _ _ Hnd Ha) in E. discriminate.
    + rewrite IH. split; [intros [Ha Hb]; auto|]. intros [[Ha|Ha] [Hb|Hb]]; try discriminate; auto.
    + rewrite IH. split; [intros [Ha Hb]; auto|]. intros [[Ha|Ha] [Hb|Hb]]; try discriminate; auto.
Qed.

Lemma tasks_h_nodup h : wf_h h = true -> NoDup (tasks_h h).
Proof.
  induction h as [|x r IH]; intro Hwf; [constructor|].
  pose proof Hwf as Hwf0. apply wf_h_cons in Hwf. destruct Hwf as [Hwfr [_ [_ [_ Hid]]]].
  specialize (IH Hwfr).
  destruct x as [i t p|i t|? ? ?|?]; cbn [tasks_h]; auto.
  destruct (find_start i r) as [s0|]; auto. constructor; [|exact IH].
  intro Hin. apply (tasks_h_spec r Hwfr) in Hin. destruct Hin as [_ Hin].
  apply Hid. eapply In_end_ids. exact Hin.
Qed.

Lemma sum_dur_perm l1 l2 : Permutation l1 l2 -> sum_dur l1 = sum_dur l2.
Proof.
  induction 1; cbn [sum_dur fold_right]; try fold (sum_dur l); try fold (sum_dur l'); try lia.
Qed.

Lemma union_len_ext l1 l2 : (forall iv, In iv l1 <-> In iv l2) -> union_len l1 = union_len l2.
Proof.
  intro H. set (M := N.max (max_end l1) (max_end l2)).
  rewrite <- (union_len_horizon l1 M), <- (union_len_horizon l2 M) by lia.
  apply cnt_iv_ext. intros t _. apply Bool.eq_true_iff_eq. rewrite !covered_true.
  split; intros [iv [Hin Hc]]; exists iv; split; auto; apply H; exact Hin.
Qed.

Lemma in_rev_iff {A} (l : list A) x : In x (rev l) <-> In x l.
Proof. symmetry. apply in_rev. Qed.

(** the declarative task list of a stream vs the enumeration *)
Lemma task_list_perm evs L : WF evs -> NoDup L ->
  (forall id s e, In (id, s, e) L <-> is_task evs id s e) ->
  Permutation L (tasks_h (rev evs)).
Proof.
  intros Hwf Hnd HL. pose proof (WF_wf_h evs Hwf) as Hh.
  apply NoDup_Permutation; [exact Hnd|apply tasks_h_nodup; exact Hh|].
  intros [[id s] e]. rewrite HL, (tasks_h_spec _ Hh). unfold is_task. rewrite !in_rev_iff. reflexivity.
Qed.

Lemma ivs_of_In l iv : In iv (ivs_of l) <-> exists id, In (id, fst iv, snd iv) l.
Proof.
  unfold ivs_of. rewrite in_map_iff. split.
  - intros [[[id s] e] [<- Hin]]. exists id. exact Hin.
  - intros [id Hin]. exists (id, fst iv, snd iv). split; [destruct iv; reflexivity|exact Hin].
Qed.

(** ---------------------------------------------------------------- tags *)
Lemma tag_events_app name a b : tag_events name (a ++ b) = tag_events name a + tag_events name b.
Proof.
  induction a as [|x r IH]; [reflexivity|]. cbn [app tag_events].
  destruct x; rewrite IH; try reflexivity. lia.
Qed.

Lemma tag_events_rev name l : tag_events name (rev l) = tag_events name l.
Proof.
  induction l as [|x r IH]; [reflexivity|]. cbn [rev]. rewrite tag_events_app, IH.
  destruct x; cbn [tag_events]; lia.
Qed.

Lemma dedup_In x l : In x (dedup l) <-> In x l.
Proof.
  induction l as [|y r IH]; [reflexivity|]. cbn [dedup].
  destruct (memN y r) eqn:E; cbn [In]; rewrite IH; [|reflexivity].
  apply memN_In in E. split; [auto|]. intros [<-|H]; auto.
Qed.

Lemma dedup_nodup l : NoDup (dedup l).
Proof.
  induction l as [|y r IH]; [constructor|]. cbn [dedup].
  destruct (memN y r) eqn:E; [exact IH|]. constructor; [|exact IH].
  rewrite dedup_In. apply memN_false. exact E.
Qed.

Lemma carriers_In name h task : wf_h h = true ->
  (In task (carriers name h) <->
   exists h1 t h2 s, h = h1 ++ ETag task name t :: h2 /\ In (EStart task s true) h2 /\ ~ In task (end_ids h2)).
Proof.
  induction h as [|x r IH]; intro Hwf.
  - cbn. split; [intros []|]. intros [h1 [t [h2 [s [H _]]]]]. destruct h1; discriminate.
  - specialize (IH (wf_h_tail _ _ Hwf)).
    assert (forall P : Prop, (In task (carriers name r) \/ P) <->
              ((exists h1 t h2 s, x :: r = (x :: h1) ++ ETag task name t :: h2 /\
                  In (EStart task s true) h2 /\ ~ In task (end_ids h2)) \/ P)) as Hrec.
    { intro P. rewrite IH. split; (intros [[h1 [t [h2 [s [H1 H2]]]]]|HP]; [left|right; exact HP]).
      - exists h1, t, h2, s. split; [cbn [app]; rewrite H1; reflexivity|exact H2].
      - cbn [app] in H1. injection H1 as H1. exists h1, t, h2, s. auto. }
    assert ((exists h1 t h2 s, x :: r = h1 ++ ETag task name t :: h2 /\
               In (EStart task s true) h2 /\ ~ In task (end_ids h2)) <->
            ((exists h1 t h2 s, x :: r = (x :: h1) ++ ETag task name t :: h2 /\
                In (EStart task s true) h2 /\ ~ In task (end_ids h2)) \/
             (exists t s, x = ETag task name t /\ In (EStart task s true) r /\ ~ In task (end_ids r)))) as Hsplit.
    { split.
      - intros [[|y h1] [t [h2 [s [H1 H2]]]]].
        + cbn [app] in H1. injection H1 as -> ->. right. exists t, s. auto.
        + cbn [app] in H1. injection H1 as <- ->. left. exists h1, t, h2, s. auto.
      - intros [[h1 [t [h2 [s [H1 H2]]]]]|[t [s [-> H2]]]].
        + exists (x :: h1), t, h2, s. auto.
        + exists [], t, r, s. auto. }
    rewrite Hsplit, <- Hrec. clear Hsplit Hrec.
    pose proof (wf_h_nodup_starts r (wf_h_tail _ _ Hwf)) as Hnd.
    destruct x as [i t p|i t|tk n t|t]; cbn [carriers];
      try (split; [intro H; left; exact H|intros [H|[t0 [s0 [H _]]]]; [exact H|discriminate]]).
    destruct ((n =? name) && tracked tk r) eqn:E.
    + apply andb_true_iff in E. destruct E as [En Etr]. apply N.eqb_eq in En. subst n.
      unfold tracked in Etr. destruct (find_start tk r) as [s0|] eqn:F; [|discriminate].
      cbn [In]. split.
      * intros [<-|H]; [right|left; exact H]. exists t, s0. split; [reflexivity|].
        split; [apply find_start_In; exact F|].
        apply memN_false. destruct (memN tk (end_ids r)); [discriminate|reflexivity].
      * intros [H|[t0 [s1 [H _]]]]; [right; exact H|left]. injection H as -> _. reflexivity.
    + split; [intro H; left; exact H|].
      intros [H|[t0 [s0 [H [Hs He]]]]]; [exact H|exfalso].
      injection H as -> -> ->. rewrite N.eqb_refl in E. cbn [andb] in E.
      unfold tracked in E. rewrite (find_start_unique _ _ _ Hnd Hs) in E.
      apply memN_false in He. rewrite He in E. discriminate.
Qed.
