(** C34 — proofs, part 1: association maps, histories, the total-time,
    average-time and tag-count tracers. *)
From Akita Require Import Lib.Base C34.Model C34.Spec.
From Coq Require Import Permutation.
Local Open Scope N_scope.

(** ---------------------------------------------------------------- w64 / sub64 *)
Lemma two64_pos : 0 < two64.
Proof. unfold two64. lia. Qed.

Lemma w64_add_l a b : w64 (w64 a + b) = w64 (a + b).
Proof. unfold w64. rewrite N.add_mod_idemp_l; [reflexivity|]. pose proof two64_pos. lia. Qed.

Lemma w64_add_r a b : w64 (a + w64 b) = w64 (a + b).
Proof. rewrite N.add_comm, w64_add_l, N.add_comm. reflexivity. Qed.

Lemma w64_idem a : w64 (w64 a) = w64 a.
Proof. unfold w64. rewrite N.mod_mod; [reflexivity|]. pose proof two64_pos. lia. Qed.

Lemma sub64_exact a b : b <= a -> a < two64 -> sub64 a b = a - b.
Proof.
  intros Hba Ha. unfold sub64.
  rewrite (N.mod_small b two64) by lia.
  replace (a + two64 - b) with ((a - b) + 1 * two64) by lia.
  rewrite N.mod_add by (pose proof two64_pos; lia).
  apply N.mod_small. lia.
Qed.

(** ---------------------------------------------------------------- maps *)
Section Maps.
  Context {A : Type}.
  Implicit Types (m : list (N * A)).

  Lemma mget_mdel_same k m : mget k (mdel k m) = None.
  Proof.
    induction m as [|[k' v] r IH]; cbn [mdel mget]; [reflexivity|].
    destruct (k' =? k) eqn:E; [exact IH|]. cbn [mget]. rewrite E. exact IH.
  Qed.

  Lemma mget_mdel_other k k' m : k' <> k -> mget k' (mdel k m) = mget k' m.
  Proof.
    intro Hne. induction m as [|[k0 v] r IH]; cbn [mdel mget]; [reflexivity|].
    destruct (k0 =? k) eqn:E.
    - apply N.eqb_eq in E. subst k0.
      destruct (k =? k') eqn:E2; [apply N.eqb_eq in E2; congruence|exact IH].
    - cbn [mget]. destruct (k0 =? k'); [reflexivity|exact IH].
  Qed.

  Lemma mget_mset_same k v m : mget k (mset k v m) = Some v.
  Proof. unfold mset. cbn [mget]. rewrite N.eqb_refl. reflexivity. Qed.

  Lemma mget_mset_other k k' v m : k' <> k -> mget k' (mset k v m) = mget k' m.
  Proof.
    intro Hne. unfold mset. cbn [mget].
    destruct (k =? k') eqn:E; [apply N.eqb_eq in E; congruence|].
    apply mget_mdel_other. exact Hne.
  Qed.
End Maps.

Lemma memN_In x l : memN x l = true <-> In x l.
Proof.
  unfold memN. rewrite existsb_exists. split.
  - intros [y [Hy E]]. apply N.eqb_eq in E. subst. exact Hy.
  - intro H. exists x. split; [exact H|apply N.eqb_refl].
Qed.

Lemma memN_false x l : memN x l = false <-> ~ In x l.
Proof.
  rewrite <- memN_In. destruct (memN x l); split; intro H; try congruence; try discriminate.
Qed.

Lemma memN_cons x y l : memN x (y :: l) = (x =? y) || memN x l.
Proof. reflexivity. Qed.

(** ---------------------------------------------------------------- histories *)
Definition runh {S} (step : S -> ev -> S) (init : S) (h : list ev) : S :=
  fold_right (fun e s => step s e) init h.

Lemma run_runh {S} (step : S -> ev -> S) init evs : run step init evs = runh step init (rev evs).
Proof. unfold run, runh. symmetry. apply fold_left_rev_right. Qed.

Lemma runh_cons {S} (step : S -> ev -> S) init e h : runh step init (e :: h) = step (runh step init h) e.
Proof. reflexivity. Qed.

Lemma start_ids_cons e h :
  start_ids (e :: h) = match e with EStart id _ _ => id :: start_ids h | _ => start_ids h end.
Proof. destruct e; reflexivity. Qed.

Lemma end_ids_cons e h :
  end_ids (e :: h) = match e with EEnd id _ => id :: end_ids h | _ => end_ids h end.
Proof. destruct e; reflexivity. Qed.

Lemma find_start_In id h s : find_start id h = Some s -> In (EStart id s true) h.
Proof.
  induction h as [|e r IH]; cbn [find_start]; [discriminate|].
  destruct e as [i t [|]| | |]; try (intro H; right; apply IH; exact H).
  destruct (i =? id) eqn:E.
  - intro H. injection H as <-. apply N.eqb_eq in E. subst. left. reflexivity.
  - intro H. right. auto.
Qed.

Lemma In_start_ids id s p h : In (EStart id s p) h -> In id (start_ids h).
Proof.
  unfold start_ids. intro H. apply in_flat_map. exists (EStart id s p). split; [exact H|left; reflexivity].
Qed.

Lemma start_ids_In id h : In id (start_ids h) -> exists s p, In (EStart id s p) h.
Proof.
  unfold start_ids. intro H. apply in_flat_map in H. destruct H as [e [He Hin]].
  destruct e; cbn in Hin; try contradiction. destruct Hin as [<-|[]]. eauto.
Qed.

Lemma In_end_ids id t h : In (EEnd id t) h -> In id (end_ids h).
Proof.
  unfold end_ids. intro H. apply in_flat_map. exists (EEnd id t). split; [exact H|left; reflexivity].
Qed.

Lemma end_ids_In id h : In id (end_ids h) -> exists t, In (EEnd id t) h.
Proof.
  unfold end_ids. intro H. apply in_flat_map in H. destruct H as [e [He Hin]].
  destruct e; cbn in Hin; try contradiction. destruct Hin as [<-|[]]. eauto.
Qed.

Lemma find_start_none id h : ~ In id (start_ids h) -> find_start id h = None.
Proof.
  intro H. destruct (find_start id h) eqn:E; [|reflexivity].
  exfalso. apply H. eapply In_start_ids. eapply find_start_In. exact E.
Qed.

(** unique starts: the filtered start found is THE start *)
Lemma find_start_unique id s h :
  NoDup (start_ids h) -> In (EStart id s true) h -> find_start id h = Some s.
Proof.
  induction h as [|e r IH]; intros Hnd Hin; [destruct Hin|].
  rewrite start_ids_cons in Hnd.
  destruct Hin as [->|Hin].
  - cbn [find_start]. rewrite N.eqb_refl. reflexivity.
  - destruct e as [i t p| | |]; cbn [find_start]; try (apply IH; assumption).
    inversion Hnd as [|? ? Hni Hnd']; subst.
    assert (i <> id) as Hne.
    { intro; subst. apply Hni. eapply In_start_ids. exact Hin. }
    apply N.eqb_neq in Hne.
    destruct p; [rewrite Hne|]; apply IH; assumption.
Qed.

(** ---------------------------------------------------------------- wf_h facts *)
Lemma wf_h_cons e r : wf_h (e :: r) = true ->
  wf_h r = true /\ is_term e = false /\ ev_time e < two64 /\
  (match r with [] => True | p :: _ => ev_time p <= ev_time e end) /\
  (match e with
   | EStart id _ _ => ~ In id (start_ids r) /\ ~ In id (end_ids r)
   | EEnd id _ => ~ In id (end_ids r)
   | _ => True
   end).
Proof.
  cbn [wf_h]. intro H.
  repeat (apply andb_true_iff in H; destruct H as [H ?]).
  repeat split; auto.
  - destruct (is_term e); [discriminate|reflexivity].
  - lia.
  - destruct r; [exact I|lia].
  - destruct e; auto.
    + match goal with X : (_ && _) = true |- _ => apply andb_true_iff in X; destruct X as [X1 X2] end.
      split; apply memN_false; [destruct (memN id (start_ids r))|destruct (memN id (end_ids r))]; auto; discriminate.
    + apply memN_false. destruct (memN id (end_ids r)); auto; discriminate.
Qed.

Lemma wf_h_tail e r : wf_h (e :: r) = true -> wf_h r = true.
Proof. intro H. apply wf_h_cons in H. tauto. Qed.

Lemma wf_h_times h : wf_h h = true ->
  forall e r, h = e :: r -> forall x, In x r -> ev_time x <= ev_time e.
Proof.
  induction h as [|e0 r0 IH]; intros Hwf e r Heq x Hin; [discriminate|].
  injection Heq as -> ->.
  apply wf_h_cons in Hwf. destruct Hwf as [Hwf [_ [_ [Hle _]]]].
  destruct r as [|p r']; [destruct Hin|].
  destruct Hin as [->|Hin]; [exact Hle|].
  specialize (IH Hwf p r' eq_refl x Hin). lia.
Qed.

Lemma wf_h_bound h : wf_h h = true -> forall x, In x h -> ev_time x < two64.
Proof.
  induction h as [|e r IH]; intros Hwf x Hin; [destruct Hin|].
  apply wf_h_cons in Hwf. destruct Hwf as [Hwf [_ [Hb _]]].
  destruct Hin as [->|Hin]; auto.
Qed.

Lemma wf_h_nodup_starts h : wf_h h = true -> NoDup (start_ids h).
Proof.
  induction h as [|e r IH]; intro Hwf; [constructor|].
  apply wf_h_cons in Hwf. destruct Hwf as [Hwf [_ [_ [_ Hid]]]].
  rewrite start_ids_cons. destruct e; auto. constructor; tauto.
Qed.

Lemma wf_h_nodup_ends h : wf_h h = true -> NoDup (end_ids h).
Proof.
  induction h as [|e r IH]; intro Hwf; [constructor|].
  apply wf_h_cons in Hwf. destruct Hwf as [Hwf [_ [_ [_ Hid]]]].
  rewrite end_ids_cons. destruct e; auto. constructor; tauto.
Qed.

(** ---------------------------------------------------------------- total time *)
Definition sumw (l : list (N * N * N)) : N :=
  fold_right (fun x acc => sub64 (snd x) (snd (fst x)) + acc) 0 l.

Definition infl_ok (h : list ev) (m : list (N * N)) : Prop :=
  forall id, mget id m = if memN id (end_ids h) then None else find_start id h.

Lemma infl_ok_step h m e : wf_h (e :: h) = true -> infl_ok h m ->
  infl_ok (e :: h)
    (match e with
     | EStart id t true => mset id t m
     | EEnd id _ => match mget id m with Some _ => mdel id m | None => m end
     | _ => m
     end).
Proof.
  intros Hwf Hok id0. apply wf_h_cons in Hwf. destruct Hwf as [_ [_ [_ [_ Hid]]]].
  rewrite end_ids_cons. destruct e as [id t pass|id t|task name t|t].
  - destruct Hid as [Hns Hne]. cbn [find_start].
    destruct pass.
    + destruct (N.eq_dec id0 id) as [->|Hneq].
      * rewrite mget_mset_same, N.eqb_refl.
        apply memN_false in Hne. rewrite Hne. reflexivity.
      * rewrite mget_mset_other by exact Hneq. rewrite Hok.
        assert (id =? id0 = false) as -> by (apply N.eqb_neq; congruence). reflexivity.
    + rewrite Hok. reflexivity.
  - cbn [find_start]. rewrite memN_cons.
    destruct (N.eq_dec id0 id) as [->|Hneq].
    + rewrite N.eqb_refl. cbn [orb].
      destruct (mget id m) eqn:E; [apply mget_mdel_same|exact E].
    + assert (id0 =? id = false) as -> by (apply N.eqb_neq; exact Hneq). cbn [orb].
      destruct (mget id m) eqn:E; [rewrite mget_mdel_other by exact Hneq|]; apply Hok.
  - cbn [find_start]. apply Hok.
  - cbn [find_start]. apply Hok.
Qed.

Lemma infl_ok_end_lookup h m id t : wf_h (EEnd id t :: h) = true -> infl_ok h m ->
  mget id m = find_start id h.
Proof.
  intros Hwf Hok. apply wf_h_cons in Hwf. destruct Hwf as [_ [_ [_ [_ Hid]]]].
  rewrite Hok. apply memN_false in Hid. rewrite Hid. reflexivity.
Qed.

Definition tt_inv (h : list ev) (st : tt) : Prop :=
  infl_ok h (tt_infl st) /\ tt_total st = w64 (sumw (tasks_h h)).

Lemma tt_inv_holds h : wf_h h = true -> tt_inv h (runh tt_step tt_init h).
Proof.
  induction h as [|e r IH]; intro Hwf.
  - split; [intro id; reflexivity|reflexivity].
  - specialize (IH (wf_h_tail _ _ Hwf)). destruct IH as [Hok Htot].
    rewrite runh_cons. set (st := runh tt_step tt_init r) in *.
    pose proof (infl_ok_step r (tt_infl st) e Hwf Hok) as Hstep.
    unfold tt_inv.
    destruct e as [id t pass|id t|task name t|t]; cbn [tt_step tasks_h].
    + destruct pass; split; cbn [tt_infl tt_total]; auto.
    + pose proof (infl_ok_end_lookup r (tt_infl st) id t Hwf Hok) as Hl.
      rewrite <- Hl.
      destruct (mget id (tt_infl st)) as [s|] eqn:E.
      * split; cbn [tt_infl tt_total]; [exact Hstep|].
        rewrite Htot. cbn [sumw fold_right snd fst]. rewrite w64_add_l. f_equal. apply N.add_comm.
      * split; auto.
    + split; auto.
    + split; auto.
Qed.

(** durations of a well-formed history do not wrap *)
Lemma tasks_h_In h id s e : In (id, s, e) (tasks_h h) ->
  exists r1 r2, h = r1 ++ EEnd id e :: r2 /\ find_start id r2 = Some s.
Proof.
  induction h as [|x r IH]; cbn [tasks_h]; [intros []|].
  intro H.
  assert (In (id, s, e) (tasks_h r) -> exists r1 r2, x :: r = r1 ++ EEnd id e :: r2 /\ find_start id r2 = Some s) as Hrec.
  { intro H'. destruct (IH H') as [r1 [r2 [-> Hf]]]. exists (x :: r1), r2. split; [reflexivity|exact Hf]. }
  destruct x as [i t p|i t|? ? ?|?]; auto.
  destruct (find_start i r) as [s0|] eqn:E; auto.
  destruct H as [H|H]; auto.
  injection H as -> -> ->. exists [], r. split; [reflexivity|exact E].
Qed.

Lemma tasks_h_ordered h : wf_h h = true ->
  forall id s e, In (id, s, e) (tasks_h h) -> s <= e /\ e < two64.
Proof.
  intros Hwf id s e Hin. destruct (tasks_h_In _ _ _ _ Hin) as [r1 [r2 [-> Hf]]].
  assert (wf_h (EEnd id e :: r2) = true) as Hwf2.
  { clear Hin. induction r1 as [|y r1 IH]; [exact Hwf|]. apply IH. eapply wf_h_tail. exact Hwf. }
  apply find_start_In in Hf.
  split.
  - exact (wf_h_times _ Hwf2 _ _ eq_refl _ Hf).
  - apply (wf_h_bound _ Hwf2 (EEnd id e)). left. reflexivity.
Qed.

Lemma sumw_sum_dur l : (forall x, In x l -> snd (fst x) <= snd x /\ snd x < two64) -> sumw l = sum_dur l.
Proof.
  induction l as [|x r IH]; intro H; [reflexivity|].
  cbn [sumw sum_dur fold_right]. fold (sumw r). fold (sum_dur r).
  rewrite IH by (intros y Hy; apply H; right; exact Hy).
  destruct (H x (or_introl eq_refl)) as [H1 H2].
  rewrite sub64_exact by assumption. reflexivity.
Qed.

Lemma tasks_h_sumw h : wf_h h = true -> sumw (tasks_h h) = sum_dur (tasks_h h).
Proof.
  intro Hwf. apply sumw_sum_dur. intros [[id s] e] Hin. cbn [fst snd].
  exact (tasks_h_ordered h Hwf id s e Hin).
Qed.

Theorem total_time_h h : wf_h h = true ->
  tt_total (runh tt_step tt_init h) = w64 (sum_dur (tasks_h h)).
Proof.
  intro Hwf. destruct (tt_inv_holds h Hwf) as [_ Ht]. rewrite Ht, tasks_h_sumw by exact Hwf. reflexivity.
Qed.

(** ---------------------------------------------------------------- average time *)
Lemma at_sim h :
  let a := runh at_step at_init h in
  let t := runh tt_step tt_init h in
  at_total a = tt_total t /\ at_infl a = tt_infl t /\
  at_avg a = (if at_count a =? 0 then 0 else at_total a / at_count a).
Proof.
  induction h as [|e r IH]; [repeat split|].
  cbn zeta in *. rewrite !runh_cons.
  destruct IH as [Ht [Hi Ha]].
  destruct e as [id t pass|id t|task name t|t]; cbn [at_step tt_step].
  - destruct pass; cbn [at_total at_infl at_avg at_count tt_total tt_infl]; rewrite ?Hi; auto.
  - rewrite Hi. destruct (mget id (tt_infl (runh tt_step tt_init r))) eqn:E;
      cbn [at_total at_infl at_avg at_count tt_total tt_infl]; [|auto].
    rewrite Ht. repeat split.
    destruct (at_count (runh at_step at_init r) + 1 =? 0) eqn:Z; [lia|reflexivity].
  - auto.
  - auto.
Qed.

Lemma at_count_h h : wf_h h = true ->
  at_count (runh at_step at_init h) = N.of_nat (length (tasks_h h)).
Proof.
  induction h as [|e r IH]; intro Hwf; [reflexivity|].
  specialize (IH (wf_h_tail _ _ Hwf)).
  rewrite runh_cons.
  destruct (at_sim r) as [_ [Hi _]].
  destruct (tt_inv_holds r (wf_h_tail _ _ Hwf)) as [Hok _].
  destruct e as [id t pass|id t|task name t|t]; cbn [at_step tasks_h].
  - destruct pass; exact IH.
  - rewrite Hi, (infl_ok_end_lookup r _ id t Hwf Hok).
    destruct (find_start id r); cbn [at_count length]; [rewrite IH; lia|exact IH].
  - exact IH.
  - exact IH.
Qed.

Theorem average_time_h h : wf_h h = true -> sum_dur (tasks_h h) < two64 ->
  let n := N.of_nat (length (tasks_h h)) in
  at_count (runh at_step at_init h) = n /\
  at_avg (runh at_step at_init h) = (if n =? 0 then 0 else sum_dur (tasks_h h) / n).
Proof.
  intros Hwf Hfit n. pose proof (at_count_h h Hwf) as Hc.
  destruct (at_sim h) as [Ht [_ Ha]]. cbn zeta in *.
  split; [exact Hc|]. rewrite Ha, Hc, Ht, (total_time_h h Hwf), w64_small by exact Hfit. reflexivity.
Qed.

(** ---------------------------------------------------------------- tag counts *)
Definition tag_names_h (h : list ev) : list N :=
  flat_map (fun e => match e with ETag _ n _ => [n] | _ => [] end) h.

Lemma cnt_mset_same k v m : cnt k (mset k v m) = v.
Proof. unfold cnt. rewrite mget_mset_same. reflexivity. Qed.

Lemma cnt_mset_other k k' v m : k' <> k -> cnt k' (mset k v m) = cnt k' m.
Proof. intro H. unfold cnt. rewrite mget_mset_other by exact H. reflexivity. Qed.

(** tags recorded per name, and the list of names: no hypothesis on the stream *)
Lemma tc_tags_h h :
  let st := runh tc_step tc_init h in
  (forall n, cnt n (tc_tags st) = w64 (tag_events n h)) /\
  (forall n, mget n (tc_tags st) = None <-> ~ In n (tag_names_h h)) /\
  tc_names st = rev (dedup (tag_names_h h)).
Proof.
  induction h as [|e r IH]; [cbn; repeat split; auto; intros ? []|].
  cbn zeta in *. rewrite runh_cons. destruct IH as [Hc [Hn Hl]].
  set (st := runh tc_step tc_init r) in *.
  destruct e as [id t pass|id t|task name t|t]; cbn [tc_step tag_events tag_names_h flat_map app].
  - destruct pass; cbn [tc_tags tc_names]; auto.
  - cbn [tc_tags tc_names]. auto.
  - fold (tag_names_h r).
    assert (forall tasks infl names,
      (forall n, cnt n (tc_tags (mk_tc names (mset name (w64 (cnt name (tc_tags st) + 1)) (tc_tags st)) tasks infl))
                 = w64 ((if name =? n then 1 else 0) + tag_events n r)) /\
      (forall n, mget n (tc_tags (mk_tc names (mset name (w64 (cnt name (tc_tags st) + 1)) (tc_tags st)) tasks infl)) = None
                 <-> ~ In n (name :: tag_names_h r))) as Hgen.
    { intros tasks infl names. cbn [tc_tags]. split; intro n.
      - destruct (N.eq_dec n name) as [->|Hne].
        + rewrite cnt_mset_same, N.eqb_refl, Hc, w64_add_l. f_equal. lia.
        + rewrite cnt_mset_other by exact Hne. rewrite Hc.
          assert (name =? n = false) as -> by (apply N.eqb_neq; congruence). reflexivity.
      - destruct (N.eq_dec n name) as [->|Hne].
        + rewrite mget_mset_same. split; [discriminate|]. intro H. exfalso. apply H. left. reflexivity.
        + rewrite mget_mset_other by exact Hne. rewrite Hn. cbn [In]. intuition congruence. }
    assert (match mget name (tc_tags st) with None => tc_names st ++ [name] | Some _ => tc_names st end
            = rev (dedup (name :: tag_names_h r))) as Hnames.
    { cbn [dedup]. destruct (mget name (tc_tags st)) eqn:E.
      - assert (memN name (tag_names_h r) = true) as ->.
        { apply memN_In. destruct (in_dec N.eq_dec name (tag_names_h r)) as [H|H]; [exact H|].
          apply Hn in H. congruence. }
        exact Hl.
      - assert (memN name (tag_names_h r) = false) as ->.
        { apply memN_false. apply Hn. exact E. }
        cbn [rev]. rewrite Hl. reflexivity. }
    destruct (mget task (tc_infl st)) as [seen|]; [destruct (memN name seen)|];
      (split; [apply Hgen|split; [apply Hgen|cbn [tc_names]; exact Hnames]]).
  - auto.
Qed.

Lemma tracked_cons_other e h task :
  (match e with EStart id _ _ => id <> task | EEnd id _ => id <> task | _ => True end) ->
  tracked task (e :: h) = tracked task h.
Proof.
  intro H. unfold tracked. rewrite end_ids_cons.
  destruct e as [id t pass|id t|? ? ?|?]; cbn [find_start]; try reflexivity.
  - destruct pass; [|reflexivity].
    assert (id =? task = false) as -> by (apply N.eqb_neq; exact H). reflexivity.
  - rewrite memN_cons. assert (task =? id = false) as -> by (apply N.eqb_neq; congruence). reflexivity.
Qed.

Lemma carriers_started name h task : In task (carriers name h) -> In task (start_ids h).
Proof.
  induction h as [|e r IH]; cbn [carriers]; [intros []|].
  rewrite start_ids_cons.
  destruct e as [id t pass|id t|tk n t|t]; try (intro H; auto; right; auto).
  destruct ((n =? name) && tracked tk r) eqn:E; [|auto].
  intros [<-|H]; [|auto].
  apply andb_true_iff in E. destruct E as [_ E]. unfold tracked in E.
  destruct (find_start tk r) eqn:F; [|discriminate].
  eapply In_start_ids. eapply find_start_In. exact F.
Qed.

Definition tc_inv (h : list ev) (st : tc) : Prop :=
  (forall task, match mget task (tc_infl st) with
                | Some seen => tracked task h = true /\ forall n, memN n seen = memN task (carriers n h)
                | None => tracked task h = false
                end) /\
  (forall n, cnt n (tc_tasks st) = w64 (N.of_nat (length (dedup (carriers n h))))).

Lemma tc_inv_holds h : wf_h h = true -> tc_inv h (runh tc_step tc_init h).
Proof.
  induction h as [|e r IH]; intro Hwf.
  - split; [intro task; reflexivity|intro n; reflexivity].
  - specialize (IH (wf_h_tail _ _ Hwf)). destruct IH as [Hinfl Hcnt].
    rewrite runh_cons. set (st := runh tc_step tc_init r) in *.
    apply wf_h_cons in Hwf. destruct Hwf as [_ [_ [_ [_ Hid]]]].
    unfold tc_inv.
    destruct e as [id t pass|id t|task name t|t]; cbn [tc_step carriers].
    + destruct Hid as [Hns Hne].
      assert (forall tk, tk <> id -> tracked tk (EStart id t pass :: r) = tracked tk r) as Hoth.
      { intros tk Hd. apply tracked_cons_other. congruence. }
      destruct pass.
      * split; cbn [tc_infl tc_tasks]; [|exact Hcnt].
        intro tk. destruct (N.eq_dec tk id) as [->|Hd].
        -- rewrite mget_mset_same. split.
           ++ unfold tracked. cbn [find_start end_ids flat_map app]. rewrite N.eqb_refl.
              fold (end_ids r). apply memN_false in Hne. rewrite Hne. reflexivity.
           ++ intro n. cbn [memN existsb]. symmetry. apply memN_false.
              intro Hc. apply Hns. eapply carriers_started. exact Hc.
        -- rewrite mget_mset_other by exact Hd. rewrite Hoth by exact Hd. apply Hinfl.
      * split; [|exact Hcnt]. intro tk. destruct (N.eq_dec tk id) as [->|Hd].
        -- specialize (Hinfl id).
           assert (tracked id r = false) as Htr.
           { unfold tracked. rewrite find_start_none by exact Hns. reflexivity. }
           assert (tracked id (EStart id t false :: r) = false) as ->.
           { unfold tracked. cbn [find_start]. rewrite find_start_none by exact Hns. reflexivity. }
           destruct (mget id (tc_infl st)); [destruct Hinfl; congruence|reflexivity].
        -- rewrite Hoth by exact Hd. apply Hinfl.
    + split; cbn [tc_infl tc_tasks]; [|exact Hcnt].
      intro tk. destruct (N.eq_dec tk id) as [->|Hd].
      * rewrite mget_mdel_same. unfold tracked. rewrite end_ids_cons, memN_cons, N.eqb_refl.
        cbn [find_start]. destruct (find_start id r); reflexivity.
      * rewrite mget_mdel_other by exact Hd.
        rewrite tracked_cons_other by congruence. apply Hinfl.
    + assert (forall tk, tracked tk (ETag task name t :: r) = tracked tk r) as Htr.
      { intro tk. apply tracked_cons_other. exact I. }
      pose proof (Hinfl task) as Htask.
      (* membership of another task is not affected by this tag *)
      assert (forall tk n, tk <> task ->
                memN tk (if (name =? n) && tracked task r then task :: carriers n r else carriers n r)
                = memN tk (carriers n r)) as Hother.
      { intros tk n Hd. destruct ((name =? n) && tracked task r); [|reflexivity].
        rewrite memN_cons. assert (tk =? task = false) as -> by (apply N.eqb_neq; exact Hd). reflexivity. }
      destruct (mget task (tc_infl st)) as [seen|] eqn:E.
      * destruct Htask as [Htrk Hseen].
        destruct (memN name seen) eqn:Hm.
        -- (* already counted for this task *)
           split; cbn [tc_infl tc_tasks].
           ++ intro tk. rewrite Htr. specialize (Hinfl tk).
              destruct (N.eq_dec tk task) as [->|Hd].
              ** rewrite E. split; [exact Htrk|]. intro n. rewrite Htrk.
                 destruct (name =? n) eqn:En; cbn [andb].
                 --- apply N.eqb_eq in En. subst n. rewrite memN_cons, N.eqb_refl. exact Hm.
                 --- apply Hseen.
              ** destruct (mget tk (tc_infl st)); [|exact Hinfl].
                 destruct Hinfl as [H1 H2]. split; [exact H1|]. intro n. rewrite H2.
                 symmetry. apply Hother. exact Hd.
           ++ intro n. rewrite Hcnt, Htrk. destruct (name =? n) eqn:En; cbn [andb]; [|reflexivity].
              apply N.eqb_eq in En. subst n. cbn [dedup]. rewrite <- Hseen, Hm. reflexivity.
        -- (* first tag of this name for this task *)
           split; cbn [tc_infl tc_tasks].
           ++ intro tk. rewrite Htr. specialize (Hinfl tk).
              destruct (N.eq_dec tk task) as [->|Hd].
              ** rewrite mget_mset_same. split; [exact Htrk|]. intro n. rewrite memN_cons, Htrk.
                 rewrite (N.eqb_sym n name).
                 destruct (name =? n) eqn:En; cbn [andb orb].
                 --- rewrite memN_cons, N.eqb_refl. reflexivity.
                 --- apply Hseen.
              ** rewrite mget_mset_other by exact Hd.
                 destruct (mget tk (tc_infl st)); [|exact Hinfl].
                 destruct Hinfl as [H1 H2]. split; [exact H1|]. intro n. rewrite H2.
                 symmetry. apply Hother. exact Hd.
           ++ intro n. rewrite Htrk. destruct (N.eq_dec n name) as [->|Hd].
              ** rewrite cnt_mset_same, N.eqb_refl. cbn [andb dedup].
                 rewrite <- Hseen, Hm. cbn [length]. rewrite Hcnt, w64_add_l. f_equal. lia.
              ** rewrite cnt_mset_other by exact Hd. rewrite Hcnt.
                 assert (name =? n = false) as -> by (apply N.eqb_neq; congruence). reflexivity.
      * rewrite Htask. split; cbn [tc_infl tc_tasks].
        -- intro tk. rewrite Htr. specialize (Hinfl tk).
           destruct (mget tk (tc_infl st)); [|exact Hinfl].
           destruct Hinfl as [H1 H2]. split; [exact H1|]. intro n. rewrite H2.
           rewrite andb_false_r. reflexivity.
        -- intro n. rewrite andb_false_r. apply Hcnt.
    + split; [|exact Hcnt]. intro tk. rewrite tracked_cons_other by exact I. apply Hinfl.
Qed.
