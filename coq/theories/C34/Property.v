(** C34 — aggregate tracers compute exact statistics.  Property theorems only. *)
From Akita Require Import Lib.Base C34.Model C34.Spec.
Local Open Scope N_scope.

Theorem c34_average_old_refuted :
  let evs := [EStart 1 0 true; EEnd 1 3; EStart 2 3 true; EEnd 2 3; EStart 3 4 true; EEnd 3 4] in
  average_time_old evs = 0 /\ average_time evs = 1 /\ total_time evs = 3 /\ task_count evs = 3.
Proof. vm_compute. repeat split. Qed.
Print Assumptions c34_average_old_refuted.
