(** C34 — aggregate tracers compute exact statistics.  Property theorems only.

    A stream [evs] is the list of events a tracer receives, in program order.
    [WF evs] (Spec.v): times never decrease, every task ID is started at most once
    and ended at most once and not before it started, no TerminateAllTasks inside
    the stream, times < 2^64.  The filtered tasks of a stream are given
    declaratively: [is_task evs id s e] = the stream contains the start of [id] at
    [s] passing the filter and its end at [e].  Every theorem quantifies over ANY
    duplicate-free enumeration [L] of that set. *)
From Akita Require Import Lib.Base C34.Model C34.Spec C34.Proofs1 C34.Proofs2 C34.Proofs3 C34.Proofs4 C34.Proofs5.
Local Open Scope N_scope.

(** TotalTimeTracer.TotalTime() = sum of the durations of the filtered tasks. *)
Theorem c34_total_sum : forall evs L, WF evs -> NoDup L ->
  (forall id s e, In (id, s, e) L <-> is_task evs id s e) -> sum_dur L < two64 ->
  total_time evs = sum_dur L.
Proof. exact total_sum. Qed.
Print Assumptions c34_total_sum.

(** AverageTimeTracer: TotalCount() = number of filtered tasks, AverageTime() =
    floor(sum / count) (0 before the first task completes). *)
Theorem c34_average_floor : forall evs L, WF evs -> NoDup L ->
  (forall id s e, In (id, s, e) L <-> is_task evs id s e) -> sum_dur L < two64 ->
  task_count evs = N.of_nat (length L) /\
  average_time evs = (if N.of_nat (length L) =? 0 then 0 else sum_dur L / N.of_nat (length L)).
Proof. exact average_floor. Qed.
Print Assumptions c34_average_floor.

(** BusyTimeTracer.BusyTime(), once every tracked task has ended, = number of unit
    instants covered by the union of the tasks' intervals [start, end) — for every
    overlap structure (overlapping, nested, chained, touching, disjoint, empty). *)
Theorem c34_busy_union : forall evs L, WF evs -> NoDup L ->
  (forall id s e, In (id, s, e) L <-> is_task evs id s e) ->
  (forall id s, ~ is_running evs id s) ->
  busy_time false evs = union_len (ivs_of L).
Proof. exact busy_union. Qed.
Print Assumptions c34_busy_union.

(** ... and after TerminateAllTasks(now) the still-running tasks count up to [now]. *)
Theorem c34_busy_terminate : forall evs now L R, WF evs ->
  (forall e, In e evs -> ev_time e <= now) -> now < two64 -> NoDup L ->
  (forall id s e, In (id, s, e) L <-> is_task evs id s e) ->
  (forall id s, In (id, s) R <-> is_running evs id s) ->
  busy_time false (evs ++ [ETerm now]) = union_len (ivs_of L ++ map (fun x => (snd x, now)) R).
Proof. exact busy_terminate. Qed.
Print Assumptions c34_busy_terminate.

(** A tracer built with a nil filter tracks every task: it behaves as the filtered
    tracer on the stream in which every start passes. *)
Theorem c34_busy_nil_filter : forall evs, busy_time true evs = busy_time false (map force_pass evs).
Proof. exact busy_time_nil. Qed.
Print Assumptions c34_busy_nil_filter.

(** The sweep evaluator used by the case checker computes the union length. *)
Theorem c34_union_len_fast : forall l, (forall iv, In iv l -> fst iv <= snd iv) ->
  union_len_fast l = union_len l.
Proof. exact union_len_fast_correct. Qed.
Print Assumptions c34_union_len_fast.

(** TagCountTracer: per name, the number of tags recorded (any stream), and the
    number of distinct tracked tasks that carried it (a task carries a tag when the
    tag arrives after its filtered start and before its end). *)
Theorem c34_tag_counts : forall evs name,
  tag_count evs name = w64 (tag_events name evs) /\
  (WF evs -> forall D, NoDup D -> (forall task, In task D <-> carried evs task name) ->
   tag_task_count evs name = w64 (N.of_nat (length D))).
Proof. exact tag_counts. Qed.
Print Assumptions c34_tag_counts.

Theorem c34_tag_names : forall evs,
  NoDup (tag_names evs) /\ forall n, In n (tag_names evs) <-> exists task t, In (ETag task n t) evs.
Proof. exact tag_names_spec. Qed.
Print Assumptions c34_tag_names.

(** The predicate evaluated on the implementation's observed outputs
    ([Exec.holds_on]) is implied by agreement with the model ([Exec.check_case]),
    for every case whose stream is shorter than 2^64 events (the uint64 counters of
    the tag tracer do not wrap). *)
From Akita Require Import C34.Exec C34.Proofs6.
Theorem c34_model_agreement_implies_property : forall c, N.of_nat (length (c_evs c)) < two64 ->
  check_case c = true -> holds_on c = true.
Proof. exact check_implies_holds. Qed.
Print Assumptions c34_model_agreement_implies_property.

(** Regression lemmas for the two defects fixed in /repo. *)
Theorem c34_average_old_refuted :
  let evs := [EStart 1 0 true; EEnd 1 3; EStart 2 3 true; EEnd 2 3; EStart 3 4 true; EEnd 3 4] in
  average_time_old evs = 0 /\ average_time evs = 1 /\ total_time evs = 3 /\ task_count evs = 3.
Proof. vm_compute. repeat split. Qed.
Print Assumptions c34_average_old_refuted.

Theorem c34_busy_chain_old_refuted :
  let ivs := [(0, 10); (5, 20); (15, 30)] in
  let evs := [EStart 1 0 true; EStart 2 5 true; EEnd 1 10; EStart 3 15 true; EEnd 2 20; EEnd 3 30] in
  busy_old 3 ivs = 35 /\ union_len ivs = 30 /\ busy_time false evs = 30.
Proof. vm_compute. repeat split. Qed.
Print Assumptions c34_busy_chain_old_refuted.

(** Non-vacuity: a well-formed stream with nested, chained and disjoint tasks, a
    filtered-out task and tags; the hypotheses of the theorems are met and the
    statistics are the expected ones. *)
Example c34_nonvacuous :
  let evs := [EStart 1 0 true; ETag 1 7 1; EStart 2 2 true; ETag 2 7 3; ETag 2 7 3; EEnd 2 4;
              EStart 3 5 false; EStart 4 8 true; EEnd 1 10; EEnd 3 11; EEnd 4 15;
              EStart 5 20 true; EEnd 5 22] in
  wf_h (rev evs) = true /\
  total_time evs = 21 /\ average_time evs = 5 /\ task_count evs = 4 /\ busy_time false evs = 17 /\
  union_len [(0, 10); (2, 4); (8, 15); (20, 22)] = 17 /\
  tag_count evs 7 = 3 /\ tag_task_count evs 7 = 2 /\ tag_names evs = [7].
Proof. vm_compute. repeat split. Qed.
