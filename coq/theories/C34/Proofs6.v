(** C34 — the link between the two case evaluators. *)
From Akita Require Import Lib.Base C34.Model C34.Spec C34.Proofs1 C34.Proofs2 C34.Proofs3 C34.Proofs4 C34.Exec.
Local Open Scope N_scope.

(** a trailing TerminateAllTasks only concerns the busy tracer *)
Lemma run_snoc {S} (step : S -> ev -> S) init evs e : run step init (evs ++ [e]) = step (run step init evs) e.
Proof. unfold run. rewrite fold_left_app. reflexivity. Qed.

Lemma split_term_spec evs :
  (exists t, evs = fst (split_term evs) ++ [ETerm t] /\ snd (split_term evs) = Some t) \/
  (evs = fst (split_term evs) /\ snd (split_term evs) = None).
Proof.
  unfold split_term. destruct (rev evs) as [|x r] eqn:E; [right; split; reflexivity|].
  destruct x; try (right; split; reflexivity). left. exists t. cbn [fst snd]. split; [|reflexivity].
  rewrite <- (rev_involutive evs), E. reflexivity.
Qed.

(** force_pass keeps well-formedness *)
Lemma start_ids_force h : start_ids (map Proofs4.force_pass h) = start_ids h.
Proof. induction h as [|e r IH]; [reflexivity|]. destruct e; cbn [map Proofs4.force_pass]; rewrite !start_ids_cons, IH; reflexivity. Qed.
Lemma end_ids_force h : end_ids (map Proofs4.force_pass h) = end_ids h.
Proof. induction h as [|e r IH]; [reflexivity|]. destruct e; cbn [map Proofs4.force_pass]; rewrite !end_ids_cons, IH; reflexivity. Qed.

Lemma wf_h_force h : wf_h (map Proofs4.force_pass h) = wf_h h.
Proof.
  induction h as [|e r IH]; [reflexivity|]. cbn [map wf_h]. rewrite IH, start_ids_force, end_ids_force.
  destruct r as [|p r']; destruct e; try destruct p; reflexivity.
Qed.

Lemma now_h_force h : now_h (map Proofs4.force_pass h) = now_h h.
Proof. destruct h as [|e r]; [reflexivity|]. destruct e; reflexivity. Qed.

Lemma runh_nil_filter h : runh (bt_step true) bt_init h = runh (bt_step false) bt_init (map Proofs4.force_pass h).
Proof. induction h as [|e r IH]; [reflexivity|]. cbn [map]. rewrite !runh_cons, IH. apply bt_step_nil. Qed.

Lemma force_pass_same e : Exec.force_pass e = Proofs4.force_pass e.
Proof. reflexivity. Qed.

Lemma tag_events_le name h : tag_events name h <= N.of_nat (length h).
Proof.
  induction h as [|e r IH]; [cbn; lia|]. destruct e; cbn [tag_events length];
    repeat match goal with |- context [if ?b then _ else _] => destruct b end; lia.
Qed.

Lemma dedup_length_le l : (length (dedup l) <= length l)%nat.
Proof. induction l as [|x r IH]; [reflexivity|]. cbn [dedup]. destruct (memN x r); cbn [length]; lia. Qed.

Lemma carriers_length_le name h : (length (carriers name h) <= length h)%nat.
Proof.
  induction h as [|e r IH]; [reflexivity|]. destruct e; cbn [carriers length]; try lia.
  match goal with |- context [if ?b then _ else _] => destruct b end; cbn [length]; lia.
Qed.

Lemma run_ivs_valid now h : wf_h h = true -> now_h h <= now ->
  forall iv, In iv (run_ivs now h) -> fst iv <= snd iv.
Proof.
  intros Hwf Hnow iv Hin. unfold run_ivs in Hin. apply in_map_iff in Hin.
  destruct Hin as [[[id s] z] [<- Hin]]. cbn [fst snd]. apply running_h_In in Hin. destruct Hin as [Hin _].
  destruct h as [|x r]; [destruct Hin|]. cbn [now_h] in Hnow.
  destruct Hin as [->|Hin]; [cbn in Hnow; lia|].
  pose proof (wf_h_times _ Hwf x r eq_refl _ Hin) as Hle. cbn [ev_time] in Hle. lia.
Qed.

(** the busy tracer's value in terms of the specification, for both filter modes *)
Lemma busy_spec (nilf : bool) (body : list ev) (term : option N) : wf_h (rev body) = true ->
  (match term with Some t => now_h (rev body) <= t /\ t < two64 | None => True end) ->
  let h := rev body in
  let hb := if nilf then map Proofs4.force_pass h else h in
  let evs := match term with Some t => body ++ [ETerm t] | None => body end in
  match term with
  | Some t => busy_time nilf evs =
              union_len_fast (ivs_of (tasks_h hb) ++ map (fun x => (snd (fst x), t)) (running_h hb (end_ids hb)))
  | None => running_h hb (end_ids hb) = [] -> busy_time nilf evs = union_len_fast (ivs_of (tasks_h hb))
  end.
Proof.
  intros Hwf Hterm. cbn zeta.
  set (h := rev body). set (hb := if nilf then map Proofs4.force_pass h else h).
  assert (wf_h hb = true) as Hwfb by (unfold hb; destruct nilf; [rewrite wf_h_force|]; exact Hwf).
  assert (now_h hb = now_h h) as Hnowb by (unfold hb; destruct nilf; [apply now_h_force|reflexivity]).
  destruct term as [t|].
  - destruct Hterm as [Hle Hb].
    assert (busy_time nilf (body ++ [ETerm t]) = bt_busy (runh (bt_step false) bt_init (ETerm t :: hb))) as ->.
    { unfold busy_time. rewrite run_runh, rev_unit. fold h. unfold hb. destruct nilf; [|reflexivity].
      rewrite runh_nil_filter. reflexivity. }
    rewrite busy_terminate_h by (auto; rewrite Hnowb; exact Hle).
    symmetry. apply union_len_fast_correct. intros iv Hin. apply in_app_or in Hin. destruct Hin as [Hin|Hin].
    + exact (proj1 (civs_ends hb Hwfb iv Hin)).
    + apply (run_ivs_valid t hb Hwfb); [rewrite Hnowb; exact Hle|exact Hin].
  - intros Hrun.
    assert (busy_time nilf body = bt_busy (runh (bt_step false) bt_init hb)) as ->.
    { unfold busy_time. rewrite run_runh. fold h. unfold hb. destruct nilf; [apply f_equal, runh_nil_filter|reflexivity]. }
    rewrite busy_quiescent_h; [|exact Hwfb|].
    + symmetry. apply union_len_fast_correct. intros iv Hin. exact (proj1 (civs_ends hb Hwfb iv Hin)).
    + intros id s Hfs. destruct (in_dec N.eq_dec id (end_ids hb)) as [Hi|Hi]; [exact Hi|exfalso].
      assert (In (id, s, 0) (running_h hb (end_ids hb))) as Hc.
      { apply running_h_In. repeat split; [apply find_start_In; exact Hfs|apply memN_false; exact Hi]. }
      rewrite Hrun in Hc. destruct Hc.
Qed.

Lemma tt_term evs t : run tt_step tt_init (evs ++ [ETerm t]) = run tt_step tt_init evs.
Proof. rewrite run_snoc. reflexivity. Qed.
Lemma at_term evs t : run at_step at_init (evs ++ [ETerm t]) = run at_step at_init evs.
Proof. rewrite run_snoc. reflexivity. Qed.
Lemma tc_term evs t : run tc_step tc_init (evs ++ [ETerm t]) = run tc_step tc_init evs.
Proof. rewrite run_snoc. reflexivity. Qed.

Lemma listN_eqb_refl a : listN_eqb a a = true.
Proof. apply listN_eqb_eq. reflexivity. Qed.

Theorem check_implies_holds c : N.of_nat (length (c_evs c)) < two64 ->
  check_case c = true -> holds_on c = true.
Proof.
  intros Hlen Hc. unfold check_case in Hc.
  repeat (apply andb_true_iff in Hc; destruct Hc as [Hc ?]).
  apply N.eqb_eq in Hc, H3, H2, H1. apply listN_eqb_eq in H0. rename H into Hprobes.
  unfold holds_on. destruct (split_term (c_evs c)) as [body term] eqn:Es.
  pose proof (split_term_spec (c_evs c)) as Hsp. rewrite Es in Hsp. cbn [fst snd] in Hsp.
  destruct (wf_h (rev body) && match term with Some t => (last_time (rev body) <=? t) && (t <? two64) | None => true end) eqn:Hg;
    [|reflexivity].
  apply andb_true_iff in Hg. destruct Hg as [Hwf Hcond].
  set (h := rev body) in *.
  (* the tracers other than the busy tracer do not see the terminate call *)
  assert (run tt_step tt_init (c_evs c) = runh tt_step tt_init h /\
          run at_step at_init (c_evs c) = runh at_step at_init h /\
          run tc_step tc_init (c_evs c) = runh tc_step tc_init h) as [Ett [Eat Etc]].
  { destruct Hsp as [[t [-> _]]|[-> _]]; rewrite ?tt_term, ?at_term, ?tc_term, !run_runh; auto. }
  assert (N.of_nat (length h) < two64) as Hlenh.
  { unfold h. rewrite rev_length. destruct Hsp as [[t [E _]]|[E _]]; rewrite E in Hlen; [rewrite app_length in Hlen; cbn in Hlen|]; lia. }
  (* total / count / average *)
  assert ((if sum_dur (tasks_h h) <? two64
           then (o_total c =? sum_dur (tasks_h h)) && (o_count c =? N.of_nat (length (tasks_h h))) &&
                (o_avg c =? (if N.of_nat (length (tasks_h h)) =? 0 then 0
                             else sum_dur (tasks_h h) / N.of_nat (length (tasks_h h))))
           else true) = true) as ->.
  { destruct (sum_dur (tasks_h h) <? two64) eqn:Ef; [|reflexivity]. apply N.ltb_lt in Ef.
    destruct (average_time_h h Hwf Ef) as [Hcnt Havg].
    rewrite <- Hc, <- H2, <- H3. unfold total_time. rewrite Ett, Eat, (total_time_h h Hwf), (w64_small _ Ef), Hcnt, Havg.
    rewrite !N.eqb_refl. reflexivity. }
  cbn [andb].
  (* busy *)
  assert ((match term with
           | Some t => o_busy c =? union_len_fast
                         (ivs_of (tasks_h (if c_nilf c then map force_pass h else h)) ++
                          map (fun x => (snd (fst x), t))
                            (running_h (if c_nilf c then map force_pass h else h)
                               (end_ids (if c_nilf c then map force_pass h else h))))
           | None => match running_h (if c_nilf c then map force_pass h else h)
                             (end_ids (if c_nilf c then map force_pass h else h)) with
                     | [] => o_busy c =? union_len_fast (ivs_of (tasks_h (if c_nilf c then map force_pass h else h)))
                     | _ => true
                     end
           end) = true) as ->.
  { destruct term as [t|].
    - apply andb_true_iff in Hcond. destruct Hcond as [Hl Hb]. apply N.leb_le in Hl. apply N.ltb_lt in Hb.
      destruct Hsp as [[t' [E Et]]|[_ Et]]; [|discriminate]. injection Et as <-.
      pose proof (busy_spec (c_nilf c) body (Some t) Hwf (conj Hl Hb)) as Hs. cbn zeta in Hs.
      rewrite <- H1, E, Hs. apply N.eqb_refl.
    - destruct Hsp as [[t' [_ Et]]|[E _]]; [discriminate|].
      pose proof (busy_spec (c_nilf c) body None Hwf I) as Hs. cbn zeta in Hs. fold h in Hs.
      change Proofs4.force_pass with force_pass in Hs.
      destruct (running_h (if c_nilf c then map force_pass h else h)
                  (end_ids (if c_nilf c then map force_pass h else h))); [|reflexivity].
      rewrite <- H1, E, (Hs eq_refl). apply N.eqb_refl. }
  cbn [andb].
  (* tag names and counts *)
  destruct (tc_tags_h h) as [Hcnt [_ Hnames]]. cbn zeta in Hcnt, Hnames.
  rewrite <- H0, Etc, Hnames. change (Proofs1.tag_names_h h) with (tag_names_h h).
  rewrite listN_eqb_refl. cbn [andb].
  destruct (tc_inv_holds h Hwf) as [_ Htasks].
  apply forallb_forall. intros [[name a] b] Hin.
  rewrite forallb_forall in Hprobes. specialize (Hprobes _ Hin). cbn beta iota in Hprobes.
  apply andb_true_iff in Hprobes. destruct Hprobes as [Pa Pb]. apply N.eqb_eq in Pa, Pb.
  rewrite Etc in Pa, Pb. rewrite Hcnt in Pa. rewrite Htasks in Pb.
  rewrite w64_small in Pa by (pose proof (tag_events_le name h); lia).
  rewrite w64_small in Pb by (pose proof (dedup_length_le (carriers name h)); pose proof (carriers_length_le name h); lia).
  rewrite <- Pa, <- Pb, !N.eqb_refl. reflexivity.
Qed.
