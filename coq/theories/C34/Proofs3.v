(** C34 — proofs, part 3: the busy-time tracer computes the length of the union. *)
From Akita Require Import Lib.Base C34.Model C34.Spec C34.Proofs1 C34.Proofs2.
Local Open Scope N_scope.

(** ---------------------------------------------------------------- list surgery *)
Lemma NoDup_app_snoc {A} (l : list A) x : NoDup l -> ~ In x l -> NoDup (l ++ [x]).
Proof.
  induction l as [|y r IH]; intros Hnd Hni; cbn [app]; [constructor; [intros []|constructor]|].
  inversion Hnd as [|? ? Hy Hr]; subst. constructor.
  - intro Hin. apply in_app_or in Hin. destruct Hin as [Hin|[<-|[]]]; [contradiction|].
    apply Hni. left. reflexivity.
  - apply IH; [exact Hr|]. intro Hin. apply Hni. right. exact Hin.
Qed.

Lemma NoDup_app_r {A} (l1 l2 : list A) : NoDup (l1 ++ l2) -> NoDup l2.
Proof.
  induction l1 as [|x r IH]; cbn [app]; [auto|]. intro H. inversion H; subst. auto.
Qed.

Lemma ser_inj l c1 c2 : NoDup (map c_ser l) -> In c1 l -> In c2 l -> c_ser c1 = c_ser c2 -> c1 = c2.
Proof.
  induction l as [|x r IH]; intros Hn H1 H2 He; [destruct H1|].
  cbn [map] in Hn. inversion Hn as [|? ? Hni Hn']; subst.
  destruct H1 as [->|H1]; destruct H2 as [->|H2]; auto.
  - exfalso. apply Hni. rewrite He. apply in_map. exact H2.
  - exfalso. apply Hni. rewrite <- He. apply in_map. exact H1.
Qed.

Lemma mark_sers k t l : map c_ser (mark k t l) = map c_ser l.
Proof.
  induction l as [|c r IH]; [reflexivity|]. cbn [mark].
  destruct (c_ser c =? k) eqn:E; cbn [map c_ser]; [reflexivity|]. rewrite IH. reflexivity.
Qed.

Lemma mark_starts k t l : map c_start (mark k t l) = map c_start l.
Proof.
  induction l as [|c r IH]; [reflexivity|]. cbn [mark].
  destruct (c_ser c =? k) eqn:E; cbn [map c_start]; [reflexivity|]. rewrite IH. reflexivity.
Qed.

Lemma sorted_from_starts lo l l' : map c_start l = map c_start l' -> sorted_from lo l -> sorted_from lo l'.
Proof.
  revert lo l'. induction l as [|c r IH]; intros lo [|c' r'] Hm Hs; try discriminate; [exact I|].
  cbn [map] in Hm. injection Hm as H1 H2. destruct Hs as [Ha Hb].
  cbn [sorted_from]. rewrite <- H1. split; [exact Ha|]. apply (IH _ _ H2 Hb).
Qed.

Lemma mark_In k t l c : NoDup (map c_ser l) ->
  (In c (mark k t l) <->
   (In c l /\ c_ser c <> k) \/ (exists c0, In c0 l /\ c_ser c0 = k /\ c = mk_cell k (c_start c0) t true)).
Proof.
  induction l as [|x r IH]; intro Hnd.
  - cbn. split; [intros []|intros [[[] _]|[c0 [[] _]]]].
  - cbn [map] in Hnd. inversion Hnd as [|? ? Hni Hnd']; subst.
    cbn [mark]. destruct (c_ser x =? k) eqn:E.
    + apply N.eqb_eq in E. cbn [In]. split.
      * intros [<-|Hin].
        -- right. exists x. rewrite E. auto.
        -- left. split; [auto|]. intro Hk. apply Hni. rewrite E, <- Hk. apply in_map. exact Hin.
      * intros [[[->|Hin] Hk]|[c0 [[->|Hin] [Hk ->]]]].
        -- congruence.
        -- right. exact Hin.
        -- left. rewrite E. reflexivity.
        -- exfalso. apply Hni. rewrite E, <- Hk. apply in_map. exact Hin.
    + apply N.eqb_neq in E. cbn [In]. rewrite (IH Hnd'). split.
      * intros [<-|[[Hin Hk]|[c0 [Hin [Hk ->]]]]]; [left; auto|left; auto|right; exists c0; auto].
      * intros [[[->|Hin] Hk]|[c0 [[->|Hin] [Hk ->]]]]; [left; reflexivity|right; left; auto|congruence|].
        right. right. exists c0. auto.
Qed.

Lemma first_incomplete_none l : first_incomplete l = None -> forall c, In c l -> c_done c = true.
Proof.
  induction l as [|x r IH]; cbn [first_incomplete]; [intros _ c []|].
  destruct (c_done x) eqn:E; [|discriminate]. intros H c [<-|Hin]; auto.
Qed.

(** the list splits into its completed prefix and the rest *)
Lemma split_done now l :
  (forall c, In c l -> c_done c = true -> c_end c <= now) ->
  exists P R, l = P ++ R /\ (forall c, In c P -> c_done c = true) /\
    take_finished now l = (P, R) /\
    ((R = [] /\ first_incomplete l = None) \/
     (exists c R', R = c :: R' /\ c_done c = false /\ first_incomplete l = Some (c_start c))).
Proof.
  induction l as [|x r IH]; intro Hend.
  - exists [], []. repeat split; auto; try (intros c []).
  - cbn [take_finished first_incomplete]. destruct (c_done x) eqn:E; cbn [negb].
    + destruct IH as [P [R [Hl [Hp [Ht Hc]]]]]; [intros c Hc; apply Hend; right; exact Hc|].
      exists (x :: P), R. rewrite Ht.
      assert (c_end x <=? now = true) as -> by (apply N.leb_le; apply Hend; [left; reflexivity|exact E]).
      repeat split; auto.
      * cbn [app]. rewrite Hl. reflexivity.
      * intros c [<-|Hin]; auto.
    + exists [], (x :: r). repeat split; auto; try (intros c []).
      right. exists x, r. auto.
Qed.

(** ---------------------------------------------------------------- collapse *)
Lemma collapse_sound C t busy L infl next B :
  t < two64 -> B <= t ->
  sorted_from B L ->
  (forall c, In c L -> c_done c = true -> c_start c <= c_end c /\ c_end c <= t) ->
  (forall iv, In iv C -> snd iv <= t) ->
  (forall iv, In iv C -> snd iv <= B \/ exists c, In c L /\ c_done c = true /\ iv_c c = iv) ->
  (forall c, In c L -> c_done c = true -> In (iv_c c) C) ->
  busy = cnt_iv (covered C) 0 B ->
  let st' := collapse t (mk_bt busy L infl next) in
  bt_infl st' = infl /\ bt_next st' = next /\
  exists B' P, L = P ++ bt_list st' /\ (forall c, In c P -> c_done c = true) /\
    B <= B' /\ B' <= t /\ sorted_from B' (bt_list st') /\
    (forall iv, In iv C -> snd iv <= B' \/ exists c, In c (bt_list st') /\ c_done c = true /\ iv_c c = iv) /\
    bt_busy st' = cnt_iv (covered C) 0 B' /\
    (bt_list st' = [] \/ exists c, In c (bt_list st') /\ c_done c = false).
Proof.
  intros Ht HB Hs Hdone HCt HC Hcell Hbusy. cbn zeta. unfold collapse. cbn [bt_list bt_busy bt_infl bt_next].
  destruct (split_done t L) as [P [R [HL [HP [Htake Hcase]]]]].
  { intros c Hin Hd. apply (Hdone c Hin Hd). }
  assert (forall c, In c R -> In c L) as HRL by (intros c Hc; rewrite HL; apply in_or_app; right; exact Hc).
  assert (forall c, In c P -> In c L) as HPL by (intros c Hc; rewrite HL; apply in_or_app; left; exact Hc).
  (* the two ways the early-return test can come out *)
  assert ((exists c R', R = c :: R' /\ c_done c = false /\ first_incomplete L = Some (c_start c) /\ c_start c < t) \/
          ((R = [] /\ first_incomplete L = None) \/
           (exists c R', R = c :: R' /\ c_done c = false /\ first_incomplete L = Some (c_start c) /\ t <= c_start c)))
    as Hsplit.
  { destruct Hcase as [Hn|[c [R' [HR [Hd Hf]]]]]; [right; left; exact Hn|].
    destruct (N.lt_ge_cases (c_start c) t); [left|right; right]; exists c, R'; auto. }
  destruct Hsplit as [[c [R' [HR [Hd [Hf Hlt]]]]]|Hgo].
  - (* an earlier task is still running: nothing is collapsed *)
    rewrite Hf. assert (c_start c <? t = true) as -> by (apply N.ltb_lt; exact Hlt).
    cbn [bt_list bt_busy bt_infl bt_next]. repeat split.
    exists B, []. split; [reflexivity|]. split; [intros x []|]. split; [lia|]. split; [exact HB|].
    split; [exact Hs|]. split; [exact HC|]. split; [exact Hbusy|].
    right. exists c. split; [apply HRL; rewrite HR; left; reflexivity|exact Hd].
  - (* collapse the completed prefix *)
    assert ((match first_incomplete L with Some t0 => t0 <? t | None => false end) = false) as ->.
    { destruct Hgo as [[_ ->]|[c [R' [_ [_ [-> Hge]]]]]]; [reflexivity|apply N.ltb_ge; exact Hge]. }
    rewrite Htake. cbn [bt_list bt_busy bt_infl bt_next]. repeat split.
    exists t, P.
    assert (sorted_from B P) as HsP by (rewrite HL in Hs; apply sorted_from_app_l in Hs; exact Hs).
    assert (forall x, In x R -> t <= c_start x) as HRt.
    { intros x Hx. destruct Hgo as [[-> _]|[c [R' [HR [_ [_ Hge]]]]]]; [destruct Hx|].
      rewrite HL, HR in Hs. rewrite HR in Hx.
      pose proof (sorted_from_app_In _ _ _ _ _ Hs Hx). lia. }
    assert (task_busy_time P = cnt_iv (covered (ivs_c P)) B t) as Htbt.
    { apply task_busy_time_correct; [exact Ht|exact HsP|].
      intros x Hx. apply Hdone; [apply HPL; exact Hx|apply HP; exact Hx]. }
    assert (cnt_iv (covered C) B t = cnt_iv (covered (ivs_c P)) B t) as Heq.
    { apply cnt_iv_ext. intros tau Htau.
      apply Bool.eq_true_iff_eq. rewrite !covered_true. split.
      - intros [iv [Hin Hc]]. destruct (HC iv Hin) as [Hle|[x [HxL [Hxd Hxe]]]]; [lia|].
        rewrite HL in HxL. apply in_app_or in HxL. destruct HxL as [HxP|HxR].
        + exists iv. split; [|exact Hc]. rewrite <- Hxe. unfold ivs_c. apply in_map. exact HxP.
        + specialize (HRt x HxR). rewrite <- Hxe in Hc. unfold iv_c in Hc. cbn [fst snd] in Hc. lia.
      - intros [iv [Hin Hc]]. unfold ivs_c in Hin. apply in_map_iff in Hin. destruct Hin as [x [<- Hx]].
        exists (iv_c x). split; [|exact Hc]. apply Hcell; [apply HPL; exact Hx|apply HP; exact Hx]. }
    assert (busy + task_busy_time P = cnt_iv (covered C) 0 t) as Hsum.
    { rewrite (cnt_iv_split _ 0 B t) by lia. rewrite Hbusy, Htbt, Heq. reflexivity. }
    split; [exact HL|]. split; [exact HP|]. split; [exact HB|]. split; [lia|].
    split.
    { rewrite HL in Hs. apply sorted_from_app_r in Hs.
      destruct R as [|x R'']; [exact I|]. destruct Hs as [_ Hs2].
      split; [exact (HRt x (or_introl eq_refl))|exact Hs2]. }
    split; [intros iv Hin; left; apply HCt; exact Hin|].
    split.
    { rewrite Hsum. apply w64_small. pose proof (cnt_iv_le (covered C) 0 t). lia. }
    destruct Hgo as [[-> _]|[c [R' [-> [Hd _]]]]]; [left; reflexivity|].
    right. exists c. split; [left; reflexivity|exact Hd].
Qed.

(** ---------------------------------------------------------------- the invariant *)
Definition now_h (h : list ev) : N := match h with [] => 0 | e :: _ => ev_time e end.
Definition civs (h : list ev) : list (N * N) := ivs_of (tasks_h h).

Record binv (h : list ev) (st : bt) (B : N) : Prop := mk_binv {
  b_sorted : sorted_from B (bt_list st);
  b_le_now : forall c, In c (bt_list st) -> c_start c <= now_h h;
  b_done : forall c, In c (bt_list st) -> c_done c = true -> c_start c <= c_end c /\ c_end c <= now_h h;
  b_B : B <= now_h h;
  b_tasks : forall iv, In iv (civs h) ->
            snd iv <= B \/ exists c, In c (bt_list st) /\ c_done c = true /\ iv_c c = iv;
  b_cells : forall c, In c (bt_list st) -> c_done c = true -> In (iv_c c) (civs h);
  b_busy : bt_busy st = cnt_iv (covered (civs h)) 0 B;
  b_some : forall id k, mget id (bt_infl st) = Some k ->
           memN id (end_ids h) = false /\ exists s, find_start id h = Some s /\
           exists c, In c (bt_list st) /\ c_ser c = k /\ c_start c = s /\ c_done c = false;
  b_none : forall id, mget id (bt_infl st) = None -> memN id (end_ids h) = true \/ find_start id h = None;
  b_incomplete : forall c, In c (bt_list st) -> c_done c = false ->
                 exists id, mget id (bt_infl st) = Some (c_ser c);
  b_nodup : NoDup (map c_ser (bt_list st));
  b_fresh : forall c, In c (bt_list st) -> c_ser c < bt_next st;
  b_inj : forall id1 id2 k, mget id1 (bt_infl st) = Some k -> mget id2 (bt_infl st) = Some k -> id1 = id2;
  b_live : bt_list st = [] \/ exists c, In c (bt_list st) /\ c_done c = false }.

Lemma civs_ends h : wf_h h = true -> forall iv, In iv (civs h) -> fst iv <= snd iv /\ snd iv <= now_h h.
Proof.
  intros Hwf iv Hin. unfold civs, ivs_of in Hin. apply in_map_iff in Hin.
  destruct Hin as [[[id s] e] [<- Hin]]. cbn [fst snd].
  split; [exact (proj1 (tasks_h_ordered h Hwf id s e Hin))|].
  destruct (tasks_h_In _ _ _ _ Hin) as [r1 [r2 [Heq _]]].
  destruct h as [|x r]; [destruct r1; discriminate|]. cbn [now_h].
  destruct r1 as [|y r1]; cbn [app] in Heq.
  - injection Heq as -> _. cbn [ev_time]. lia.
  - injection Heq as -> ->.
    apply (wf_h_times _ Hwf _ _ eq_refl (EEnd id e)). apply in_or_app. right. left. reflexivity.
Qed.

Lemma now_h_bound h : wf_h h = true -> now_h h < two64.
Proof.
  destruct h as [|x r]; intro Hwf; [cbn; apply two64_pos|].
  cbn [now_h]. apply (wf_h_bound _ Hwf). left. reflexivity.
Qed.

Lemma now_h_mono e r : wf_h (e :: r) = true -> now_h r <= now_h (e :: r).
Proof.
  intro Hwf. apply wf_h_cons in Hwf. destruct Hwf as [_ [_ [_ [Hle _]]]].
  destruct r as [|p r']; cbn [now_h]; [lia|exact Hle].
Qed.

(** an event that changes neither the tracer state nor the set of tasks *)
Lemma binv_idle e r st B :
  wf_h (e :: r) = true -> binv r st B ->
  tasks_h (e :: r) = tasks_h r -> end_ids (e :: r) = end_ids r ->
  (forall id, find_start id (e :: r) = find_start id r \/
              (mget id (bt_infl st) = None /\ memN id (end_ids r) = false /\ find_start id r = None /\
               find_start id (e :: r) = None)) ->
  binv (e :: r) st B.
Proof.
  intros Hwf [] Ht He Hf. pose proof (now_h_mono _ _ Hwf) as Hmono.
  constructor; unfold civs in *; rewrite ?Ht, ?He; auto.
  - intros c Hc. specialize (b_le_now0 c Hc). lia.
  - intros c Hc Hd. destruct (b_done0 c Hc Hd). split; lia.
  - lia.
  - intros id k Hk. destruct (b_some0 id k Hk) as [H1 [s [H2 H3]]]. split; [exact H1|].
    exists s. split; [|exact H3]. destruct (Hf id) as [->|[Hn _]]; [exact H2|congruence].
  - intros id Hn. destruct (Hf id) as [->|[_ [_ [_ ->]]]]; [apply b_none0; exact Hn|right; reflexivity].
Qed.

Lemma mget_lt_next h st B id k : binv h st B -> mget id (bt_infl st) = Some k -> k < bt_next st.
Proof.
  intros [] Hk. destruct (b_some0 id k Hk) as [_ [s [_ [c [Hc [<- _]]]]]]. apply b_fresh0. exact Hc.
Qed.

Theorem binv_holds h : wf_h h = true -> exists B, binv h (runh (bt_step false) bt_init h) B.
Proof.
  induction h as [|e r IH]; intro Hwf.
  - exists 0. constructor; cbn; auto; try (intros; contradiction); try (intros; discriminate).
    constructor.
  - destruct (IH (wf_h_tail _ _ Hwf)) as [B Hinv]. clear IH.
    rewrite runh_cons. set (st := runh (bt_step false) bt_init r) in *.
    pose proof (now_h_mono _ _ Hwf) as Hmono.
    pose proof (now_h_bound _ Hwf) as Hbound.
    pose proof Hwf as Hwf0.
    apply wf_h_cons in Hwf. destruct Hwf as [Hwfr [_ [_ [_ Hid]]]].
    destruct e as [id t pass|id t|task name t|t]; cbn [bt_step orb].
    + (* ---------------- StartTask *)
      destruct Hid as [Hns Hne].
      assert (find_start id r = None) as Hfs by (apply find_start_none; exact Hns).
      assert (mget id (bt_infl st) = None) as Hmg.
      { destruct (mget id (bt_infl st)) as [k|] eqn:E; [|reflexivity].
        destruct (b_some _ _ _ Hinv id k E) as [_ [s [Hs _]]]. congruence. }
      destruct pass.
      * (* tracked: a new cell at the back of the list *)
        exists B. destruct Hinv. cbn [now_h ev_time] in *.
        constructor; cbn [bt_list bt_busy bt_infl bt_next tasks_h civs now_h ev_time].
        -- apply sorted_from_snoc; [exact b_sorted0|cbn [c_start]; lia|].
           intros x Hx. cbn [c_start]. specialize (b_le_now0 x Hx). lia.
        -- intros c Hc. apply in_app_or in Hc. destruct Hc as [Hc|[<-|[]]]; [specialize (b_le_now0 c Hc); lia|cbn; lia].
        -- intros c Hc Hd. apply in_app_or in Hc. destruct Hc as [Hc|[<-|[]]]; [|cbn in Hd; discriminate].
           destruct (b_done0 c Hc Hd). split; lia.
        -- lia.
        -- intros iv Hin. destruct (b_tasks0 iv Hin) as [H|[c [Hc H]]]; [left; exact H|].
           right. exists c. split; [apply in_or_app; left; exact Hc|exact H].
        -- intros c Hc Hd. apply in_app_or in Hc. destruct Hc as [Hc|[<-|[]]]; [auto|cbn in Hd; discriminate].
        -- exact b_busy0.
        -- intros id0 k Hk. rewrite end_ids_cons. cbn [find_start].
           destruct (N.eq_dec id0 id) as [->|Hd].
           ++ rewrite mget_mset_same in Hk. injection Hk as <-. rewrite N.eqb_refl.
              split; [apply memN_false; exact Hne|]. exists t. split; [reflexivity|].
              exists (mk_cell (bt_next st) t 0 false). split; [apply in_or_app; right; left; reflexivity|auto].
           ++ rewrite mget_mset_other in Hk by exact Hd.
              destruct (b_some0 id0 k Hk) as [H1 [s [H2 [c [Hc H3]]]]]. split; [exact H1|].
              assert (id =? id0 = false) as -> by (apply N.eqb_neq; congruence).
              exists s. split; [exact H2|]. exists c. split; [apply in_or_app; left; exact Hc|exact H3].
        -- intros id0 Hn. rewrite end_ids_cons. cbn [find_start].
           destruct (N.eq_dec id0 id) as [->|Hd]; [rewrite mget_mset_same in Hn; discriminate|].
           rewrite mget_mset_other in Hn by exact Hd.
           assert (id =? id0 = false) as -> by (apply N.eqb_neq; congruence). apply b_none0. exact Hn.
        -- intros c Hc Hd. apply in_app_or in Hc. destruct Hc as [Hc|[<-|[]]].
           ++ destruct (b_incomplete0 c Hc Hd) as [id0 Hk]. exists id0.
              rewrite mget_mset_other; [exact Hk|]. intro; subst. congruence.
           ++ exists id. cbn [c_ser]. apply mget_mset_same.
        -- rewrite map_app. cbn [map c_ser]. apply NoDup_app_snoc; [exact b_nodup0|].
           intro Hin. apply in_map_iff in Hin. destruct Hin as [c [Hs Hc]]. specialize (b_fresh0 c Hc). lia.
        -- intros c Hc. apply in_app_or in Hc. destruct Hc as [Hc|[<-|[]]]; [specialize (b_fresh0 c Hc); lia|cbn; lia].
        -- intros id1 id2 k H1 H2.
           assert (forall i, i <> id -> mget i (mset id (bt_next st) (bt_infl st)) = Some k -> k < bt_next st) as Hlt.
           { intros i Hi Hk. rewrite mget_mset_other in Hk by exact Hi.
             destruct (b_some0 i k Hk) as [_ [s [_ [c [Hc [<- _]]]]]]. apply b_fresh0. exact Hc. }
           destruct (N.eq_dec id1 id) as [->|Hd1]; destruct (N.eq_dec id2 id) as [->|Hd2]; auto.
           ++ rewrite mget_mset_same in H1. injection H1 as <-. specialize (Hlt id2 Hd2 H2). lia.
           ++ rewrite mget_mset_same in H2. injection H2 as <-. specialize (Hlt id1 Hd1 H1). lia.
           ++ rewrite mget_mset_other in H1, H2 by assumption. eapply b_inj0; eauto.
        -- right. exists (mk_cell (bt_next st) t 0 false). split; [apply in_or_app; right; left; reflexivity|reflexivity].
      * (* filtered out *)
        exists B. apply binv_idle; auto; try (intro id0; cbn [find_start]; left; reflexivity).
    + (* ---------------- EndTask *)
      destruct (mget id (bt_infl st)) as [k|] eqn:Hk.
      2:{ (* not tracked *)
          destruct (b_none _ _ _ Hinv id Hk) as [Hc|Hfs]; [apply memN_In in Hc; contradiction|].
          exists B. destruct Hinv. pose proof Hmono as Hm. cbn [now_h ev_time] in *.
          constructor; unfold civs in *; cbn [tasks_h now_h ev_time]; rewrite ?Hfs; auto.
          - intros c Hc. specialize (b_le_now0 c Hc). lia.
          - intros c Hc Hd. destruct (b_done0 c Hc Hd). split; lia.
          - lia.
          - intros id0 k Hk0. rewrite end_ids_cons, memN_cons. cbn [find_start].
            destruct (b_some0 id0 k Hk0) as [H1 H2]. split; [|exact H2].
            assert (id0 <> id) by (intro; subst; congruence).
            assert (id0 =? id = false) as -> by (apply N.eqb_neq; assumption). exact H1.
          - intros id0 Hn. rewrite end_ids_cons, memN_cons. cbn [find_start].
            destruct (N.eq_dec id0 id) as [->|Hd]; [left; rewrite N.eqb_refl; reflexivity|].
            assert (id0 =? id = false) as -> by (apply N.eqb_neq; assumption). apply b_none0. exact Hn. }
      (* tracked: its cell completes, then collapse *)
      destruct (b_some _ _ _ Hinv id k Hk) as [_ [s [Hfs [c0 [Hc0 [Hser [Hst Hnd]]]]]]].
      pose proof Hinv as Hinv0. destruct Hinv. cbn [now_h ev_time] in *.
      assert (s <= t) as Hst_le by (rewrite <- Hst; specialize (b_le_now0 c0 Hc0); lia).
      set (L1 := mark k t (bt_list st)).
      assert (forall c, In c L1 <->
                (In c (bt_list st) /\ c_ser c <> k) \/ c = mk_cell k s t true) as HL1.
      { intro c. unfold L1. rewrite (mark_In k t _ c b_nodup0). split.
        - intros [H|[c1 [Hc1 [Hk1 ->]]]]; [left; exact H|right].
          assert (c1 = c0) as -> by (apply (ser_inj _ _ _ b_nodup0 Hc1 Hc0); congruence).
          rewrite Hst. reflexivity.
        - intros [H| ->]; [left; exact H|right]. exists c0. rewrite Hst. auto. }
      assert (tasks_h (EEnd id t :: r) = (id, s, t) :: tasks_h r) as Htasks by (cbn [tasks_h]; rewrite Hfs; reflexivity).
      assert (civs (EEnd id t :: r) = (s, t) :: civs r) as Hcivs by (unfold civs; rewrite Htasks; reflexivity).
      (* facts about the list before collapse *)
      assert (sorted_from B L1) as HsL1.
      { apply (sorted_from_starts B (bt_list st)); [symmetry; apply mark_starts|exact b_sorted0]. }
      assert (forall c, In c L1 -> c_done c = true -> c_start c <= c_end c /\ c_end c <= t) as HdL1.
      { intros c Hc Hd. apply HL1 in Hc. destruct Hc as [[Hc _]| ->]; [destruct (b_done0 c Hc Hd); split; lia|cbn; lia]. }
      assert (forall iv, In iv (civs (EEnd id t :: r)) -> snd iv <= t) as HCt.
      { intros iv Hin. apply (civs_ends _ Hwf0 iv Hin). }
      assert (forall iv, In iv (civs (EEnd id t :: r)) ->
                snd iv <= B \/ exists c, In c L1 /\ c_done c = true /\ iv_c c = iv) as HCL1.
      { intros iv Hin. rewrite Hcivs in Hin. destruct Hin as [<-|Hin].
        - right. exists (mk_cell k s t true). split; [apply HL1; right; reflexivity|split; reflexivity].
        - destruct (b_tasks0 iv Hin) as [H|[c [Hc [Hd He]]]]; [left; exact H|right].
          exists c. split; [|auto]. apply HL1. left. split; [exact Hc|].
          intro Hk'. assert (c = c0) as -> by (apply (ser_inj _ _ _ b_nodup0 Hc Hc0); congruence).
          congruence. }
      assert (forall c, In c L1 -> c_done c = true -> In (iv_c c) (civs (EEnd id t :: r))) as HcellL1.
      { intros c Hc Hd. rewrite Hcivs. apply HL1 in Hc. destruct Hc as [[Hc _]| ->]; [right; auto|left; reflexivity]. }
      assert (bt_busy st = cnt_iv (covered (civs (EEnd id t :: r))) 0 B) as HbusyL1.
      { rewrite b_busy0, Hcivs. apply cnt_iv_ext. intros tau Htau. rewrite covered_cons. cbn [fst snd].
        assert (B <= s) by (rewrite <- Hst; exact (sorted_from_In _ _ _ b_sorted0 Hc0)).
        destruct (covered (civs r) tau); bsolve. }
      destruct (collapse_sound (civs (EEnd id t :: r)) t (bt_busy st) L1 (mdel id (bt_infl st)) (bt_next st) B)
        as [Hi [Hn [B' [P [HLP [HPd [HBB' [HB't [HsB' [HtB' [HbB' HlB']]]]]]]]]]]; auto; try lia.
      set (st' := collapse t (mk_bt (bt_busy st) L1 (mdel id (bt_infl st)) (bt_next st))) in *.
      assert (forall c, In c (bt_list st') -> In c L1) as Hsub by (intros c Hc; rewrite HLP; apply in_or_app; right; exact Hc).
      assert (forall c, In c L1 -> c_done c = false -> In c (bt_list st')) as Hkeep.
      { intros c Hc Hd. rewrite HLP in Hc. apply in_app_or in Hc. destruct Hc as [Hc|Hc]; [|exact Hc].
        specialize (HPd c Hc). congruence. }
      exists B'. constructor; cbn [now_h ev_time].
      * exact HsB'.
      * intros c Hc. apply Hsub, HL1 in Hc. destruct Hc as [[Hc _]| ->]; [specialize (b_le_now0 c Hc); lia|cbn; lia].
      * intros c Hc Hd. apply HdL1; [apply Hsub; exact Hc|exact Hd].
      * exact HB't.
      * exact HtB'.
      * intros c Hc Hd. apply HcellL1; [apply Hsub; exact Hc|exact Hd].
      * exact HbB'.
      * intros id0 k0 Hk0. rewrite Hi in Hk0. rewrite end_ids_cons, memN_cons. cbn [find_start].
        destruct (N.eq_dec id0 id) as [->|Hd]; [rewrite mget_mdel_same in Hk0; discriminate|].
        rewrite mget_mdel_other in Hk0 by exact Hd.
        destruct (b_some0 id0 k0 Hk0) as [H1 [s0 [H2 [c [Hc [Hs0 [Hst0 Hnd0]]]]]]].
        assert (id0 =? id = false) as -> by (apply N.eqb_neq; exact Hd). split; [exact H1|].
        exists s0. split; [exact H2|]. exists c. split; [|auto].
        apply Hkeep; [|exact Hnd0]. apply HL1. left. split; [exact Hc|].
        intro Hkk. apply Hd. apply (b_inj0 id0 id k); [rewrite <- Hkk, Hs0|]; assumption.
      * intros id0 Hn0. rewrite Hi in Hn0. rewrite end_ids_cons, memN_cons. cbn [find_start].
        destruct (N.eq_dec id0 id) as [->|Hd]; [left; rewrite N.eqb_refl; reflexivity|].
        rewrite mget_mdel_other in Hn0 by exact Hd.
        assert (id0 =? id = false) as -> by (apply N.eqb_neq; exact Hd). apply b_none0. exact Hn0.
      * intros c Hc Hd. rewrite Hi. apply Hsub, HL1 in Hc. destruct Hc as [[Hc Hk']| ->]; [|cbn in Hd; discriminate].
        destruct (b_incomplete0 c Hc Hd) as [id0 Hk0]. exists id0.
        rewrite mget_mdel_other; [exact Hk0|]. intro; subst. rewrite Hk in Hk0. injection Hk0 as Hk0. congruence.
      * (* serials of a sublist *)
        assert (NoDup (map c_ser L1)) as Hnd1 by (unfold L1; rewrite mark_sers; exact b_nodup0).
        rewrite HLP, map_app in Hnd1. apply NoDup_app_r in Hnd1. exact Hnd1.
      * intros c Hc. rewrite Hn. apply Hsub, HL1 in Hc. destruct Hc as [[Hc _]| ->]; [apply b_fresh0; exact Hc|].
        cbn [c_ser]. rewrite <- Hser. apply b_fresh0. exact Hc0.
      * intros id1 id2 k0 H1 H2. rewrite Hi in H1, H2.
        destruct (N.eq_dec id1 id) as [->|Hd1]; [rewrite mget_mdel_same in H1; discriminate|].
        destruct (N.eq_dec id2 id) as [->|Hd2]; [rewrite mget_mdel_same in H2; discriminate|].
        rewrite mget_mdel_other in H1, H2 by assumption. eapply b_inj0; eauto.
      * exact HlB'.
    + (* ---------------- tag *)
      exists B. apply binv_idle; auto; try (intro id0; left; reflexivity).
    + (* ---------------- terminate: excluded by well-formedness *)
      apply wf_h_cons in Hwf0. destruct Hwf0 as [_ [Hterm _]]. discriminate.
Qed.
