(** C34 — proofs, part 2: counting covered instants, the merge sweep, and the
    busy-time tracer. *)
From Akita Require Import Lib.Base C34.Model C34.Spec C34.Proofs1.
Local Open Scope N_scope.

(** ---------------------------------------------------------------- counting *)
Lemma count_in_app P a n m :
  count_in P a (n + m) = count_in P a n + count_in P (a + N.of_nat n) m.
Proof.
  revert a. induction n as [|n IH]; intro a; cbn [count_in Nat.add].
  - replace (a + N.of_nat 0) with a by lia. lia.
  - rewrite IH. replace (a + 1 + N.of_nat n) with (a + N.of_nat (S n)) by lia. lia.
Qed.

Lemma count_in_ext P Q a n :
  (forall t, a <= t < a + N.of_nat n -> P t = Q t) -> count_in P a n = count_in Q a n.
Proof.
  revert a. induction n as [|n IH]; intros a H; [reflexivity|].
  cbn [count_in]. rewrite (H a) by lia. rewrite (IH (a + 1)); [reflexivity|].
  intros t Ht. apply H. lia.
Qed.

Lemma count_in_true P a n :
  (forall t, a <= t < a + N.of_nat n -> P t = true) -> count_in P a n = N.of_nat n.
Proof.
  revert a. induction n as [|n IH]; intros a H; [reflexivity|].
  cbn [count_in]. rewrite (H a) by lia. rewrite (IH (a + 1)); [lia|].
  intros t Ht. apply H. lia.
Qed.

Lemma count_in_false P a n :
  (forall t, a <= t < a + N.of_nat n -> P t = false) -> count_in P a n = 0.
Proof.
  revert a. induction n as [|n IH]; intros a H; [reflexivity|].
  cbn [count_in]. rewrite (H a) by lia. rewrite (IH (a + 1)); [lia|].
  intros t Ht. apply H. lia.
Qed.

Lemma count_in_le P a n : count_in P a n <= N.of_nat n.
Proof.
  revert a. induction n as [|n IH]; intro a; [cbn; lia|].
  cbn [count_in]. specialize (IH (a + 1)). destruct (P a); lia.
Qed.

(** number of instants of [a, b) satisfying P *)
Definition cnt_iv (P : N -> bool) (a b : N) : N := count_in P a (N.to_nat (b - a)).

Lemma cnt_iv_split P a m b : a <= m -> m <= b -> cnt_iv P a b = cnt_iv P a m + cnt_iv P m b.
Proof.
  intros H1 H2. unfold cnt_iv.
  replace (N.to_nat (b - a)) with (N.to_nat (m - a) + N.to_nat (b - m))%nat by lia.
  rewrite count_in_app. do 2 f_equal. lia.
Qed.

Lemma cnt_iv_ext P Q a b : (forall t, a <= t < b -> P t = Q t) -> cnt_iv P a b = cnt_iv Q a b.
Proof. intro H. unfold cnt_iv. apply count_in_ext. intros t Ht. apply H. lia. Qed.

Lemma cnt_iv_true P a b : a <= b -> (forall t, a <= t < b -> P t = true) -> cnt_iv P a b = b - a.
Proof. intros Hab H. unfold cnt_iv. rewrite count_in_true; [lia|]. intros t Ht. apply H. lia. Qed.

Lemma cnt_iv_false P a b : (forall t, a <= t < b -> P t = false) -> cnt_iv P a b = 0.
Proof. intro H. unfold cnt_iv. apply count_in_false. intros t Ht. apply H. lia. Qed.

Lemma cnt_iv_le P a b : cnt_iv P a b <= b - a.
Proof. unfold cnt_iv. pose proof (count_in_le P a (N.to_nat (b - a))). lia. Qed.

Lemma cnt_iv_empty P a b : b <= a -> cnt_iv P a b = 0.
Proof. intro H. unfold cnt_iv. replace (N.to_nat (b - a)) with 0%nat by lia. reflexivity. Qed.

(** boolean goals about interval membership *)
Ltac bsolve :=
  repeat match goal with
  | |- context [covered ?l ?t] => destruct (covered l t)
  end;
  repeat match goal with
  | |- context [?a <=? ?b] => destruct (N.leb_spec a b)
  | |- context [?a <? ?b] => destruct (N.ltb_spec a b)
  end; cbn [andb orb]; try reflexivity; try lia.

(** ---------------------------------------------------------------- covered *)
Lemma covered_cons iv l t : covered (iv :: l) t = ((fst iv <=? t) && (t <? snd iv)) || covered l t.
Proof. reflexivity. Qed.

Lemma covered_app l1 l2 t : covered (l1 ++ l2) t = covered l1 t || covered l2 t.
Proof. unfold covered. apply existsb_app. Qed.

Lemma covered_true l t : covered l t = true <-> exists iv, In iv l /\ fst iv <= t < snd iv.
Proof.
  unfold covered. rewrite existsb_exists. split; intros [iv [Hin H]]; exists iv; split; auto; lia.
Qed.

Lemma covered_false l t : covered l t = false <-> forall iv, In iv l -> ~ (fst iv <= t < snd iv).
Proof.
  split.
  - intros H iv Hin Hc. assert (covered l t = true) by (apply covered_true; eauto). congruence.
  - intro H. destruct (covered l t) eqn:E; [|reflexivity].
    apply covered_true in E. destruct E as [iv [Hin Hc]]. exfalso. eapply H; eauto.
Qed.

Lemma covered_below_max_end l t : covered l t = true -> t < max_end l.
Proof.
  induction l as [|iv r IH]; [discriminate|].
  rewrite covered_cons. cbn [max_end fold_right]. fold (max_end r).
  intro H. apply orb_true_iff in H. destruct H as [H|H]; [lia|]. specialize (IH H). lia.
Qed.

Lemma max_end_ge l iv : In iv l -> snd iv <= max_end l.
Proof.
  induction l as [|x r IH]; [intros []|]. cbn [max_end fold_right]. fold (max_end r).
  intros [->|H]; [lia|]. specialize (IH H). lia.
Qed.

(** the union length can be counted up to any horizon beyond the last end *)
Lemma union_len_horizon l H : max_end l <= H -> cnt_iv (covered l) 0 H = union_len l.
Proof.
  intro Hle. rewrite (cnt_iv_split _ 0 (max_end l) H) by lia.
  rewrite (cnt_iv_false _ (max_end l) H).
  - unfold union_len, cnt_iv. rewrite N.sub_0_r. lia.
  - intros t Ht. destruct (covered l t) eqn:E; [|reflexivity].
    apply covered_below_max_end in E. lia.
Qed.

(** ---------------------------------------------------------------- the sweep *)
Definition iv_c (c : cell) : N * N := (c_start c, c_end c).
Definition ivs_c (l : list cell) : list (N * N) := map iv_c l.

(** starts nondecreasing and all >= lo *)
Fixpoint sorted_from (lo : N) (l : list cell) : Prop :=
  match l with
  | [] => True
  | c :: r => lo <= c_start c /\ sorted_from (c_start c) r
  end.

Lemma sorted_from_weaken lo lo' l : lo' <= lo -> sorted_from lo l -> sorted_from lo' l.
Proof. destruct l; cbn [sorted_from]; [auto|]. intros H [H1 H2]. split; [lia|exact H2]. Qed.

Lemma sorted_from_In lo l c : sorted_from lo l -> In c l -> lo <= c_start c.
Proof.
  revert lo. induction l as [|x r IH]; intros lo Hs Hin; [destruct Hin|].
  destruct Hs as [H1 H2]. destruct Hin as [->|Hin]; [exact H1|].
  specialize (IH _ H2 Hin). lia.
Qed.

Lemma sorted_from_snoc lo l c :
  sorted_from lo l -> lo <= c_start c -> (forall x, In x l -> c_start x <= c_start c) ->
  sorted_from lo (l ++ [c]).
Proof.
  revert lo. induction l as [|x r IH]; intros lo Hs Hlo Hle; cbn [app sorted_from]; [auto|].
  destruct Hs as [H1 H2]. split; [exact H1|].
  apply IH; [exact H2|apply Hle; left; reflexivity|intros y Hy; apply Hle; right; exact Hy].
Qed.

Lemma sorted_from_app_r lo l1 l2 : sorted_from lo (l1 ++ l2) -> sorted_from lo l2.
Proof.
  revert lo. induction l1 as [|x r IH]; intros lo Hs; [exact Hs|].
  destruct Hs as [H1 H2]. apply (sorted_from_weaken (c_start x)); [exact H1|]. apply IH. exact H2.
Qed.

Lemma sorted_from_app_l lo l1 l2 : sorted_from lo (l1 ++ l2) -> sorted_from lo l1.
Proof.
  revert lo. induction l1 as [|x r IH]; intros lo Hs; [exact I|].
  destruct Hs as [H1 H2]. split; [exact H1|]. apply IH. exact H2.
Qed.

(** in a sorted list, what follows an element starts no earlier *)
Lemma sorted_from_app_In lo l1 x l2 c :
  sorted_from lo (l1 ++ x :: l2) -> In c (x :: l2) -> c_start x <= c_start c.
Proof.
  intros Hs Hin. apply sorted_from_app_r in Hs. destruct Hs as [_ Hs].
  destruct Hin as [->|Hin]; [lia|]. exact (sorted_from_In _ _ _ Hs Hin).
Qed.

Lemma sweep_correct l : forall s e H,
  s <= e -> e <= H -> H < two64 -> sorted_from s l ->
  (forall c, In c l -> c_start c <= c_end c /\ c_end c <= H) ->
  sweep s e l = cnt_iv (covered ((s, e) :: ivs_c l)) s H.
Proof.
  induction l as [|c r IH]; intros s e H Hse HeH HH Hs Hv.
  - cbn [sweep ivs_c map]. rewrite sub64_exact by lia.
    rewrite (cnt_iv_split _ s e H) by lia.
    rewrite (cnt_iv_true _ s e) by (try lia; intros t Ht; rewrite covered_cons; cbn [fst snd covered existsb]; bsolve).
    rewrite (cnt_iv_false _ e H) by (intros t Ht; rewrite covered_cons; cbn [fst snd covered existsb]; bsolve).
    lia.
  - destruct Hs as [Hsc Hs]. destruct (Hv c (or_introl eq_refl)) as [Hcv HcH].
    assert (forall x, In x r -> c_start x <= c_end x /\ c_end x <= H) as Hv' by (intros x Hx; apply Hv; right; exact Hx).
    cbn [sweep ivs_c map]. fold (ivs_c r).
    destruct (c_start c <=? e) eqn:Hov.
    + (* absorbed into the current interval *)
      apply N.leb_le in Hov.
      replace (N.min s (c_start c)) with s by lia.
      rewrite (IH s (N.max e (c_end c)) H) by first [lia | exact Hv' | apply (sorted_from_weaken (c_start c)); [lia|exact Hs]].
      apply cnt_iv_ext. intros t Ht. rewrite !covered_cons. unfold iv_c. cbn [fst snd]. bsolve.
    + (* a gap: close the current interval, open a new one *)
      apply N.leb_gt in Hov.
      rewrite (IH (c_start c) (c_end c) H) by first [lia | exact Hv' | exact Hs].
      rewrite sub64_exact by lia.
      rewrite (cnt_iv_split _ s e H) by lia.
      rewrite (cnt_iv_split _ e (c_start c) H) by lia.
      rewrite (cnt_iv_true _ s e) by (try lia; intros t Ht; rewrite covered_cons; cbn [fst snd]; bsolve).
      rewrite (cnt_iv_false _ e (c_start c)).
      * rewrite (cnt_iv_ext (covered ((s, e) :: iv_c c :: ivs_c r)) (covered (iv_c c :: ivs_c r)) (c_start c) H).
        -- change (c_start c, c_end c) with (iv_c c).
           pose proof (cnt_iv_le (covered (iv_c c :: ivs_c r)) (c_start c) H).
           rewrite w64_small by lia. lia.
        -- intros t Ht. rewrite (covered_cons (s, e)). cbn [fst snd]. bsolve.
      * intros t Ht. rewrite !covered_cons. unfold iv_c. cbn [fst snd].
        assert (covered (ivs_c r) t = false) as ->.
        { apply covered_false. intros iv Hin Hc. unfold ivs_c in Hin. apply in_map_iff in Hin.
          destruct Hin as [x [<- Hx]]. unfold iv_c in Hc. cbn [fst snd] in Hc.
          pose proof (sorted_from_In _ _ _ Hs Hx). lia. }
        bsolve.
Qed.

Lemma task_busy_time_correct l lo H :
  H < two64 -> sorted_from lo l ->
  (forall c, In c l -> c_start c <= c_end c /\ c_end c <= H) ->
  task_busy_time l = cnt_iv (covered (ivs_c l)) lo H.
Proof.
  intros HH Hs Hv. destruct l as [|c r].
  - cbn [task_busy_time ivs_c map]. symmetry. apply cnt_iv_false. reflexivity.
  - destruct Hs as [Hlo Hs]. destruct (Hv c (or_introl eq_refl)) as [Hcv HcH].
    cbn [task_busy_time].
    rewrite (sweep_correct r (c_start c) (c_end c) H) by
      (try lia; try exact Hs; intros x Hx; apply Hv; right; exact Hx).
    destruct (N.le_gt_cases H lo) as [Hle|Hgt].
    + rewrite (cnt_iv_empty _ lo H) by exact Hle. apply cnt_iv_empty. lia.
    + rewrite (cnt_iv_split _ lo (c_start c) H) by lia.
      rewrite (cnt_iv_false _ lo (c_start c)); [reflexivity|].
      intros t Ht. apply covered_false. intros iv Hin Hc.
      change (iv_c c :: ivs_c r) with (ivs_c (c :: r)) in Hin.
      unfold ivs_c in Hin. apply in_map_iff in Hin. destruct Hin as [x [<- Hx]].
      unfold iv_c in Hc. cbn [fst snd] in Hc.
      assert (c_start c <= c_start x).
      { destruct Hx as [->|Hx]; [lia|]. exact (sorted_from_In _ _ _ Hs Hx). }
      lia.
Qed.

(** ---------------------------------------------------------------- the fast
    evaluator of the specification: insertion sort + sweep = union length *)
Lemma covered_insert x l t : covered (insert_iv x l) t = covered (x :: l) t.
Proof.
  induction l as [|y r IH]; [reflexivity|].
  cbn [insert_iv]. destruct (fst x <=? fst y); [reflexivity|].
  rewrite covered_cons, IH, !covered_cons. bsolve.
Qed.

Lemma covered_isort l t : covered (isort l) t = covered l t.
Proof.
  induction l as [|x r IH]; [reflexivity|].
  cbn [isort fold_right]. fold (isort r). rewrite covered_insert, !covered_cons, IH. reflexivity.
Qed.

Fixpoint sorted_iv (lo : N) (l : list (N * N)) : Prop :=
  match l with
  | [] => True
  | iv :: r => lo <= fst iv /\ sorted_iv (fst iv) r
  end.

Lemma sorted_iv_weaken lo lo' l : lo' <= lo -> sorted_iv lo l -> sorted_iv lo' l.
Proof. destruct l; cbn [sorted_iv]; [auto|]. intros H [H1 H2]. split; [lia|exact H2]. Qed.

Lemma sorted_iv_insert lo x l : lo <= fst x -> sorted_iv lo l -> sorted_iv lo (insert_iv x l).
Proof.
  revert lo. induction l as [|y r IH]; intros lo Hx Hs; cbn [insert_iv sorted_iv]; [auto|].
  destruct Hs as [H1 H2].
  destruct (fst x <=? fst y) eqn:E; cbn [sorted_iv].
  - apply N.leb_le in E. repeat split; auto.
  - apply N.leb_gt in E. split; [exact H1|]. apply IH; [lia|exact H2].
Qed.

Lemma sorted_iv_isort l : sorted_iv 0 (isort l).
Proof.
  induction l as [|x r IH]; [exact I|].
  cbn [isort fold_right]. fold (isort r). apply sorted_iv_insert; [lia|exact IH].
Qed.

Lemma In_insert y x l : In y (insert_iv x l) <-> y = x \/ In y l.
Proof.
  induction l as [|z r IH]; cbn [insert_iv In]; [intuition|].
  destruct (fst x <=? fst z); cbn [In]; [intuition|]. rewrite IH. intuition.
Qed.

Lemma In_isort y l : In y (isort l) <-> In y l.
Proof.
  induction l as [|x r IH]; [reflexivity|].
  cbn [isort fold_right]. fold (isort r). rewrite In_insert, IH. cbn [In]. intuition.
Qed.

Lemma sorted_iv_In lo l iv : sorted_iv lo l -> In iv l -> lo <= fst iv.
Proof.
  revert lo. induction l as [|x r IH]; intros lo Hs Hin; [destruct Hin|].
  destruct Hs as [H1 H2]. destruct Hin as [->|Hin]; [exact H1|]. specialize (IH _ H2 Hin). lia.
Qed.

Lemma sweep_iv_correct l : forall s e H,
  s <= e -> e <= H -> sorted_iv s l ->
  (forall iv, In iv l -> fst iv <= snd iv /\ snd iv <= H) ->
  sweep_iv s e l = cnt_iv (covered ((s, e) :: l)) s H.
Proof.
  induction l as [|c r IH]; intros s e H Hse HeH Hs Hv.
  - cbn [sweep_iv].
    rewrite (cnt_iv_split _ s e H) by lia.
    rewrite (cnt_iv_true _ s e) by (try lia; intros t Ht; rewrite covered_cons; cbn [fst snd covered existsb]; bsolve).
    rewrite (cnt_iv_false _ e H) by (intros t Ht; rewrite covered_cons; cbn [fst snd covered existsb]; bsolve).
    lia.
  - destruct Hs as [Hsc Hs]. destruct (Hv c (or_introl eq_refl)) as [Hcv HcH].
    assert (forall x, In x r -> fst x <= snd x /\ snd x <= H) as Hv' by (intros x Hx; apply Hv; right; exact Hx).
    cbn [sweep_iv].
    destruct (fst c <=? e) eqn:Hov.
    + apply N.leb_le in Hov.
      rewrite (IH s (N.max e (snd c)) H) by first [lia | exact Hv' | apply (sorted_iv_weaken (fst c)); [lia|exact Hs]].
      apply cnt_iv_ext. intros t Ht. rewrite !covered_cons. cbn [fst snd]. bsolve.
    + apply N.leb_gt in Hov.
      rewrite (IH (fst c) (snd c) H) by first [lia | exact Hv' | exact Hs].
      rewrite (cnt_iv_split _ s e H) by lia.
      rewrite (cnt_iv_split _ e (fst c) H) by lia.
      rewrite (cnt_iv_true _ s e) by (try lia; intros t Ht; rewrite covered_cons; cbn [fst snd]; bsolve).
      rewrite (cnt_iv_false _ e (fst c)).
      * rewrite (cnt_iv_ext (covered ((s, e) :: c :: r)) (covered ((fst c, snd c) :: r)) (fst c) H); [lia|].
        intros t Ht. rewrite (covered_cons (s, e)). rewrite !covered_cons. cbn [fst snd]. bsolve.
      * intros t Ht. rewrite !covered_cons. cbn [fst snd].
        assert (covered r t = false) as ->.
        { apply covered_false. intros iv Hin Hc. pose proof (sorted_iv_In _ _ _ Hs Hin). lia. }
        bsolve.
Qed.

Theorem union_len_fast_correct l :
  (forall iv, In iv l -> fst iv <= snd iv) -> union_len_fast l = union_len l.
Proof.
  intro Hv. unfold union_len_fast.
  rewrite <- (union_len_horizon l (max_end l)) by lia.
  rewrite <- (cnt_iv_ext (covered (isort l))) by (intros; apply covered_isort).
  pose proof (sorted_iv_isort l) as Hs.
  assert (forall iv, In iv (isort l) -> fst iv <= snd iv /\ snd iv <= max_end l) as Hv2.
  { intros iv Hin. apply (proj1 (In_isort iv l)) in Hin. split; [apply Hv; exact Hin|apply max_end_ge; exact Hin]. }
  destruct (isort l) as [|c r] eqn:E.
  - symmetry. apply cnt_iv_false. reflexivity.
  - destruct Hs as [_ Hs]. destruct (Hv2 c (or_introl eq_refl)) as [Hc1 Hc2].
    rewrite (sweep_iv_correct r (fst c) (snd c) (max_end l)) by
      (try lia; try exact Hs; intros x Hx; apply Hv2; right; exact Hx).
    replace (fst c, snd c) with c by (destruct c; reflexivity).
    destruct (N.le_gt_cases (max_end l) (fst c)) as [Hle|Hgt].
    + rewrite (cnt_iv_empty _ (fst c)) by exact Hle.
      symmetry. apply cnt_iv_false. intros t Ht. apply covered_false. intros iv Hin Hc.
      assert (fst c <= fst iv). { destruct Hin as [->|Hin]; [lia|]. exact (sorted_iv_In _ _ _ Hs Hin). }
      lia.
    + rewrite (cnt_iv_split _ 0 (fst c) (max_end l)) by lia.
      rewrite (cnt_iv_false _ 0 (fst c)); [reflexivity|].
      intros t Ht. apply covered_false. intros iv Hin Hc.
      assert (fst c <= fst iv). { destruct Hin as [->|Hin]; [lia|]. exact (sorted_iv_In _ _ _ Hs Hin). }
      lia.
Qed.
