(** C34 — case evaluators for the correspondence check. *)
From Akita Require Import Lib.Base C34.Model C34.Spec.
Local Open Scope N_scope.

Record case := mk_case {
  c_nilf : bool;                       (* busy tracer built with a nil filter *)
  c_evs : list ev;                     (* the stream fed through the tracing API *)
  o_total : N;                         (* TotalTimeTracer.TotalTime() *)
  o_avg : N; o_count : N;              (* AverageTimeTracer.AverageTime(), TotalCount() *)
  o_busy : N;                          (* BusyTimeTracer.BusyTime() *)
  o_names : list N;                    (* TagCountTracer.GetTagNames() *)
  o_tags : list (N * N * N) }.         (* probes: (name, GetTagCount(name), GetTaskCount(name)) *)

(** model output = implementation output *)
Definition check_case (c : case) : bool :=
  let evs := c_evs c in
  let tcs := run tc_step tc_init evs in
  let ats := run at_step at_init evs in
  (total_time evs =? o_total c) &&
  (at_avg ats =? o_avg c) && (at_count ats =? o_count c) &&
  (busy_time (c_nilf c) evs =? o_busy c) &&
  listN_eqb (tc_names tcs) (o_names c) &&
  forallb (fun p => match p with (n, a, b) =>
             (cnt n (tc_tags tcs) =? a) && (cnt n (tc_tasks tcs) =? b) end) (o_tags c).

(** ---------------------------------------------------------------- the property
    evaluated on the observed outputs, from the declarative side only. *)
Definition force_pass (e : ev) : ev :=
  match e with EStart id t _ => EStart id t true | _ => e end.

(** split a trailing TerminateAllTasks off the stream *)
Definition split_term (evs : list ev) : list ev * option N :=
  match rev evs with
  | ETerm t :: r => (rev r, Some t)
  | _ => (evs, None)
  end.

Definition tag_names_h (h : list ev) : list N :=
  flat_map (fun e => match e with ETag _ n _ => [n] | _ => [] end) h.

Definition last_time (h : list ev) : N := match h with [] => 0 | e :: _ => ev_time e end.

Definition holds_on (c : case) : bool :=
  let (body, term) := split_term (c_evs c) in
  let h := rev body in
  if wf_h h && (match term with Some t => (last_time h <=? t) && (t <? two64) | None => true end) then
    let tasks := tasks_h h in
    let n := N.of_nat (length tasks) in
    let sum := sum_dur tasks in
    (* busy tracer: its own filter view *)
    let hb := if c_nilf c then map force_pass h else h in
    let btasks := tasks_h hb in
    let running := running_h hb (end_ids hb) in
    (if sum <? two64 then
       (o_total c =? sum) && (o_count c =? n) &&
       (o_avg c =? (if n =? 0 then 0 else sum / n))
     else true) &&
    (match term with
     | Some t => o_busy c =? union_len_fast (ivs_of btasks ++ map (fun x => (snd (fst x), t)) running)
     | None => match running with
               | [] => o_busy c =? union_len_fast (ivs_of btasks)
               | _ => true          (* tasks still running: the getter is only meaningful at quiescence *)
               end
     end) &&
    listN_eqb (o_names c) (rev (dedup (tag_names_h h))) &&
    forallb (fun p => match p with (name, a, b) =>
               (a =? tag_events name h) &&
               (b =? N.of_nat (length (dedup (carriers name h)))) end) (o_tags c)
  else true.
