(** C34 — the specification side: what the statistics MEAN, independent of the
    tracers.  Definitions only. *)
From Akita Require Import Lib.Base C34.Model.
Local Open Scope N_scope.

(** ---------------------------------------------------------------- streams *)
Definition start_ids (evs : list ev) : list N :=
  flat_map (fun e => match e with EStart id _ _ => [id] | _ => [] end) evs.
Definition end_ids (evs : list ev) : list N :=
  flat_map (fun e => match e with EEnd id _ => [id] | _ => [] end) evs.
Definition is_term (e : ev) : bool := match e with ETerm _ => true | _ => false end.

(** A well-formed stream "of task start/end events in time order": event times
    never decrease, every task ID is started at most once and ended at most once,
    and a task does not end before it started.  (Tags are unconstrained.) *)
Definition WF (evs : list ev) : Prop :=
  (forall pre a b post, evs = pre ++ a :: b :: post -> ev_time a <= ev_time b) /\
  NoDup (start_ids evs) /\ NoDup (end_ids evs) /\
  (forall pre id t post, evs = pre ++ EEnd id t :: post -> ~ In id (start_ids post)) /\
  (forall e, In e evs -> is_term e = false) /\
  (forall e, In e evs -> ev_time e < two64).

(** The filtered tasks of a stream that have completed: (id, start, end). *)
Definition is_task (evs : list ev) (id s e : N) : Prop :=
  In (EStart id s true) evs /\ In (EEnd id e) evs.

(** The filtered tasks still running at the end of the stream. *)
Definition is_running (evs : list ev) (id s : N) : Prop :=
  In (EStart id s true) evs /\ ~ In id (end_ids evs).

Definition sum_dur (l : list (N * N * N)) : N :=
  fold_right (fun x acc => (snd x - snd (fst x)) + acc) 0 l.

Definition ivs_of (l : list (N * N * N)) : list (N * N) :=
  map (fun x => (snd (fst x), snd x)) l.

(** ---------------------------------------------------------------- union length
    A unit instant [t] (the picosecond [t, t+1)) is covered when some interval
    [s, e) contains it; the length of the union is the number of covered instants. *)
Definition covered (ivs : list (N * N)) (t : N) : bool :=
  existsb (fun iv => (fst iv <=? t) && (t <? snd iv)) ivs.

Fixpoint count_in (P : N -> bool) (a : N) (n : nat) : N :=
  match n with
  | O => 0
  | S n' => (if P a then 1 else 0) + count_in P (a + 1) n'
  end.

Definition max_end (ivs : list (N * N)) : N :=
  fold_right (fun iv m => N.max (snd iv) m) 0 ivs.

Definition union_len (ivs : list (N * N)) : N :=
  count_in (covered ivs) 0 (N.to_nat (max_end ivs)).

(** An evaluator for [union_len] that does not enumerate instants: stable
    insertion sort by start, then one merge sweep.  Proved equal to [union_len]
    for intervals with start <= end ([union_len_fast_correct]). *)
Fixpoint insert_iv (x : N * N) (l : list (N * N)) : list (N * N) :=
  match l with
  | [] => [x]
  | y :: r => if fst x <=? fst y then x :: l else y :: insert_iv x r
  end.
Definition isort (l : list (N * N)) : list (N * N) := fold_right insert_iv [] l.

Fixpoint sweep_iv (s e : N) (l : list (N * N)) : N :=
  match l with
  | [] => e - s
  | iv :: r => if fst iv <=? e then sweep_iv s (N.max e (snd iv)) r
               else (e - s) + sweep_iv (fst iv) (snd iv) r
  end.

Definition union_len_fast (ivs : list (N * N)) : N :=
  match isort ivs with
  | [] => 0
  | iv :: r => sweep_iv (fst iv) (snd iv) r
  end.

(** ---------------------------------------------------------------- enumeration
    of the completed tasks of a history given NEWEST FIRST ([rev evs]); used by
    the proofs and by the case evaluator. *)
Fixpoint find_start (id : N) (h : list ev) : option N :=
  match h with
  | [] => None
  | EStart id' t true :: r => if id' =? id then Some t else find_start id r
  | _ :: r => find_start id r
  end.

Fixpoint tasks_h (h : list ev) : list (N * N * N) :=
  match h with
  | [] => []
  | EEnd id e :: r =>
      match find_start id r with
      | Some s => (id, s, e) :: tasks_h r
      | None => tasks_h r
      end
  | _ :: r => tasks_h r
  end.

Definition tracked (id : N) (h : list ev) : bool :=
  match find_start id h with Some _ => negb (memN id (end_ids h)) | None => false end.

(** running filtered tasks of a history (newest first) *)
Fixpoint running_h (h : list ev) (ended : list N) : list (N * N * N) :=
  match h with
  | [] => []
  | EStart id t true :: r =>
      if memN id ended then running_h r ended else (id, t, 0) :: running_h r ended
  | _ :: r => running_h r ended
  end.

(** tag statistics *)
Fixpoint tag_events (name : N) (h : list ev) : N :=
  match h with
  | [] => 0
  | ETag _ n _ :: r => (if n =? name then 1 else 0) + tag_events name r
  | _ :: r => tag_events name r
  end.

(** the tracked tasks that received a tag called [name] (with repetitions) *)
Fixpoint carriers (name : N) (h : list ev) : list N :=
  match h with
  | [] => []
  | ETag task n _ :: r =>
      if (n =? name) && tracked task r then task :: carriers name r else carriers name r
  | _ :: r => carriers name r
  end.

Fixpoint dedup (l : list N) : list N :=
  match l with
  | [] => []
  | x :: r => if memN x r then dedup r else x :: dedup r
  end.

(** ---------------------------------------------------------------- decidable WF *)
Fixpoint wf_h (h : list ev) : bool :=
  match h with
  | [] => true
  | e :: r =>
      wf_h r &&
      negb (is_term e) && (ev_time e <? two64) &&
      (match r with [] => true | p :: _ => ev_time p <=? ev_time e end) &&
      (match e with
       | EStart id _ _ => negb (memN id (start_ids r)) && negb (memN id (end_ids r))
       | EEnd id _ => negb (memN id (end_ids r))
       | _ => true
       end)
  end.
