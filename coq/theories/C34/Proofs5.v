(** C34 — proofs, part 5: the statements over streams in program order. *)
From Akita Require Import Lib.Base C34.Model C34.Spec C34.Proofs1 C34.Proofs2 C34.Proofs3 C34.Proofs4.
From Coq Require Import Permutation.
Local Open Scope N_scope.

Lemma total_sum evs L : WF evs -> NoDup L ->
  (forall id s e, In (id, s, e) L <-> is_task evs id s e) -> sum_dur L < two64 ->
  total_time evs = sum_dur L.
Proof.
  intros Hwf Hnd HL Hfit. unfold total_time. rewrite run_runh.
  rewrite (total_time_h _ (WF_wf_h evs Hwf)).
  rewrite <- (sum_dur_perm _ _ (task_list_perm evs L Hwf Hnd HL)). apply w64_small. exact Hfit.
Qed.

Lemma average_floor evs L : WF evs -> NoDup L ->
  (forall id s e, In (id, s, e) L <-> is_task evs id s e) -> sum_dur L < two64 ->
  task_count evs = N.of_nat (length L) /\
  average_time evs = (if N.of_nat (length L) =? 0 then 0 else sum_dur L / N.of_nat (length L)).
Proof.
  intros Hwf Hnd HL Hfit. unfold task_count, average_time. rewrite run_runh.
  pose proof (task_list_perm evs L Hwf Hnd HL) as Hp.
  rewrite (Permutation_length Hp), (sum_dur_perm _ _ Hp) in *.
  apply average_time_h; [apply WF_wf_h; exact Hwf|exact Hfit].
Qed.

Lemma perm_ivs_In evs L : WF evs -> NoDup L ->
  (forall id s e, In (id, s, e) L <-> is_task evs id s e) ->
  forall iv, In iv (ivs_of L) <-> In iv (civs (rev evs)).
Proof.
  intros Hwf Hnd HL iv. pose proof (task_list_perm evs L Hwf Hnd HL) as Hp.
  unfold civs. rewrite !ivs_of_In. split; intros [id Hin]; exists id.
  - eapply Permutation_in; [exact Hp|exact Hin].
  - eapply Permutation_in; [apply Permutation_sym; exact Hp|exact Hin].
Qed.

Lemma busy_union evs L : WF evs -> NoDup L ->
  (forall id s e, In (id, s, e) L <-> is_task evs id s e) ->
  (forall id s, ~ is_running evs id s) ->
  busy_time false evs = union_len (ivs_of L).
Proof.
  intros Hwf Hnd HL Hq. unfold busy_time. rewrite run_runh.
  rewrite busy_quiescent_h.
  - apply union_len_ext. intro iv. symmetry. apply perm_ivs_In; assumption.
  - apply WF_wf_h. exact Hwf.
  - intros id s Hfs. apply find_start_In in Hfs. apply (proj1 (in_rev_iff _ _)) in Hfs.
    destruct (in_dec N.eq_dec id (end_ids (rev evs))) as [Hin|Hni]; [exact Hin|exfalso].
    apply (Hq id s). split; [exact Hfs|]. intro H. apply Hni. apply end_ids_rev_In. exact H.
Qed.

Lemma now_h_rev_le evs now : (forall e, In e evs -> ev_time e <= now) -> now_h (rev evs) <= now.
Proof.
  intro H. destruct (rev evs) as [|x r] eqn:E; cbn [now_h]; [lia|].
  apply H. apply in_rev_iff. rewrite E. left. reflexivity.
Qed.

Lemma run_ivs_In now h iv : NoDup (start_ids h) ->
  (In iv (run_ivs now h) <->
   exists id s, In (EStart id s true) h /\ ~ In id (end_ids h) /\ iv = (s, now)).
Proof.
  intro Hnd. unfold run_ivs. rewrite in_map_iff. split.
  - intros [[[id s] z] [<- Hin]]. apply running_h_In in Hin. destruct Hin as [H1 [H2 _]].
    exists id, s. cbn [fst snd]. repeat split; auto. apply memN_false. exact H2.
  - intros [id [s [H1 [H2 ->]]]]. exists (id, s, 0). split; [reflexivity|].
    apply running_h_In. repeat split; auto. apply memN_false. exact H2.
Qed.

Lemma busy_terminate evs now L R : WF evs ->
  (forall e, In e evs -> ev_time e <= now) -> now < two64 -> NoDup L ->
  (forall id s e, In (id, s, e) L <-> is_task evs id s e) ->
  (forall id s, In (id, s) R <-> is_running evs id s) ->
  busy_time false (evs ++ [ETerm now]) = union_len (ivs_of L ++ map (fun x => (snd x, now)) R).
Proof.
  intros Hwf Hnow Hb Hnd HL HR. unfold busy_time. rewrite run_runh, rev_unit.
  pose proof (WF_wf_h evs Hwf) as Hh.
  rewrite busy_terminate_h by (try assumption; apply now_h_rev_le; exact Hnow).
  apply union_len_ext. intro iv. rewrite !in_app_iff.
  rewrite <- (perm_ivs_In evs L Hwf Hnd HL iv).
  apply or_iff_compat_l.
  rewrite (run_ivs_In now _ iv (wf_h_nodup_starts _ Hh)), in_map_iff. split.
  - intros [id [s [H1 [H2 ->]]]]. exists (id, s). split; [reflexivity|].
    apply HR. split; [apply in_rev_iff; exact H1|]. intro H. apply H2. apply end_ids_rev_In. exact H.
  - intros [[id s] [<- Hin]]. apply HR in Hin. destruct Hin as [H1 H2].
    exists id, s. cbn [snd]. repeat split; [apply in_rev_iff; exact H1|].
    intro H. apply H2. apply end_ids_rev_In. exact H.
Qed.

(** tags *)
Definition carried (evs : list ev) (task name : N) : Prop :=
  exists pre t post s, evs = pre ++ ETag task name t :: post /\
    In (EStart task s true) pre /\ ~ In task (end_ids pre).

Lemma carriers_carried evs task name : WF evs ->
  (In task (carriers name (rev evs)) <-> carried evs task name).
Proof.
  intro Hwf. rewrite (carriers_In name (rev evs) task (WF_wf_h evs Hwf)). unfold carried. split.
  - intros [h1 [t [h2 [s [Heq [Hs He]]]]]]. exists (rev h2), t, (rev h1), s. repeat split.
    + rewrite <- (rev_involutive evs), Heq, rev_app_distr. cbn [rev]. rewrite <- app_assoc. reflexivity.
    + apply in_rev_iff. exact Hs.
    + intro H. apply He. apply (proj1 (end_ids_rev_In _ _)) in H. exact H.
  - intros [pre [t [post [s [-> [Hs He]]]]]]. exists (rev post), t, (rev pre), s. repeat split.
    + rewrite rev_app_distr. cbn [rev]. rewrite <- app_assoc. reflexivity.
    + apply in_rev_iff. exact Hs.
    + intro H. apply He. apply end_ids_rev_In. exact H.
Qed.

Lemma tag_counts evs name :
  tag_count evs name = w64 (tag_events name evs) /\
  (WF evs -> forall D, NoDup D -> (forall task, In task D <-> carried evs task name) ->
   tag_task_count evs name = w64 (N.of_nat (length D))).
Proof.
  unfold tag_count, tag_task_count. rewrite run_runh. split.
  - destruct (tc_tags_h (rev evs)) as [Hc _]. rewrite Hc, tag_events_rev. reflexivity.
  - intros Hwf D Hnd HD. destruct (tc_inv_holds (rev evs) (WF_wf_h evs Hwf)) as [_ Hc].
    rewrite Hc. do 2 f_equal. apply Permutation_length. apply NoDup_Permutation.
    + apply dedup_nodup.
    + exact Hnd.
    + intro task. rewrite dedup_In, (carriers_carried evs task name Hwf), HD. reflexivity.
Qed.

Lemma tag_names_spec evs :
  NoDup (tag_names evs) /\ forall n, In n (tag_names evs) <-> exists task t, In (ETag task n t) evs.
Proof.
  unfold tag_names. rewrite run_runh. destruct (tc_tags_h (rev evs)) as [_ [_ ->]]. split.
  - apply NoDup_rev. apply dedup_nodup.
  - intro n. rewrite in_rev_iff, dedup_In. unfold tag_names_h. rewrite in_flat_map. split.
    + intros [e [He Hin]]. destruct e; cbn in Hin; try contradiction. destruct Hin as [<-|[]].
      apply (proj1 (in_rev_iff _ _)) in He. eauto.
    + intros [task [t Hin]]. exists (ETag task n t). split; [apply in_rev_iff; exact Hin|left; reflexivity].
Qed.
