(** C21 — reorder buffers release responses in arrival order.  Property theorems only.

    Setting: [env_run (rob_init size width tcap bcap ccap) script] is the reorder buffer driven for
    any number of ticks by ANY environment script: at each instant any requests arrive at Top,
    the lower unit delivers any responses at Bottom (any order, any delay, duplicates, wrong
    kind, unknown RspTo, foreign message types), any control messages arrive at Control
    (Pause, Drain, Enable, Reset, unsupported verbs, foreign messages — any number, any time),
    the component may go through a checkpoint save/load round trip, any number of messages
    are drained from the three ports (back-pressure).  [obs] are the messages drained per tick;
    [r] is the final state.
    Ghosts: [g_acc r] = the accepted requests with their shadow ids, in acceptance order, minus
    those a Reset discarded (a Reset forgets the requests accepted but not yet answered; they
    are never answered — their table entries are gone and late results are dropped — and the
    statements below hold for everything accepted before and after the Reset). *)
From Akita Require Import Lib.Base C21.Model C21.Proofs C21.Proofs2 C21.Proofs3 C21.Proofs4.
Local Open Scope N_scope.

Definition top_traffic (r : rob) (obs : list tick_obs) : list trsp := flat_map to_top obs ++ r_top_out r.
Definition bot_traffic (r : rob) (obs : list tick_obs) : list sreq := flat_map to_bot obs ++ r_bot_out r.

Definition rsp_meta (x : trsp) : N * N * bool :=
  match x with TData _ dst rspto _ _ => (dst, rspto, true) | TDone _ dst rspto _ => (dst, rspto, false) end.

Lemma run_good size width tc bc cc script r obs :
  env_run (rob_init size width tc bc cc) script = (r, obs) ->
  inv r /\ map fst (g_rel r) = top_traffic r obs /\ g_shadow r = bot_traffic r obs.
Proof.
  intro E.
  assert (G0 : good [] [] (rob_init size width tc bc cc) (rob_init size width tc bc cc)).
  { split; [apply inv_init|split; [split; reflexivity|repeat split]]. }
  destruct (env_run_good _ script [] [] _ r obs G0 E) as [I [[H1 H2] _]]. cbn [app] in H1, H2.
  split; [exact I|split; assumption].
Qed.

(** In order: the k-th response the ROB ever puts on its Top port answers the k-th request it
    accepted — whatever order the lower unit completed them in.  Equivalently the sequence of
    (destination, RspTo, kind) of all Top responses is a prefix of the sequence of
    (source, ID, kind) of the accepted requests. *)
Theorem c21_in_order : forall size width tc bc cc script r obs,
  env_run (rob_init size width tc bc cc) script = (r, obs) ->
  exists pending,
    map (fun a => (q_src (fst a), q_id (fst a), q_is_read (fst a))) (g_acc r) =
    map rsp_meta (top_traffic r obs) ++ pending /\
    length pending = length (r_trans r).
Proof.
  intros size width tc bc cc script r obs E. destruct (run_good _ _ _ _ _ _ _ _ E) as [I [H1 _]].
  exists (map (fun t => (t_top_src t, t_top_id t, t_is_read t)) (r_trans r)).
  split; [|apply map_length].
  rewrite <- H1.
  assert (K : map (fun a => (q_src (fst a), q_id (fst a), q_is_read (fst a))) (g_acc r) =
              map (fun t => (t_top_src t, t_top_id t, t_is_read t)) (map snd (g_rel r) ++ r_trans r)).
  { pose proof (f_equal (map (fun k : N * N * N * bool => let '(a, b, _, d) := k in (b, a, d))) (i_order r I)) as K.
    rewrite !map_map in K. exact K. }
  rewrite K, map_app. f_equal. rewrite !map_map.
  apply map_ext_in. intros [rsp t] Hin. cbn [fst snd].
  pose proof (proj1 (Forall_forall _ _) (i_rel r I) _ Hin) as A. cbn in A. destruct A as [_ A].
  destruct rsp; cbn [rsp_meta].
  - destruct A as [A1 [A2 [A3 _]]]. subst. rewrite A1. reflexivity.
  - destruct A as [A1 [A2 [A3 _]]]. subst. rewrite A1. reflexivity.
Qed.
Print Assumptions c21_in_order.

(** Original requester and ID: the k-th Top response is sent to the source of the k-th
    accepted request, with RspTo = that request's ID, and is a DataReady for a read and a
    WriteDone for a write. *)
Theorem c21_original_requester_and_id : forall size width tc bc cc script r obs k rsp,
  env_run (rob_init size width tc bc cc) script = (r, obs) ->
  nth_error (top_traffic r obs) k = Some rsp ->
  exists q sid, nth_error (g_acc r) k = Some (q, sid) /\
    rsp_meta rsp = (q_src q, q_id q, q_is_read q).
Proof.
  intros size width tc bc cc script r obs k rsp E Hk. destruct (run_good _ _ _ _ _ _ _ _ E) as [I [H1 _]].
  rewrite <- H1 in Hk. destruct (kth_answer r k rsp I Hk) as [q [sid [t [Ha [Hkey [A _]]]]]].
  exists q, sid. split; [exact Ha|]. unfold akey, tkey in Hkey. cbn [fst snd] in Hkey. inversion Hkey as [[K1 K2 K3 K4]].
  cbn in A. destruct A as [_ A]. destruct rsp; cbn [rsp_meta].
  - destruct A as [A1 [A2 [A3 _]]]. congruence.
  - destruct A as [A1 [A2 [A3 _]]]. congruence.
Qed.
Print Assumptions c21_original_requester_and_id.

(** Matching result: for the k-th Top response there is the k-th accepted request [q] with
    shadow id [sid]; the ROB sent [q]'s payload under that id to the lower unit; the ROB recorded a non-empty list [answers] of lower-unit responses for it, every
    one of them carrying RspTo = [sid]; and a read response carries exactly the data of the
    last DataReady among them (with TrafficBytes = len + 4). *)
Theorem c21_matching_result : forall size width tc bc cc script r obs k rsp,
  env_run (rob_init size width tc bc cc) script = (r, obs) ->
  nth_error (top_traffic r obs) k = Some rsp ->
  exists q sid answers,
    nth_error (g_acc r) k = Some (q, sid) /\
    In (shadow_of q sid) (bot_traffic r obs) /\
    answers <> [] /\ (forall b, In b answers -> b_rspto b = Some sid) /\
    match rsp with
    | TData _ _ _ data tb => data = last_data answers /\ tb = (Z.of_nat (length data) + 4)%Z
    | TDone _ _ _ tb => tb = 4%Z
    end.
Proof.
  intros size width tc bc cc script r obs k rsp E Hk. destruct (run_good _ _ _ _ _ _ _ _ E) as [I [H1 H2]].
  rewrite <- H1 in Hk. destruct (kth_answer r k rsp I Hk) as [q [sid [t [Ha [Hkey [A [[O1 [O2 O3]] Hs]]]]]]].
  unfold akey, tkey in Hkey. cbn [fst snd] in Hkey. inversion Hkey as [[K1 K2 K3 K4]].
  exists q, sid, (t_parsed t). split; [exact Ha|]. split; [rewrite <- H2; exact Hs|].
  cbn in A. destruct A as [Hh A].
  split; [apply O1; exact Hh|]. split; [intros b Hb; rewrite K3; apply O2; exact Hb|].
  destruct rsp.
  - destruct A as [_ [_ [_ [A4 A5]]]]. split; [rewrite A4; exact O3|exact A5].
  - destruct A as [_ [_ [_ A4]]]. exact A4.
Qed.
Print Assumptions c21_matching_result.

(** Routing of lower-unit responses: in any reachable state, when parseBottom takes a response
    whose RspTo is the shadow id of a live transaction, it is recorded on that transaction
    (shadow ids of live transactions are pairwise distinct) and on no other. *)
Theorem c21_response_routing : forall size width tc bc cc script r obs b rest id t,
  env_run (rob_init size width tc bc cc) script = (r, obs) ->
  r_bot_in r = b :: rest -> b_rspto b = Some id -> In t (r_trans r) -> t_bot_id t = id ->
  let r' := snd (parse_bottom r) in
  In (mk_trans (t_top_id t) (t_top_src t) (t_bot_id t) (t_is_read t) true
               (match b with BData _ d => d | _ => t_data t end) (t_parsed t ++ [b])) (r_trans r') /\
  (forall u, In u (r_trans r) -> t_bot_id u <> id -> In u (r_trans r')) /\
  NoDup (map t_bot_id (r_trans r)).
Proof.
  intros size width tc bc cc script r obs b rest id t E Hb Hid Hin Ht r'.
  destruct (run_good _ _ _ _ _ _ _ _ E) as [I _].
  subst r'. unfold parse_bottom. rewrite Hb, Hid. cbn [snd upd_ports r_trans].
  destruct (record_rsp_routes b id (r_trans r) t (i_nodup r I) Hin Ht) as [A B].
  split; [exact A|split; [exact B|apply (i_nodup r I)]].
Qed.
Print Assumptions c21_response_routing.

(** Link to the implementation: when the correspondence check succeeds on a case, the responses
    OBSERVED on the real component's Top port (o_ticks c), followed by what is still queued in
    the model, answer the accepted requests in acceptance order with the original requester,
    ID and kind — i.e. c21_in_order speaks about the implementation's own port traffic. *)
From Akita Require Import C21.Exec C21.Link.
Theorem c21_model_agreement_implies_property : forall c, check_case c = true ->
  exists r pending,
    fst (env_run (rob_init (c_size c) (c_width c) (c_tcap c) (c_bcap c) (c_ccap c)) (c_script c)) = r /\
    map (fun a => (q_src (fst a), q_id (fst a), q_is_read (fst a))) (g_acc r) =
    map rsp_meta (flat_map to_top (o_ticks c) ++ r_top_out r) ++ pending.
Proof.
  intros c H. pose proof (check_case_obs c H) as Hobs.
  destruct (env_run (rob_init (c_size c) (c_width c) (c_tcap c) (c_bcap c) (c_ccap c)) (c_script c)) as [r obs] eqn:E.
  cbn [snd] in Hobs. subst obs.
  destruct (c21_in_order _ _ _ _ _ _ _ _ E) as [pending [Hp _]].
  exists r, pending. split; [reflexivity|exact Hp].
Qed.
Print Assumptions c21_model_agreement_implies_property.

(** Non-vacuity: four requests, answered youngest first; the responses come out oldest first,
    each with its own data. *)
Definition demo_script : list instant :=
  [mk_instant false [QRead 10 0 0 4 0 12; QWrite 11 1 64 [9] [] 0 13] [] [] 4 4 2;
   mk_instant false [QRead 12 2 128 4 0 12] [] [] 4 4 2;
   mk_instant true [] [BData 2 [102; 7]] [] 4 4 2; mk_instant false [] [BDone 1] [] 4 4 2;
   mk_instant false [] [BData 0 [100; 7]] [] 4 4 2;
   mk_instant false [] [] [] 4 4 2; mk_instant false [] [] [] 4 4 2].

Example c21_nonvacuous :
  match env_run (rob_init 4 2 4 4 2) demo_script with
  | (r, obs) =>
      top_traffic r obs = [TData 3 0 10 [100; 7] 6; TDone 4 1 11 4; TData 5 2 12 [102; 7] 6] /\
      map snd (g_acc r) = [0; 1; 2] /\ r_trans r = []
  end.
Proof. vm_compute. repeat split. Qed.

(** Non-vacuity across a Reset: A, B, C accepted, B completed (parked behind the head), Reset,
    then D, E, F; the lower unit completes only D.  Nothing is answered for A, B, C; D is
    answered with its own data; E and F stay in the table (E is NOT answered with B's data). *)
Definition reset_script : list instant :=
  [mk_instant false [QRead 20 0 0 4 0 12; QRead 21 1 64 4 0 12] [] [] 4 4 2;
   mk_instant false [QRead 22 2 128 4 0 12] [] [] 4 4 2;
   mk_instant false [] [BData 1 [187; 187]] [] 4 4 2;
   mk_instant false [] [] [CReq 7000 0 3] 4 4 2;
   mk_instant false [QRead 23 0 192 4 0 12; QRead 24 1 256 4 0 12] [] [] 4 4 2;
   mk_instant false [QRead 25 2 320 4 0 12] [] [] 4 4 2;
   mk_instant false [] [BData 4 [208]] [] 4 4 2;
   mk_instant false [] [] [] 4 4 2; mk_instant false [] [] [] 4 4 2].

Example c21_nonvacuous_reset :
  match env_run (rob_init 8 2 4 4 2) reset_script with
  | (r, obs) =>
      top_traffic r obs = [TData 7 0 23 [208] 5] /\
      flat_map to_ctl obs = [mk_crsp 3 0 7000 3 true] /\
      map (fun a => q_id (fst a)) (g_acc r) = [23; 24; 25] /\ length (r_trans r) = 2%nat
  end.
Proof. vm_compute. repeat split. Qed.

(** ---------------------------------------------------------------------------------------
    The control verbs.  [tick] services the Control port first (processControlMsg) and runs the
    pipeline only while Enabled (0) or Draining (3); Paused is 2.  [data_view] is the whole data
    path (table, the four port buffers, the ghosts), [accept_view] the part acceptance touches
    (accepted list, Top incoming buffer, shadow requests sent, Bottom outgoing buffer). *)

(** Pause stops acceptance and release exactly as coded: a Tick that ends in Paused — the Pause
    was handled in this very Tick, or the component was already Paused and no Enable/Reset was
    handled — leaves the table and all four data-port buffers untouched: nothing is accepted,
    recorded or released.  (Holds for every state, reachable or not.) *)
Theorem c21_pause_freezes : forall r p r',
  tick r = (p, r') -> r_cstate r' = 2 -> data_view r' = data_view r.
Proof. exact pause_freezes. Qed.
Print Assumptions c21_pause_freezes.

(** While not Enabled (Paused, or Draining after a Drain was accepted) no request is accepted
    and no shadow request is sent; while Draining the release side keeps running. *)
Theorem c21_no_acceptance_unless_enabled : forall r p r',
  tick r = (p, r') -> r_cstate r' <> 0 -> accept_view r' = accept_view r.
Proof. exact draining_no_accept. Qed.
Print Assumptions c21_no_acceptance_unless_enabled.

(** Drain: the command is taken silently (state Draining, requester and ID remembered, no
    response); in every reachable state a Tick emits at most one control response, and a Drain
    acknowledgement (Command = Drain) is emitted only from Draining with an EMPTY transaction
    table — then every accepted request that was not reset away has been answered —, goes to
    the remembered requester with RspTo = the remembered ID, reports success and leaves the
    component Paused. *)
Theorem c21_drain_ack_only_when_empty : forall size width tc bc cc script r obs,
  env_run (rob_init size width tc bc cc) script = (r, obs) ->
  (forall id src rest, r_cstate r <> 3 -> r_ctl_in r = CReq id src 1 :: rest ->
     exists rc, process_control r = (true, rc) /\ r_cstate rc = 3 /\ r_cmd_id rc = id /\ r_cmd_src rc = src /\
                r_ctl_out rc = r_ctl_out r /\ r_ctl_in rc = rest /\ data_view rc = data_view r) /\
  (forall p r', tick r = (p, r') ->
     r_ctl_out r' = r_ctl_out r \/
     exists c, r_ctl_out r' = r_ctl_out r ++ [c] /\
       (cr_cmd c = 1 -> r_cstate r = 3 /\ r_trans r = [] /\ r_trans r' = [] /\ r_cstate r' = 2 /\ cr_ok c = true /\
                        cr_rspto c = r_cmd_id r /\ cr_dst c = r_cmd_src r /\
                        length (g_rel r) = length (g_acc r))).
Proof.
  intros size width tc bc cc script r obs E. destruct (run_good _ _ _ _ _ _ _ _ E) as [I _]. split.
  - intros id src rest. apply drain_accept.
  - intros p r'. apply tick_replies. exact I.
Qed.
Print Assumptions c21_drain_ack_only_when_empty.

(** Reset discards exactly what the code discards: in a reachable state whose Control head is a
    Reset that can be answered, processControlMsg empties the table and the Top and Bottom
    INCOMING buffers, leaves the outgoing buffers and everything already released alone, lands
    in Enabled, and the accepted requests that are forgotten are exactly the entries of the
    table (same requester, ID, shadow id and kind, in order). *)
Theorem c21_reset_discards_exactly : forall size width tc bc cc script r obs,
  env_run (rob_init size width tc bc cc) script = (r, obs) -> is_reset r ->
  exists rc, process_control r = (true, rc) /\
    r_trans rc = [] /\ r_top_in rc = [] /\ r_bot_in rc = [] /\ r_cstate rc = 0 /\
    r_top_out rc = r_top_out r /\ r_bot_out rc = r_bot_out r /\ g_rel rc = g_rel r /\
    r_next_id rc = r_next_id r + 1 /\
    g_acc r = g_acc rc ++ skipn (length (g_rel r)) (g_acc r) /\
    length (g_acc rc) = length (g_rel r) /\
    map akey (skipn (length (g_rel r)) (g_acc r)) = map tkey (r_trans r).
Proof.
  intros size width tc bc cc script r obs E. destruct (run_good _ _ _ _ _ _ _ _ E) as [I _]. apply reset_discards. exact I.
Qed.
Print Assumptions c21_reset_discards_exactly.

(** The epoch opened by a Reset.  A Reset is executed by the Tick of instant [i] of ANY history
    (state [delivered r i] when that Tick starts); [r2] is the state after ANY continuation
    (more resets included).  Then the responses [more] released after the Reset (a) never
    belong to a discarded transaction (their shadow ids differ from every discarded one),
    (b) each answers its own transaction — original requester, ID, kind, the data of the last
    DataReady the lower unit returned for that transaction's shadow id —, and (c) are, in
    order, the answers to the requests accepted after the Reset (shadow ids generated after
    it) that no later Reset discarded, followed by the requests still in the table. *)
Theorem c21_reset_epoch : forall size width tc bc cc pre r obs0 i r' ob script r2 obs,
  env_run (rob_init size width tc bc cc) pre = (r, obs0) ->
  env_step r i = (r', ob) -> is_reset (delivered r i) ->
  env_run r' script = (r2, obs) ->
  let r0 := delivered r i in
  exists more,
    g_rel r2 = g_rel r0 ++ more /\
    (forall x t, In x more -> In t (r_trans r0) -> t_bot_id (snd x) <> t_bot_id t) /\
    Forall rsp_answers more /\ Forall trans_ok (map snd more) /\
    map akey (skipn (length (g_rel r0)) (g_acc r2)) = map tkey (map snd more ++ r_trans r2) /\
    (forall a, In a (skipn (length (g_rel r0)) (g_acc r2)) -> r_next_id r0 < snd a).
Proof. exact reset_epoch. Qed.
Print Assumptions c21_reset_epoch.

(** Non-vacuity of the control theorems: A and B accepted; Drain taken; B completes first and is
    parked, then A; both are released in order in the next tick; only in the tick after that the Drain acknowledgement (to requester 1,
    RspTo 7100) appears and the component is Paused; a request arriving while Paused stays in the
    Top buffer for two ticks (frozen); Enable; it is accepted. *)
Definition control_script : list instant :=
  [mk_instant false [QRead 30 0 0 4 0 12; QRead 31 1 64 4 0 12] [] [] 4 4 2;
   mk_instant false [] [] [CReq 7100 1 1] 4 4 2;
   mk_instant false [QRead 32 0 128 4 0 12] [BData 1 [2]] [] 4 4 2;
   mk_instant false [] [BData 0 [1]] [] 4 4 2;
   mk_instant false [] [] [] 4 4 2;
   mk_instant false [] [] [] 4 4 2;
   mk_instant false [] [] [] 4 4 2;
   mk_instant false [] [] [CReq 7101 1 2] 4 4 2;
   mk_instant false [] [] [] 4 4 2].

Example c21_nonvacuous_control :
  match env_run (rob_init 4 2 4 4 2) control_script with
  | (r, obs) =>
      map to_cstate obs = [0; 3; 3; 3; 3; 2; 2; 0; 0] /\
      map to_top obs = [[]; []; []; []; [TData 2 0 30 [1] 5; TData 3 1 31 [2] 5]; []; []; []; []] /\
      map to_ctl obs = [[]; []; []; []; []; [mk_crsp 4 1 7100 1 true]; []; [mk_crsp 5 1 7101 2 true]; []] /\
      map to_ntrans obs = [2; 2; 2; 2; 0; 0; 0; 1; 1] /\
      map (fun a => q_id (fst a)) (g_acc r) = [30; 31; 32]
  end.
Proof. vm_compute. repeat split. Qed.

(** ... and the hypotheses of c21_reset_epoch are met by the Reset of [reset_script]. *)
Example c21_nonvacuous_reset_epoch :
  let r := fst (env_run (rob_init 8 2 4 4 2) (firstn 3 reset_script)) in
  let i := nth 3 reset_script (mk_instant false [] [] [] 0 0 0) in
  is_reset (delivered r i) /\ length (r_trans (delivered r i)) = 3%nat.
Proof.
  split; [split; [vm_compute; discriminate|split; [vm_compute; reflexivity|]]|vm_compute; reflexivity].
  exists 7000, 0, []. vm_compute. reflexivity.
Qed.
