(** C21 — proofs, part 2: width loops, Tick, the scripted environment, and the k-th answer. *)
From Akita Require Import Lib.Base C21.Model C21.Proofs.
Local Open Scope N_scope.

Definition good (dt : list trsp) (db : list sreq) (r0 r : rob) : Prop :=
  inv r /\ hist dt db r /\ same_cfg r0 r.

Lemma same_cfg_trans a b c : same_cfg a b -> same_cfg b c -> same_cfg a c.
Proof. unfold same_cfg. intros (A1&A2&A3&A4) (B1&B2&B3&B4). repeat split; congruence. Qed.

Lemma stage_loop_good f dt db r0 :
  (forall r ok r', inv r -> hist dt db r -> f r = (ok, r') -> inv r' /\ hist dt db r' /\ same_cfg r r') ->
  forall n r ok r', good dt db r0 r -> stage_loop f n r = (ok, r') -> good dt db r0 r'.
Proof.
  intros Hf. induction n as [|k IH]; intros r ok r' G; cbn [stage_loop].
  - intro E. inversion E; subst. exact G.
  - destruct (f r) as [b r1] eqn:F. destruct G as [I [H C]].
    destruct (Hf r b r1 I H F) as [I1 [H1 C1]].
    assert (G1 : good dt db r0 r1) by (split; [exact I1|split; [exact H1|eapply same_cfg_trans; eassumption]]).
    destruct b.
    + destruct (stage_loop f k r1) as [b2 r2] eqn:S. intro E. inversion E; subst. apply (IH r1 b2 r' G1 S).
    + intro E. inversion E; subst. exact G1.
Qed.

Lemma pipeline_good dt db r0 r p r' : good dt db r0 r -> pipeline r = (p, r') -> good dt db r0 r'.
Proof.
  intros G. unfold pipeline.
  destruct (stage_loop bottom_up (Z.to_nat (r_width r)) r) as [p1 r1] eqn:S1.
  destruct (stage_loop parse_bottom (Z.to_nat (r_width r)) r1) as [p2 r2] eqn:S2.
  destruct (stage_loop top_down (Z.to_nat (r_width r)) r2) as [p3 r3] eqn:S3.
  intro E. inversion E; subst.
  pose proof (stage_loop_good bottom_up dt db r0 (fun a b c => bottom_up_inv a b c dt db) _ _ _ _ G S1) as G1.
  pose proof (stage_loop_good parse_bottom dt db r0 (fun a b c => parse_bottom_inv a b c dt db) _ _ _ _ G1 S2) as G2.
  apply (stage_loop_good top_down dt db r0 (fun a b c => top_down_inv a b c dt db) _ _ _ _ G2 S3).
Qed.

Lemma tick_good dt db r0 r p r' : good dt db r0 r -> tick r = (p, r') -> good dt db r0 r'.
Proof.
  intros [I [H C]]. unfold tick.
  destruct (process_control r) as [p0 rc] eqn:PC.
  destruct (process_control_inv r p0 rc dt db I H PC) as [I1 [H1 C1]].
  assert (G1 : good dt db r0 rc) by (split; [exact I1|split; [exact H1|eapply same_cfg_trans; eassumption]]).
  destruct ((r_cstate rc =? 0) || (r_cstate rc =? 3)).
  - destruct (pipeline rc) as [pp r1] eqn:PL. intro E. inversion E; subst. apply (pipeline_good dt db r0 rc pp r' G1 PL).
  - intro E. inversion E; subst. exact G1.
Qed.

(** changing only the incoming buffers keeps everything *)
Lemma set_in_good dt db r0 r ti bi : good dt db r0 r ->
  good dt db r0 (upd_ports r (r_next_id r) (r_trans r) ti (r_top_out r) bi (r_bot_out r) (g_acc r) (g_rel r) (g_shadow r)).
Proof.
  intros [I [[H1 H2] C]]. split; [|split; [split; assumption|exact C]].
  constructor; unfold upd_ports; cbn [g_acc g_rel r_trans r_next_id g_shadow];
    [apply (i_order r I)|apply (i_rel r I)|apply (i_ok r I)|apply (i_fresh r I)|apply (i_nodup r I)|apply (i_shadow r I)].
Qed.

Lemma deliver_top_good dt db r0 qs : forall r, good dt db r0 r -> good dt db r0 (deliver_top r qs).
Proof.
  unfold deliver_top. induction qs as [|q rest IH]; intros r G; cbn [fold_left]; [exact G|].
  destruct (N.of_nat (length (r_top_in r)) <? r_top_cap r); [|apply IH; exact G].
  apply IH. apply set_in_good. exact G.
Qed.

Lemma deliver_bot_good dt db r0 bs : forall r, good dt db r0 r -> good dt db r0 (deliver_bot r bs).
Proof.
  unfold deliver_bot. induction bs as [|b rest IH]; intros r G; cbn [fold_left]; [exact G|].
  destruct (N.of_nat (length (r_bot_in r)) <? r_bot_cap r); [|apply IH; exact G].
  apply IH. apply set_in_good. exact G.
Qed.

Lemma deliver_ctl_good dt db r0 cs : forall r, good dt db r0 r -> good dt db r0 (deliver_ctl r cs).
Proof.
  unfold deliver_ctl. induction cs as [|c rest IH]; intros r G; cbn [fold_left]; [exact G|].
  destruct (N.of_nat (length (r_ctl_in r)) <? r_ctl_cap r); [|apply IH; exact G].
  apply IH. destruct G as [I [[H1 H2] C]].
  split; [apply upd_ctl_inv; [lia|exact I]|split; [split; assumption|exact C]].
Qed.

Lemma env_step_good dt db r0 r i r' ob : good dt db r0 r -> env_step r i = (r', ob) ->
  good (dt ++ to_top ob) (db ++ to_bot ob) r0 r'.
Proof.
  intros G. unfold env_step, ckpt_roundtrip.
  replace (if i_ckpt i then r else r) with r by (destruct (i_ckpt i); reflexivity).
  pose proof (deliver_ctl_good dt db r0 (i_ctl i) _
                (deliver_bot_good dt db r0 (i_bot i) _ (deliver_top_good dt db r0 (i_top i) r G))) as G0.
  destruct (tick (deliver_ctl (deliver_bot (deliver_top r (i_top i)) (i_bot i)) (i_ctl i))) as [p r1] eqn:T.
  pose proof (tick_good dt db r0 _ _ _ G0 T) as [I [[H1 H2] C]].
  intro E. inversion E; subst. cbn [to_top to_bot].
  split; [|split; [|exact C]].
  - constructor; cbn [g_acc g_rel r_trans r_next_id g_shadow];
      [apply (i_order r1 I)|apply (i_rel r1 I)|apply (i_ok r1 I)|apply (i_fresh r1 I)|apply (i_nodup r1 I)|apply (i_shadow r1 I)].
  - unfold hist; cbn [g_rel g_shadow r_top_out r_bot_out].
    rewrite <- !app_assoc, !firstn_skipn. split; assumption.
Qed.

Lemma env_run_good r0 s : forall dt db r r' obs, good dt db r0 r -> env_run r s = (r', obs) ->
  good (dt ++ flat_map to_top obs) (db ++ flat_map to_bot obs) r0 r'.
Proof.
  induction s as [|i rest IH]; intros dt db r r' obs G; cbn [env_run].
  - intro E. inversion E; subst. cbn [flat_map]. rewrite !app_nil_r. exact G.
  - destruct (env_step r i) as [r1 ob] eqn:ES. destruct (env_run r1 rest) as [r2 obs2] eqn:ER.
    intro E. inversion E; subst. cbn [flat_map]. rewrite !app_assoc.
    apply (IH _ _ r1 r' obs2 (env_step_good dt db r0 r i r1 ob G ES) ER).
Qed.

(** ---- the k-th answer on Top *)
Lemma nth_error_map_inv {A B} (f : A -> B) l k y : nth_error (map f l) k = Some y ->
  exists x, nth_error l k = Some x /\ f x = y.
Proof.
  revert k. induction l as [|a r IH]; intros [|k]; cbn [map nth_error]; try discriminate.
  - intro E. inversion E. exists a. split; reflexivity.
  - apply IH.
Qed.

Lemma kth_answer r k rsp : inv r -> nth_error (map fst (g_rel r)) k = Some rsp ->
  exists q sid t, nth_error (g_acc r) k = Some (q, sid) /\ akey (q, sid) = tkey t /\
                  rsp_answers (rsp, t) /\ trans_ok t /\
                  In (shadow_of q sid) (g_shadow r).
Proof.
  intros I H. apply nth_error_map_inv in H. destruct H as [[rsp' t] [Hn Hf]]. cbn [fst] in Hf. subst rsp'.
  assert (Ht : nth_error (map snd (g_rel r) ++ r_trans r) k = Some t).
  { rewrite nth_error_app1; [|rewrite map_length; apply nth_error_Some; congruence].
    apply (map_nth_error snd) in Hn. exact Hn. }
  pose proof (map_nth_error tkey _ _ Ht) as Hk. rewrite <- (i_order r I) in Hk.
  apply nth_error_map_inv in Hk. destruct Hk as [[q sid] [Ha Hkey]].
  exists q, sid, t. split; [exact Ha|split; [exact Hkey|split; [|split]]].
  - apply (proj1 (Forall_forall _ _) (i_rel r I)). apply (nth_error_In _ _ Hn).
  - apply (proj1 (Forall_forall _ _) (i_ok r I)). apply (nth_error_In _ _ Ht).
  - apply (i_shadow r I (q, sid)). apply (nth_error_In _ _ Ha).
Qed.
