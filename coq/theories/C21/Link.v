(** C21 — link between the correspondence check and the theorems: when the model reproduces the
    observed port traffic exactly ([check_case c = true]) the observations ARE the model's, so
    the theorems of Property.v speak about the implementation's observed responses. *)
From Akita Require Import Lib.Base C21.Model C21.Exec.
Local Open Scope N_scope.

Lemma data_eqb_eq a b : data_eqb a b = true -> a = b.
Proof. apply listN_eqb_eq. Qed.

Lemma mask_eqb_eq a b : mask_eqb a b = true -> a = b.
Proof. apply (list_eqb_eq Bool.eqb). intros x y. apply Bool.eqb_true_iff. Qed.

Ltac split_andb :=
  repeat match goal with
  | H : _ && _ = true |- _ => apply andb_true_iff in H; destruct H
  end.

Lemma trsp_eqb_eq a b : trsp_eqb a b = true <-> a = b.
Proof.
  split.
  - destruct a, b; cbn [trsp_eqb]; intro H; try discriminate; split_andb;
      repeat match goal with
      | H : (_ =? _) = true |- _ => apply N.eqb_eq in H
      | H : (_ =? _)%Z = true |- _ => apply Z.eqb_eq in H
      | H : data_eqb _ _ = true |- _ => apply data_eqb_eq in H
      end; subst; reflexivity.
  - intros <-. destruct a; cbn [trsp_eqb]; rewrite ?N.eqb_refl, ?Z.eqb_refl; cbn [andb];
      try (replace (data_eqb data data) with true by (symmetry; apply listN_eqb_eq; reflexivity)); reflexivity.
Qed.

Lemma sreq_eqb_eq a b : sreq_eqb a b = true <-> a = b.
Proof.
  split.
  - destruct a, b; cbn [sreq_eqb]; intro H; try discriminate; split_andb;
      repeat match goal with
      | H : (_ =? _) = true |- _ => apply N.eqb_eq in H
      | H : (_ =? _)%Z = true |- _ => apply Z.eqb_eq in H
      | H : data_eqb _ _ = true |- _ => apply data_eqb_eq in H
      | H : mask_eqb _ _ = true |- _ => apply mask_eqb_eq in H
      end; subst; reflexivity.
  - intros <-. destruct a; cbn [sreq_eqb]; rewrite ?N.eqb_refl, ?Z.eqb_refl; cbn [andb];
      try (replace (data_eqb data data) with true by (symmetry; apply listN_eqb_eq; reflexivity));
      try (replace (mask_eqb mask mask) with true
             by (symmetry; apply (list_eqb_eq Bool.eqb); [intros x y; apply Bool.eqb_true_iff|reflexivity]));
      reflexivity.
Qed.

Lemma crsp_eqb_eq a b : crsp_eqb a b = true <-> a = b.
Proof.
  destruct a as [a1 a2 a3 a4 a5], b as [b1 b2 b3 b4 b5]. unfold crsp_eqb. cbn [cr_id cr_dst cr_rspto cr_cmd cr_ok].
  rewrite !andb_true_iff, !N.eqb_eq, Bool.eqb_true_iff. split.
  - intros [[[[-> ->] ->] ->] ->]. reflexivity.
  - intro H. inversion H. tauto.
Qed.

Lemma tobs_eqb_eq a b : tobs_eqb a b = true <-> a = b.
Proof.
  destruct a as [p1 t1 b1 k1 n1 s1 x1 y1 z1 q1], b as [p2 t2 b2 k2 n2 s2 x2 y2 z2 q2]. unfold tobs_eqb.
  cbn [to_progress to_top to_bot to_ctl to_ntrans to_cstate to_ntop to_nbot to_nctl to_ctlq].
  rewrite !andb_true_iff, Bool.eqb_true_iff, (list_eqb_eq trsp_eqb trsp_eqb_eq), (list_eqb_eq sreq_eqb sreq_eqb_eq),
    (list_eqb_eq crsp_eqb crsp_eqb_eq), !N.eqb_eq, !Nat.eqb_eq.
  split.
  - intros [[[[[[[[[-> ->] ->] ->] ->] ->] ->] ->] ->] ->]. reflexivity.
  - intro H. inversion H. tauto.
Qed.

Lemma check_case_obs c : check_case c = true ->
  snd (env_run (rob_init (c_size c) (c_width c) (c_tcap c) (c_bcap c) (c_ccap c)) (c_script c)) = o_ticks c.
Proof. unfold check_case. apply (list_eqb_eq tobs_eqb tobs_eqb_eq). Qed.
