(** C21 — the epoch opened by a Reset. *)
From Akita Require Import Lib.Base C21.Model C21.Proofs C21.Proofs2 C21.Proofs3.
Local Open Scope N_scope.

Lemma pipeline_after L B base r p r' : after L B base r -> pipeline r = (p, r') -> after L B base r'.
Proof.
  intros A PL. unfold pipeline in PL.
  destruct (stage_loop bottom_up (Z.to_nat (r_width r)) r) as [p1 r1] eqn:S1.
  destruct (stage_loop parse_bottom (Z.to_nat (r_width r)) r1) as [p2 r2] eqn:S2.
  destruct (stage_loop top_down (Z.to_nat (r_width r)) r2) as [p3 r3] eqn:S3.
  inversion PL; subst.
  pose proof (stage_loop_pres (after L B base) bottom_up (bottom_up_after L B base) _ _ _ _ A S1) as B1.
  pose proof (stage_loop_pres (after L B base) parse_bottom (parse_bottom_after L B base) _ _ _ _ B1 S2) as B2.
  apply (stage_loop_pres (after L B base) top_down (top_down_after L B base) _ _ _ _ B2 S3).
Qed.

(** the state in which the Tick of an instant starts *)
Definition delivered (r : rob) (i : instant) : rob :=
  deliver_ctl (deliver_bot (deliver_top r (i_top i)) (i_bot i)) (i_ctl i).

(** A Reset is executed by the Tick of instant [i] (state [r0] when that Tick starts); [r2] is
    the state after any continuation [script].  [more] are the responses released after the
    Reset. *)
Lemma reset_epoch size width tc bc cc pre r obs0 i r' ob script r2 obs :
  env_run (rob_init size width tc bc cc) pre = (r, obs0) ->
  env_step r i = (r', ob) -> is_reset (delivered r i) ->
  env_run r' script = (r2, obs) ->
  let r0 := delivered r i in
  exists more,
    g_rel r2 = g_rel r0 ++ more /\
    (* nothing released afterwards belongs to a discarded transaction *)
    (forall x t, In x more -> In t (r_trans r0) -> t_bot_id (snd x) <> t_bot_id t) /\
    (* every later response answers its own transaction with the lower unit's result *)
    Forall rsp_answers more /\ Forall trans_ok (map snd more) /\
    (* in acceptance order of the requests accepted after the Reset *)
    map akey (skipn (length (g_rel r0)) (g_acc r2)) = map tkey (map snd more ++ r_trans r2) /\
    (forall a, In a (skipn (length (g_rel r0)) (g_acc r2)) -> r_next_id r0 < snd a).
Proof.
  intros E0 ES HR ER r0.
  (* invariants along the way *)
  assert (G0 : good [] [] (rob_init size width tc bc cc) (rob_init size width tc bc cc)).
  { split; [apply inv_init|split; [split; reflexivity|repeat split]]. }
  pose proof (env_run_good _ pre [] [] _ r obs0 G0 E0) as Gr.
  pose proof (env_step_good _ _ _ r i r' ob Gr ES) as Gr'.
  pose proof (env_run_good _ script _ _ _ r2 obs Gr' ER) as [I2 _].
  assert (Ir0 : inv r0).
  { unfold r0, delivered.
    apply (deliver_ctl_good _ _ _ (i_ctl i) _ (deliver_bot_good _ _ _ (i_bot i) _ (deliver_top_good _ _ _ (i_top i) r Gr))). }
  destruct (reset_discards r0 Ir0 HR) as [rc [PC (T&Ti&Bi&Cs&To&Bo&Rel&Nid&Acc&Lacc&Keys)]].
  set (B := r_next_id rc).
  assert (Arc : after [] B (g_rel r0) rc).
  { split; [unfold B; lia|]. split; [rewrite T; constructor|]. exists []. rewrite app_nil_r. split; [exact Rel|constructor]. }
  (* the rest of the tick, the drains of the instant, the continuation *)
  assert (Ar' : after [] B (g_rel r0) r').
  { unfold env_step, ckpt_roundtrip in ES.
    replace (if i_ckpt i then r else r) with r in ES by (destruct (i_ckpt i); reflexivity).
    fold (delivered r i) in ES. fold r0 in ES. unfold tick in ES. rewrite PC in ES.
    rewrite Cs in ES. cbn [N.eqb orb] in ES.
    destruct (pipeline rc) as [pp r1] eqn:PL.
    pose proof (pipeline_after [] B (g_rel r0) rc pp r1 Arc PL) as [X1 [X2 X3]].
    inversion ES; subst. split; [exact X1|]. split; [exact X2|exact X3]. }
  pose proof (env_run_after [] B (g_rel r0) script r' r2 obs Ar' ER) as [Y1 [Y2 [more [Y3 Y4]]]].
  exists more. split; [exact Y3|].
  pose proof (i_rel r2 I2) as Rl. rewrite Y3 in Rl. apply Forall_app in Rl. destruct Rl as [_ Rl].
  pose proof (i_ok r2 I2) as Ok. rewrite Y3, map_app, <- app_assoc in Ok. apply Forall_app in Ok.
  destruct Ok as [_ Ok]. apply Forall_app in Ok. destruct Ok as [Ok _].
  assert (Ord : map akey (skipn (length (g_rel r0)) (g_acc r2)) = map tkey (map snd more ++ r_trans r2)).
  { rewrite <- skipn_map', (i_order r2 I2), Y3, (map_app snd), <- app_assoc, (map_app tkey).
    apply skipn_app_len. rewrite !map_length. reflexivity. }
  split; [|split; [exact Rl|split; [exact Ok|split; [exact Ord|]]]].
  - intros x t Hx Ht. rewrite Forall_forall in Y4. destruct (Y4 x Hx) as [[]|Hb].
    pose proof (i_fresh r0 Ir0 t Ht) as F. unfold B in Hb. lia.
  - intros a Ha.
    assert (Hk : In (akey a) (map tkey (map snd more ++ r_trans r2))) by (rewrite <- Ord; apply in_map; exact Ha).
    apply in_map_iff in Hk. destruct Hk as [t [Ek Ht]]. unfold akey, tkey in Ek. inversion Ek as [[K1 K2 K3 K4]].
    rewrite K3. apply in_app_or in Ht. destruct Ht as [Ht|Ht].
    + apply in_map_iff in Ht. destruct Ht as [x [<- Hx]]. rewrite Forall_forall in Y4.
      destruct (Y4 x Hx) as [[]|Hb]. unfold B in Hb. lia.
    + rewrite Forall_forall in Y2. destruct (Y2 t Ht) as [[]|Hb]. unfold B in Hb. lia.
Qed.
