(** C21 — case evaluators.  A case: ROB configuration, a tick script (requests delivered to Top,
    lower-unit responses delivered to Bottom, numbers of messages drained from both ports) and
    the per-tick observations of the real component (generated IDs relative to the ID
    generator's value at the start of the script). *)
From Akita Require Import Lib.Base C21.Model.
Local Open Scope N_scope.

Record case := mk_case {
  c_size : Z; c_width : Z; c_tcap : N; c_bcap : N;
  c_script : list instant;
  o_ticks : list tick_obs }.

Definition data_eqb := list_eqb N.eqb.
Definition mask_eqb := list_eqb Bool.eqb.

Definition trsp_eqb (a b : trsp) : bool :=
  match a, b with
  | TData i d r x t, TData i' d' r' x' t' => (i =? i') && (d =? d') && (r =? r') && data_eqb x x' && (t =? t')%Z
  | TDone i d r t, TDone i' d' r' t' => (i =? i') && (d =? d') && (r =? r') && (t =? t')%Z
  | _, _ => false
  end.

Definition sreq_eqb (a b : sreq) : bool :=
  match a, b with
  | SRead i a1 s p t, SRead i' a1' s' p' t' => (i =? i') && (a1 =? a1') && (s =? s') && (p =? p') && (t =? t')%Z
  | SWrite i a1 x m p t, SWrite i' a1' x' m' p' t' =>
      (i =? i') && (a1 =? a1') && data_eqb x x' && mask_eqb m m' && (p =? p') && (t =? t')%Z
  | _, _ => false
  end.

Definition tobs_eqb (a b : tick_obs) : bool :=
  Bool.eqb (to_progress a) (to_progress b) && list_eqb trsp_eqb (to_top a) (to_top b) &&
  list_eqb sreq_eqb (to_bot a) (to_bot b) && (to_ntrans a =? to_ntrans b) &&
  Nat.eqb (to_ntop a) (to_ntop b) && Nat.eqb (to_nbot a) (to_nbot b).

Definition check_case (c : case) : bool :=
  let r0 := rob_init (c_size c) (c_width c) (c_tcap c) (c_bcap c) in
  list_eqb tobs_eqb (snd (env_run r0 (c_script c))) (o_ticks c).

(** ---- the property on the observed port traffic (independent of the model's tick) *)
Fixpoint delivered {A} (sel : instant -> list A) (cnt : tick_obs -> nat) (s : list instant) (n : list tick_obs) : list A :=
  match s, n with
  | i :: s', k :: n' => firstn (cnt k) (sel i) ++ delivered sel cnt s' n'
  | _, _ => []
  end.

Definition same_payload (q : req) (s : sreq) : bool :=
  match q, s with
  | QRead _ _ a sz p t, SRead _ a' sz' p' t' => (a =? a') && (sz =? sz') && (p =? p') && (t =? t')%Z
  | QWrite _ _ a x m p t, SWrite _ a' x' m' p' t' => (a =? a') && data_eqb x x' && mask_eqb m m' && (p =? p') && (t =? t')%Z
  | _, _ => false
  end.

(** the lower unit's answers to shadow request [sid] among the delivered Bottom responses *)
Definition answers (sid : N) (bs : list brsp) : list brsp :=
  filter (fun b => match b_rspto b with Some r => r =? sid | None => false end) bs.

Definition result_ok (sid : N) (bs : list brsp) (data : list N) : bool :=
  match answers sid bs with
  | [] => false                                  (* released without any answer *)
  | [BData _ d] => data_eqb d data               (* answered once: exactly that result *)
  | [_] => data_eqb [] data
  | l => existsb (fun b => match b with BData _ d => data_eqb d data | _ => false end) l || data_eqb [] data
  end.

(** k-th answer on Top vs k-th accepted request / k-th shadow request *)
Fixpoint answers_in_order (ds : list req) (ss : list sreq) (bs : list brsp) (ts : list trsp) : bool :=
  match ts with
  | [] => true
  | t :: ts' =>
      match ds, ss with
      | q :: ds', s :: ss' =>
          match t with
          | TData _ dst rspto data tb =>
              q_is_read q && (rspto =? q_id q) && (dst =? q_src q) && result_ok (s_id s) bs data &&
              (tb =? Z.of_nat (length data) + 4)%Z
          | TDone _ dst rspto tb =>
              negb (q_is_read q) && (rspto =? q_id q) && (dst =? q_src q) &&
              negb (match answers (s_id s) bs with [] => true | _ => false end) && (tb =? 4)%Z
          end && answers_in_order ds' ss' bs ts'
      | _, _ => false
      end
  end.

Fixpoint shadows_match (ds : list req) (ss : list sreq) : bool :=
  match ss with
  | [] => true
  | s :: ss' => match ds with q :: ds' => same_payload q s && shadows_match ds' ss' | [] => false end
  end.

Fixpoint nodupN (l : list N) : bool :=
  match l with [] => true | x :: r => negb (existsb (N.eqb x) r) && nodupN r end.

Definition holds_on (c : case) : bool :=
  let ds := delivered i_top to_ntop (c_script c) (o_ticks c) in
  let bs := delivered i_bot to_nbot (c_script c) (o_ticks c) in
  let ss := flat_map to_bot (o_ticks c) in
  let ts := flat_map to_top (o_ticks c) in
  (* the shadow ids the drained-to-Bottom requests carry are distinct *)
  nodupN (map s_id ss) &&
  shadows_match ds ss &&
  (* responder only sees drained shadows, so every answered request has its shadow in [ss]
     whenever Bottom is drained before answers are scripted (the harness guarantees it) *)
  answers_in_order ds ss bs ts.
