(** C21 — case evaluators.  A case: ROB configuration, a tick script (optional checkpoint round
    trip, requests delivered to Top, lower-unit responses delivered to Bottom, control commands
    delivered to Control, numbers of messages drained from the three ports) and the per-tick
    observations of the real component (generated IDs relative to the ID generator's value at
    the start of the script). *)
From Akita Require Import Lib.Base C21.Model.
Local Open Scope N_scope.

Record case := mk_case {
  c_size : Z; c_width : Z; c_tcap : N; c_bcap : N; c_ccap : N;
  c_script : list instant;
  o_ticks : list tick_obs }.

Definition data_eqb := list_eqb N.eqb.
Definition mask_eqb := list_eqb Bool.eqb.

Definition trsp_eqb (a b : trsp) : bool :=
  match a, b with
  | TData i d r x t, TData i' d' r' x' t' => (i =? i') && (d =? d') && (r =? r') && data_eqb x x' && (t =? t')%Z
  | TDone i d r t, TDone i' d' r' t' => (i =? i') && (d =? d') && (r =? r') && (t =? t')%Z
  | _, _ => false
  end.

Definition sreq_eqb (a b : sreq) : bool :=
  match a, b with
  | SRead i a1 s p t, SRead i' a1' s' p' t' => (i =? i') && (a1 =? a1') && (s =? s') && (p =? p') && (t =? t')%Z
  | SWrite i a1 x m p t, SWrite i' a1' x' m' p' t' =>
      (i =? i') && (a1 =? a1') && data_eqb x x' && mask_eqb m m' && (p =? p') && (t =? t')%Z
  | _, _ => false
  end.

Definition crsp_eqb (a b : crsp) : bool :=
  (cr_id a =? cr_id b) && (cr_dst a =? cr_dst b) && (cr_rspto a =? cr_rspto b) && (cr_cmd a =? cr_cmd b) &&
  Bool.eqb (cr_ok a) (cr_ok b).

Definition tobs_eqb (a b : tick_obs) : bool :=
  Bool.eqb (to_progress a) (to_progress b) && list_eqb trsp_eqb (to_top a) (to_top b) &&
  list_eqb sreq_eqb (to_bot a) (to_bot b) && list_eqb crsp_eqb (to_ctl a) (to_ctl b) &&
  (to_ntrans a =? to_ntrans b) && (to_cstate a =? to_cstate b) &&
  Nat.eqb (to_ntop a) (to_ntop b) && Nat.eqb (to_nbot a) (to_nbot b) && Nat.eqb (to_nctl a) (to_nctl b) &&
  Nat.eqb (to_ctlq a) (to_ctlq b).

Definition check_case (c : case) : bool :=
  let r0 := rob_init (c_size c) (c_width c) (c_tcap c) (c_bcap c) (c_ccap c) in
  list_eqb tobs_eqb (snd (env_run r0 (c_script c))) (o_ticks c).

(** ---- the property on the observed port traffic (independent of the model's tick).
    Requests are identified by their ID and located among the shadow requests by kind and
    address, so the predicate is evaluated on scripts whose requests have pairwise distinct
    IDs and addresses (every generated script has). *)
Definition q_addr (q : req) : N := match q with QRead _ _ a _ _ _ => a | QWrite _ _ a _ _ _ _ => a end.

Fixpoint delivered_top (s : list instant) (obs : list tick_obs) : list req :=
  match s, obs with
  | i :: s', ob :: obs' => firstn (to_ntop ob) (i_top i) ++ delivered_top s' obs'
  | _, _ => []
  end.

Definition same_payload (q : req) (s : sreq) : bool :=
  match q, s with
  | QRead _ _ a sz p t, SRead _ a' sz' p' t' => (a =? a') && (sz =? sz') && (p =? p') && (t =? t')%Z
  | QWrite _ _ a x m p t, SWrite _ a' x' m' p' t' => (a =? a') && data_eqb x x' && mask_eqb m m' && (p =? p') && (t =? t')%Z
  | _, _ => false
  end.

(** the lower unit's answers to shadow request [sid] among the Bottom responses delivered so far *)
Definition answers (sid : N) (bs : list brsp) : list brsp :=
  filter (fun b => match b_rspto b with Some r => r =? sid | None => false end) bs.

Definition result_ok (sid : N) (bs : list brsp) (data : list N) : bool :=
  match answers sid bs with
  | [] => false                                  (* answered before the lower unit completed it *)
  | [BData _ d] => data_eqb d data               (* completed once: exactly that result *)
  | [_] => data_eqb [] data
  | l => existsb (fun b => match b with BData _ d => data_eqb d data | _ => false end) l || data_eqb [] data
  end.

(** one Top response against the delivered requests [ds], all shadow requests [ss] and the
    lower-unit answers delivered up to now [bs] *)
Definition answer_ok (ds : list req) (ss : list sreq) (bs : list brsp) (t : trsp) : bool :=
  let '(dst, rspto) := match t with TData _ d r _ _ => (d, r) | TDone _ d r _ => (d, r) end in
  match find (fun q => q_id q =? rspto) ds with
  | None => false                                (* RspTo is not the ID of any request *)
  | Some q =>
      (dst =? q_src q) &&
      match find (same_payload q) ss with
      | None => false                            (* never forwarded to the lower unit *)
      | Some s =>
          match t with
          | TData _ _ _ data tb => q_is_read q && result_ok (s_id s) bs data && (tb =? Z.of_nat (length data) + 4)%Z
          | TDone _ _ _ tb => negb (q_is_read q) && negb (match answers (s_id s) bs with [] => true | _ => false end) && (tb =? 4)%Z
          end
      end
  end.

Fixpoint answers_ok (ds : list req) (ss : list sreq) (bs : list brsp) (s : list instant) (obs : list tick_obs) : bool :=
  match s, obs with
  | i :: s', ob :: obs' =>
      let bs' := bs ++ firstn (to_nbot ob) (i_bot i) in
      forallb (answer_ok ds ss bs') (to_top ob) && answers_ok ds ss bs' s' obs'
  | _, _ => true
  end.

(** [a] is a subsequence of [b] *)
Fixpoint subseq (a b : list N) : bool :=
  match a, b with
  | [], _ => true
  | _ :: _, [] => false
  | x :: a', y :: b' => if x =? y then subseq a' b' else subseq a b'
  end.

Fixpoint nodupN (l : list N) : bool :=
  match l with [] => true | x :: r => negb (existsb (N.eqb x) r) && nodupN r end.

Definition rsp_to (t : trsp) : N := match t with TData _ _ r _ _ => r | TDone _ _ r _ => r end.

(** control clauses on the observations alone.
    [to_ctlq] is the length of the Control outgoing buffer right after the Tick; with the number of
    responses drained in the previous instant it tells how many control responses THIS Tick emitted,
    and because the buffer is a FIFO the k-th response emitted is the k-th response drained.  So the
    tick in which every drained control response was emitted is known from the observations. *)
Fixpoint emit_ticks (t : nat) (left : nat) (obs : list tick_obs) : list nat :=
  match obs with
  | [] => []
  | ob :: rest => repeat t (to_ctlq ob - left) ++ emit_ticks (S t) (to_ctlq ob - length (to_ctl ob)) rest
  end.

Definition obs_at (obs : list tick_obs) (t : nat) : option tick_obs := nth_error obs t.

(** a Drain acknowledgement is emitted by a Tick that ends Paused with an empty table; a Reset
    acknowledgement by a Tick that ends Enabled with an empty table (the Reset also drained the Top
    incoming buffer, so nothing can be accepted in that Tick) *)
Definition ack_ok (obs : list tick_obs) (c : crsp) (t : nat) : bool :=
  match obs_at obs t with
  | None => false
  | Some ob =>
      if (cr_cmd c =? 1) && cr_ok c then (to_cstate ob =? 2) && (to_ntrans ob =? 0)
      else if (cr_cmd c =? 3) && cr_ok c then (to_cstate ob =? 0) && (to_ntrans ob =? 0)
      else true
  end.

Fixpoint acks_ok (obs : list tick_obs) (cs : list crsp) (ts : list nat) : bool :=
  match cs, ts with
  | c :: cs', t :: ts' => ack_ok obs c t && acks_ok obs cs' ts'
  | [], _ => true
  | _ :: _, [] => false                 (* a response was drained that no Tick emitted *)
  end.

(** a Tick that ends Paused leaves the number of in-flight transactions as it was; a Tick that ends
    Draining does not increase it (nothing is accepted) *)
Fixpoint quiesce_ok (prev : N) (obs : list tick_obs) : bool :=
  match obs with
  | [] => true
  | ob :: rest =>
      (if to_cstate ob =? 2 then to_ntrans ob =? prev
       else if to_cstate ob =? 3 then to_ntrans ob <=? prev else true) && quiesce_ok (to_ntrans ob) rest
  end.

Definition holds_on (c : case) : bool :=
  quiesce_ok 0 (o_ticks c) &&
  acks_ok (o_ticks c) (flat_map to_ctl (o_ticks c)) (emit_ticks 0 0 (o_ticks c)) &&
  let scripted := flat_map i_top (c_script c) in
  if nodupN (map q_id scripted) && nodupN (map q_addr scripted) then
    let ds := delivered_top (c_script c) (o_ticks c) in
    let ss := flat_map to_bot (o_ticks c) in
    let ts := flat_map to_top (o_ticks c) in
    (* shadow requests: distinct ids, each the payload of a delivered request *)
    nodupN (map s_id ss) && forallb (fun s => existsb (fun q => same_payload q s) ds) ss &&
    (* every answer: original requester and ID, right kind, the lower unit's own result *)
    answers_ok ds ss [] (c_script c) (o_ticks c) &&
    (* answers in arrival order, at most one per request *)
    subseq (map rsp_to ts) (map q_id ds)
  else true.
