(** C21 — executable tick-level model of the reorder buffer (mem/rob/middleware.go):
    Tick / runPipeline (three width loops) / bottomUp / parseBottom / topDown /
    findTransactionByBottomID / buildShadowReq / buildTopRsp, with the component's real
    Top and Bottom ports as bounded FIFOs and the sequential ID generator as a counter.

    The Control port and processControlMsg (Pause / Drain / Enable / Reset / unsupported verbs,
    completePendingDrain) are modelled too, and a checkpoint round trip of the component
    (modeling.Component SaveCheckpoint / LoadCheckpoint: the State goes through JSON, the ports
    are not part of it) can be taken at any instant.
    Only AccessReq messages are delivered to Top (anything else panics in topDown).
    Ghost fields (never read by the model functions): [t_parsed], [g_acc], [g_rel], [g_shadow].
    [g_acc] lists the accepted requests that were not discarded by a Reset. *)
From Akita Require Import Lib.Base.
Local Open Scope N_scope.

(** requests arriving at Top *)
Inductive req :=
| QRead (id src addr size pid : N) (tb : Z)
| QWrite (id src addr : N) (data : list N) (mask : list bool) (pid : N) (tb : Z).

Definition q_id (q : req) : N := match q with QRead id _ _ _ _ _ => id | QWrite id _ _ _ _ _ _ => id end.
Definition q_src (q : req) : N := match q with QRead _ s _ _ _ _ => s | QWrite _ s _ _ _ _ _ => s end.
Definition q_is_read (q : req) : bool := match q with QRead _ _ _ _ _ _ => true | _ => false end.

(** shadow requests leaving through Bottom (Src = the Bottom port, Dst = Spec.BottomUnit) *)
Inductive sreq :=
| SRead (id addr size pid : N) (tb : Z)
| SWrite (id addr : N) (data : list N) (mask : list bool) (pid : N) (tb : Z).

Definition s_id (s : sreq) : N := match s with SRead id _ _ _ _ => id | SWrite id _ _ _ _ _ => id end.

(** responses arriving at Bottom from the lower unit *)
Inductive brsp :=
| BData (rspto : N) (data : list N)
| BDone (rspto : N)
| BOther.                       (* any other message type: retrieved and dropped *)

Definition b_rspto (b : brsp) : option N :=
  match b with BData r _ => Some r | BDone r => Some r | BOther => None end.

(** responses leaving through Top *)
Inductive trsp :=
| TData (id dst rspto : N) (data : list N) (tb : Z)
| TDone (id dst rspto : N) (tb : Z).

(** Control port: a memcontrolprotocol.Req (command 0 Pause, 1 Drain, 2 Enable, 3 Reset, others
    unsupported by the ROB) or any other message type; and the responses. *)
Inductive cmsg := CReq (id src cmd : N) | COther.
Record crsp := mk_crsp { cr_id : N; cr_dst : N; cr_rspto : N; cr_cmd : N; cr_ok : bool }.

Record trans := mk_trans {
  t_top_id : N; t_top_src : N; t_bot_id : N; t_is_read : bool; t_has : bool; t_data : list N;
  t_parsed : list brsp          (* ghost: the bottom responses recorded on this transaction *) }.

Record rob := mk_rob {
  r_size : Z;                   (* Spec.BufferSize (int) *)
  r_width : Z;                  (* Spec.NumReqPerCycle (int) *)
  r_top_cap : N; r_bot_cap : N; (* port buffer capacities *)
  r_next_id : N;                (* sequential ID generator *)
  r_trans : list trans;         (* State.Transactions *)
  r_top_in : list req; r_top_out : list trsp;
  r_bot_in : list brsp; r_bot_out : list sreq;
  g_acc : list (req * N);       (* ghost: accepted (and not reset-away) requests with their shadow id, in order *)
  g_rel : list (trsp * trans);  (* ghost: released responses with the transaction they retire *)
  g_shadow : list sreq;         (* ghost: every shadow request sent *)
  r_cstate : N;                 (* State.ControlState: 0 Enabled, 2 Paused, 3 Draining *)
  r_cmd_id : N; r_cmd_src : N;  (* State.CurrentCmdID / CurrentCmdSrc (0 = "") *)
  r_ctl_in : list cmsg; r_ctl_out : list crsp; r_ctl_cap : N }.

Definition upd_ports (r : rob) id tr ti to bi bo acc rel sh : rob :=
  mk_rob (r_size r) (r_width r) (r_top_cap r) (r_bot_cap r) id tr ti to bi bo acc rel sh
         (r_cstate r) (r_cmd_id r) (r_cmd_src r) (r_ctl_in r) (r_ctl_out r) (r_ctl_cap r).

(** the control fields and the ID counter *)
Definition upd_ctl (r : rob) id cs cid csrc cin cout : rob :=
  mk_rob (r_size r) (r_width r) (r_top_cap r) (r_bot_cap r) id (r_trans r) (r_top_in r) (r_top_out r)
         (r_bot_in r) (r_bot_out r) (g_acc r) (g_rel r) (g_shadow r) cs cid csrc cin cout (r_ctl_cap r).

Definition shadow_of (q : req) (id : N) : sreq :=
  match q with
  | QRead _ _ addr size pid tb => SRead id addr size pid tb
  | QWrite _ _ addr data mask pid tb => SWrite id addr data mask pid tb
  end.

Definition top_rsp_of (t : trans) (id : N) : trsp :=
  if t_is_read t
  then TData id (t_top_src t) (t_top_id t) (t_data t) (Z.of_nat (length (t_data t)) + 4)
  else TDone id (t_top_src t) (t_top_id t) 4.

(** bottomUp: the ID of the response is generated before the CanSend check. *)
Definition bottom_up (r : rob) : bool * rob :=
  match r_trans r with
  | [] => (false, r)
  | h :: rest =>
      if negb (t_has h) then (false, r)
      else
        let rsp := top_rsp_of h (r_next_id r) in
        let id' := r_next_id r + 1 in
        if N.of_nat (length (r_top_out r)) <? r_top_cap r then
          (true, upd_ports r id' rest (r_top_in r) (r_top_out r ++ [rsp]) (r_bot_in r) (r_bot_out r)
                           (g_acc r) (g_rel r ++ [(rsp, h)]) (g_shadow r))
        else
          (false, upd_ports r id' (r_trans r) (r_top_in r) (r_top_out r) (r_bot_in r) (r_bot_out r)
                            (g_acc r) (g_rel r) (g_shadow r))
  end.

(** findTransactionByBottomID + the update of parseBottom: the first transaction with that
    shadow id records the response. *)
Fixpoint record_rsp (b : brsp) (id : N) (ts : list trans) : list trans :=
  match ts with
  | [] => []
  | t :: rest =>
      if t_bot_id t =? id then
        mk_trans (t_top_id t) (t_top_src t) (t_bot_id t) (t_is_read t) true
                 (match b with BData _ d => d | _ => t_data t end) (t_parsed t ++ [b]) :: rest
      else t :: record_rsp b id rest
  end.

Definition parse_bottom (r : rob) : bool * rob :=
  match r_bot_in r with
  | [] => (false, r)
  | b :: rest =>
      let ts := match b_rspto b with Some id => record_rsp b id (r_trans r) | None => r_trans r end in
      (true, upd_ports r (r_next_id r) ts (r_top_in r) (r_top_out r) rest (r_bot_out r)
                       (g_acc r) (g_rel r) (g_shadow r))
  end.

(** topDown: the shadow ID is generated before the CanSend check on Bottom. *)
Definition top_down (r : rob) : bool * rob :=
  if negb (r_cstate r =? 0) then (false, r) else
  match r_top_in r with
  | [] => (false, r)
  | q :: rest =>
      if (r_size r <=? Z.of_nat (length (r_trans r)))%Z then (false, r)
      else
        let sid := r_next_id r in
        let id' := r_next_id r + 1 in
        if N.of_nat (length (r_bot_out r)) <? r_bot_cap r then
          let s := shadow_of q sid in
          (true, upd_ports r id' (r_trans r ++ [mk_trans (q_id q) (q_src q) sid (q_is_read q) false [] []])
                           rest (r_top_out r) (r_bot_in r) (r_bot_out r ++ [s])
                           (g_acc r ++ [(q, sid)]) (g_rel r) (g_shadow r ++ [s]))
        else
          (false, upd_ports r id' (r_trans r) (r_top_in r) (r_top_out r) (r_bot_in r) (r_bot_out r)
                            (g_acc r) (g_rel r) (g_shadow r))
  end.

(** `for i := 0; i < width; i++ { if !stage() { break }; madeProgress = true }` *)
Fixpoint stage_loop (f : rob -> bool * rob) (n : nat) (r : rob) : bool * rob :=
  match n with
  | O => (false, r)
  | S k =>
      let '(ok, r1) := f r in
      if ok then let '(_, r2) := stage_loop f k r1 in (true, r2) else (false, r1)
  end.

(** processControlMsg.  makeCtrlRsp (and with it the ID) is only reached after the CanSend check. *)
Definition ctl_can_send (r : rob) : bool := N.of_nat (length (r_ctl_out r)) <? r_ctl_cap r.

Definition ctl_reply (r : rob) (cs : N) (dst rspto cmd : N) (ok : bool) (rest : list cmsg) : rob :=
  upd_ctl r (r_next_id r + 1) cs (r_cmd_id r) (r_cmd_src r) rest
          (r_ctl_out r ++ [mk_crsp (r_next_id r) dst rspto cmd ok]).

Definition process_control (r : rob) : bool * rob :=
  if r_cstate r =? 3 then
    (* completePendingDrain; while Draining no further command is dequeued *)
    match r_trans r with
    | [] => if ctl_can_send r
            then (true, ctl_reply r 2 (r_cmd_src r) (r_cmd_id r) 1 true (r_ctl_in r))
            else (false, r)
    | _ => (false, r)
    end
  else
    match r_ctl_in r with
    | [] => (false, r)
    | COther :: rest => (true, upd_ctl r (r_next_id r) (r_cstate r) (r_cmd_id r) (r_cmd_src r) rest (r_ctl_out r))
    | CReq id src cmd :: rest =>
        if cmd =? 1 then                                      (* Drain: acknowledged on completion *)
          (true, upd_ctl r (r_next_id r) 3 id src rest (r_ctl_out r))
        else if negb (ctl_can_send r) then (false, r)
        else if cmd =? 0 then (true, ctl_reply r 2 src id 0 true rest)             (* Pause *)
        else if cmd =? 2 then (true, ctl_reply r 0 src id 2 true rest)             (* Enable *)
        else if cmd =? 3 then                                                      (* Reset *)
          (* the table is emptied, the Top and Bottom incoming buffers are drained; the requests
             accepted but not yet answered are forgotten *)
          (true, mk_rob (r_size r) (r_width r) (r_top_cap r) (r_bot_cap r) (r_next_id r + 1) [] [] (r_top_out r)
                        [] (r_bot_out r) (firstn (length (g_rel r)) (g_acc r)) (g_rel r) (g_shadow r)
                        0 0 0 rest (r_ctl_out r ++ [mk_crsp (r_next_id r) src id 3 true]) (r_ctl_cap r))
        else (true, ctl_reply r (r_cstate r) src id cmd false rest)                (* unsupported *)
    end.

(** Tick: the control port first; the pipeline runs while Enabled or Draining *)
Definition pipeline (r : rob) : bool * rob :=
  let w := Z.to_nat (r_width r) in
  let '(p1, r1) := stage_loop bottom_up w r in
  let '(p2, r2) := stage_loop parse_bottom w r1 in
  let '(p3, r3) := stage_loop top_down w r2 in
  (p1 || p2 || p3, r3).

Definition tick (r : rob) : bool * rob :=
  let '(p0, r0) := process_control r in
  if (r_cstate r0 =? 0) || (r_cstate r0 =? 3)
  then let '(p, r1) := pipeline r0 in (p0 || p, r1)
  else (p0, r0).

(** One scripted instant: optional checkpoint round trip, deliveries (those that fit), tick, drains. *)
Record instant := mk_instant {
  i_ckpt : bool;
  i_top : list req; i_bot : list brsp; i_ctl : list cmsg;
  i_drain_top : nat; i_drain_bot : nat; i_drain_ctl : nat }.

(** Component.SaveCheckpoint followed by LoadCheckpoint: the State (transaction table, control
    state, current command) is marshalled to JSON and unmarshalled back; for the fields of the
    model this is the identity (an absent/empty RspData and an empty table decode as empty).
    The ports and the ID generator are not part of the component checkpoint. *)
Definition ckpt_roundtrip (r : rob) : rob := r.

Definition deliver_top (r : rob) (qs : list req) : rob :=
  fold_left (fun r q => if N.of_nat (length (r_top_in r)) <? r_top_cap r
                        then upd_ports r (r_next_id r) (r_trans r) (r_top_in r ++ [q]) (r_top_out r) (r_bot_in r) (r_bot_out r)
                                       (g_acc r) (g_rel r) (g_shadow r)
                        else r) qs r.

Definition deliver_bot (r : rob) (bs : list brsp) : rob :=
  fold_left (fun r b => if N.of_nat (length (r_bot_in r)) <? r_bot_cap r
                        then upd_ports r (r_next_id r) (r_trans r) (r_top_in r) (r_top_out r) (r_bot_in r ++ [b]) (r_bot_out r)
                                       (g_acc r) (g_rel r) (g_shadow r)
                        else r) bs r.

Definition deliver_ctl (r : rob) (cs : list cmsg) : rob :=
  fold_left (fun r c => if N.of_nat (length (r_ctl_in r)) <? r_ctl_cap r
                        then upd_ctl r (r_next_id r) (r_cstate r) (r_cmd_id r) (r_cmd_src r) (r_ctl_in r ++ [c]) (r_ctl_out r)
                        else r) cs r.

Record tick_obs := mk_tobs {
  to_progress : bool; to_top : list trsp; to_bot : list sreq; to_ctl : list crsp; to_ntrans : N; to_cstate : N;
  to_ntop : nat; to_nbot : nat; to_nctl : nat;     (* how many of the scripted deliveries the ports took *)
  to_ctlq : nat }.   (* Control outgoing buffer length right after the Tick, before the drains *)

Definition env_step (r : rob) (i : instant) : rob * tick_obs :=
  let rk := if i_ckpt i then ckpt_roundtrip r else r in
  let ra := deliver_top rk (i_top i) in
  let rb := deliver_bot ra (i_bot i) in
  let r0 := deliver_ctl rb (i_ctl i) in
  let '(p, r1) := tick r0 in
  let r2 := mk_rob (r_size r1) (r_width r1) (r_top_cap r1) (r_bot_cap r1) (r_next_id r1) (r_trans r1) (r_top_in r1)
                   (skipn (i_drain_top i) (r_top_out r1)) (r_bot_in r1) (skipn (i_drain_bot i) (r_bot_out r1))
                   (g_acc r1) (g_rel r1) (g_shadow r1) (r_cstate r1) (r_cmd_id r1) (r_cmd_src r1) (r_ctl_in r1)
                   (skipn (i_drain_ctl i) (r_ctl_out r1)) (r_ctl_cap r1) in
  (r2, mk_tobs p (firstn (i_drain_top i) (r_top_out r1)) (firstn (i_drain_bot i) (r_bot_out r1))
               (firstn (i_drain_ctl i) (r_ctl_out r1))
               (N.of_nat (length (r_trans r1))) (r_cstate r1)
               (length (r_top_in ra) - length (r_top_in rk)) (length (r_bot_in rb) - length (r_bot_in ra))
               (length (r_ctl_in r0) - length (r_ctl_in rb)) (length (r_ctl_out r1))).

Fixpoint env_run (r : rob) (s : list instant) : rob * list tick_obs :=
  match s with
  | [] => (r, [])
  | i :: rest => let '(r1, ob) := env_step r i in let '(r2, obs) := env_run r1 rest in (r2, ob :: obs)
  end.

Definition rob_init (size width : Z) (tcap bcap ccap : N) : rob :=
  mk_rob size width tcap bcap 0 [] [] [] [] [] [] [] [] 0 0 0 [] [] ccap.
