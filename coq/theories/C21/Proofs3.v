(** C21 — the control verbs: Pause freezes the pipeline, Draining stops acceptance, the Drain
    acknowledgement needs an empty table, Reset discards exactly the table, and nothing
    released later belongs to a discarded transaction. *)
From Akita Require Import Lib.Base C21.Model C21.Proofs C21.Proofs2.
Local Open Scope N_scope.

(** the data path and the control path of a state *)
Definition data_view (r : rob) :=
  (r_trans r, r_top_in r, r_top_out r, r_bot_in r, r_bot_out r, g_acc r, g_rel r, g_shadow r).
Definition ctl_view (r : rob) := (r_cstate r, r_cmd_id r, r_cmd_src r, r_ctl_in r, r_ctl_out r, r_ctl_cap r).

Lemma ctl_view_eq a b : ctl_view a = ctl_view b ->
  r_cstate a = r_cstate b /\ r_ctl_out a = r_ctl_out b /\ r_cmd_id a = r_cmd_id b /\ r_cmd_src a = r_cmd_src b.
Proof. unfold ctl_view. intro H. inversion H. repeat split; assumption. Qed.

Lemma stage_loop_pres (P : rob -> Prop) f :
  (forall r ok r', P r -> f r = (ok, r') -> P r') ->
  forall n r ok r', P r -> stage_loop f n r = (ok, r') -> P r'.
Proof.
  intros Hf. induction n as [|k IH]; intros r ok r' H; cbn [stage_loop].
  - intro E. inversion E; subst. exact H.
  - destruct (f r) as [b r1] eqn:F. pose proof (Hf r b r1 H F) as H1. destruct b.
    + destruct (stage_loop f k r1) as [b2 r2] eqn:S. intro E. inversion E; subst. apply (IH r1 b2 r' H1 S).
    + intro E. inversion E; subst. exact H1.
Qed.

(** the three stages never touch the control fields *)
Lemma bottom_up_ctl r ok r' : bottom_up r = (ok, r') -> ctl_view r' = ctl_view r.
Proof.
  unfold bottom_up. destruct (r_trans r); [intro E; inversion E; reflexivity|].
  destruct (negb (t_has t)); [intro E; inversion E; reflexivity|].
  destruct (N.of_nat (length (r_top_out r)) <? r_top_cap r); intro E; inversion E; reflexivity.
Qed.

Lemma parse_bottom_ctl r ok r' : parse_bottom r = (ok, r') -> ctl_view r' = ctl_view r.
Proof. unfold parse_bottom. destruct (r_bot_in r); intro E; inversion E; reflexivity. Qed.

Lemma top_down_ctl r ok r' : top_down r = (ok, r') -> ctl_view r' = ctl_view r.
Proof.
  unfold top_down. destruct (negb (r_cstate r =? 0)); [intro E; inversion E; reflexivity|].
  destruct (r_top_in r); [intro E; inversion E; reflexivity|].
  destruct (r_size r <=? Z.of_nat (length (r_trans r)))%Z; [intro E; inversion E; reflexivity|].
  destruct (N.of_nat (length (r_bot_out r)) <? r_bot_cap r); intro E; inversion E; reflexivity.
Qed.

Lemma pipeline_ctl r p r' : pipeline r = (p, r') -> ctl_view r' = ctl_view r.
Proof.
  unfold pipeline.
  destruct (stage_loop bottom_up (Z.to_nat (r_width r)) r) as [p1 r1] eqn:S1.
  destruct (stage_loop parse_bottom (Z.to_nat (r_width r)) r1) as [p2 r2] eqn:S2.
  destruct (stage_loop top_down (Z.to_nat (r_width r)) r2) as [p3 r3] eqn:S3.
  intro E. inversion E; subst.
  pose proof (stage_loop_pres (fun x => ctl_view x = ctl_view r) bottom_up
                (fun a b c H F => eq_trans (bottom_up_ctl a b c F) H) _ _ _ _ eq_refl S1) as C1.
  pose proof (stage_loop_pres (fun x => ctl_view x = ctl_view r) parse_bottom
                (fun a b c H F => eq_trans (parse_bottom_ctl a b c F) H) _ _ _ _ C1 S2) as C2.
  apply (stage_loop_pres (fun x => ctl_view x = ctl_view r) top_down
                (fun a b c H F => eq_trans (top_down_ctl a b c F) H) _ _ _ _ C2 S3).
Qed.

(** processControlMsg leaves the data path alone unless it executes a Reset *)
Definition is_reset (r : rob) : Prop :=
  r_cstate r <> 3 /\ ctl_can_send r = true /\
  exists id src rest, r_ctl_in r = CReq id src 3 :: rest.

Lemma process_control_data r p rc : process_control r = (p, rc) ->
  data_view rc = data_view r \/ (is_reset r /\ r_cstate rc = 0).
Proof.
  unfold process_control, ctl_reply.
  destruct (r_cstate r =? 3) eqn:E3.
  - destruct (r_trans r); [|intro E; inversion E; left; reflexivity].
    destruct (ctl_can_send r); intro E; inversion E; left; reflexivity.
  - destruct (r_ctl_in r) as [|[id src cmd|] rest] eqn:Ein; [intro E; inversion E; left; reflexivity| |].
    + destruct (cmd =? 1); [intro E; inversion E; left; reflexivity|].
      destruct (ctl_can_send r) eqn:Ecs; cbn [negb]; [|intro E; inversion E; left; reflexivity].
      destruct (cmd =? 0); [intro E; inversion E; left; reflexivity|].
      destruct (cmd =? 2); [intro E; inversion E; left; reflexivity|].
      destruct (cmd =? 3) eqn:Ec3; [|intro E; inversion E; left; reflexivity].
      intro E. inversion E; subst. right. split; [|reflexivity].
      split; [lia|]. split; [exact Ecs|]. exists id, src, rest. apply N.eqb_eq in Ec3. subst cmd. exact Ein.
    + intro E. inversion E; left; reflexivity.
Qed.

(** ** Pause: a tick that ends Paused has not moved anything on the data path *)
Lemma pause_freezes r p r' : tick r = (p, r') -> r_cstate r' = 2 -> data_view r' = data_view r.
Proof.
  unfold tick. destruct (process_control r) as [p0 rc] eqn:PC.
  destruct ((r_cstate rc =? 0) || (r_cstate rc =? 3)) eqn:Run.
  - destruct (pipeline rc) as [pp r1] eqn:PL. intro E. inversion E; subst.
    destruct (ctl_view_eq _ _ (pipeline_ctl rc pp r' PL)) as [C1 _]. intro H2. exfalso. lia.
  - intro E. inversion E; subst. intro H2.
    destruct (process_control_data r p r' PC) as [D|[_ D]]; [exact D|lia].
Qed.

(** ** Draining: no request is accepted (the table only shrinks towards the acknowledgement) *)
Lemma top_down_disabled r : r_cstate r <> 0 -> forall n, stage_loop top_down n r = (false, r).
Proof.
  intros H [|n]; cbn [stage_loop]; [reflexivity|].
  unfold top_down. destruct (r_cstate r =? 0) eqn:E; [lia|]. reflexivity.
Qed.

Definition accept_view (r : rob) := (g_acc r, r_top_in r, g_shadow r, r_bot_out r).

Lemma bottom_up_accept r ok r' : bottom_up r = (ok, r') -> accept_view r' = accept_view r.
Proof.
  unfold bottom_up. destruct (r_trans r); [intro E; inversion E; reflexivity|].
  destruct (negb (t_has t)); [intro E; inversion E; reflexivity|].
  destruct (N.of_nat (length (r_top_out r)) <? r_top_cap r); intro E; inversion E; reflexivity.
Qed.

Lemma parse_bottom_accept r ok r' : parse_bottom r = (ok, r') -> accept_view r' = accept_view r.
Proof. unfold parse_bottom. destruct (r_bot_in r); intro E; inversion E; reflexivity. Qed.

Lemma draining_no_accept r p r' : tick r = (p, r') -> r_cstate r' <> 0 -> accept_view r' = accept_view r.
Proof.
  unfold tick. destruct (process_control r) as [p0 rc] eqn:PC.
  assert (D : r_cstate rc <> 0 -> accept_view rc = accept_view r).
  { intro H. destruct (process_control_data r p0 rc PC) as [D|[_ D]]; [|lia].
    unfold data_view in D. unfold accept_view. inversion D. reflexivity. }
  destruct ((r_cstate rc =? 0) || (r_cstate rc =? 3)) eqn:Run.
  - destruct (pipeline rc) as [pp r1] eqn:PL. intro E. inversion E; subst. intro H.
    destruct (ctl_view_eq _ _ (pipeline_ctl rc pp r' PL)) as [C1 _].
    rewrite C1 in H. rewrite <- (D H). clear D.
    unfold pipeline in PL.
    destruct (stage_loop bottom_up (Z.to_nat (r_width rc)) rc) as [p1 r1] eqn:S1.
    destruct (stage_loop parse_bottom (Z.to_nat (r_width rc)) r1) as [p2 r2] eqn:S2.
    pose proof (stage_loop_pres (fun x => accept_view x = accept_view rc /\ r_cstate x = r_cstate rc) bottom_up
      (fun a b c Hh F => conj (eq_trans (bottom_up_accept a b c F) (proj1 Hh))
                              (eq_trans (proj1 (ctl_view_eq _ _ (bottom_up_ctl a b c F))) (proj2 Hh)))
      _ _ _ _ (conj eq_refl eq_refl) S1) as [A1 B1].
    pose proof (stage_loop_pres (fun x => accept_view x = accept_view rc /\ r_cstate x = r_cstate rc) parse_bottom
      (fun a b c Hh F => conj (eq_trans (parse_bottom_accept a b c F) (proj1 Hh))
                              (eq_trans (proj1 (ctl_view_eq _ _ (parse_bottom_ctl a b c F))) (proj2 Hh)))
      _ _ _ _ (conj A1 B1) S2) as [A2 B2].
    rewrite (top_down_disabled r2 ltac:(rewrite B2; exact H)) in PL. inversion PL; subst. exact A2.
  - intro E. inversion E; subst. exact D.
Qed.

(** ** Drain: accepted silently; acknowledged only from Draining with an empty table *)
Lemma drain_accept r id src rest : r_cstate r <> 3 -> r_ctl_in r = CReq id src 1 :: rest ->
  exists rc, process_control r = (true, rc) /\ r_cstate rc = 3 /\ r_cmd_id rc = id /\ r_cmd_src rc = src /\
             r_ctl_out rc = r_ctl_out r /\ r_ctl_in rc = rest /\ data_view rc = data_view r.
Proof.
  intros H3 Hin. unfold process_control. destruct (r_cstate r =? 3) eqn:E; [lia|]. rewrite Hin.
  cbn. eexists. split; [reflexivity|]. repeat split.
Qed.

Definition drain_ack (c : crsp) : Prop := cr_cmd c = 1.

Lemma control_replies r p rc : process_control r = (p, rc) ->
  r_ctl_out rc = r_ctl_out r \/
  exists c, r_ctl_out rc = r_ctl_out r ++ [c] /\
    (drain_ack c -> r_cstate r = 3 /\ r_trans r = [] /\ r_trans rc = [] /\ r_cstate rc = 2 /\ cr_ok c = true /\
                    cr_rspto c = r_cmd_id r /\ cr_dst c = r_cmd_src r).
Proof.
  unfold process_control, ctl_reply, drain_ack.
  destruct (r_cstate r =? 3) eqn:E3.
  - destruct (r_trans r) eqn:T; [|intro E; inversion E; left; reflexivity].
    destruct (ctl_can_send r); intro E; inversion E; [|left; reflexivity].
    right. eexists. split; [reflexivity|]. intros _. cbn. rewrite T. repeat split. lia.
  - destruct (r_ctl_in r) as [|[id src cmd|] rest]; [intro E; inversion E; left; reflexivity| |].
    + destruct (cmd =? 1) eqn:E1; [intro E; inversion E; left; reflexivity|].
      destruct (negb (ctl_can_send r)); [intro E; inversion E; left; reflexivity|].
      destruct (cmd =? 0) eqn:E0; [intro E; inversion E; right; eexists; split; [reflexivity|cbn; lia]|].
      destruct (cmd =? 2) eqn:E2; [intro E; inversion E; right; eexists; split; [reflexivity|cbn; lia]|].
      destruct (cmd =? 3) eqn:E4; intro E; inversion E; right; eexists; (split; [reflexivity|cbn; lia]).
    + intro E. inversion E; left; reflexivity.
Qed.

Lemma tick_replies r p r' : inv r -> tick r = (p, r') ->
  r_ctl_out r' = r_ctl_out r \/
  exists c, r_ctl_out r' = r_ctl_out r ++ [c] /\
    (drain_ack c -> r_cstate r = 3 /\ r_trans r = [] /\ r_trans r' = [] /\ r_cstate r' = 2 /\ cr_ok c = true /\
                    cr_rspto c = r_cmd_id r /\ cr_dst c = r_cmd_src r /\
                    length (g_rel r) = length (g_acc r)).
Proof.
  intro I. unfold tick. destruct (process_control r) as [p0 rc] eqn:PC.
  pose proof (control_replies r p0 rc PC) as CR.
  assert (L : r_trans r = [] -> length (g_rel r) = length (g_acc r)).
  { intro T. pose proof (f_equal (@length _) (i_order r I)) as O. rewrite T, app_nil_r, !map_length in O. lia. }
  destruct ((r_cstate rc =? 0) || (r_cstate rc =? 3)) eqn:Run.
  - destruct (pipeline rc) as [pp r1] eqn:PL. intro E. inversion E; subst.
    destruct (ctl_view_eq _ _ (pipeline_ctl rc pp r' PL)) as [C1 [C5 _]].
    rewrite C5. destruct CR as [CR|[c [CR Hc]]]; [left; exact CR|right].
    exists c. split; [exact CR|]. intro D. destruct (Hc D) as (A1&A2&A3&A4&A5&A6&A7). rewrite A4 in Run. discriminate.
  - intro E. inversion E; subst. destruct CR as [CR|[c [CR Hc]]]; [left; exact CR|right].
    exists c. split; [exact CR|]. intro D. destruct (Hc D) as (A1&A2&A3&A4&A5&A6&A7). repeat split; auto.
Qed.

(** ** Reset: exactly the table (and the two incoming buffers) is discarded *)
Lemma skipn_map' {A B} (f : A -> B) n l : skipn n (map f l) = map f (skipn n l).
Proof. revert l. induction n as [|n IH]; intros [|x l]; cbn [skipn map]; auto. Qed.

Lemma skipn_app_len {A} (a b : list A) n : length a = n -> skipn n (a ++ b) = b.
Proof. intros <-. induction a; cbn [length skipn app]; auto. Qed.

Lemma reset_discards r : inv r -> is_reset r ->
  exists rc, process_control r = (true, rc) /\
    r_trans rc = [] /\ r_top_in rc = [] /\ r_bot_in rc = [] /\ r_cstate rc = 0 /\
    r_top_out rc = r_top_out r /\ r_bot_out rc = r_bot_out r /\ g_rel rc = g_rel r /\
    r_next_id rc = r_next_id r + 1 /\
    g_acc r = g_acc rc ++ skipn (length (g_rel r)) (g_acc r) /\
    length (g_acc rc) = length (g_rel r) /\
    map akey (skipn (length (g_rel r)) (g_acc r)) = map tkey (r_trans r).
Proof.
  intros I [H3 [Hcs [id [src [rest Hin]]]]]. unfold process_control.
  destruct (r_cstate r =? 3) eqn:E; [lia|]. rewrite Hin, Hcs. cbn [N.eqb negb Pos.eqb].
  eexists. split; [reflexivity|]. cbn [r_trans r_top_in r_bot_in r_cstate r_top_out r_bot_out g_rel r_next_id g_acc].
  repeat (split; [reflexivity|]).
  pose proof (i_order r I) as O. rewrite (map_app tkey) in O.
  assert (Ln : length (map tkey (map snd (g_rel r))) = length (g_rel r)) by (rewrite !map_length; reflexivity).
  split; [symmetry; apply firstn_skipn|]. split.
  - rewrite firstn_length. pose proof (f_equal (@length _) O) as Lo. rewrite app_length, !map_length in Lo. lia.
  - rewrite <- skipn_map', O. apply skipn_app_len. exact Ln.
Qed.

(** ** nothing released later belongs to a transaction that was not live or accepted later *)
Definition later_ok (L : list N) (B : N) (t : trans) : Prop := In (t_bot_id t) L \/ B <= t_bot_id t.

Definition after (L : list N) (B : N) (base : list (trsp * trans)) (r : rob) : Prop :=
  B <= r_next_id r /\ Forall (later_ok L B) (r_trans r) /\
  exists more, g_rel r = base ++ more /\ Forall (fun x => later_ok L B (snd x)) more.

Lemma after_set L B base r id tr ti to bi bo acc sh :
  after L B base r -> r_next_id r <= id -> Forall (later_ok L B) tr ->
  after L B base (upd_ports r id tr ti to bi bo acc (g_rel r) sh).
Proof.
  intros [A1 [A2 A3]] Hid Htr. split; [cbn; lia|]. split; [exact Htr|exact A3].
Qed.

Lemma bottom_up_after L B base r ok r' : after L B base r -> bottom_up r = (ok, r') -> after L B base r'.
Proof.
  intros A. pose proof A as [A1 [A2 [more [A3 A4]]]]. unfold bottom_up. destruct (r_trans r) as [|h rest] eqn:T.
  - intro E. inversion E; subst. exact A.
  - destruct (negb (t_has h)); [intro E; inversion E; subst; exact A|].
    inversion A2 as [|? ? Hh Hrest]; subst.
    destruct (N.of_nat (length (r_top_out r)) <? r_top_cap r); intro E; inversion E; subst.
    + split; [cbn; lia|]. split; [exact Hrest|]. cbn [g_rel upd_ports].
      exists (more ++ [(top_rsp_of h (r_next_id r), h)]). rewrite A3, <- app_assoc. split; [reflexivity|].
      apply Forall_app. split; [exact A4|constructor; [exact Hh|constructor]].
    + split; [cbn; lia|]. split; [cbn [r_trans upd_ports]; rewrite <- T in *; rewrite T; constructor; assumption|].
      exists more. split; [exact A3|exact A4].
Qed.

Lemma parse_bottom_after L B base r ok r' : after L B base r -> parse_bottom r = (ok, r') -> after L B base r'.
Proof.
  intros A. pose proof A as [A1 [A2 A3]]. unfold parse_bottom. destruct (r_bot_in r) as [|b rest].
  - intro E. inversion E; subst. exact A.
  - intro E. inversion E; subst. apply after_set; [exact A|lia|].
    destruct (b_rspto b) as [id|]; [|exact A2].
    rewrite Forall_forall in *. intros t Ht. destruct (record_rsp_in b id (r_trans r) t Ht) as [t0 [H0 E0]].
    specialize (A2 t0 H0). unfold later_ok in *. rewrite <- E0. exact A2.
Qed.

Lemma top_down_after L B base r ok r' : after L B base r -> top_down r = (ok, r') -> after L B base r'.
Proof.
  intros A. pose proof A as [A1 [A2 A3]]. unfold top_down.
  destruct (negb (r_cstate r =? 0)); [intro E; inversion E; subst; exact A|].
  destruct (r_top_in r) as [|q rest]; [intro E; inversion E; subst; exact A|].
  destruct (r_size r <=? Z.of_nat (length (r_trans r)))%Z; [intro E; inversion E; subst; exact A|].
  destruct (N.of_nat (length (r_bot_out r)) <? r_bot_cap r); intro E; inversion E; subst.
  - apply after_set; [exact A|lia|]. apply Forall_app. split; [exact A2|].
    constructor; [|constructor]. right. cbn. exact A1.
  - apply after_set; [exact A|lia|exact A2].
Qed.

Lemma process_control_after L B base r ok r' : after L B base r -> process_control r = (ok, r') -> after L B base r'.
Proof.
  intros A. pose proof A as [A1 [A2 A3]]. unfold process_control, ctl_reply.
  assert (Same : forall id cs cid csrc cin cout, r_next_id r <= id -> after L B base (upd_ctl r id cs cid csrc cin cout)).
  { intros. split; [cbn; lia|]. split; [exact A2|exact A3]. }
  destruct (r_cstate r =? 3).
  - destruct (r_trans r); [|intro E; inversion E; subst; exact A].
    destruct (ctl_can_send r); intro E; inversion E; subst; [apply Same; lia|exact A].
  - destruct (r_ctl_in r) as [|[id src cmd|] rest]; [intro E; inversion E; subst; exact A| |].
    + destruct (cmd =? 1); [intro E; inversion E; subst; apply Same; lia|].
      destruct (negb (ctl_can_send r)); [intro E; inversion E; subst; exact A|].
      destruct (cmd =? 0); [intro E; inversion E; subst; apply Same; lia|].
      destruct (cmd =? 2); [intro E; inversion E; subst; apply Same; lia|].
      destruct (cmd =? 3); [|intro E; inversion E; subst; apply Same; lia].
      intro E. inversion E; subst. split; [cbn; lia|]. split; [constructor|exact A3].
    + intro E. inversion E; subst. apply Same. lia.
Qed.

Lemma tick_after L B base r p r' : after L B base r -> tick r = (p, r') -> after L B base r'.
Proof.
  intros A. unfold tick. destruct (process_control r) as [p0 rc] eqn:PC.
  pose proof (process_control_after L B base r p0 rc A PC) as A1.
  destruct ((r_cstate rc =? 0) || (r_cstate rc =? 3)); [|intro E; inversion E; subst; exact A1].
  destruct (pipeline rc) as [pp r1] eqn:PL. intro E. inversion E; subst. unfold pipeline in PL.
  destruct (stage_loop bottom_up (Z.to_nat (r_width rc)) rc) as [p1 r1] eqn:S1.
  destruct (stage_loop parse_bottom (Z.to_nat (r_width rc)) r1) as [p2 r2] eqn:S2.
  destruct (stage_loop top_down (Z.to_nat (r_width rc)) r2) as [p3 r3] eqn:S3.
  inversion PL; subst.
  pose proof (stage_loop_pres (after L B base) bottom_up (bottom_up_after L B base) _ _ _ _ A1 S1) as B1.
  pose proof (stage_loop_pres (after L B base) parse_bottom (parse_bottom_after L B base) _ _ _ _ B1 S2) as B2.
  apply (stage_loop_pres (after L B base) top_down (top_down_after L B base) _ _ _ _ B2 S3).
Qed.

Lemma deliver_after L B base r i :
  after L B base r -> after L B base (deliver_ctl (deliver_bot (deliver_top r (i_top i)) (i_bot i)) (i_ctl i)).
Proof.
  intro A.
  assert (T : forall qs r, after L B base r -> after L B base (deliver_top r qs)).
  { unfold deliver_top. induction qs as [|q rest IH]; intros x Ax; cbn [fold_left]; [exact Ax|].
    destruct (N.of_nat (length (r_top_in x)) <? r_top_cap x); apply IH; [|exact Ax].
    apply after_set; [exact Ax|lia|apply Ax]. }
  assert (Bt : forall bs r, after L B base r -> after L B base (deliver_bot r bs)).
  { unfold deliver_bot. induction bs as [|b rest IH]; intros x Ax; cbn [fold_left]; [exact Ax|].
    destruct (N.of_nat (length (r_bot_in x)) <? r_bot_cap x); apply IH; [|exact Ax].
    apply after_set; [exact Ax|lia|apply Ax]. }
  assert (Ct : forall cs r, after L B base r -> after L B base (deliver_ctl r cs)).
  { unfold deliver_ctl. induction cs as [|c rest IH]; intros x Ax; cbn [fold_left]; [exact Ax|].
    destruct (N.of_nat (length (r_ctl_in x)) <? r_ctl_cap x); apply IH; [|exact Ax].
    destruct Ax as [X1 [X2 X3]]. split; [cbn; lia|]. split; [exact X2|exact X3]. }
  apply Ct, Bt, T, A.
Qed.

Lemma env_step_after L B base r i r' ob : after L B base r -> env_step r i = (r', ob) -> after L B base r'.
Proof.
  intro A. unfold env_step, ckpt_roundtrip.
  replace (if i_ckpt i then r else r) with r by (destruct (i_ckpt i); reflexivity).
  pose proof (deliver_after L B base r i A) as A0.
  destruct (tick (deliver_ctl (deliver_bot (deliver_top r (i_top i)) (i_bot i)) (i_ctl i))) as [p r1] eqn:T.
  pose proof (tick_after L B base _ _ _ A0 T) as [X1 [X2 X3]].
  intro E. inversion E; subst. split; [exact X1|]. split; [exact X2|exact X3].
Qed.

Lemma env_run_after L B base : forall s r r' obs, after L B base r -> env_run r s = (r', obs) -> after L B base r'.
Proof.
  induction s as [|i rest IH]; intros r r' obs A; cbn [env_run].
  - intro E. inversion E; subst. exact A.
  - destruct (env_step r i) as [r1 ob] eqn:ES. destruct (env_run r1 rest) as [r2 obs2] eqn:ER.
    intro E. inversion E; subst. apply (IH r1 r' obs2 (env_step_after L B base r i r1 ob A ES) ER).
Qed.
