(** C21 — proofs: the in-order / matching-result invariant of the reorder buffer through
    every stage, tick and scripted run (any lower-unit completion order, delay, duplicate or
    stray answer; any back-pressure). *)
From Akita Require Import Lib.Base C21.Model.
Local Open Scope N_scope.

(** identity of a transaction / of an accepted request *)
Definition tkey (t : trans) : N * N * N * bool := (t_top_id t, t_top_src t, t_bot_id t, t_is_read t).
Definition akey (a : req * N) : N * N * N * bool := (q_id (fst a), q_src (fst a), snd a, q_is_read (fst a)).

(** the data the lower unit last returned among the answers recorded on a transaction *)
Definition last_data (l : list brsp) : list N :=
  fold_left (fun d b => match b with BData _ x => x | _ => d end) l [].

Lemma last_data_snoc l b :
  last_data (l ++ [b]) = match b with BData _ x => x | _ => last_data l end.
Proof. unfold last_data. rewrite fold_left_app. cbn [fold_left]. destruct b; reflexivity. Qed.

Definition trans_ok (t : trans) : Prop :=
  (t_has t = true <-> t_parsed t <> []) /\
  (forall b, In b (t_parsed t) -> b_rspto b = Some (t_bot_id t)) /\
  t_data t = last_data (t_parsed t).

(** the response built for a transaction *)
Definition rsp_answers (x : trsp * trans) : Prop :=
  let '(rsp, t) := x in
  t_has t = true /\
  match rsp with
  | TData _ dst rspto data tb =>
      t_is_read t = true /\ dst = t_top_src t /\ rspto = t_top_id t /\ data = t_data t /\
      tb = (Z.of_nat (length data) + 4)%Z
  | TDone _ dst rspto tb => t_is_read t = false /\ dst = t_top_src t /\ rspto = t_top_id t /\ tb = 4%Z
  end.

Record inv (r : rob) : Prop := mk_inv {
  (* accepted requests = released transactions followed by the live ones, in order *)
  i_order : map akey (g_acc r) = map tkey (map snd (g_rel r) ++ r_trans r);
  i_rel : Forall rsp_answers (g_rel r);
  i_ok : Forall trans_ok (map snd (g_rel r) ++ r_trans r);
  i_fresh : forall t, In t (r_trans r) -> t_bot_id t < r_next_id r;
  i_nodup : NoDup (map t_bot_id (r_trans r));
  i_shadow : forall a, In a (g_acc r) -> In (shadow_of (fst a) (snd a)) (g_shadow r) }.

(** what has been put on the ports so far: [dt]/[db] were drained, the rest is still queued *)
Definition hist (dt : list trsp) (db : list sreq) (r : rob) : Prop :=
  map fst (g_rel r) = dt ++ r_top_out r /\ g_shadow r = db ++ r_bot_out r.

Definition same_cfg (r r' : rob) : Prop :=
  r_size r' = r_size r /\ r_width r' = r_width r /\ r_top_cap r' = r_top_cap r /\ r_bot_cap r' = r_bot_cap r.

Lemma inv_init size width tc bc cc : inv (rob_init size width tc bc cc).
Proof.
  constructor; cbn.
  - reflexivity.
  - constructor.
  - constructor.
  - intros t [].
  - constructor.
  - intros a [].
Qed.

(** ---- bottomUp *)
Lemma bottom_up_inv r ok r' dt db : inv r -> hist dt db r -> bottom_up r = (ok, r') ->
  inv r' /\ hist dt db r' /\ same_cfg r r'.
Proof.
  intros I [H1 H2]. unfold bottom_up. destruct (r_trans r) as [|h rest] eqn:T.
  - intro E. inversion E; subst. split; [exact I|split; [split; assumption|repeat split]].
  - destruct (t_has h) eqn:Hh; cbn [negb].
    2:{ intro E. inversion E; subst. split; [exact I|split; [split; assumption|repeat split]]. }
    destruct (N.of_nat (length (r_top_out r)) <? r_top_cap r).
    + intro E. inversion E; subst. split; [|split; [|repeat split]].
      * constructor; unfold upd_ports; cbn [g_acc g_rel r_trans r_next_id g_shadow].
        -- rewrite (i_order r I), T. f_equal. rewrite (map_app snd). cbn [map snd]. rewrite <- app_assoc. reflexivity.
        -- apply Forall_app. split; [apply (i_rel r I)|]. constructor; [|constructor].
           unfold rsp_answers, top_rsp_of. split; [exact Hh|]. destruct (t_is_read h); repeat split.
        -- rewrite (map_app snd). cbn [map snd]. rewrite <- app_assoc. cbn [app].
           pose proof (i_ok r I) as K. rewrite T in K. exact K.
        -- intros t Ht. pose proof (i_fresh r I t) as F. rewrite T in F. specialize (F (or_intror Ht)). lia.
        -- pose proof (i_nodup r I) as N0. rewrite T in N0. cbn [map] in N0. inversion N0; assumption.
        -- apply (i_shadow r I).
      * unfold hist, upd_ports; cbn [g_rel r_top_out g_shadow r_bot_out]. split; [|exact H2].
        rewrite map_app, H1. cbn [map fst]. rewrite <- app_assoc. reflexivity.
    + intro E. inversion E; subst. split; [|split; [split; assumption|repeat split]].
      constructor; unfold upd_ports; cbn [g_acc g_rel r_trans r_next_id g_shadow]; rewrite <- ?T;
        [apply (i_order r I)|apply (i_rel r I)|apply (i_ok r I)| |apply (i_nodup r I)|apply (i_shadow r I)].
      intros t Ht. pose proof (i_fresh r I t Ht). lia.
Qed.

(** ---- parseBottom *)
Lemma record_rsp_key b id ts : map tkey (record_rsp b id ts) = map tkey ts.
Proof.
  induction ts as [|t rest IH]; cbn [record_rsp map]; [reflexivity|].
  destruct (t_bot_id t =? id); cbn [map]; [reflexivity|]. rewrite IH. reflexivity.
Qed.

Lemma record_rsp_botid b id ts : map t_bot_id (record_rsp b id ts) = map t_bot_id ts.
Proof.
  induction ts as [|t rest IH]; cbn [record_rsp map]; [reflexivity|].
  destruct (t_bot_id t =? id); cbn [map]; [reflexivity|]. rewrite IH. reflexivity.
Qed.

Lemma record_rsp_ok b id ts : b_rspto b = Some id -> Forall trans_ok ts -> Forall trans_ok (record_rsp b id ts).
Proof.
  intros Hb. induction ts as [|t rest IH]; intro F; cbn [record_rsp]; [constructor|].
  inversion F as [|? ? Ht Hr]; subst. destruct (t_bot_id t =? id) eqn:E.
  - constructor; [|exact Hr]. destruct Ht as [A [B C]].
    unfold trans_ok. cbn [t_has t_parsed t_bot_id t_data]. split; [|split].
    + split; [intros _; destruct (t_parsed t); discriminate|reflexivity].
    + intros b0 Hin. apply in_app_or in Hin. destruct Hin as [Hin|[<-|[]]]; [apply B; exact Hin|].
      rewrite Hb. f_equal. lia.
    + rewrite last_data_snoc. destruct b; try reflexivity; exact C.
  - constructor; [exact Ht|apply IH; exact Hr].
Qed.

Lemma record_rsp_in b id ts t : In t (record_rsp b id ts) -> exists t0, In t0 ts /\ t_bot_id t0 = t_bot_id t.
Proof.
  induction ts as [|u rest IH]; cbn [record_rsp]; [intros []|].
  destruct (t_bot_id u =? id).
  - intros [<-|Hin]; [exists u; split; [left; reflexivity|reflexivity]|exists t; split; [right; exact Hin|reflexivity]].
  - intros [<-|Hin]; [exists u; split; [left; reflexivity|reflexivity]|].
    destruct (IH Hin) as [t0 [H0 H1]]. exists t0. split; [right; exact H0|exact H1].
Qed.

Lemma parse_bottom_inv r ok r' dt db : inv r -> hist dt db r -> parse_bottom r = (ok, r') ->
  inv r' /\ hist dt db r' /\ same_cfg r r'.
Proof.
  intros I [H1 H2]. unfold parse_bottom. destruct (r_bot_in r) as [|b rest] eqn:B.
  - intro E. inversion E; subst. split; [exact I|split; [split; assumption|repeat split]].
  - intro E. inversion E; subst. split; [|split; [split; assumption|repeat split]].
    destruct (b_rspto b) as [id|] eqn:Hb.
    + constructor; unfold upd_ports; cbn [g_acc g_rel r_trans r_next_id g_shadow].
      * rewrite (i_order r I), !map_app, record_rsp_key. reflexivity.
      * apply (i_rel r I).
      * pose proof (i_ok r I) as K. apply Forall_app in K. destruct K as [K1 K2].
        apply Forall_app. split; [exact K1|apply record_rsp_ok; assumption].
      * intros t Ht. apply record_rsp_in in Ht. destruct Ht as [t0 [H0 <-]]. apply (i_fresh r I t0 H0).
      * rewrite record_rsp_botid. apply (i_nodup r I).
      * apply (i_shadow r I).
    + constructor; unfold upd_ports; cbn [g_acc g_rel r_trans r_next_id g_shadow];
        [apply (i_order r I)|apply (i_rel r I)|apply (i_ok r I)|apply (i_fresh r I)|apply (i_nodup r I)|apply (i_shadow r I)].
Qed.

(** a response whose RspTo is the shadow id of a live transaction is recorded on exactly that one *)
Lemma record_rsp_routes b id ts t : NoDup (map t_bot_id ts) -> In t ts -> t_bot_id t = id ->
  In (mk_trans (t_top_id t) (t_top_src t) (t_bot_id t) (t_is_read t) true
               (match b with BData _ d => d | _ => t_data t end) (t_parsed t ++ [b]))
     (record_rsp b id ts) /\
  forall u, In u ts -> t_bot_id u <> id -> In u (record_rsp b id ts).
Proof.
  induction ts as [|u rest IH]; intros Nd Hin Hid; [destruct Hin|].
  cbn [map] in Nd. inversion Nd as [|? ? Hni Nd']; subst. cbn [record_rsp].
  destruct Hin as [->|Hin].
  - rewrite N.eqb_refl. split; [left; reflexivity|].
    intros u0 [->|H0] Hne; [congruence|right; exact H0].
  - destruct (t_bot_id u =? t_bot_id t) eqn:E.
    + exfalso. apply Hni. assert (t_bot_id u = t_bot_id t) as -> by lia. apply in_map. exact Hin.
    + destruct (IH Nd' Hin eq_refl) as [A B]. split; [right; exact A|].
      intros u0 [->|H0] Hne; [left; reflexivity|right; apply B; assumption].
Qed.

Lemma NoDup_snoc1 {A} (l : list A) x : NoDup l -> ~ In x l -> NoDup (l ++ [x]).
Proof.
  induction l as [|y r IH]; cbn [app]; intros Hnd Hni.
  - constructor; [intros []|constructor].
  - inversion Hnd as [|? ? Hy Hr]; subst. constructor.
    + intro Hin. apply in_app_or in Hin. destruct Hin as [Hin|[Heq|[]]]; [tauto|].
      subst. apply Hni. left. reflexivity.
    + apply IH; [exact Hr|]. intro Hx. apply Hni. right. exact Hx.
Qed.

(** ---- topDown *)
Lemma top_down_inv r ok r' dt db : inv r -> hist dt db r -> top_down r = (ok, r') ->
  inv r' /\ hist dt db r' /\ same_cfg r r'.
Proof.
  intros I [H1 H2]. unfold top_down.
  destruct (negb (r_cstate r =? 0)). { intro E. inversion E; subst. split; [exact I|split; [split; assumption|repeat split]]. }
  destruct (r_top_in r) as [|q rest] eqn:T.
  - intro E. inversion E; subst. split; [exact I|split; [split; assumption|repeat split]].
  - destruct (r_size r <=? Z.of_nat (length (r_trans r)))%Z.
    { intro E. inversion E; subst. split; [exact I|split; [split; assumption|repeat split]]. }
    destruct (N.of_nat (length (r_bot_out r)) <? r_bot_cap r).
    + intro E. inversion E; subst. split; [|split; [|repeat split]].
      * constructor; unfold upd_ports; cbn [g_acc g_rel r_trans r_next_id g_shadow].
        -- rewrite app_assoc, (map_app akey), (map_app tkey), (i_order r I). reflexivity.
        -- apply (i_rel r I).
        -- rewrite app_assoc. apply Forall_app. split; [apply (i_ok r I)|].
           constructor; [|constructor]. unfold trans_ok. cbn [t_has t_parsed t_data t_bot_id].
           split; [split; [discriminate|intro H; exfalso; apply H; reflexivity]|split; [intros b []|reflexivity]].
        -- intros t Ht. apply in_app_or in Ht. destruct Ht as [Ht|[<-|[]]]; [pose proof (i_fresh r I t Ht); lia|cbn [t_bot_id]; lia].
        -- rewrite map_app. cbn [map t_bot_id]. apply NoDup_snoc1.
           ++ apply (i_nodup r I).
           ++ intro Hin. apply in_map_iff in Hin. destruct Hin as [t [Ht Hin]].
              pose proof (i_fresh r I t Hin). lia.
        -- intros a Ha. apply in_app_or in Ha. apply in_or_app. destruct Ha as [Ha|[<-|[]]]; [left; apply (i_shadow r I a Ha)|right; left; reflexivity].
      * unfold hist, upd_ports; cbn [g_rel r_top_out g_shadow r_bot_out]. split; [exact H1|].
        rewrite H2, <- app_assoc. reflexivity.
    + intro E. inversion E; subst. split; [|split; [split; assumption|repeat split]].
      constructor; unfold upd_ports; cbn [g_acc g_rel r_trans r_next_id g_shadow]; rewrite <- ?T;
        [apply (i_order r I)|apply (i_rel r I)|apply (i_ok r I)| |apply (i_nodup r I)|apply (i_shadow r I)].
      intros t Ht. pose proof (i_fresh r I t Ht). lia.
Qed.

Lemma In_firstn_acc {A} (n : nat) (l : list A) x : In x (firstn n l) -> In x l.
Proof. intro H. rewrite <- (firstn_skipn n l). apply in_or_app. left. exact H. Qed.

(** ---- processControlMsg (Pause / Drain / Enable / Reset / unsupported) *)
Lemma upd_ctl_inv r id cs cid csrc cin cout : r_next_id r <= id -> inv r -> inv (upd_ctl r id cs cid csrc cin cout).
Proof.
  intros Hid I. constructor; unfold upd_ctl; cbn [g_acc g_rel r_trans r_next_id g_shadow];
    [apply (i_order r I)|apply (i_rel r I)|apply (i_ok r I)| |apply (i_nodup r I)|apply (i_shadow r I)].
  intros t Ht. pose proof (i_fresh r I t Ht). lia.
Qed.

Lemma process_control_inv r ok r' dt db : inv r -> hist dt db r -> process_control r = (ok, r') ->
  inv r' /\ hist dt db r' /\ same_cfg r r'.
Proof.
  intros I [H1 H2]. unfold process_control, ctl_reply.
  assert (Same : forall id cs cid csrc cin cout, r_next_id r <= id ->
            inv (upd_ctl r id cs cid csrc cin cout) /\ hist dt db (upd_ctl r id cs cid csrc cin cout) /\
            same_cfg r (upd_ctl r id cs cid csrc cin cout)).
  { intros. split; [apply upd_ctl_inv; assumption|split; [split; assumption|repeat split]]. }
  assert (Id : inv r /\ hist dt db r /\ same_cfg r r) by (split; [exact I|split; [split; assumption|repeat split]]).
  destruct (r_cstate r =? 3).
  - destruct (r_trans r); [|intro E; inversion E; subst; exact Id].
    destruct (ctl_can_send r); intro E; inversion E; subst; [apply Same; lia|exact Id].
  - destruct (r_ctl_in r) as [|[id src cmd|] rest]; [intro E; inversion E; subst; exact Id| |].
    + destruct (cmd =? 1); [intro E; inversion E; subst; apply Same; lia|].
      destruct (negb (ctl_can_send r)); [intro E; inversion E; subst; exact Id|].
      destruct (cmd =? 0); [intro E; inversion E; subst; apply Same; lia|].
      destruct (cmd =? 2); [intro E; inversion E; subst; apply Same; lia|].
      destruct (cmd =? 3); [|intro E; inversion E; subst; apply Same; lia].
      (* Reset *)
      intro E. inversion E; subst. split; [|split; [split; assumption|repeat split]].
      pose proof (i_order r I) as O. pose proof (i_ok r I) as K. apply Forall_app in K. destruct K as [K1 _].
      constructor; cbn [g_acc g_rel r_trans r_next_id g_shadow].
      * rewrite app_nil_r. rewrite (map_app tkey) in O.
        rewrite <- firstn_map, O.
        replace (length (g_rel r)) with (length (map tkey (map snd (g_rel r)))) by (rewrite !map_length; reflexivity).
        rewrite firstn_app, Nat.sub_diag, firstn_all. cbn [firstn]. rewrite app_nil_r. reflexivity.
      * apply (i_rel r I).
      * rewrite app_nil_r. exact K1.
      * intros t [].
      * constructor.
      * intros a Ha. apply (i_shadow r I). apply (In_firstn_acc _ _ _ Ha).
    + intro E. inversion E; subst. apply Same. lia.
Qed.
