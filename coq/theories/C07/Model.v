(** C07 — model of the checkpoint archive code:
      simulation/archive.go      writeArchiveStream / readArchiveStream / entityPath / entityName
      simulation/checkpoint.go   Simulation.SaveCheckpoint / LoadCheckpoint / checkpointCoverage
      modeling/component_checkpoint.go, modeling/eventdriven_checkpoint.go
      messaging/port_checkpoint.go (loadBuffer, after the fix commit; [load_buffer_old] is the pre-fix code)
      mem/storage_checkpoint.go, mem/vm/pagetable_checkpoint.go
      timing/serialengine_checkpoint.go, timing/idgenerator_checkpoint.go
      internal/codec/registry.go DecodeSlice, queueing/buffer.go Restore
      net/url PathEscape / PathUnescape (escape, unescape, shouldEscape in path-segment mode)

    Level of the model.  An archive is the list of tar entries (type flag, name,
    data) that Go's compress/gzip + archive/tar hand to readArchiveStream; the
    data of an entity entry is the *decoded view* of the payload bytes (the DTO
    that encoding/json / encoding/binary hand to the loader).  The byte decoders
    themselves are Go's and are not modelled: a payload they reject is
    [PMalformed], a tar/gzip stream they reject at some entry is a [KBroken]
    item.  Opaque JSON blobs (a message or event body, a component State, a
    page, the bytes of a storage unit) are 64-bit fingerprints ([tok]).
    Strings are byte lists ([list N], every element < 256).
    A Go panic (log.Panicf in Buffer.Restore) is the outcome [Panic]. *)
From Akita Require Import Lib.Base Lib.KeySort.
Local Open Scope N_scope.

Definition str := list N.
Definition tok := N.

Definition str_eqb : str -> str -> bool := list_eqb N.eqb.

Fixpoint mem_str (x : str) (l : list str) : bool :=
  match l with
  | [] => false
  | y :: r => str_eqb x y || mem_str x r
  end.

Fixpoint lookup {A} (n : str) (l : list (str * A)) : option A :=
  match l with
  | [] => None
  | (k, v) :: r => if str_eqb n k then Some v else lookup n r
  end.

Definition mem_key {A} (n : str) (l : list (str * A)) : bool :=
  match lookup n l with Some _ => true | None => false end.

(* ------------------------------------------------------------------ outcomes *)

Inductive err :=
| EWriteNoBuildId | EWriteDup
| EStream | EUnsupportedEntry | EDupBuildId | EUnexpectedEntry | EDupEntity
| EMissingBuildId | EEmptyBuildId
| EBuildMismatch | ESavedNotRebuilt | ERebuiltMissing
| EDecode | ESpecHash | ECapIncoming | ECapOutgoing | EOverflow
| EUnknownMsgType | EUnknownEvtType | EUnknownHandler | EEngineNonEmpty
| EStorageCap | EStorageUnit | ETruncated | EPageSize | EIdKind
| EView.

Inductive outcome (A : Type) :=
| Ok (a : A)
| Err (e : err)
| Panic.
Arguments Ok {A} a.
Arguments Err {A} e.
Arguments Panic {A}.

(* ------------------------------------------------ net/url path-segment escaping *)

(** shouldEscape(c, encodePathSegment) = false *)
Definition keep_byte (c : N) : bool :=
  ((97 <=? c) && (c <=? 122)) || ((65 <=? c) && (c <=? 90)) || ((48 <=? c) && (c <=? 57))
  || (c =? 45) || (c =? 95) || (c =? 46) || (c =? 126)           (* - _ . ~ *)
  || (c =? 36) || (c =? 38) || (c =? 43) || (c =? 58) || (c =? 61) || (c =? 64). (* $ & + : = @ *)

(** "0123456789ABCDEF"[n] *)
Definition hexd (n : N) : N := if n <? 10 then 48 + n else 55 + n.

Definition esc_byte (c : N) : list N :=
  if keep_byte c then [c] else [37; hexd (c / 16); hexd (c mod 16)].

Definition path_escape (s : str) : str := flat_map esc_byte s.

Definition unhex (c : N) : option N :=
  if (48 <=? c) && (c <=? 57) then Some (c - 48)
  else if (97 <=? c) && (c <=? 102) then Some (c - 97 + 10)
  else if (65 <=? c) && (c <=? 70) then Some (c - 65 + 10)
  else None.

(** url.PathUnescape: a '%' must be followed by two hex digits. *)
Fixpoint path_unescape (s : str) : option str :=
  match s with
  | [] => Some []
  | c :: r =>
      if c =? 37 then
        match r with
        | h :: l :: r' =>
            match unhex h, unhex l, path_unescape r' with
            | Some a, Some b, Some t => Some (a * 16 + b :: t)
            | _, _, _ => None
            end
        | _ => None
        end
      else match path_unescape r with Some t => Some (c :: t) | None => None end
  end.

Definition build_id_path : str := [98; 117; 105; 108; 100; 95; 105; 100].          (* "build_id" *)
Definition entity_prefix : str := [101; 110; 116; 105; 116; 105; 101; 115; 47].    (* "entities/" *)

Definition entity_path (name : str) : str := entity_prefix ++ path_escape name.

Fixpoint strip_prefix (p s : str) : option str :=
  match p, s with
  | [], _ => Some s
  | x :: p', y :: s' => if x =? y then strip_prefix p' s' else None
  | _ :: _, [] => None
  end.

(** entityName *)
Definition entity_name (path : str) : option str :=
  match strip_prefix entity_prefix path with
  | Some rest => path_unescape rest
  | None => None
  end.

(* ------------------------------------------------------------ payload views *)

(** One {type, payload} element of a port buffer as DecodeSlice sees it:
    the tag, whether the body unmarshals into the type registered under that
    tag, and the fingerprint of the body. *)
Record elview := mk_elview { lv_tag : str; lv_ok : bool; lv_body : tok }.

(** One element of an engine queue: the tag, the (time, secondary, handler id)
    of the decoded event when the body unmarshals, the body fingerprint. *)
Record evview := mk_evview { vv_tag : str; vv_dec : option (N * bool * str); vv_body : tok }.

(** bufferCheckpoint: capacity and the elements array ([None]: the raw
    "elements" value is not a JSON array of typed payloads). *)
Record bufck := mk_bufck { bc_cap : Z; bc_elems : option (list elview) }.

Inductive payload :=
| PMalformed
| PEngine (time : N) (prim sec : option (list evview))
| PIdGen (kind : str) (next : N)
| PComp (spec_hash : str) (state : option tok) (has_tick : bool) (next_tick : N)
        (has_handled : bool) (last_handled : N)
| PEvComp (spec_hash : str) (state : option tok) (pending : N)
| PPort (incoming outgoing : bufck)
| PStorage (words : list N) (units : list (N * tok))
| PPageTable (log2 : N) (tables : list (N * list tok)).
(** PStorage: [words] are the 64-bit header words that can be read from the
    stream (capacity, unit size, unit count: at most three), [units] the complete
    (address, unit bytes) records that follow, at most the declared count.
    PComp/PEvComp [state]: [None] when the raw state does not unmarshal into the
    component's State type. *)

(* ------------------------------------------------------------------ entities *)

Record msg := mk_msg { m_tag : str; m_body : tok }.
Record ev := mk_ev { e_time : N; e_sec : bool; e_handler : str; e_tag : str; e_body : tok }.

(** A registered runtime entity: immutable configuration and mutable state.
    Go maps (storage units, per-process page tables) are lists with pairwise
    distinct keys in an arbitrary order. *)
Inductive entity :=
| EEngine (time : N) (q1 q2 : list ev) (handlers : list str)
| EIdGen (next : N)
| EComp (spec_hash : str) (state : tok) (has_tick : bool) (next_tick : N)
        (has_handled : bool) (last_handled : N)
| EEvComp (spec_hash : str) (state : tok) (pending : N)
| EPort (icap : Z) (ielems : list msg) (ocap : Z) (oelems : list msg)
| EStorage (cap unit : N) (units : list (N * tok))
| EPageTable (log2 : N) (tables : list (N * list tok)).

(** Process-wide decoder registries (messaging.msgCodec, timing.eventCodec). *)
Record config := mk_config { msg_types : list str; evt_types : list str }.

Definition sequential : str := [115; 101; 113; 117; 101; 110; 116; 105; 97; 108].  (* "sequential" *)

(* ---------------------------------------------------------------------- save *)

Definition sort_time (q : list ev) : list ev :=
  map snd (ks_sort N.ltb (map (fun e => (e_time e, e)) q)).

Definition evview_of (e : ev) : evview :=
  mk_evview (e_tag e) (Some (e_time e, e_sec e, e_handler e)) (e_body e).

Definition elview_of (m : msg) : elview := mk_elview (m_tag m) true (m_body m).

Definition save_buffer (cap : Z) (ms : list msg) : bufck :=
  mk_bufck cap (Some (map elview_of ms)).

(** Entity.SaveCheckpoint as a decoded view. *)
Definition save_entity (e : entity) : payload :=
  match e with
  | EEngine t q1 q2 _ =>
      PEngine t (Some (map evview_of (sort_time q1))) (Some (map evview_of (sort_time q2)))
  | EIdGen n => PIdGen sequential n
  | EComp h st ht nt hh lh => PComp h (Some st) ht nt hh lh
  | EEvComp h st pw => PEvComp h (Some st) pw
  | EPort ic ie oc oe => PPort (save_buffer ic ie) (save_buffer oc oe)
  | EStorage c u units => PStorage [c; u; N.of_nat (length units)] (ks_sort N.ltb units)
  | EPageTable l tables => PPageTable l (ks_sort N.ltb tables)
  end.

(* ------------------------------------------------------------------- archive *)

Inductive tkind := KReg | KOther | KBroken.
Inductive tdata := DBytes (b : str) | DPayload (p : payload).
Record tar_entry := mk_te { te_kind : tkind; te_name : str; te_data : tdata }.

Definition sort_name {A} (l : list (str * A)) : list (str * A) := ks_sort str_ltb l.

(** The loop of writeArchiveStream over the sorted entries. *)
Fixpoint emit_entries (seen : list str) (l : list (str * payload)) : outcome (list tar_entry) :=
  match l with
  | [] => Ok []
  | (n, p) :: r =>
      if mem_str n seen then Err EWriteDup
      else match emit_entries (n :: seen) r with
           | Ok t => Ok (mk_te KReg (entity_path n) (DPayload p) :: t)
           | Err e => Err e
           | Panic => Panic
           end
  end.

(** writeArchive / writeArchiveStream. *)
Definition write_archive (build : str) (entries : list (str * payload)) : outcome (list tar_entry) :=
  match build with
  | [] => Err EWriteNoBuildId
  | _ =>
      match emit_entries [] (sort_name entries) with
      | Ok t => Ok (mk_te KReg build_id_path (DBytes build) :: t)
      | Err e => Err e
      | Panic => Panic
      end
  end.

(** The loop of readArchiveStream. [EView]: the data of the entry is not of the
    form the harness translator produces for that name (bytes for build_id, a
    payload view for an entity) — outside the range of the translator. *)
Fixpoint read_loop (es : list tar_entry) (found : bool) (build : str)
         (pl : list (str * payload)) : outcome (str * list (str * payload)) :=
  match es with
  | [] =>
      if negb found then Err EMissingBuildId
      else match build with [] => Err EEmptyBuildId | _ => Ok (build, pl) end
  | e :: r =>
      match te_kind e with
      | KBroken => Err EStream
      | KOther => Err EUnsupportedEntry
      | KReg =>
          if str_eqb (te_name e) build_id_path then
            if found then Err EDupBuildId
            else match te_data e with
                 | DBytes b => read_loop r true b pl
                 | DPayload _ => Err EView
                 end
          else match entity_name (te_name e) with
               | None => Err EUnexpectedEntry
               | Some n =>
                   if mem_key n pl then Err EDupEntity
                   else match te_data e with
                        | DPayload p => read_loop r found build (pl ++ [(n, p)])
                        | DBytes _ => Err EView
                        end
               end
      end
  end.

Definition read_archive (es : list tar_entry) := read_loop es false [] [].

(* ----------------------------------------------------------- entity loaders *)

(** codec.DecodeSlice for messages: every element's tag must be registered and
    its body must unmarshal. *)
Fixpoint decode_msgs (cfg : config) (l : list elview) : outcome (list msg) :=
  match l with
  | [] => Ok []
  | v :: r =>
      if negb (mem_str (lv_tag v) (msg_types cfg)) then Err EUnknownMsgType
      else if negb (lv_ok v) then Err EDecode
      else match decode_msgs cfg r with
           | Ok t => Ok (mk_msg (lv_tag v) (lv_body v) :: t)
           | Err e => Err e
           | Panic => Panic
           end
  end.

(** messaging.loadBuffer after the fix: the element count is checked before
    Buffer.Restore. *)
Definition load_buffer (cfg : config) (cap : Z) (mism : err) (bc : bufck) : outcome (list msg) :=
  if negb (Z.eqb (bc_cap bc) cap) then Err mism
  else match bc_elems bc with
       | None => Err EDecode
       | Some l =>
           match decode_msgs cfg l with
           | Ok ms => if (cap <? Z.of_nat (length ms))%Z then Err EOverflow else Ok ms
           | Err e => Err e
           | Panic => Panic
           end
       end.

(** messaging.loadBuffer before the fix: Buffer.Restore panics when the decoded
    elements exceed the capacity. *)
Definition load_buffer_old (cfg : config) (cap : Z) (mism : err) (bc : bufck) : outcome (list msg) :=
  if negb (Z.eqb (bc_cap bc) cap) then Err mism
  else match bc_elems bc with
       | None => Err EDecode
       | Some l =>
           match decode_msgs cfg l with
           | Ok ms => if (cap <? Z.of_nat (length ms))%Z then Panic else Ok ms
           | Err e => Err e
           | Panic => Panic
           end
       end.

(** codec.DecodeSlice for events. *)
Fixpoint decode_evs (cfg : config) (l : list evview) : outcome (list ev) :=
  match l with
  | [] => Ok []
  | v :: r =>
      if negb (mem_str (vv_tag v) (evt_types cfg)) then Err EUnknownEvtType
      else match vv_dec v with
           | None => Err EDecode
           | Some (t, s, h) =>
               match decode_evs cfg r with
               | Ok tl => Ok (mk_ev t s h (vv_tag v) (vv_body v) :: tl)
               | Err e => Err e
               | Panic => Panic
               end
           end
  end.

(** SerialEngine.decodeEvents: DecodeSlice, then every handler id must be
    registered in the rebuilt engine. *)
Definition decode_events (cfg : config) (handlers : list str) (o : option (list evview))
  : outcome (list ev) :=
  match o with
  | None => Err EDecode
  | Some l =>
      match decode_evs cfg l with
      | Ok evs =>
          if forallb (fun e => mem_str (e_handler e) handlers) evs then Ok evs
          else Err EUnknownHandler
      | Err e => Err e
      | Panic => Panic
      end
  end.

(** Insert-or-overwrite into a Go map kept as a key-distinct list. *)
Fixpoint map_put {A} (k : N) (v : A) (m : list (N * A)) : list (N * A) :=
  match m with
  | [] => [(k, v)]
  | (k', v') :: r => if k =? k' then (k, v) :: r else (k', v') :: map_put k v r
  end.

Definition map_of_list {A} (l : list (N * A)) : list (N * A) :=
  fold_left (fun m kv => map_put (fst kv) (snd kv) m) l [].

Definition load_storage (cap unit : N) (words : list N) (units : list (N * tok))
  : outcome entity :=
  match words with
  | c :: u :: rest =>
      if negb (c =? cap) then Err EStorageCap
      else if negb (u =? unit) then Err EStorageUnit
      else match rest with
           | [] => Err ETruncated
           | n :: _ =>
               if N.of_nat (length units) <? n then Err ETruncated
               else Ok (EStorage cap unit (map_of_list (firstn (N.to_nat n) units)))
           end
  | _ => Err ETruncated
  end.

(** Storage.LoadCheckpoint before the second fix commit: the map was pre-sized
    with the declared unit count, [make(map, numUnits)]; a count above what the
    process can allocate ([limit] units) ends it with the unrecoverable runtime
    error "out of memory" — the outcome [Panic]. *)
Definition load_storage_old (limit : N) (cap unit : N) (words : list N) (units : list (N * tok))
  : outcome entity :=
  match words with
  | c :: u :: n :: _ =>
      if (c =? cap) && (u =? unit) && (limit <? n) then Panic
      else load_storage cap unit words units
  | _ => load_storage cap unit words units
  end.

(** Entity.LoadCheckpoint of the rebuilt entity [e0] on the payload view [p].
    [lb] is the port buffer loader (the fixed one or the pre-fix one).
    A payload constructor of another kind than [e0] cannot be produced by the
    translator (the view is always taken with the DTO of [e0]'s loader): [EView]. *)
Definition load_entity_with
           (lb : config -> Z -> err -> bufck -> outcome (list msg))
           (cfg : config) (e0 : entity) (p : payload) : outcome entity :=
  match e0 with
  | EEngine _ q1 q2 handlers =>
      match q1, q2 with
      | [], [] =>
          match p with
          | PMalformed => Err EDecode
          | PEngine t pr se =>
              match decode_events cfg handlers pr with
              | Ok e1 =>
                  match decode_events cfg handlers se with
                  | Ok e2 => Ok (EEngine t e1 e2 handlers)
                  | Err e => Err e
                  | Panic => Panic
                  end
              | Err e => Err e
              | Panic => Panic
              end
          | _ => Err EView
          end
      | _, _ => Err EEngineNonEmpty
      end
  | EIdGen _ =>
      match p with
      | PMalformed => Err EDecode
      | PIdGen k n => if str_eqb k sequential then Ok (EIdGen n) else Err EIdKind
      | _ => Err EView
      end
  | EComp h _ _ _ _ _ =>
      match p with
      | PMalformed => Err EDecode
      | PComp h' st ht nt hh lh =>
          if negb (str_eqb h h') then Err ESpecHash
          else match st with
               | None => Err EDecode
               | Some s => Ok (EComp h s ht nt hh lh)
               end
      | _ => Err EView
      end
  | EEvComp h _ _ =>
      match p with
      | PMalformed => Err EDecode
      | PEvComp h' st pw =>
          if negb (str_eqb h h') then Err ESpecHash
          else match st with
               | None => Err EDecode
               | Some s => Ok (EEvComp h s pw)
               end
      | _ => Err EView
      end
  | EPort ic _ oc _ =>
      match p with
      | PMalformed => Err EDecode
      | PPort bi bo =>
          match lb cfg ic ECapIncoming bi with
          | Ok mi =>
              match lb cfg oc ECapOutgoing bo with
              | Ok mo => Ok (EPort ic mi oc mo)
              | Err e => Err e
              | Panic => Panic
              end
          | Err e => Err e
          | Panic => Panic
          end
      | _ => Err EView
      end
  | EStorage c u _ =>
      match p with
      | PMalformed => Err ETruncated
      | PStorage words units => load_storage c u words units
      | _ => Err EView
      end
  | EPageTable l _ =>
      match p with
      | PMalformed => Err EDecode
      | PPageTable l' tables =>
          if negb (l' =? l) then Err EPageSize else Ok (EPageTable l (map_of_list tables))
      | _ => Err EView
      end
  end.

Definition load_entity := load_entity_with load_buffer.
Definition load_entity_old := load_entity_with load_buffer_old.

(* ---------------------------------------------------------------- simulation *)

(** The entity inventory in registration order. *)
Definition sim := list (str * entity).

Definition save_payloads (s : sim) : list (str * payload) :=
  map (fun ne => (fst ne, save_entity (snd ne))) s.

(** Simulation.SaveCheckpoint. *)
Definition save_sim (build : str) (s : sim) : outcome (list tar_entry) :=
  write_archive build (save_payloads s).

(** The per-entity loop of Simulation.LoadCheckpoint: rebuilt order, first
    error wins.  After the coverage check every rebuilt name has a payload; the
    [None] branch (Go would hand the loader an empty reader) is unreachable. *)
Fixpoint load_entities_with lb (cfg : config) (pl : list (str * payload)) (s0 : sim)
  : outcome sim :=
  match s0 with
  | [] => Ok []
  | (n, e0) :: r =>
      match lookup n pl with
      | None => Err ERebuiltMissing
      | Some p =>
          match load_entity_with lb cfg e0 p with
          | Ok e' =>
              match load_entities_with lb cfg pl r with
              | Ok t => Ok ((n, e') :: t)
              | Err e => Err e
              | Panic => Panic
              end
          | Err e => Err e
          | Panic => Panic
          end
      end
  end.

(** Simulation.LoadCheckpoint on an archive given as its tar entries. *)
Definition load_all_with lb (cfg : config) (build : str) (es : list tar_entry) (s0 : sim)
  : outcome sim :=
  match read_archive es with
  | Ok (saved_build, pl) =>
      if negb (str_eqb saved_build build) then Err EBuildMismatch
      else if existsb (fun np => negb (mem_key (fst np) s0)) pl then Err ESavedNotRebuilt
      else if existsb (fun ne => negb (mem_key (fst ne) pl)) s0 then Err ERebuiltMissing
      else load_entities_with lb cfg pl s0
  | Err e => Err e
  | Panic => Panic
  end.

Definition load_all := load_all_with load_buffer.
Definition load_all_old := load_all_with load_buffer_old.
