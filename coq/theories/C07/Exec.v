(** C07 — case evaluators for the correspondence check.

    A case is either a whole-simulation scenario ([CSim]: a saved simulation, a
    rebuilt simulation, optionally a hand-crafted / corrupted archive that
    replaces the saved one) or a single-entity probe ([CProbe]: one rebuilt
    entity and one payload view), each with the OBSERVED behaviour of the real
    code. *)
From Akita Require Import Lib.Base Lib.KeySort C07.Model.
Local Open Scope N_scope.

(* ------------------------------------------------------- decidable equalities *)

Definition str_eq_dec : forall a b : str, {a = b} + {a <> b} := list_eq_dec N.eq_dec.

Definition err_eq_dec : forall a b : err, {a = b} + {a <> b}.
Proof. decide equality. Defined.

Definition elview_eq_dec : forall a b : elview, {a = b} + {a <> b}.
Proof. decide equality; auto using N.eq_dec, bool_dec, str_eq_dec. Defined.

Definition dec3_eq_dec : forall a b : N * bool * str, {a = b} + {a <> b}.
Proof. decide equality; auto using str_eq_dec. decide equality; auto using N.eq_dec, bool_dec. Defined.

Definition opt_eq_dec {A} (d : forall a b : A, {a = b} + {a <> b}) :
  forall a b : option A, {a = b} + {a <> b}.
Proof. decide equality. Defined.

Definition evview_eq_dec : forall a b : evview, {a = b} + {a <> b}.
Proof. decide equality; auto using N.eq_dec, str_eq_dec, (opt_eq_dec dec3_eq_dec). Defined.

Definition bufck_eq_dec : forall a b : bufck, {a = b} + {a <> b}.
Proof.
  decide equality; auto using Z.eq_dec, (opt_eq_dec (list_eq_dec elview_eq_dec)).
Defined.

Definition ntok_eq_dec : forall a b : N * tok, {a = b} + {a <> b}.
Proof. decide equality; auto using N.eq_dec. Defined.

Definition ntoks_eq_dec : forall a b : N * list tok, {a = b} + {a <> b}.
Proof. decide equality; auto using N.eq_dec, (list_eq_dec N.eq_dec). Defined.

Definition payload_eq_dec : forall a b : payload, {a = b} + {a <> b}.
Proof.
  decide equality;
    auto using N.eq_dec, bool_dec, str_eq_dec, bufck_eq_dec,
      (opt_eq_dec N.eq_dec), (opt_eq_dec (list_eq_dec evview_eq_dec)),
      (list_eq_dec N.eq_dec), (list_eq_dec ntok_eq_dec), (list_eq_dec ntoks_eq_dec).
Defined.

Definition tkind_eq_dec : forall a b : tkind, {a = b} + {a <> b}.
Proof. decide equality. Defined.

Definition tdata_eq_dec : forall a b : tdata, {a = b} + {a <> b}.
Proof. decide equality; auto using str_eq_dec, payload_eq_dec. Defined.

Definition te_eq_dec : forall a b : tar_entry, {a = b} + {a <> b}.
Proof. decide equality; auto using str_eq_dec, tkind_eq_dec, tdata_eq_dec. Defined.

Definition archive_eqb (a b : list tar_entry) : bool :=
  if list_eq_dec te_eq_dec a b then true else false.

Definition strtok_eq_dec : forall a b : str * tok, {a = b} + {a <> b}.
Proof. decide equality; auto using N.eq_dec, str_eq_dec. Defined.

Definition hashes_eqb (a b : list (str * tok)) : bool :=
  if list_eq_dec strtok_eq_dec a b then true else false.

(* ----------------------------------------------------------------- observed *)

Inductive obs := OOk | OErr (e : err) | OPanic.

Definition obs_eqb (a b : obs) : bool :=
  match a, b with
  | OOk, OOk => true
  | OErr x, OErr y => if err_eq_dec x y then true else false
  | OPanic, OPanic => true
  | _, _ => false
  end.

Definition obs_of {A} (o : outcome A) : obs :=
  match o with Ok _ => OOk | Err e => OErr e | Panic => OPanic end.

Definition is_err (o : obs) : bool := match o with OErr _ => true | _ => false end.
Definition is_panic (o : obs) : bool := match o with OPanic => true | _ => false end.
Definition is_ok (o : obs) : bool := match o with OOk => true | _ => false end.

Inductive case :=
| CSim (cfg : config) (b1 b2 : str) (s s0 : sim) (tamper : option (list tar_entry))
       (o_a1 : option (list tar_entry))      (* decoded view of the archive written by the first save *)
       (o_h1 : list (str * tok))             (* its tar entries: (name, fingerprint of the data) *)
       (o_load : obs)                        (* outcome of LoadCheckpoint *)
       (o_h2 : option (list (str * tok)))    (* entries of the archive written by the second save *)
       (o_bytes_eq : bool)                   (* the two archive files are byte-identical *)
| CProbe (cfg : config) (e0 : entity) (p : payload)
       (o : obs)                             (* outcome of e0.LoadCheckpoint(payload) *)
       (o_blowup : bool).                    (* the call allocated far more than the payload size *)

(* --------------------------------------------- decidable mismatch predicates *)
(** These are computed from the INPUT only (never from [load_all]): they say
    which scenarios the property statement requires to be rejected. *)

Definition evview_bad (cfg : config) (handlers : list str) (v : evview) : bool :=
  negb (mem_str (vv_tag v) (evt_types cfg)) ||
  match vv_dec v with
  | Some (_, _, h) => negb (mem_str h handlers)
  | None => false
  end.

Definition evlist_bad (cfg : config) (handlers : list str) (o : option (list evview)) : bool :=
  match o with Some l => existsb (evview_bad cfg handlers) l | None => false end.

Definition ellist_bad (cfg : config) (o : option (list elview)) : bool :=
  match o with
  | Some l => existsb (fun v => negb (mem_str (lv_tag v) (msg_types cfg))) l
  | None => false
  end.

(** The payload disagrees with the rebuilt entity in one of the ways listed in
    the property statement (component spec, port buffer capacity, storage
    shape, page size, unknown handler, unknown message / event type), or is
    malformed. *)
Definition entity_mismatch_b (cfg : config) (e0 : entity) (p : payload) : bool :=
  match e0, p with
  | _, PMalformed => true
  | EEngine _ _ _ hs, PEngine _ pr se => evlist_bad cfg hs pr || evlist_bad cfg hs se
  | EComp h _ _ _ _ _, PComp h' _ _ _ _ _ => negb (str_eqb h h')
  | EEvComp h _ _, PEvComp h' _ _ => negb (str_eqb h h')
  | EPort ic _ oc _, PPort bi bo =>
      negb (Z.eqb (bc_cap bi) ic) || negb (Z.eqb (bc_cap bo) oc) ||
      ellist_bad cfg (bc_elems bi) || ellist_bad cfg (bc_elems bo)
  | EStorage c u _, PStorage (c' :: u' :: _) _ => negb (c' =? c) || negb (u' =? u)
  | EPageTable l _, PPageTable l' _ => negb (l' =? l)
  | _, _ => false
  end.

Definition names_differ (s s0 : sim) : bool :=
  existsb (fun ne => negb (mem_key (fst ne) s0)) s ||
  existsb (fun ne => negb (mem_key (fst ne) s)) s0.

(** Build identity, entity set, or some entity's configuration differs between
    the saved simulation [s] and the rebuilt one [s0]. *)
Definition sim_mismatch_b (cfg : config) (b1 b2 : str) (s s0 : sim) : bool :=
  negb (str_eqb b1 b2) || names_differ s s0 ||
  existsb (fun ne0 =>
             match lookup (fst ne0) s with
             | Some e => entity_mismatch_b cfg (snd ne0) (save_entity e)
             | None => false
             end) s0.

Fixpoint has_dup (l : list str) : bool :=
  match l with
  | [] => false
  | x :: r => mem_str x r || has_dup r
  end.

Fixpoint opt_names (es : list tar_entry) : list str :=
  match es with
  | [] => []
  | e :: r =>
      if str_eqb (te_name e) build_id_path then opt_names r
      else match entity_name (te_name e) with
           | Some n => n :: opt_names r
           | None => opt_names r
           end
  end.

Definition build_entries (es : list tar_entry) : list tar_entry :=
  filter (fun e => str_eqb (te_name e) build_id_path) es.

Definition entry_bad (e : tar_entry) : bool :=
  match te_kind e with
  | KReg =>
      if str_eqb (te_name e) build_id_path then
        match te_data e with DBytes [] => true | _ => false end
      else match entity_name (te_name e) with
           | None => true
           | Some _ => match te_data e with DPayload PMalformed => true | _ => false end
           end
  | _ => true
  end.

(** The archive is malformed: a non-regular or undecodable entry, an entry that
    is neither build_id nor an entity path, a duplicate entity, a missing,
    duplicate or empty build id, or an undecodable payload. *)
Definition malformed_b (es : list tar_entry) : bool :=
  existsb entry_bad es || has_dup (opt_names es) ||
  negb (Nat.eqb (length (build_entries es)) 1).

(* ---------------------------------------------------- compatible rebuilt sim *)

Definition msgs_ok (cfg : config) (cap : Z) (ms : list msg) : bool :=
  forallb (fun m => mem_str (m_tag m) (msg_types cfg)) ms &&
  (Z.of_nat (length ms) <=? cap)%Z.

Definition evs_ok (cfg : config) (hs : list str) (q : list ev) : bool :=
  forallb (fun e => mem_str (e_tag e) (evt_types cfg) && mem_str (e_handler e) hs) q.

(** [e0] is a freshly rebuilt entity with the configuration of [e], and
    everything [e] holds can be decoded in the rebuilt process. *)
Definition compat_entity_b (cfg : config) (e e0 : entity) : bool :=
  match e, e0 with
  | EEngine _ q1 q2 _, EEngine _ [] [] hs => evs_ok cfg hs q1 && evs_ok cfg hs q2
  | EIdGen _, EIdGen _ => true
  | EComp h _ _ _ _ _, EComp h0 _ _ _ _ _ => str_eqb h0 h
  | EEvComp h _ _, EEvComp h0 _ _ => str_eqb h0 h
  | EPort ic ie oc oe, EPort ic0 _ oc0 _ =>
      Z.eqb ic ic0 && Z.eqb oc oc0 && msgs_ok cfg ic ie && msgs_ok cfg oc oe
  | EStorage c u _, EStorage c0 u0 _ => (c =? c0) && (u =? u0)
  | EPageTable l _, EPageTable l0 _ => l =? l0
  | _, _ => false
  end.

Definition compat_sim_b (cfg : config) (s s0 : sim) : bool :=
  negb (names_differ s s0) &&
  forallb (fun ne0 =>
             match lookup (fst ne0) s with
             | Some e => compat_entity_b cfg e (snd ne0)
             | None => false
             end) s0.

(* -------------------------------------------------------------- check_case *)

Definition outcome_archive_eqb (o : outcome (list tar_entry)) (a : list tar_entry) : bool :=
  match o with Ok x => archive_eqb x a | _ => false end.

Definition opt_hashes_eqb (a b : option (list (str * tok))) : bool :=
  match a, b with
  | Some x, Some y => hashes_eqb x y
  | None, None => true
  | _, _ => false
  end.

(** model output = implementation output *)
Definition check_case (c : case) : bool :=
  match c with
  | CSim cfg b1 b2 s s0 (Some t) _ _ o_load o_h2 _ =>
      (* a hand-crafted / corrupted archive replaces the saved one *)
      obs_eqb o_load (obs_of (load_all cfg b2 t s0))
  | CSim cfg b1 b2 s s0 None o_a1 o_h1 o_load o_h2 o_eq =>
      match save_sim b1 s, o_a1 with
      | Ok a1, Some oa1 =>
          archive_eqb a1 oa1 &&
          list_eqb str_eqb (map fst o_h1) (map te_name a1) &&
          match load_all cfg b2 a1 s0 with
          | Ok s' =>
              obs_eqb o_load OOk &&
              outcome_archive_eqb (save_sim b2 s') a1 &&
              opt_hashes_eqb o_h2 (Some o_h1) && o_eq
          | Err e => obs_eqb o_load (OErr e) && opt_hashes_eqb o_h2 None
          | Panic => obs_eqb o_load OPanic
          end
      | _, _ => false
      end
  | CProbe cfg e0 p o blow =>
      obs_eqb (obs_of (load_entity cfg e0 p)) o && negb blow
  end.

(** the property itself, on the observed behaviour *)
Definition holds_on (c : case) : bool :=
  match c with
  | CSim cfg b1 b2 s s0 tamper o_a1 o_h1 o_load o_h2 o_eq =>
      negb (is_panic o_load) &&
      match tamper with
      | None =>
          (if str_eqb b1 b2 && compat_sim_b cfg s s0
           then is_ok o_load && o_eq && opt_hashes_eqb o_h2 (Some o_h1) else true) &&
          (if sim_mismatch_b cfg b1 b2 s s0 then is_err o_load else true)
      | Some t => if malformed_b t then is_err o_load else true
      end
  | CProbe cfg e0 p o blow =>
      negb (is_panic o) && negb blow &&
      (if entity_mismatch_b cfg e0 p then is_err o else true)
  end.
