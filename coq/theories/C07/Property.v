(** C07 — checkpoint archives are canonical; mismatches are rejected, never panic. *)
From Akita Require Import Lib.Base Lib.KeySort C07.Model C07.Exec C07.Proofs.
Local Open Scope N_scope.

(** Canonical archives: for every simulation [s] (entity names are byte strings, Go maps
    have distinct keys), every rebuilt simulation [s0] with distinct entity names in ANY
    registration order: if saving [s] writes the archive [a] and loading [a] into [s0]
    succeeds with [s'], then saving [s'] writes exactly [a] again. *)
Theorem c07_canonical :
  forall cfg b s s0 a s',
    names_ok s -> inv_sim s -> NoDup (map fst s0) ->
    save_sim b s = Ok a -> load_all cfg b a s0 = Ok s' ->
    save_sim b s' = Ok a /\ inv_sim s'.
Proof. exact canonical. Qed.
Print Assumptions c07_canonical.

(** per entity: the payload an entity was loaded from is the payload it saves *)
Theorem c07_entity_canonical :
  forall cfg e e0 e',
    inv_entity e -> load_entity cfg e0 (save_entity e) = Ok e' ->
    save_entity e' = save_entity e /\ inv_entity e'.
Proof. exact entity_canonical. Qed.
Print Assumptions c07_entity_canonical.

(** reading back what was written: build id, name-sorted entity list, no duplicates *)
Theorem c07_read_write :
  forall b entries es,
    Forall (fun np => bytes_ok (fst np)) entries -> write_archive b entries = Ok es ->
    read_archive es = Ok (b, sort_name entries) /\
    es = mk_te KReg build_id_path (DBytes b) :: map mk_entry (sort_name entries) /\
    NoDup (map fst entries) /\ b <> [].
Proof. exact read_write. Qed.
Print Assumptions c07_read_write.

(** never a panic: for ALL archives, build ids, registries and rebuilt simulations *)
Theorem c07_no_panic :
  forall cfg build es s0, load_all cfg build es s0 <> Panic.
Proof. exact load_all_no_panic. Qed.
Print Assumptions c07_no_panic.

Theorem c07_entity_load_no_panic : forall cfg e0 p, load_entity cfg e0 p <> Panic.
Proof. exact load_entity_no_panic. Qed.
Print Assumptions c07_entity_load_no_panic.

Theorem c07_save_no_panic : forall build s, save_sim build s <> Panic.
Proof. exact save_sim_no_panic. Qed.
Print Assumptions c07_save_no_panic.

(** the loader before the fix commit a3b19062 panicked *)
Theorem c07_port_overflow_old_refuted :
  load_entity_old overflow_cfg (EPort 1 [] 1 []) overflow_payload = Panic /\
  load_entity overflow_cfg (EPort 1 [] 1 []) overflow_payload = Err EOverflow.
Proof. exact port_overflow_old. Qed.
Print Assumptions c07_port_overflow_old_refuted.

(** malformed archive: a non-regular / undecodable / unknown entry, a missing, duplicate or
    empty build id, a duplicate entity *)
Theorem c07_mismatch_rejected_malformed_archive :
  forall cfg build es s0,
    (exists e, In e es /\ ~ entry_fine e) \/
    length (build_entries es) <> 1%nat \/
    (exists e, build_entries es = [e] /\ te_data e = DBytes []) \/
    ~ NoDup (map fst (ent_list es)) ->
    exists e, load_all cfg build es s0 = Err e.
Proof.
  intros cfg build es s0 H. destruct (malformed_archive_rejected es H) as [e He].
  exists e. apply load_all_read_err. exact He.
Qed.
Print Assumptions c07_mismatch_rejected_malformed_archive.

Theorem c07_mismatch_rejected_build_id :
  forall cfg build es s0 b pl,
    read_archive es = Ok (b, pl) -> b <> build -> load_all cfg build es s0 = Err EBuildMismatch.
Proof. exact build_mismatch_rejected. Qed.
Print Assumptions c07_mismatch_rejected_build_id.

Theorem c07_mismatch_rejected_entity_set_saved :
  forall cfg build es s0 pl n,
    read_archive es = Ok (build, pl) -> In n (map fst pl) -> ~ In n (map fst s0) ->
    load_all cfg build es s0 = Err ESavedNotRebuilt.
Proof. exact saved_not_rebuilt_rejected. Qed.
Print Assumptions c07_mismatch_rejected_entity_set_saved.

Theorem c07_mismatch_rejected_entity_set_rebuilt :
  forall cfg build es s0 pl n,
    read_archive es = Ok (build, pl) -> (forall m, In m (map fst pl) -> In m (map fst s0)) ->
    In n (map fst s0) -> ~ In n (map fst pl) ->
    load_all cfg build es s0 = Err ERebuiltMissing.
Proof. exact rebuilt_missing_rejected. Qed.
Print Assumptions c07_mismatch_rejected_entity_set_rebuilt.

(** any entity whose payload disagrees with its rebuilt configuration (component spec, port
    buffer capacity, storage shape, page size, unknown handler, unknown message / event type,
    undecodable payload — the decidable [entity_mismatch_b]) makes the whole load fail *)
Theorem c07_mismatch_rejected_entity :
  forall cfg build es s0 b pl n e0 p,
    read_archive es = Ok (b, pl) -> In (n, e0) s0 -> lookup n pl = Some p ->
    entity_mismatch_b cfg e0 p = true ->
    exists e, load_all cfg build es s0 = Err e.
Proof. exact entity_mismatch_rejected. Qed.
Print Assumptions c07_mismatch_rejected_entity.

Theorem c07_mismatch_rejected_spec :
  forall cfg h st ht nt hh lh h' st' ht' nt' hh' lh',
    h <> h' -> load_entity cfg (EComp h st ht nt hh lh) (PComp h' st' ht' nt' hh' lh') = Err ESpecHash.
Proof. exact spec_mismatch. Qed.
Print Assumptions c07_mismatch_rejected_spec.

Theorem c07_mismatch_rejected_evspec :
  forall cfg h st pw h' st' pw',
    h <> h' -> load_entity cfg (EEvComp h st pw) (PEvComp h' st' pw') = Err ESpecHash.
Proof. exact evspec_mismatch. Qed.
Print Assumptions c07_mismatch_rejected_evspec.

Theorem c07_mismatch_rejected_port_capacity_incoming :
  forall cfg ic ie oc oe bi bo,
    bc_cap bi <> ic -> load_entity cfg (EPort ic ie oc oe) (PPort bi bo) = Err ECapIncoming.
Proof. exact port_incoming_capacity_mismatch. Qed.
Print Assumptions c07_mismatch_rejected_port_capacity_incoming.

Theorem c07_mismatch_rejected_port_capacity_outgoing :
  forall cfg ic ie oc oe bi bo mi,
    load_buffer cfg ic ECapIncoming bi = Ok mi -> bc_cap bo <> oc ->
    load_entity cfg (EPort ic ie oc oe) (PPort bi bo) = Err ECapOutgoing.
Proof. exact port_outgoing_capacity_mismatch. Qed.
Print Assumptions c07_mismatch_rejected_port_capacity_outgoing.

Theorem c07_port_overflow_rejected :
  forall cfg cap mism l ms,
    decode_msgs cfg l = Ok ms -> (cap < Z.of_nat (length ms))%Z ->
    load_buffer cfg cap mism (mk_bufck cap (Some l)) = Err EOverflow.
Proof. exact port_overflow_rejected. Qed.
Print Assumptions c07_port_overflow_rejected.

Theorem c07_mismatch_rejected_storage_capacity :
  forall cfg c u us c' u' rest units,
    c' <> c -> load_entity cfg (EStorage c u us) (PStorage (c' :: u' :: rest) units) = Err EStorageCap.
Proof. exact storage_capacity_mismatch. Qed.
Print Assumptions c07_mismatch_rejected_storage_capacity.

Theorem c07_mismatch_rejected_storage_unit :
  forall cfg c u us u' rest units,
    u' <> u -> load_entity cfg (EStorage c u us) (PStorage (c :: u' :: rest) units) = Err EStorageUnit.
Proof. exact storage_unit_mismatch. Qed.
Print Assumptions c07_mismatch_rejected_storage_unit.

Theorem c07_mismatch_rejected_page_size :
  forall cfg l tb l' tables,
    l' <> l -> load_entity cfg (EPageTable l tb) (PPageTable l' tables) = Err EPageSize.
Proof. exact page_size_mismatch. Qed.
Print Assumptions c07_mismatch_rejected_page_size.

Theorem c07_mismatch_rejected_unknown_msg_type :
  forall cfg cap mism l v,
    In v l -> ~ In (lv_tag v) (msg_types cfg) ->
    exists e, load_buffer cfg cap mism (mk_bufck cap (Some l)) = Err e.
Proof. exact unknown_msg_type_rejected. Qed.
Print Assumptions c07_mismatch_rejected_unknown_msg_type.

Theorem c07_mismatch_rejected_unknown_event_type_or_handler :
  forall cfg hs l v,
    In v l ->
    (~ In (vv_tag v) (evt_types cfg) \/ exists t s h, vv_dec v = Some (t, s, h) /\ ~ In h hs) ->
    exists e, decode_events cfg hs (Some l) = Err e.
Proof. exact unknown_event_rejected. Qed.
Print Assumptions c07_mismatch_rejected_unknown_event_type_or_handler.

(** a rebuilt simulation with the same build id, entity set and compatible configuration
    (same specs, capacities, shapes, all types and handlers registered) loads successfully *)
Theorem c07_load_succeeds :
  forall cfg b s s0 a,
    names_ok s -> save_sim b s = Ok a -> compat_sim_b cfg s s0 = true ->
    exists s', load_all cfg b a s0 = Ok s'.
Proof. exact load_succeeds. Qed.
Print Assumptions c07_load_succeeds.

(** a load that succeeds implies that nothing listed in the statement differed *)
Theorem c07_load_ok_no_mismatch :
  forall cfg b1 b2 s s0 a s',
    names_ok s -> save_sim b1 s = Ok a -> load_all cfg b2 a s0 = Ok s' ->
    sim_mismatch_b cfg b1 b2 s s0 = false.
Proof. exact load_ok_no_sim_mismatch. Qed.
Print Assumptions c07_load_ok_no_mismatch.

(** link between the two evaluators of Exec.v: complete for whole simulations with the
    archive as written and for single-entity probes; for hand-crafted / damaged archives
    only the no-panic clause (the model's [malformed_b] classification of such archives is
    not linked) — hence _partial *)
Theorem c07_model_agreement_implies_property_partial :
  (forall cfg b1 b2 s s0 a1 h1 o h2 eq,
     names_ok s ->
     check_case (CSim cfg b1 b2 s s0 None a1 h1 o h2 eq) = true ->
     holds_on (CSim cfg b1 b2 s s0 None a1 h1 o h2 eq) = true) /\
  (forall cfg e0 p o blow,
     check_case (CProbe cfg e0 p o blow) = true -> holds_on (CProbe cfg e0 p o blow) = true) /\
  (forall cfg b1 b2 s s0 t a1 h1 o h2 eq,
     check_case (CSim cfg b1 b2 s s0 (Some t) a1 h1 o h2 eq) = true -> is_panic o = false).
Proof.
  split; [exact sim_agreement_implies_property|].
  split; [exact probe_agreement_implies_property|exact sim_agreement_no_panic].
Qed.
Print Assumptions c07_model_agreement_implies_property_partial.

Example c07_canonical_nonvacuous :
  exists a s', save_sim [98] ex_sim = Ok a /\ load_all ex_cfg [98] a ex_rebuilt = Ok s' /\
               save_sim [98] s' = Ok a /\ length a = 5%nat.
Proof. exact canonical_example. Qed.
