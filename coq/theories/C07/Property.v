(** C07 — checkpoint archives are canonical; mismatches are rejected, never panic. *)
From Akita Require Import Lib.Base Lib.KeySort C07.Model C07.Proofs.
Local Open Scope N_scope.

Theorem c07_port_overflow_old_refuted :
  load_entity_old overflow_cfg (EPort 1 [] 1 []) overflow_payload = Panic /\
  load_entity overflow_cfg (EPort 1 [] 1 []) overflow_payload = Err EOverflow.
Proof. exact port_overflow_old. Qed.
Print Assumptions c07_port_overflow_old_refuted.
