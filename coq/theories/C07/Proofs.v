(** C07 — lemmas about the archive model (filled in stage b). *)
From Akita Require Import Lib.Base Lib.KeySort C07.Model.
From Coq Require Import Permutation Sorted.
Local Open Scope N_scope.

(** Regression: the pre-fix port loader panics on a payload whose declared
    capacity equals the rebuilt one but which lists more elements. *)
Definition overflow_cfg : config := mk_config [[109]] [].
Definition overflow_payload : payload :=
  PPort (mk_bufck 1 (Some [mk_elview [109] true 1; mk_elview [109] true 2]))
        (mk_bufck 1 (Some [])).

Lemma port_overflow_old :
  load_entity_old overflow_cfg (EPort 1 [] 1 []) overflow_payload = Panic /\
  load_entity overflow_cfg (EPort 1 [] 1 []) overflow_payload = Err EOverflow.
Proof. split; reflexivity. Qed.
