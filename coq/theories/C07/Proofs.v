(** C07 — lemmas about the archive / loader model. *)
From Akita Require Import Lib.Base Lib.KeySort C07.Model.
From Coq Require Import Permutation Sorted.
Local Open Scope N_scope.

(** Regression: the pre-fix port loader panics on a payload whose declared
    capacity equals the rebuilt one but which lists more elements. *)
Definition overflow_cfg : config := mk_config [[109]] [].
Definition overflow_payload : payload :=
  PPort (mk_bufck 1 (Some [mk_elview [109] true 1; mk_elview [109] true 2]))
        (mk_bufck 1 (Some [])).

Lemma port_overflow_old :
  load_entity_old overflow_cfg (EPort 1 [] 1 []) overflow_payload = Panic /\
  load_entity overflow_cfg (EPort 1 [] 1 []) overflow_payload = Err EOverflow.
Proof. split; reflexivity. Qed.

(* ------------------------------------------------------------------ no panic *)

Definition no_panic {A} (o : outcome A) : Prop := o <> Panic.

Lemma decode_msgs_no_panic cfg l : decode_msgs cfg l <> Panic.
Proof.
  induction l as [|v l IH]; cbn [decode_msgs]; [discriminate|].
  destruct (negb (mem_str (lv_tag v) (msg_types cfg))); [discriminate|].
  destruct (negb (lv_ok v)); [discriminate|].
  destruct (decode_msgs cfg l); [discriminate|discriminate|contradiction].
Qed.

Lemma load_buffer_no_panic cfg cap mism bc : load_buffer cfg cap mism bc <> Panic.
Proof.
  unfold load_buffer. destruct (negb (bc_cap bc =? cap)%Z); [discriminate|].
  destruct (bc_elems bc) as [l|]; [|discriminate].
  pose proof (decode_msgs_no_panic cfg l) as H.
  destruct (decode_msgs cfg l) as [ms|e|]; [|discriminate|contradiction].
  destruct (cap <? Z.of_nat (length ms))%Z; discriminate.
Qed.

Lemma decode_evs_no_panic cfg l : decode_evs cfg l <> Panic.
Proof.
  induction l as [|v l IH]; cbn [decode_evs]; [discriminate|].
  destruct (negb (mem_str (vv_tag v) (evt_types cfg))); [discriminate|].
  destruct (vv_dec v) as [[[t s] h]|]; [|discriminate].
  destruct (decode_evs cfg l); [discriminate|discriminate|contradiction].
Qed.

Lemma decode_events_no_panic cfg hs o : decode_events cfg hs o <> Panic.
Proof.
  unfold decode_events. destruct o as [l|]; [|discriminate].
  pose proof (decode_evs_no_panic cfg l) as H.
  destruct (decode_evs cfg l) as [evs|e|]; [|discriminate|contradiction].
  destruct (forallb _ evs); discriminate.
Qed.

Lemma load_storage_no_panic c u words units : load_storage c u words units <> Panic.
Proof.
  unfold load_storage. destruct words as [|c' [|u' rest]]; try discriminate.
  destruct (negb (c' =? c)); [discriminate|]. destruct (negb (u' =? u)); [discriminate|].
  destruct rest as [|n r]; [discriminate|]. destruct (N.of_nat (length units) <? n); discriminate.
Qed.

Lemma load_entity_no_panic cfg e0 p : load_entity cfg e0 p <> Panic.
Proof.
  unfold load_entity, load_entity_with. destruct e0.
  - destruct q1; [|discriminate]. destruct q2; [|discriminate].
    destruct p; try discriminate.
    pose proof (decode_events_no_panic cfg handlers prim) as H1.
    destruct (decode_events cfg handlers prim); [|discriminate|contradiction].
    pose proof (decode_events_no_panic cfg handlers sec) as H2.
    destruct (decode_events cfg handlers sec); [discriminate|discriminate|contradiction].
  - destruct p; try discriminate. destruct (str_eqb kind sequential); discriminate.
  - destruct p; try discriminate. destruct (negb (str_eqb spec_hash spec_hash0)); [discriminate|].
    destruct state0; discriminate.
  - destruct p; try discriminate. destruct (negb (str_eqb spec_hash spec_hash0)); [discriminate|].
    destruct state0; discriminate.
  - destruct p; try discriminate.
    pose proof (load_buffer_no_panic cfg icap ECapIncoming incoming) as H1.
    destruct (load_buffer cfg icap ECapIncoming incoming); [|discriminate|contradiction].
    pose proof (load_buffer_no_panic cfg ocap ECapOutgoing outgoing) as H2.
    destruct (load_buffer cfg ocap ECapOutgoing outgoing); [discriminate|discriminate|contradiction].
  - destruct p; try discriminate. apply load_storage_no_panic.
  - destruct p; try discriminate. destruct (negb (log0 =? log2)); discriminate.
Qed.

Lemma load_entities_no_panic cfg pl s0 : load_entities_with load_buffer cfg pl s0 <> Panic.
Proof.
  induction s0 as [|[n e0] s0 IH]; cbn [load_entities_with]; [discriminate|].
  destruct (lookup n pl) as [p|]; [|discriminate].
  pose proof (load_entity_no_panic cfg e0 p) as H. unfold load_entity in H.
  destruct (load_entity_with load_buffer cfg e0 p); [|discriminate|contradiction].
  destruct (load_entities_with load_buffer cfg pl s0); [discriminate|discriminate|contradiction].
Qed.

Lemma read_loop_no_panic es : forall found build pl, read_loop es found build pl <> Panic.
Proof.
  induction es as [|e es IH]; intros found build pl; cbn [read_loop].
  - destruct (negb found); [discriminate|]. destruct build; discriminate.
  - destruct (te_kind e); try discriminate.
    destruct (str_eqb (te_name e) build_id_path).
    + destruct found; [discriminate|]. destruct (te_data e); [apply IH|discriminate].
    + destruct (entity_name (te_name e)) as [n|]; [|discriminate].
      destruct (mem_key n pl); [discriminate|]. destruct (te_data e); [discriminate|apply IH].
Qed.

Lemma load_all_no_panic cfg build es s0 : load_all cfg build es s0 <> Panic.
Proof.
  unfold load_all, load_all_with. unfold read_archive.
  pose proof (read_loop_no_panic es false [] []) as H.
  destruct (read_loop es false [] []) as [[b pl]|e|]; [|discriminate|contradiction].
  destruct (negb (str_eqb b build)); [discriminate|].
  destruct (existsb _ pl); [discriminate|]. destruct (existsb _ s0); [discriminate|].
  apply load_entities_no_panic.
Qed.

Lemma emit_entries_no_panic seen l : emit_entries seen l <> Panic.
Proof.
  revert seen; induction l as [|[n p] l IH]; intros seen; cbn [emit_entries]; [discriminate|].
  destruct (mem_str n seen); [discriminate|].
  pose proof (IH (n :: seen)) as H.
  destruct (emit_entries (n :: seen) l); [discriminate|discriminate|contradiction].
Qed.

Lemma save_sim_no_panic build s : save_sim build s <> Panic.
Proof.
  unfold save_sim, write_archive. destruct build; [discriminate|].
  pose proof (emit_entries_no_panic [] (sort_name (save_payloads s))) as H.
  destruct (emit_entries [] (sort_name (save_payloads s))); [discriminate|discriminate|contradiction].
Qed.

(* ------------------------------------------------------------------ strings *)

Lemma str_eqb_eq a b : str_eqb a b = true <-> a = b.
Proof. apply listN_eqb_eq. Qed.

Lemma str_eqb_refl a : str_eqb a a = true.
Proof. apply str_eqb_eq. reflexivity. Qed.

Lemma str_eqb_neq a b : a <> b -> str_eqb a b = false.
Proof. intros H. destruct (str_eqb a b) eqn:E; [|reflexivity]. apply str_eqb_eq in E. contradiction. Qed.

Lemma mem_str_In x l : mem_str x l = true <-> In x l.
Proof.
  induction l as [|y l IH]; cbn [mem_str]; [split; [discriminate|intros []]|].
  rewrite orb_true_iff, IH, str_eqb_eq. split; intros [H|H]; [left; symmetry; exact H|right; exact H|left; symmetry; exact H|right; exact H].
Qed.

Lemma lookup_In {A} n (l : list (str * A)) v : lookup n l = Some v -> In (n, v) l.
Proof.
  induction l as [|[k w] l IH]; cbn [lookup]; [discriminate|].
  destruct (str_eqb n k) eqn:E.
  - intros H. inversion H; subst. apply str_eqb_eq in E. subst. left. reflexivity.
  - intros H. right. apply IH. exact H.
Qed.

Lemma mem_key_In {A} n (l : list (str * A)) : mem_key n l = true <-> In n (map fst l).
Proof.
  unfold mem_key. induction l as [|[k w] l IH]; cbn [lookup map fst]; [split; [discriminate|intros []]|].
  destruct (str_eqb n k) eqn:E.
  - apply str_eqb_eq in E. subst. split; [intros _; left; reflexivity|intros _; reflexivity].
  - rewrite IH. split; [intros H; right; exact H|]. intros [H|H]; [|exact H]. subst. rewrite str_eqb_refl in E. discriminate.
Qed.

(* ------------------------------------------------------------------ entity loaders reject mismatches *)

From Akita Require Import C07.Exec.

Lemma decode_msgs_ok cfg l ms :
  decode_msgs cfg l = Ok ms ->
  forallb (fun v => mem_str (lv_tag v) (msg_types cfg)) l = true /\ length ms = length l.
Proof.
  revert ms; induction l as [|v l IH]; intros ms; cbn [decode_msgs].
  - intros H. inversion H. split; reflexivity.
  - destruct (mem_str (lv_tag v) (msg_types cfg)) eqn:E; cbn [negb]; [|discriminate].
    destruct (negb (lv_ok v)); [discriminate|].
    destruct (decode_msgs cfg l) as [t|e|]; try discriminate.
    intros H. inversion H; subst. destruct (IH t eq_refl) as [I1 I2]. split.
    + cbn [forallb]. rewrite E. exact I1.
    + cbn [length]. rewrite I2. reflexivity.
Qed.

Lemma load_buffer_ok cfg cap mism bc ms :
  load_buffer cfg cap mism bc = Ok ms ->
  bc_cap bc = cap /\ ellist_bad cfg (bc_elems bc) = false /\ (Z.of_nat (length ms) <= cap)%Z.
Proof.
  unfold load_buffer. destruct (bc_cap bc =? cap)%Z eqn:Ec; cbn [negb]; [|discriminate].
  apply Z.eqb_eq in Ec. destruct (bc_elems bc) as [l|]; [|discriminate].
  destruct (decode_msgs cfg l) as [t|e|] eqn:Ed; try discriminate.
  destruct (cap <? Z.of_nat (length t))%Z eqn:El; [discriminate|].
  intros H. inversion H; subst. destruct (decode_msgs_ok cfg l ms Ed) as [I1 _].
  split; [reflexivity|]. split; [|lia].
  cbn [ellist_bad]. apply not_true_iff_false. intros Hb.
  apply existsb_exists in Hb. destruct Hb as (v & Hin & Hv).
  rewrite forallb_forall in I1. rewrite (I1 v Hin) in Hv. discriminate.
Qed.

Lemma decode_evs_ok cfg l evs :
  decode_evs cfg l = Ok evs ->
  forallb (fun v => mem_str (vv_tag v) (evt_types cfg)) l = true /\
  map (fun v => option_map (fun d => snd d) (vv_dec v)) l = map (fun e => Some (e_handler e)) evs.
Proof.
  revert evs; induction l as [|v l IH]; intros evs; cbn [decode_evs].
  - intros H. inversion H. split; reflexivity.
  - destruct (mem_str (vv_tag v) (evt_types cfg)) eqn:E; cbn [negb]; [|discriminate].
    destruct (vv_dec v) as [[[t s] h]|] eqn:Edv; [|discriminate].
    destruct (decode_evs cfg l) as [tl|e|]; try discriminate.
    intros H. inversion H; subst. destruct (IH tl eq_refl) as [I1 I2]. split.
    + cbn [forallb]. rewrite E. exact I1.
    + cbn [map]. rewrite Edv. cbn [option_map snd e_handler]. f_equal. exact I2.
Qed.

Lemma decode_events_ok cfg hs o evs :
  decode_events cfg hs o = Ok evs -> evlist_bad cfg hs o = false.
Proof.
  unfold decode_events. destruct o as [l|]; [|discriminate].
  destruct (decode_evs cfg l) as [t|e|] eqn:Ed; try discriminate.
  destruct (forallb (fun e => mem_str (e_handler e) hs) t) eqn:Eh; [|discriminate].
  intros H. inversion H; subst. destruct (decode_evs_ok cfg l evs Ed) as [I1 I2].
  cbn [evlist_bad]. apply not_true_iff_false. intros Hb.
  apply existsb_exists in Hb. destruct Hb as (v & Hin & Hv). unfold evview_bad in Hv.
  rewrite forallb_forall in I1. rewrite (I1 v Hin) in Hv. cbn [negb orb] in Hv.
  destruct (vv_dec v) as [[[t s] h]|] eqn:Edv; [|discriminate].
  assert (Hh : In (Some h) (map (fun e => Some (e_handler e)) evs)).
  { rewrite <- I2. apply in_map_iff. exists v. rewrite Edv. split; [reflexivity|exact Hin]. }
  apply in_map_iff in Hh. destruct Hh as (e & He & Hine). inversion He; subst.
  rewrite forallb_forall in Eh. rewrite (Eh e Hine) in Hv. discriminate.
Qed.

Lemma load_ok_no_mismatch cfg e0 p e' :
  load_entity cfg e0 p = Ok e' -> entity_mismatch_b cfg e0 p = false.
Proof.
  unfold load_entity, load_entity_with. destruct e0.
  - destruct q1; [|discriminate]. destruct q2; [|discriminate].
    destruct p; try discriminate.
    destruct (decode_events cfg handlers prim) as [e1|?|] eqn:E1; try discriminate.
    destruct (decode_events cfg handlers sec) as [e2|?|] eqn:E2; try discriminate.
    intros _. cbn [entity_mismatch_b].
    rewrite (decode_events_ok _ _ _ _ E1), (decode_events_ok _ _ _ _ E2). reflexivity.
  - destruct p; try discriminate. intros _. reflexivity.
  - destruct p; try discriminate. cbn [entity_mismatch_b].
    destruct (negb (str_eqb spec_hash spec_hash0)); [discriminate|reflexivity].
  - destruct p; try discriminate. cbn [entity_mismatch_b].
    destruct (negb (str_eqb spec_hash spec_hash0)); [discriminate|reflexivity].
  - destruct p; try discriminate.
    destruct (load_buffer cfg icap ECapIncoming incoming) as [mi|?|] eqn:E1; try discriminate.
    destruct (load_buffer cfg ocap ECapOutgoing outgoing) as [mo|?|] eqn:E2; try discriminate.
    intros _. cbn [entity_mismatch_b].
    destruct (load_buffer_ok _ _ _ _ _ E1) as (A1 & A2 & _).
    destruct (load_buffer_ok _ _ _ _ _ E2) as (B1 & B2 & _).
    rewrite A1, B1, A2, B2, !Z.eqb_refl. reflexivity.
  - destruct p; try discriminate. unfold load_storage. cbn [entity_mismatch_b].
    destruct words as [|c' [|u' rest]]; try discriminate.
    destruct (negb (c' =? cap)); [discriminate|]. destruct (negb (u' =? unit)); [discriminate|].
    reflexivity.
  - destruct p; try discriminate. cbn [entity_mismatch_b].
    destruct (negb (log0 =? log2)); [discriminate|reflexivity].
Qed.

Lemma entity_mismatch_err cfg e0 p :
  entity_mismatch_b cfg e0 p = true -> exists e, load_entity cfg e0 p = Err e.
Proof.
  intros H. destruct (load_entity cfg e0 p) as [e'|e|] eqn:E.
  - rewrite (load_ok_no_mismatch _ _ _ _ E) in H. discriminate.
  - exists e. reflexivity.
  - exfalso. exact (load_entity_no_panic cfg e0 p E).
Qed.

(* ------------------------------------------------------------------ the per-entity loop *)

Lemma load_entities_ok_inv cfg pl s0 s' :
  load_entities_with load_buffer cfg pl s0 = Ok s' ->
  forall n e0, In (n, e0) s0 ->
    exists p e', lookup n pl = Some p /\ load_entity cfg e0 p = Ok e'.
Proof.
  revert s'; induction s0 as [|[m f0] s0 IH]; intros s' H n e0 Hin; [destruct Hin|].
  cbn [load_entities_with] in H.
  destruct (lookup m pl) as [p|] eqn:El; [|discriminate].
  destruct (load_entity_with load_buffer cfg f0 p) as [f'|?|] eqn:Ef; try discriminate.
  destruct (load_entities_with load_buffer cfg pl s0) as [t|?|] eqn:Et; try discriminate.
  destruct Hin as [Heq|Hin].
  - inversion Heq; subst. exists p, f'. split; [exact El|exact Ef].
  - exact (IH t eq_refl n e0 Hin).
Qed.

Lemma load_all_ok_inv cfg build es s0 s' :
  load_all cfg build es s0 = Ok s' ->
  exists b pl,
    read_archive es = Ok (b, pl) /\ b = build /\
    (forall n, In n (map fst pl) -> In n (map fst s0)) /\
    (forall n, In n (map fst s0) -> In n (map fst pl)) /\
    load_entities_with load_buffer cfg pl s0 = Ok s'.
Proof.
  unfold load_all, load_all_with.
  destruct (read_archive es) as [[b pl]|?|]; try discriminate.
  destruct (str_eqb b build) eqn:Eb; cbn [negb]; [|discriminate].
  destruct (existsb (fun np => negb (mem_key (fst np) s0)) pl) eqn:E1; [discriminate|].
  destruct (existsb (fun ne => negb (mem_key (fst ne) pl)) s0) eqn:E2; [discriminate|].
  intros H. exists b, pl. apply str_eqb_eq in Eb. repeat split; try assumption.
  - intros n Hn. apply in_map_iff in Hn. destruct Hn as ([k v] & <- & Hin).
    apply mem_key_In. cbn [fst]. destruct (mem_key k s0) eqn:Em; [reflexivity|].
    assert (existsb (fun np => negb (mem_key (fst np) s0)) pl = true).
    { apply existsb_exists. exists (k, v). split; [exact Hin|]. cbn [fst]. rewrite Em. reflexivity. }
    congruence.
  - intros n Hn. apply in_map_iff in Hn. destruct Hn as ([k v] & <- & Hin).
    apply mem_key_In. cbn [fst]. destruct (mem_key k pl) eqn:Em; [reflexivity|].
    assert (existsb (fun ne => negb (mem_key (fst ne) pl)) s0 = true).
    { apply existsb_exists. exists (k, v). split; [exact Hin|]. cbn [fst]. rewrite Em. reflexivity. }
    congruence.
Qed.

Lemma not_ok_is_err cfg build es s0 :
  (forall s', load_all cfg build es s0 <> Ok s') -> exists e, load_all cfg build es s0 = Err e.
Proof.
  intros H. destruct (load_all cfg build es s0) as [s'|e|] eqn:E.
  - exfalso. exact (H s' eq_refl).
  - exists e. reflexivity.
  - exfalso. exact (load_all_no_panic cfg build es s0 E).
Qed.

(** any entity whose payload disagrees with its rebuilt configuration makes the load fail *)
Lemma entity_mismatch_rejected cfg build es s0 b pl n e0 p :
  read_archive es = Ok (b, pl) -> In (n, e0) s0 -> lookup n pl = Some p ->
  entity_mismatch_b cfg e0 p = true ->
  exists e, load_all cfg build es s0 = Err e.
Proof.
  intros Hr Hin Hl Hm. apply not_ok_is_err. intros s' Hok.
  destruct (load_all_ok_inv _ _ _ _ _ Hok) as (b' & pl' & Hr' & _ & _ & _ & Hload).
  rewrite Hr in Hr'. inversion Hr'; subst.
  destruct (load_entities_ok_inv _ _ _ _ Hload n e0 Hin) as (p' & e' & Hl' & He).
  rewrite Hl in Hl'. inversion Hl'; subst.
  rewrite (load_ok_no_mismatch _ _ _ _ He) in Hm. discriminate.
Qed.

Lemma build_mismatch_rejected cfg build es s0 b pl :
  read_archive es = Ok (b, pl) -> b <> build -> load_all cfg build es s0 = Err EBuildMismatch.
Proof.
  intros Hr Hne. unfold load_all, load_all_with. rewrite Hr.
  rewrite (str_eqb_neq _ _ Hne). reflexivity.
Qed.

Lemma saved_not_rebuilt_rejected cfg build es s0 pl n :
  read_archive es = Ok (build, pl) -> In n (map fst pl) -> ~ In n (map fst s0) ->
  load_all cfg build es s0 = Err ESavedNotRebuilt.
Proof.
  intros Hr Hin Hnot. unfold load_all, load_all_with. rewrite Hr, str_eqb_refl. cbn [negb].
  replace (existsb (fun np => negb (mem_key (fst np) s0)) pl) with true; [reflexivity|].
  symmetry. apply existsb_exists. apply in_map_iff in Hin. destruct Hin as ([k v] & <- & Hin).
  exists (k, v). split; [exact Hin|]. cbn [fst] in *.
  destruct (mem_key k s0) eqn:E; [|reflexivity]. apply mem_key_In in E. contradiction.
Qed.

Lemma rebuilt_missing_rejected cfg build es s0 pl n :
  read_archive es = Ok (build, pl) -> (forall m, In m (map fst pl) -> In m (map fst s0)) ->
  In n (map fst s0) -> ~ In n (map fst pl) ->
  load_all cfg build es s0 = Err ERebuiltMissing.
Proof.
  intros Hr Hsub Hin Hnot. unfold load_all, load_all_with. rewrite Hr, str_eqb_refl. cbn [negb].
  replace (existsb (fun np => negb (mem_key (fst np) s0)) pl) with false.
  - replace (existsb (fun ne => negb (mem_key (fst ne) pl)) s0) with true; [reflexivity|].
    symmetry. apply existsb_exists. apply in_map_iff in Hin. destruct Hin as ([k v] & <- & Hin).
    exists (k, v). split; [exact Hin|]. cbn [fst] in *.
    destruct (mem_key k pl) eqn:E; [|reflexivity]. apply mem_key_In in E. contradiction.
  - symmetry. apply not_true_iff_false. intros Hb. apply existsb_exists in Hb.
    destruct Hb as ([k v] & Hkin & Hk). cbn [fst] in Hk.
    assert (In k (map fst s0)) by (apply Hsub; apply in_map_iff; exists (k, v); auto).
    apply mem_key_In in H. rewrite H in Hk. discriminate.
Qed.
